(* C18: Tuple validation accepts exactly what the model allows.

   "A tuple is accepted by Write, or as a contextual tuple, exactly when its object type and
    relation exist, its user matches one of the relation's type restrictions (object type, type
    wildcard or userset), tupleset relations receive only concrete objects, its condition is one
    the matching restriction allows with a context that fits the declared parameter types and the
    size limit, and it is not a userset pointing at itself.  A rejected write changes nothing."

   Statements only.  Model: Sem/ValidWrite.v (code side [valid_for_write], [valid_ctx_tuple],
   [write_cmd]; spec side [parse], [allowed_tuple], [allowed_raw]); proofs: Sem/ValidProofs.v.

   Hypotheses (all boolean, all checked by the oracle on every generated case):
     env_wf e          the name tables are injective and hold identifiers (no ':', '#', ' ', '*',
                       '@', control characters) -- how the harness interns model names
     restr_wf m        restrictions name defined types / relations   } guaranteed by the model
     tupleset_direct m a tupleset relation is a direct relation        } validator
     cds_wf cds, rt_wf w   parameter lists and contexts are maps (distinct keys)
     no_cond_kind_mix m    whenever a relation offers a user type under two forms, each condition
                       (or "none") offered under one form is offered under the other.

   THE FULL STATEMENT
     validate_write_iff_allowed :
       forall e m cds limit w, (hypotheses without no_cond_kind_mix) ->
       valid_for_write e m cds limit w = allowed_raw e m cds limit w
   IS FALSE of the unchanged code (DESIGN.md F4): validate_condition_refuted and
   validate_nocond_refuted below.  What holds instead is the exact characterisation
   validate_write_exact, hence the _partial statement and the completeness direction. *)
From OFGA Require Import Sem.ValidWrite Sem.ValidProofs.
From Coq Require Import Permutation.
Open Scope N_scope.

(* ================================================================== *)
(* A. Write accepts exactly the allowed tuples and two laxities         *)
(* ================================================================== *)

Theorem validate_write_exact : forall (e : env) (m : model) (cds : cdefs),
  env_wf e = true -> restr_wf m = true -> tupleset_direct m = true -> cds_wf cds = true ->
  forall (limit : N) (w : rtuple), rt_wf w = true ->
  valid_for_write e m cds limit w =
  allowed_raw e m cds limit w || lax_cond_raw e m cds limit w || lax_nocond_raw e m cds limit w.
Proof. exact valid_for_write_exact. Qed.
Print Assumptions validate_write_exact.
Example validate_write_exact_ex :
  all_hyps Witness.we Witness.wm Witness.wcds Witness.w_ok = true /\
  valid_for_write Witness.we Witness.wm Witness.wcds 64 Witness.w_ok = true /\
  valid_for_write Witness.we Witness.wm Witness.wcds 64 Witness.w_badctx = false.
Proof. vm_compute. repeat split. Qed.

(* the property, where the laxity cannot show (missing part: models that mix forms of one user
   type with different conditions -- see the refutations) *)
Theorem validate_write_iff_allowed_partial : forall (e : env) (m : model) (cds : cdefs),
  env_wf e = true -> restr_wf m = true -> tupleset_direct m = true -> cds_wf cds = true ->
  forall (limit : N) (w : rtuple), rt_wf w = true -> no_cond_kind_mix m = true ->
  valid_for_write e m cds limit w = allowed_raw e m cds limit w.
Proof. exact valid_iff_allowed_no_mix. Qed.
Print Assumptions validate_write_iff_allowed_partial.
(* a model with conditions and all three user forms satisfies the hypotheses; a conditioned tuple
   is accepted, an unconditioned userset whose restriction requires the condition is refused *)
Example validate_write_iff_allowed_partial_ex :
  all_hyps Witness.we Witness.wm2 Witness.wcds Witness.w_f4 = true /\
  no_cond_kind_mix Witness.wm2 = true /\
  valid_for_write Witness.we Witness.wm2 Witness.wcds 64 Witness.w_f4 = true /\
  valid_for_write Witness.we Witness.wm2 Witness.wcds 64 Witness.w_plain = false.
Proof. vm_compute. repeat split. Qed.

Theorem no_mix_excludes_laxity : forall (e : env) (m : model) (cds : cdefs) (limit : N) (w : rtuple),
  no_cond_kind_mix m = true ->
  lax_cond_raw e m cds limit w = false /\ lax_nocond_raw e m cds limit w = false.
Proof. exact no_mix_no_lax. Qed.
Print Assumptions no_mix_excludes_laxity.
Example no_mix_excludes_laxity_ex :
  no_cond_kind_mix Witness.wm2 = true /\ no_cond_kind_mix Witness.wm = false.
Proof. vm_compute. split; reflexivity. Qed.

(* completeness: everything the property allows is accepted (all models) *)
Theorem allowed_implies_validate : forall (e : env) (m : model) (cds : cdefs),
  env_wf e = true -> restr_wf m = true -> tupleset_direct m = true -> cds_wf cds = true ->
  forall (limit : N) (w : rtuple), rt_wf w = true ->
  allowed_raw e m cds limit w = true -> valid_for_write e m cds limit w = true.
Proof. exact allowed_implies_valid. Qed.
Print Assumptions allowed_implies_validate.
Example allowed_implies_validate_ex :
  allowed_raw Witness.we Witness.wm Witness.wcds 64 Witness.w_ok = true.
Proof. vm_compute. reflexivity. Qed.

(* F4 (doc:1#viewer@user:a WITH cnd under viewer: [user, user:* with cnd, ...]) *)
Theorem validate_condition_refuted :
  exists e m cds limit w,
    all_hyps e m cds w = true /\
    valid_for_write e m cds limit w = true /\ allowed_raw e m cds limit w = false /\
    lax_cond_raw e m cds limit w = true.
Proof. exact ValidProofs.validate_condition_refuted. Qed.
Print Assumptions validate_condition_refuted.

(* doc:1#viewer@group:1#member WITHOUT cnd under viewer: [group, group#member with cnd, ...] *)
Theorem validate_nocond_refuted :
  exists e m cds limit w,
    all_hyps e m cds w = true /\
    valid_for_write e m cds limit w = true /\ allowed_raw e m cds limit w = false /\
    lax_nocond_raw e m cds limit w = true.
Proof. exact ValidProofs.validate_nocond_refuted. Qed.
Print Assumptions validate_nocond_refuted.

(* the restriction clause as coded (validateTypeRestrictions + validateCondition) *)
Theorem coded_clause_exact : forall (rs : list restriction) (u : wuser) (c : cid),
  coded_clause rs u c =
  strict_clause rs u c || cond_any_restriction_of_type rs u c || nocond_via_plain_restriction rs u c.
Proof. exact coded_clause_char. Qed.
Print Assumptions coded_clause_exact.
Example coded_clause_exact_ex :
  coded_clause [Witness.mk_r 1 RObj 0; Witness.mk_r 1 RWild 1] (WObj 1 [97]) 1 = true /\
  strict_clause [Witness.mk_r 1 RObj 0; Witness.mk_r 1 RWild 1] (WObj 1 [97]) 1 = false.
Proof. vm_compute. split; reflexivity. Qed.

(* ================================================================== *)
(* B. Well-formedness = the documented grammar with known names         *)
(* ================================================================== *)

Theorem validate_object_grammar : forall (e : env) (m : model), env_wf e = true -> forall o : bytes,
  validate_object e m o = None <->
  (exists (t : tid) (id : bytes), p_object e o = Some (t, id) /\ id <> wildcard /\ find_type m t <> None).
Proof. exact validate_object_iff. Qed.
Print Assumptions validate_object_grammar.
Example validate_object_grammar_ex :
  env_wf Witness.we = true /\
  validate_object Witness.we Witness.wm Witness.s_doc_1 = None /\
  validate_object Witness.we Witness.wm Witness.s_doc_wild = Some EInvalidTuple /\
  validate_object Witness.we Witness.wm Witness.s_ghost_1 = Some ETypeNotFound.
Proof. vm_compute. repeat split. Qed.

Theorem validate_user_grammar : forall (e : env) (m : model), env_wf e = true -> forall u : bytes,
  validate_user e m u = None <->
  (exists wu : wuser, p_user e u = Some wu /\ find_type m (wuser_type wu) <> None /\
     (forall (t : tid) (id : bytes) (r : rid), wu = WSet t id r -> rel_defined m t r = true)).
Proof. exact validate_user_iff. Qed.
Print Assumptions validate_user_grammar.
Example validate_user_grammar_ex :
  validate_user Witness.we Witness.wm Witness.s_group_1_member = None /\
  validate_user Witness.we Witness.wm Witness.s_user_wild = None /\
  validate_user Witness.we Witness.wm Witness.s_group_wild_member = Some EInvalidTuple /\
  validate_user Witness.we Witness.wm Witness.s_star = Some EInvalidTuple /\
  validate_user Witness.we Witness.wm Witness.s_group_1_viewer = Some ERelNotFound.
Proof. vm_compute. repeat split. Qed.

Theorem validate_relation_known : forall (e : env) (m : model), env_wf e = true ->
  forall (o rn : bytes) (t : tid) (id : bytes),
  p_object e o = Some (t, id) -> find_type m t <> None ->
  (validate_relation e m o rn = None <->
   (exists r : N, nlookup (e_rels e) rn = Some r /\ rel_defined m t r = true)).
Proof. exact validate_relation_iff. Qed.
Print Assumptions validate_relation_known.

(* validateNotImplicit = "the user is the tuple's own object#relation" *)
Theorem implicit_is_self_pointing : forall e : env, env_wf e = true ->
  forall (w : rtuple) (t : wtuple), parse e w = Some t -> implicit w = self_pointing t.
Proof. exact implicit_self. Qed.
Print Assumptions implicit_is_self_pointing.
Example implicit_is_self_pointing_ex :
  implicit Witness.w_self = true /\ implicit Witness.w_plain = false /\
  (exists t, parse Witness.we Witness.w_self = Some t).
Proof. vm_compute. repeat split. eexists. reflexivity. Qed.

(* the three-step context check of validateCondition = "every provided value belongs to a declared
   parameter and fits its type" on maps *)
Theorem context_check_is_typing : forall (ps : list (bytes * ptype)) (ctx : list (bytes * vkind)),
  keys_nodup ps = true -> keys_nodup ctx = true -> ctx_ok ps ctx = ctx_fits ps ctx.
Proof. exact ctx_ok_fits. Qed.
Print Assumptions context_check_is_typing.
Example context_check_is_typing_ex :
  ctx_ok [([120], PInt); ([121], PString)] [([120], KStr (SInt false))] = true /\
  ctx_ok [([120], PInt)] [([120], KNum false true)] = false /\
  ctx_ok [([120], PInt)] [([122], KBool)] = false /\
  ctx_ok [] [([120], KBool)] = false /\ ctx_ok [([120], PAny)] [([120], KList [KCtl])] = false.
Proof. vm_compute. repeat split. Qed.

(* the read-time part of the validator is Sem/Valid.v (shared with the query properties) *)
Theorem validate_read_is_valid_for_read : forall (e : env) (m : model) (cds : cdefs) (w : rtuple),
  accepted (validate_read e m cds w) =
  match rt_cond w with
  | Some wc =>
      match nlookup (e_conds e) (wc_name wc) with
      | Some c =>
          match cd_lookup c cds with
          | Some ps => negb (forbidden (wc_name wc)) && negb (c =? 0) &&
                       valid_for_read m (cond_ids cds) (vtuple_of e w c) && ctx_ok ps (wc_ctx wc)
          | None => false
          end
      | None => false
      end
  | None => valid_for_read m (cond_ids cds) (vtuple_of e w 0)
  end.
Proof. exact validate_read_valid_for_read. Qed.
Print Assumptions validate_read_is_valid_for_read.

(* ================================================================== *)
(* C. A rejected write changes nothing                                  *)
(* ================================================================== *)

Theorem rejected_write_changes_nothing : forall (e : env) (m : model) (cds : cdefs) (limit maxw : N)
  (od om : wopt) (s : store) (deletes : list skey) (writes : list rtuple),
  w_result (write_cmd e m cds limit maxw od om s deletes writes) <> WOk ->
  w_store (write_cmd e m cds limit maxw od om s deletes writes) = s.
Proof. exact ValidProofs.rejected_write_changes_nothing. Qed.
Print Assumptions rejected_write_changes_nothing.

(* one invalid tuple anywhere in the request: validation_error, and NO datastore write is issued *)
Theorem invalid_tuple_rejects_request : forall (e : env) (m : model) (cds : cdefs) (limit maxw : N)
  (od om : wopt) (s : store) (deletes : list skey) (writes : list rtuple) (w : rtuple),
  In w writes -> valid_for_write e m cds limit w = false ->
  w_result (write_cmd e m cds limit maxw od om s deletes writes) = WValidation /\
  w_store (write_cmd e m cds limit maxw od om s deletes writes) = s /\
  existsb is_ds_write (w_calls (write_cmd e m cds limit maxw od om s deletes writes)) = false.
Proof. exact ValidProofs.invalid_tuple_rejects_request. Qed.
Print Assumptions invalid_tuple_rejects_request.
Example invalid_tuple_rejects_request_ex :
  write_cmd Witness.we Witness.wm Witness.wcds 64 10 OError OError Witness.st0 []
            [Witness.w_ok; Witness.w_f4; Witness.w_ghost] = (WValidation, [DsReadModel], Witness.st0) /\
  w_result (write_cmd Witness.we Witness.wm Witness.wcds 64 10 OError OError Witness.st0 [] [Witness.w_ok]) = WOk.
Proof. vm_compute. split; reflexivity. Qed.

Theorem ds_write_only_after_validation : forall (e : env) (m : model) (cds : cdefs) (limit maxw : N)
  (od om : wopt) (s : store) (deletes : list skey) (writes : list rtuple),
  existsb is_ds_write (w_calls (write_cmd e m cds limit maxw od om s deletes writes)) = true ->
  forallb (valid_for_write e m cds limit) writes = true /\
  forallb (fun k : skey => is_valid_user (k_user k)) deletes = true.
Proof. exact ValidProofs.ds_write_only_after_validation. Qed.
Print Assumptions ds_write_only_after_validation.

Theorem accepted_write_all_valid : forall (e : env) (m : model) (cds : cdefs) (limit maxw : N)
  (od om : wopt) (s : store) (deletes : list skey) (writes : list rtuple) (w : rtuple),
  w_result (write_cmd e m cds limit maxw od om s deletes writes) = WOk ->
  In w writes -> valid_for_write e m cds limit w = true.
Proof. exact ValidProofs.accepted_write_all_valid. Qed.
Print Assumptions accepted_write_all_valid.

(* validation has no memory (the statement behind the history cases of the driver: the same tuple
   validated alone, after other tuples on the same typesystem, or at any position of a Write) *)
Theorem validate_stateless : forall (e : env) (m : model) (cds : cdefs) (limit : N)
  (before after : list rtuple) (w : rtuple),
  nth (length before) (validate_seq e m cds limit (before ++ w :: after)) false =
  valid_for_write e m cds limit w /\
  nth (length before) (validate_ctx_seq e m cds (before ++ w :: after)) false =
  valid_ctx_tuple e m cds w.
Proof. exact validate_seq_stateless. Qed.
Print Assumptions validate_stateless.
Example validate_stateless_ex :
  validate_seq Witness.we Witness.wm Witness.wcds 64 [Witness.w_ok; Witness.w_badctx; Witness.w_ok; Witness.w_self] =
  [true; false; true; false].
Proof. vm_compute. reflexivity. Qed.

(* an invalid tuple at ANY position of the request: validation_error, nothing stored *)
Theorem invalid_tuple_any_position : forall (e : env) (m : model) (cds : cdefs) (limit maxw : N)
  (od om : wopt) (s : store) (deletes : list skey) (before after : list rtuple) (w : rtuple),
  valid_for_write e m cds limit w = false ->
  w_result (write_cmd e m cds limit maxw od om s deletes (before ++ w :: after)) = WValidation /\
  w_store (write_cmd e m cds limit maxw od om s deletes (before ++ w :: after)) = s.
Proof. exact request_verdict_position_free. Qed.
Print Assumptions invalid_tuple_any_position.
Example invalid_tuple_any_position_ex :
  w_result (write_cmd Witness.we Witness.wm Witness.wcds 64 10 OError OError Witness.st0 []
              [Witness.w_self; Witness.w_ok]) = WValidation /\
  w_result (write_cmd Witness.we Witness.wm Witness.wcds 64 10 OError OError Witness.st0 []
              [Witness.w_ok; Witness.w_self]) = WValidation.
Proof. vm_compute. split; reflexivity. Qed.

(* the per-tuple stage of a request passes iff EVERY tuple passes on its own (and every delete names
   a valid user): a conjunction, hence independent of the order and of what else is in the request *)
Theorem batch_validity_is_conjunction : forall (e : env) (m : model) (cds : cdefs) (limit maxw : N)
  (deletes : list skey) (writes : list rtuple),
  (deletes <> [] \/ writes <> []) ->
  (tuples_pass e m cds limit deletes writes = false <->
   fst (validate_request e m cds limit maxw deletes writes) = WValidation).
Proof. exact ValidProofs.batch_validity_is_conjunction. Qed.
Print Assumptions batch_validity_is_conjunction.
Example batch_validity_is_conjunction_ex :
  tuples_pass Witness.we Witness.wm Witness.wcds 64 [] [Witness.w_ok; Witness.w_ts] = false /\
  tuples_pass Witness.we Witness.wm Witness.wcds 64 [] [Witness.w_ts; Witness.w_ok] = false /\
  tuples_pass Witness.we Witness.wm Witness.wcds 64 [] [Witness.w_ok; Witness.w_f4] = true.
Proof. vm_compute. repeat split. Qed.

Theorem batch_validity_order_free : forall (e : env) (m : model) (cds : cdefs) (limit : N)
  (deletes deletes' : list skey) (writes writes' : list rtuple),
  Permutation.Permutation writes writes' -> Permutation.Permutation deletes deletes' ->
  tuples_pass e m cds limit deletes writes = tuples_pass e m cds limit deletes' writes'.
Proof. exact ValidProofs.batch_validity_order_free. Qed.
Print Assumptions batch_validity_order_free.

(* ================================================================== *)
(* D. Contextual tuples                                                 *)
(* ================================================================== *)

(* exactly what distinguishes Write from a contextual tuple *)
Theorem ctx_tuple_rules : forall (e : env) (m : model) (cds : cdefs) (limit : N) (w : rtuple),
  valid_for_write e m cds limit w =
  valid_ctx_tuple e m cds w && negb (implicit w) && (ctx_size w <=? limit).
Proof. exact write_vs_ctx. Qed.
Print Assumptions ctx_tuple_rules.

(* ctx_tuple_same_rules : valid_ctx_tuple e m cds w = valid_for_write e m cds limit w  -- FALSE *)
Theorem ctx_tuple_same_rules_partial : forall (e : env) (m : model) (cds : cdefs) (limit : N) (w : rtuple),
  implicit w = false -> (ctx_size w <=? limit) = true ->
  valid_ctx_tuple e m cds w = valid_for_write e m cds limit w.
Proof. exact ctx_same_rules_when_moot. Qed.
Print Assumptions ctx_tuple_same_rules_partial.
Example ctx_tuple_same_rules_partial_ex :
  implicit Witness.w_ok = false /\ (ctx_size Witness.w_ok <=? 64) = true /\
  valid_ctx_tuple Witness.we Witness.wm Witness.wcds Witness.w_ok = true.
Proof. vm_compute. repeat split. Qed.

Theorem ctx_tuple_same_rules_refuted :
  exists e m cds limit w1 w2,
    all_hyps e m cds w1 = true /\ all_hyps e m cds w2 = true /\
    valid_ctx_tuple e m cds w1 = true /\ valid_for_write e m cds limit w1 = false /\
    allowed_raw e m cds limit w1 = false /\ implicit w1 = true /\
    valid_ctx_tuple e m cds w2 = true /\ valid_for_write e m cds limit w2 = false /\
    allowed_raw e m cds limit w2 = false /\ (limit <? ctx_size w2) = true.
Proof. exact ValidProofs.ctx_tuple_same_rules_refuted. Qed.
Print Assumptions ctx_tuple_same_rules_refuted.
