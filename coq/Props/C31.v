(* C31 — Assertions are stored and returned verbatim per store and model.
   Model: Store/Assertions.v (memory.go / sqlite.go WriteAssertions+ReadAssertions, server and
   command glue).  All statements quantify over arbitrary histories (lists of operations). *)
From OFGA Require Import Base.Bytes Store.Assertions Store.AssertionsProofs.

(* After an accepted WriteAssertions(s, m, l), and any later history that does not write
   (s, m) again, ReadAssertions(s, m) returns exactly l — memory and sqlite backends. *)
Theorem read_last_write :
  (forall h1 h2 s m l,
     snd (srv_step mem_backend (srv_run mem_backend (srv_init mem_backend) h1) (SWrite s m l)) = SOk ->
     forallb (fun o => negb (sop_writes_to (s, m) o)) h2 = true ->
     snd (srv_step mem_backend (srv_run mem_backend (srv_init mem_backend) (h1 ++ SWrite s m l :: h2)) (SRead s m))
     = SList l) /\
  (forall blob marshal unmarshal, @is_roundtrip blob marshal unmarshal ->
   let B := sql_backend blob marshal unmarshal in
   forall h1 h2 s m l,
     snd (srv_step B (srv_run B (srv_init B) h1) (SWrite s m l)) = SOk ->
     forallb (fun o => negb (sop_writes_to (s, m) o)) h2 = true ->
     snd (srv_step B (srv_run B (srv_init B) (h1 ++ SWrite s m l :: h2)) (SRead s m)) = SList l).
Proof. exact c31_read_last_write. Qed.
Print Assumptions read_last_write.

(* What ReadAssertions(s, m) answers depends only on the sub-history of model creations and of
   requests for (s, m) itself: every request for another (store, model) can be erased. *)
Theorem other_keys_unaffected :
  (forall h s m,
     snd (srv_step mem_backend (srv_run mem_backend (srv_init mem_backend) h) (SRead s m)) =
     snd (srv_step mem_backend (srv_run mem_backend (srv_init mem_backend) (filter (sop_relevant (s, m)) h)) (SRead s m))) /\
  (forall blob marshal unmarshal, @is_roundtrip blob marshal unmarshal ->
   let B := sql_backend blob marshal unmarshal in
   forall h s m,
     snd (srv_step B (srv_run B (srv_init B) h) (SRead s m)) =
     snd (srv_step B (srv_run B (srv_init B) (filter (sop_relevant (s, m)) h)) (SRead s m))).
Proof. exact c31_other_keys_unaffected. Qed.
Print Assumptions other_keys_unaffected.

(* A pair never written returns the empty list whenever the read is answered at all. *)
Theorem never_written_empty :
  (forall h s m l,
     forallb (fun o => negb (sop_writes_to (s, m) o)) h = true ->
     snd (srv_step mem_backend (srv_run mem_backend (srv_init mem_backend) h) (SRead s m)) = SList l -> l = []) /\
  (forall blob marshal unmarshal, @is_roundtrip blob marshal unmarshal ->
   let B := sql_backend blob marshal unmarshal in
   forall h s m l,
     forallb (fun o => negb (sop_writes_to (s, m) o)) h = true ->
     snd (srv_step B (srv_run B (srv_init B) h) (SRead s m)) = SList l -> l = []).
Proof. exact c31_never_written_empty. Qed.
Print Assumptions never_written_empty.

(* Refinement: on every history the server over either backend produces exactly the trace of
   the server over the specification map (store, model) -> list. *)
Theorem server_refines_spec :
  (forall h, srv_trace mem_backend (srv_init mem_backend) h = srv_trace abs_backend (srv_init abs_backend) h) /\
  (forall blob marshal unmarshal, @is_roundtrip blob marshal unmarshal ->
   let B := sql_backend blob marshal unmarshal in
   forall h, srv_trace B (srv_init B) h = srv_trace abs_backend (srv_init abs_backend) h).
Proof. exact c31_server_refines_spec. Qed.
Print Assumptions server_refines_spec.

(* The predicate the oracle evaluates on the implementation's observations holds of the
   model's trace of every history. *)
Theorem trace_property :
  (forall h, s_trace_ok (mem_s_trace h) = true) /\ (forall h, s_trace_ok (sql_s_trace h) = true).
Proof. exact c31_trace_property. Qed.
Print Assumptions trace_property.

(* memory's concatenated key "store|model" is injective when store ids contain no '|' ... *)
Theorem assertions_key_inj : forall s m s' m',
  store_ok s = true -> store_ok s' = true -> mem_key s m = mem_key s' m' -> s = s' /\ m = m'.
Proof. exact AssertionsProofs.assertions_key_inj. Qed.
Print Assumptions assertions_key_inj.

(* ... which every id accepted by the API satisfies ... *)
Theorem api_ids_satisfy_hypothesis : forall s, is_ulid s = true -> store_ok s = true.
Proof. exact is_ulid_store_ok. Qed.
Print Assumptions api_ids_satisfy_hypothesis.

(* ... and not otherwise. *)
Theorem assertions_key_inj_refuted :
  exists s m s' m', (s, m) <> (s', m') /\ mem_key s m = mem_key s' m'.
Proof. exact AssertionsProofs.assertions_key_inj_refuted. Qed.
Print Assumptions assertions_key_inj_refuted.

(* At the datastore interface (storage.AssertionsBackend; ids are not validated there) the
   memory backend satisfies the property only under the hypothesis on store ids.
   _partial: missing part = histories with a '|' in a store id, refuted below. *)
Theorem datastore_memory_partial :
  (forall h, dops_store_ok h = true ->
     d_trace mem_backend mem_init h = d_trace abs_backend aempty h /\ d_trace_ok (mem_d_trace h) = true) /\
  (forall h1 h2 s m l, dops_store_ok (h1 ++ DWrite s m l :: h2) = true ->
     forallb (fun o => negb (writes_to (s, m) o)) h2 = true ->
     mem_read (d_run mem_backend mem_init (h1 ++ DWrite s m l :: h2)) s m = Some l) /\
  (forall h s m, dops_store_ok h = true -> store_ok s = true ->
     mem_read (d_run mem_backend mem_init h) s m =
     mem_read (d_run mem_backend mem_init (filter (touches (s, m)) h)) s m) /\
  (forall h s m, dops_store_ok h = true -> store_ok s = true ->
     forallb (fun o => negb (writes_to (s, m) o)) h = true ->
     mem_read (d_run mem_backend mem_init h) s m = Some []).
Proof. exact c31_datastore_partial. Qed.
Print Assumptions datastore_memory_partial.

Theorem datastore_memory_never_written_empty_refuted :
  exists h s m,
    forallb (fun o => negb (writes_to (s, m) o)) h = true /\
    b_read mem_backend (d_run mem_backend mem_init h) s m <> Some [].
Proof. exact mem_other_keys_unaffected_refuted. Qed.
Print Assumptions datastore_memory_never_written_empty_refuted.

(* the trigger flag computed by the oracle is off whenever the hypothesis holds *)
Theorem pipe_collision_only_without_hypothesis :
  forall h, dops_store_ok h = true -> pipe_collision h = false.
Proof. exact pipe_collision_false_of_ok. Qed.
Print Assumptions pipe_collision_only_without_hypothesis.

(* sqlite at the datastore interface: unconditional (the key is the column pair). *)
Theorem datastore_sqlite :
  forall blob marshal unmarshal, @is_roundtrip blob marshal unmarshal ->
  let B := sql_backend blob marshal unmarshal in
  (forall h, d_trace B (b_init B) h = d_trace abs_backend aempty h /\ d_trace_ok (d_trace B (b_init B) h) = true) /\
  (forall h1 h2 s m l,
     forallb (fun o => negb (writes_to (s, m) o)) h2 = true ->
     b_read B (d_run B (b_init B) (h1 ++ DWrite s m l :: h2)) s m = Some l) /\
  (forall h s m,
     b_read B (d_run B (b_init B) h) s m = b_read B (d_run B (b_init B) (filter (touches (s, m)) h)) s m) /\
  (forall h s m,
     forallb (fun o => negb (writes_to (s, m) o)) h = true ->
     b_read B (d_run B (b_init B) h) s m = Some []).
Proof. exact c31_datastore_sql. Qed.
Print Assumptions datastore_sqlite.

(* ---- non-vacuity ------------------------------------------------------------------------ *)
Definition ex_store : bytes := repeat 48 25 ++ [49].           (* "0000000000000000000000001" + ... 26 chars *)
Definition ex_model : bytes := repeat 48 25 ++ [50].
Definition ex_other : bytes := repeat 48 25 ++ [51].
Definition ex_a1 := mkAsrt [1; 2; 3] 30 true true.
Definition ex_a2 := mkAsrt [4] 10 true true.

(* the hypotheses of read_last_write are satisfiable: the write is accepted, the later history
   contains writes to other pairs, rejected writes to the same store, and reads *)
Example read_last_write_nonvacuous :
  let h1 := [SAddModel ex_store ex_model; SAddModel ex_other ex_model; SWrite ex_store ex_model [ex_a2]] in
  let h2 := [SWrite ex_other ex_model [ex_a2]; SRead ex_store ex_model; SWrite ex_store ex_other [ex_a2]] in
  snd (srv_step mem_backend (srv_run mem_backend (srv_init mem_backend) h1) (SWrite ex_store ex_model [ex_a1; ex_a2])) = SOk /\
  forallb (fun o => negb (sop_writes_to (ex_store, ex_model) o)) h2 = true /\
  snd (srv_step mem_backend (srv_run mem_backend (srv_init mem_backend)
        (h1 ++ SWrite ex_store ex_model [ex_a1; ex_a2] :: h2)) (SRead ex_store ex_model)) = SList [ex_a1; ex_a2].
Proof. vm_compute. repeat split. Qed.

Example other_keys_unaffected_nonvacuous :
  filter (sop_relevant (ex_store, ex_model))
    [SAddModel ex_store ex_model; SWrite ex_other ex_model [ex_a2]; SWrite ex_store ex_model [ex_a1]; SRead ex_other ex_model]
  = [SAddModel ex_store ex_model; SWrite ex_store ex_model [ex_a1]].
Proof. vm_compute. reflexivity. Qed.

Example never_written_empty_nonvacuous :
  snd (srv_step mem_backend (srv_run mem_backend (srv_init mem_backend)
        [SAddModel ex_store ex_model; SAddModel ex_store ex_other; SWrite ex_store ex_other [ex_a1]])
        (SRead ex_store ex_model)) = SList [].
Proof. vm_compute. reflexivity. Qed.

Example trace_property_discriminates :
  s_trace_ok [(SAddModel ex_store ex_model, SOk); (SWrite ex_store ex_model [ex_a1], SOk);
              (SRead ex_store ex_model, SList [ex_a2])] = false.
Proof. vm_compute. reflexivity. Qed.

Example datastore_partial_nonvacuous :
  dops_store_ok [DWrite [97] [98; 124; 99] [ex_a1]; DRead [97] [98]] = true /\
  pipe_collision [DWrite [97; 124; 98] [99] [ex_a1]; DRead [97] [98; 124; 99]] = true.
Proof. vm_compute. split; reflexivity. Qed.

Example roundtrip_nonvacuous : @is_roundtrip (list asrt) (fun l => l) (fun b => Some b).
Proof. intro l. reflexivity. Qed.
