(* C30 — Expand mirrors the rewrite and the directly assigned users.
   Model: Query/Expand.v (pkg/server/commands/expand.go).  [leb] is the order of Go strings on the
   rendered users (external, a parameter); [all] = contextual tuples ++ stored tuples.
   Every statement is for all models, tuple lists, objects, relations and rewrites. *)
From Coq Require Import Sorting.Sorted Sorting.Permutation.
From OFGA Require Import Query.Expand Query.ExpandProofs.

(* The tree's nodes are in bijection with the rewrite's constructors (its shape IS the rewrite's
   skeleton: same operators, same arities, same order, computed relation and tupleset of the
   leaves) and every node is named object#relation; computed / tupleset references are on the
   requested object. *)
Theorem expand_shape :
  forall leb m conds all o r rw t,
    (forall a b, leb a b = true \/ leb b a = true) ->
    expand_rw leb m conds all o r rw = XTree t ->
    shape t = skeleton rw /\ named (o, r) t.
Proof. intros leb m conds all o r rw t Ht. exact (expand_shape_lemma leb m conds Ht all o r rw t). Qed.
Print Assumptions expand_shape.

(* A tree is returned exactly when every tupleset is a relation of the object's type (which the
   model validator guarantees); otherwise relation_not_found. *)
Theorem expand_total :
  forall leb m conds all o r rw,
    (tuplesets_defined m (otype o) rw = true -> exists t, expand_rw leb m conds all o r rw = XTree t) /\
    (tuplesets_defined m (otype o) rw = false -> expand_rw leb m conds all o r rw = XErr ERelationNotFound).
Proof. exact ExpandProofs.expand_total. Qed.
Print Assumptions expand_total.

(* A direct-assignment leaf lists, sorted and without duplicates, exactly the users of the valid
   (Sem/Valid.v valid_for_read) stored and contextual tuples on object#relation. *)
Theorem expand_leaf_users :
  forall leb m conds,
    (forall a b, leb a b = true \/ leb b a = true) ->
    forall all o r,
    exists us, expand_rw leb m conds all o r This = XTree (TUsers (o, r) us) /\
      Sorted (fun a b => leb a b = true) us /\ NoDup us /\
      forall u, In u us <->
        exists t, In t all /\ valid_for_read m conds t = true /\ t_obj t = o /\ t_rel t = r /\ t_sub t = u.
Proof. exact expand_leaf_users_lemma. Qed.
Print Assumptions expand_leaf_users.

(* Computed leaves name object#computed-relation; tuple-to-userset leaves name the tupleset
   object#tupleset and list, without duplicates, exactly user#relation (relation = the computed
   relation unless the user carries its own) of the valid tuples on object#tupleset. *)
Theorem expand_leaf_refs :
  forall leb m conds all o r,
    (forall r', expand_rw leb m conds all o r (Computed r') = XTree (TComputed (o, r) (o, r'))) /\
    (forall ts c, rel_defined m (otype o) ts = true ->
       exists cs, expand_rw leb m conds all o r (TTU ts c) = XTree (TTupleToUserset (o, r) (o, ts) cs) /\
         NoDup cs /\
         forall e, In e cs <->
           exists t, In t all /\ valid_for_read m conds t = true /\ t_obj t = o /\ t_rel t = ts /\
                     ttu_ref c (t_sub t) = e).
Proof. exact expand_leaf_refs_lemma. Qed.
Print Assumptions expand_leaf_refs.

(* The whole tree satisfies the specification relation [mirrors] (all of the above, recursively),
   and the executable predicate the oracle evaluates on the REAL tree decides that relation. *)
Theorem expand_satisfies_spec :
  forall leb m conds,
    (forall a b, leb a b = true \/ leb b a = true) ->
    forall all o r rw t,
      (expand_rw leb m conds all o r rw = XTree t -> mirrors leb m conds all o r rw t) /\
      (check_tree leb m conds all o r rw t = true <-> mirrors leb m conds all o r rw t).
Proof.
  intros leb m conds Ht all o r rw t. split.
  - exact (expand_mirrors leb m conds Ht all o r rw t).
  - exact (check_tree_mirrors leb m conds all o r rw t).
Qed.
Print Assumptions expand_satisfies_spec.

(* The specification determines the tree: identical nodes, names and user lists; the computed
   entries of a tuple-to-userset leaf up to their order. *)
Theorem spec_determines_tree :
  forall leb m conds,
    (forall a b c, leb a b = true -> leb b c = true -> leb a c = true) ->
    (forall a b, leb a b = true -> leb b a = true -> a = b) ->
    forall all o r rw t1 t2,
      mirrors leb m conds all o r rw t1 -> mirrors leb m conds all o r rw t2 -> tree_equiv t1 t2.
Proof. exact mirrors_unique. Qed.
Print Assumptions spec_determines_tree.

(* Contextual = stored.  (1) accepted contextual tuples behave exactly as if they were stored
   in front of the store; (2) an accepted contextual tuple is valid for read, so it is never
   silently dropped; (3) any two splits of the same set of tuples give equivalent trees. *)
Theorem expand_ctx_eq_stored :
  forall leb m conds,
    (forall ctx stored q,
       first_ctx_err m conds ctx = None ->
       expand_top leb m conds ctx stored q = expand_top leb m conds [] (ctx ++ stored) q) /\
    (forall t, ctx_tuple_err m conds t = None -> valid_for_read m conds t = true) /\
    ((forall a b, leb a b = true \/ leb b a = true) ->
     (forall a b c, leb a b = true -> leb b c = true -> leb a c = true) ->
     (forall a b, leb a b = true -> leb b a = true -> a = b) ->
     forall ctx stored ctx' stored' o r t t',
       (forall x, In x (ctx ++ stored) <-> In x (ctx' ++ stored')) ->
       expand_top leb m conds ctx stored (XReq o r) = XTree t ->
       expand_top leb m conds ctx' stored' (XReq o r) = XTree t' ->
       tree_equiv t t').
Proof.
  intros leb m conds. split; [exact (expand_ctx_eq_stored_lemma leb m conds) |].
  split; [exact (ctx_ok_valid m conds) |].
  exact (expand_split_irrelevant_lemma leb m conds).
Qed.
Print Assumptions expand_ctx_eq_stored.

(* How conditions are treated: they are not evaluated.  Replacing every tuple's condition
   outcome by anything leaves the tree unchanged (a conditioned tuple's user is listed even when
   its condition is false or cannot be evaluated). *)
Theorem expand_ignores_ceval :
  forall leb m conds (f : tuple -> b3) all o r rw,
    expand_rw leb m conds (map (fun t => with_ceval t (f t)) all) o r rw = expand_rw leb m conds all o r rw.
Proof. exact expand_ignores_ceval_lemma. Qed.
Print Assumptions expand_ignores_ceval.

(* ---- non-vacuity ---- *)
(* the hypotheses on the order are satisfiable (lexicographic order of an injective rendering:
   the shape of Go's string order) *)
Example order_hypotheses_satisfiable :
  (forall a b, leb_num a b = true \/ leb_num b a = true) /\
  (forall a b c, leb_num a b = true -> leb_num b c = true -> leb_num a c = true) /\
  (forall a b, leb_num a b = true -> leb_num b a = true -> a = b).
Proof. exact (conj leb_num_total (conj leb_num_trans leb_num_antisym)). Qed.

(* doc:1#viewer with rewrite  this or viewer from parent or (editor but not (this and blocked)):
   union / tuple-to-userset / difference / intersection / computed nodes, a leaf with three users
   and a userset (sorted; the duplicate contextual tuple and the tuple of a disallowed type do
   not show), two computed entries in first-seen order *)
Example expand_example :
  expand_top leb_num ex_model [1] ex_ctx ex_stored (XReq (ex_o 4 1) 2) = XTree ex_tree /\
  shape ex_tree = skeleton (Union [This; TTU 3 2; Diff (Computed 4) (Inter [This; Computed 5])]) /\
  check_tree leb_num ex_model [1] (ex_ctx ++ ex_stored) (ex_o 4 1) 2
    (Union [This; TTU 3 2; Diff (Computed 4) (Inter [This; Computed 5])]) ex_tree = true.
Proof. split; [exact ex_expand |]. vm_compute. split; reflexivity. Qed.

(* a conditioned tuple whose condition is false is listed *)
Example expand_lists_conditioned_tuple :
  expand_top leb_num ex_model [1] [] ex_stored (XReq (ex_o 4 1) 4) = XTree (TUsers (ex_o 4 1, 4) [SObj (ex_o 1 3)]).
Proof. exact ex_expand_cond. Qed.

(* the check rejects a tree with a missing user, an unsorted leaf, a wrong name, a wrong operator *)
Example check_tree_rejects :
  check_tree leb_num ex_model [1] ex_stored (ex_o 4 2) 2 This (TUsers (ex_o 4 2, 2) []) = false /\
  check_tree leb_num ex_model [1] (ex_ctx ++ ex_stored) (ex_o 4 1) 2 This
    (TUsers (ex_o 4 1, 2) [SObj (ex_o 1 2); SObj (ex_o 1 1); SObj (ex_o 1 3); SSet (ex_o 2 1) 1]) = false /\
  check_tree leb_num ex_model [1] ex_stored (ex_o 4 2) 2 This (TUsers (ex_o 4 2, 4) [SObj (ex_o 1 3)]) = false /\
  check_tree leb_num ex_model [1] ex_stored (ex_o 4 2) 2 (Union [This]) (TInter (ex_o 4 2, 2) [TUsers (ex_o 4 2, 2) [SObj (ex_o 1 3)]]) = false /\
  check_tree leb_num ex_model [1] ex_stored (ex_o 4 2) 2 This (TUsers (ex_o 4 2, 2) [SObj (ex_o 1 3)]) = true.
Proof. vm_compute. repeat split. Qed.

(* error classes of Execute and of an undefined tupleset *)
Example expand_error_classes :
  expand_top leb_num ex_model [1] [] ex_stored XEmpty = XErr EInvalidInput /\
  expand_top leb_num ex_model [1] [] ex_stored (XReq (ex_o 4 1) 9) = XErr EValidation /\
  expand_top leb_num ex_model [1] [ex_t (ex_o 4 1) 2 (SObj (ex_o 3 1)) 0 T] ex_stored (XReq (ex_o 4 1) 2) = XErr EInvalidTuple /\
  expand_top leb_num ex_model [1] [ex_t (ex_o 4 1) 5 (SObj (ex_o 1 1)) 1 T] ex_stored (XReq (ex_o 4 1) 2) = XErr EValidation /\
  expand_rw leb_num ex_model [1] ex_stored (ex_o 4 1) 2 (Union [This; TTU 9 2]) = XErr ERelationNotFound.
Proof. exact ex_expand_errors. Qed.
