(* C29: Tuple and user string encodings round-trip; the validity checks accept exactly the
   documented grammar: one type prefix, at most one relation, and no spaces or control characters.

   Statements only; the proofs are in Codec/TupleStrProofs.v, the model in Codec/TupleStr.v.
   [clean bad s] (TupleStrProofs.v) = no rune of the Go rune sequence of s is a control character
   (unicode.IsControl) or a member of bad.
   Bytes: '#'=c_hash=35  ':'=c_colon=58  '@'=c_at=64  ' '=c_space=32  '*'=c_star=42. *)
From OFGA Require Import Codec.TupleStr Codec.TupleStrProofs.
Open Scope N_scope.

(* ================================================================== *)
(* A. The Go rune decoder                                               *)
(* ================================================================== *)

Theorem runes_app_ascii : forall (a : bytes) (c : N) (b : bytes),
  c < 128 -> runes (a ++ c :: b) = runes a ++ c :: runes b.
Proof. exact TupleStrProofs.runes_app_ascii. Qed.
Print Assumptions runes_app_ascii.
(* "é" ':' "é" with a truncated sequence before the ':' *)
Example runes_app_ascii_ex :
  58 < 128 /\ runes ([195; 169; 226; 130] ++ 58 :: [195; 169]) = [233; 65533; 65533; 58; 233].
Proof. split; reflexivity. Qed.

Theorem in_runes_ascii : forall (c : N) (s : bytes), c < 128 -> (In c s <-> In c (runes s)).
Proof. exact TupleStrProofs.in_runes_ascii. Qed.
Print Assumptions in_runes_ascii.
Example in_runes_ascii_ex : 58 < 128 /\ In 58 [195; 58; 169] /\ In 58 (runes [195; 58; 169]).
Proof. vm_compute. repeat split; auto. Qed.

Theorem runes_nil_iff : forall s : bytes, runes s = [] <-> s = [].
Proof. exact TupleStrProofs.runes_nil_iff. Qed.
Print Assumptions runes_nil_iff.
Example runes_nil_iff_ex : runes [255] = [65533] /\ runes [] = [].
Proof. split; reflexivity. Qed.

(* ================================================================== *)
(* B. The validity checks accept exactly the documented grammar         *)
(* ================================================================== *)

Theorem is_valid_relation_iff : forall s : bytes,
  is_valid_relation s = true <->
  s <> [] /\ clean [c_hash; c_colon; c_at; c_space] s = true.
Proof. exact TupleStrProofs.is_valid_relation_iff. Qed.
Print Assumptions is_valid_relation_iff.
(* "viewer" is accepted; "view er", "a@b", "", "a<U+0085>" are rejected *)
Example is_valid_relation_ex :
  is_valid_relation [118; 105; 101; 119; 101; 114] = true /\
  is_valid_relation [118; 105; 101; 119; 32; 101; 114] = false /\
  is_valid_relation [97; 64; 98] = false /\
  is_valid_relation [] = false /\
  is_valid_relation [97; 194; 133] = false.
Proof. repeat split; reflexivity. Qed.

Theorem is_valid_userid_iff : forall s : bytes,
  is_valid_userid s = true <-> s <> [] /\ clean [c_hash; c_colon; c_space] s = true.
Proof. exact TupleStrProofs.is_valid_userid_iff. Qed.
Print Assumptions is_valid_userid_iff.
(* "anne" and "a@b" are accepted; "a:b" is rejected.  An invalid UTF-8 byte decodes to U+FFFD,
   which is not a control character, so "\xff" is accepted too. *)
Example is_valid_userid_ex :
  is_valid_userid [97; 110; 110; 101] = true /\ is_valid_userid [97; 64; 98] = true /\
  is_valid_userid [97; 58; 98] = false /\ is_valid_userid [255] = true.
Proof. repeat split; reflexivity. Qed.

Theorem is_valid_object_iff : forall s : bytes,
  is_valid_object s = true <->
  exists t id, s = t ++ c_colon :: id /\ t <> [] /\ id <> [] /\
               clean [c_hash; c_colon; c_space] t = true /\
               clean [c_hash; c_colon; c_space] id = true.
Proof. exact TupleStrProofs.is_valid_object_iff. Qed.
Print Assumptions is_valid_object_iff.
(* "doc:1" and "café:1" accepted; ":1", "doc:", "a:b:c", "doc" rejected *)
Example is_valid_object_ex :
  is_valid_object [100; 111; 99; 58; 49] = true /\
  is_valid_object [99; 97; 102; 195; 169; 58; 49] = true /\
  is_valid_object [58; 49] = false /\ is_valid_object [100; 111; 99; 58] = false /\
  is_valid_object [97; 58; 98; 58; 99] = false /\ is_valid_object [100; 111; 99] = false.
Proof. repeat split; reflexivity. Qed.

Theorem is_valid_userset_iff : forall s : bytes,
  is_valid_userset s = true <->
  exists t id r, s = t ++ c_colon :: id ++ c_hash :: r /\ t <> [] /\ id <> [] /\ r <> [] /\
                 clean [c_hash; c_colon; c_space] t = true /\
                 clean [c_hash; c_colon; c_space; c_star] id = true /\
                 clean [c_hash; c_colon; c_space; c_star] r = true.
Proof. exact TupleStrProofs.is_valid_userset_iff. Qed.
Print Assumptions is_valid_userset_iff.
(* "group:eng#member" accepted; "group:*#member", "group:eng#", "group:eng" rejected *)
Example is_valid_userset_ex :
  is_valid_userset [103; 114; 111; 117; 112; 58; 101; 110; 103; 35; 109; 101; 109; 98; 101; 114] = true /\
  is_valid_userset [103; 114; 111; 117; 112; 58; 42; 35; 109; 101; 109; 98; 101; 114] = false /\
  is_valid_userset [103; 114; 111; 117; 112; 58; 101; 110; 103; 35] = false /\
  is_valid_userset [103; 114; 111; 117; 112; 58; 101; 110; 103] = false.
Proof. repeat split; reflexivity. Qed.
(* the code tolerates '*' in the type part of a userset: "gr*up:1#member" *)
Example is_valid_userset_star_in_type :
  is_valid_userset [103; 114; 42; 117; 112; 58; 49; 35; 109; 101; 109; 98; 101; 114] = true.
Proof. reflexivity. Qed.

Theorem is_valid_user_iff : forall s : bytes,
  is_valid_user s = true <->
  s = [c_star] \/ is_valid_userid s = true \/ is_valid_object s = true \/
  is_valid_userset s = true.
Proof. exact TupleStrProofs.is_valid_user_iff. Qed.
Print Assumptions is_valid_user_iff.
(* "*", "anne", "user:anne", "user:*", "group:eng#member" *)
Example is_valid_user_ex :
  is_valid_user [42] = true /\ is_valid_user [97; 110; 110; 101] = true /\
  is_valid_user [117; 115; 101; 114; 58; 97; 110; 110; 101] = true /\
  is_valid_user [117; 115; 101; 114; 58; 42] = true /\
  is_valid_user [103; 114; 111; 117; 112; 58; 101; 110; 103; 35; 109; 101; 109; 98; 101; 114] = true /\
  is_valid_user [97; 32; 98] = false.
Proof. repeat split; reflexivity. Qed.

(* "no control characters, none of bad" read on the bytes of the string: no byte of bad, no ASCII
   control byte, and no adjacent pair 0xC2 0x80..0x9F (the encodings of U+0080..U+009F). *)
Theorem clean_bytes : forall (bad : list N) (s : bytes),
  forallb (fun c => c <? 128) bad = true ->
  clean bad s =
  forallb (fun c => negb (mem c bad)) s && negb (existsb ascii_ctl s) && negb (c1pair s).
Proof. exact TupleStrProofs.clean_bytes. Qed.
Print Assumptions clean_bytes.

Theorem clean_bytes_iff : forall (bad : list N) (s : bytes),
  (forall c, In c bad -> c < 128) ->
  (clean bad s = true <->
   (forall c, In c s -> ~ In c bad) /\
   (forall c, In c s -> 32 <= c /\ c <> 127) /\
   (forall a b rest, s = a ++ 194 :: b :: rest -> b < 128 \/ 159 < b)).
Proof. exact TupleStrProofs.clean_bytes_iff. Qed.
Print Assumptions clean_bytes_iff.
Example clean_bytes_iff_ex : forall c, In c [c_hash; c_colon; c_space] -> c < 128.
Proof. intros c [<-|[<-|[<-|[]]]]; reflexivity. Qed.
(* "café" is clean, "a<U+0085>" and "a\x7f" are not; 0xC2 0xA0 (U+00A0) is fine *)
Example clean_bytes_ex :
  forallb (fun c => c <? 128) [c_hash; c_colon; c_space] = true /\
  clean [c_hash; c_colon; c_space] [99; 97; 102; 195; 169] = true /\
  clean [c_hash; c_colon; c_space] [97; 194; 133] = false /\
  clean [c_hash; c_colon; c_space] [97; 127] = false /\
  clean [c_hash; c_colon; c_space] [194; 160] = true.
Proof. repeat split; reflexivity. Qed.

(* ================================================================== *)
(* C. Round trips                                                       *)
(* ================================================================== *)

Theorem parse_render_roundtrip : forall o r u : bytes,
  is_valid_object o = true -> is_valid_relation r = true -> is_valid_user u = true ->
  parse_tuple_string (tuple_key_to_string o r u) = inl (o, r, u).
Proof. exact TupleStrProofs.parse_render_roundtrip. Qed.
Print Assumptions parse_render_roundtrip.
(* "doc:1", "viewer", "group:eng#member" *)
Example parse_render_roundtrip_ex :
  is_valid_object [100; 111; 99; 58; 49] = true /\
  is_valid_relation [118; 105; 101; 119; 101; 114] = true /\
  is_valid_user [103; 114; 111; 117; 112; 58; 101; 110; 103; 35; 109; 101; 109; 98; 101; 114] = true.
Proof. repeat split; reflexivity. Qed.

Theorem render_parse_roundtrip : forall s o r u : bytes,
  parse_tuple_string s = inl (o, r, u) ->
  tuple_key_to_string o r u = s /\
  is_valid_object o = true /\ is_valid_relation r = true /\ is_valid_user u = true.
Proof. exact TupleStrProofs.render_parse_roundtrip. Qed.
Print Assumptions render_parse_roundtrip.
(* "doc:1#viewer@group:eng#member" *)
Example render_parse_roundtrip_ex :
  parse_tuple_string [100; 111; 99; 58; 49; 35; 118; 105; 101; 119; 101; 114; 64; 103; 114; 111;
                      117; 112; 58; 101; 110; 103; 35; 109; 101; 109; 98; 101; 114]
  = inl ([100; 111; 99; 58; 49], [118; 105; 101; 119; 101; 114],
         [103; 114; 111; 117; 112; 58; 101; 110; 103; 35; 109; 101; 109; 98; 101; 114]).
Proof. reflexivity. Qed.

Theorem split_build_object : forall t id : bytes,
  mem c_colon t = false -> split_object (build_object t id) = (t, id).
Proof. exact TupleStrProofs.split_build_object. Qed.
Print Assumptions split_build_object.
Example split_build_object_ex :
  mem c_colon [100; 111; 99] = false /\
  split_object (build_object [100; 111; 99] [49; 58; 50]) = ([100; 111; 99], [49; 58; 50]).
Proof. split; reflexivity. Qed.

Theorem split_object_relation_build : forall o r : bytes,
  mem c_hash r = false -> split_object_relation (to_object_relation_string o r) = (o, r).
Proof. exact TupleStrProofs.split_object_relation_build. Qed.
Print Assumptions split_object_relation_build.
Example split_object_relation_build_ex :
  mem c_hash [109; 101; 109; 98; 101; 114] = false /\
  split_object_relation (to_object_relation_string [97; 35; 98] [109; 101; 109; 98; 101; 114])
  = ([97; 35; 98], [109; 101; 109; 98; 101; 114]).
Proof. split; reflexivity. Qed.

(* --- user proto <-> string --- *)

Theorem user_proto_object_roundtrip : forall t id : bytes,
  mem c_colon t = false -> mem c_hash t = false -> mem c_hash id = false -> id <> [c_star] ->
  string_to_user_proto (user_proto_to_string (UObject t id)) = UObject t id.
Proof. exact TupleStrProofs.user_proto_object_roundtrip. Qed.
Print Assumptions user_proto_object_roundtrip.
(* "user", "anne" *)
Example user_proto_object_roundtrip_ex :
  mem c_colon [117; 115; 101; 114] = false /\ mem c_hash [117; 115; 101; 114] = false /\
  mem c_hash [97; 110; 110; 101] = false /\ [97; 110; 110; 101] <> [c_star].
Proof. repeat split; try reflexivity. discriminate. Qed.

(* every one of the four hypotheses is needed *)
Theorem user_proto_object_roundtrip_refuted :
  (exists t id, mem c_colon t = true /\ mem c_hash t = false /\ mem c_hash id = false /\
                id <> [c_star] /\
                string_to_user_proto (user_proto_to_string (UObject t id)) <> UObject t id) /\
  (exists t id, mem c_colon t = false /\ mem c_hash t = true /\ mem c_hash id = false /\
                id <> [c_star] /\
                string_to_user_proto (user_proto_to_string (UObject t id)) <> UObject t id) /\
  (exists t id, mem c_colon t = false /\ mem c_hash t = false /\ mem c_hash id = true /\
                id <> [c_star] /\
                string_to_user_proto (user_proto_to_string (UObject t id)) <> UObject t id) /\
  (exists t id, mem c_colon t = false /\ mem c_hash t = false /\ mem c_hash id = false /\
                id = [c_star] /\
                string_to_user_proto (user_proto_to_string (UObject t id)) <> UObject t id).
Proof. exact TupleStrProofs.user_proto_object_roundtrip_refuted. Qed.
Print Assumptions user_proto_object_roundtrip_refuted.

Theorem user_proto_wildcard_roundtrip : forall t : bytes,
  mem c_colon t = false -> mem c_hash t = false ->
  string_to_user_proto (user_proto_to_string (UWildcard t)) = UWildcard t.
Proof. exact TupleStrProofs.user_proto_wildcard_roundtrip. Qed.
Print Assumptions user_proto_wildcard_roundtrip.
Example user_proto_wildcard_roundtrip_ex :
  mem c_colon [117; 115; 101; 114] = false /\ mem c_hash [117; 115; 101; 114] = false /\
  user_proto_to_string (UWildcard [117; 115; 101; 114]) = [117; 115; 101; 114; 58; 42].
Proof. repeat split; reflexivity. Qed.

Theorem user_proto_wildcard_roundtrip_refuted :
  (exists t, mem c_colon t = true /\ mem c_hash t = false /\
             string_to_user_proto (user_proto_to_string (UWildcard t)) <> UWildcard t) /\
  (exists t, mem c_colon t = false /\ mem c_hash t = true /\
             string_to_user_proto (user_proto_to_string (UWildcard t)) <> UWildcard t).
Proof. exact TupleStrProofs.user_proto_wildcard_roundtrip_refuted. Qed.
Print Assumptions user_proto_wildcard_roundtrip_refuted.

Theorem user_proto_userset_roundtrip : forall t id r : bytes,
  mem c_colon t = false -> mem c_hash r = false -> r <> [] ->
  string_to_user_proto (user_proto_to_string (UUserset t id r)) = UUserset t id r.
Proof. exact TupleStrProofs.user_proto_userset_roundtrip. Qed.
Print Assumptions user_proto_userset_roundtrip.
(* "group", "eng", "member" *)
Example user_proto_userset_roundtrip_ex :
  mem c_colon [103; 114; 111; 117; 112] = false /\ mem c_hash [109; 101; 109; 98; 101; 114] = false /\
  [109; 101; 109; 98; 101; 114] <> [].
Proof. repeat split; try reflexivity. discriminate. Qed.

Theorem user_proto_userset_roundtrip_refuted :
  (exists t id r, mem c_colon t = true /\ mem c_hash r = false /\ r <> [] /\
     string_to_user_proto (user_proto_to_string (UUserset t id r)) <> UUserset t id r) /\
  (exists t id r, mem c_colon t = false /\ mem c_hash r = true /\ r <> [] /\
     string_to_user_proto (user_proto_to_string (UUserset t id r)) <> UUserset t id r) /\
  (exists t id r, mem c_colon t = false /\ mem c_hash r = false /\ r = [] /\
     string_to_user_proto (user_proto_to_string (UUserset t id r)) <> UUserset t id r).
Proof. exact TupleStrProofs.user_proto_userset_roundtrip_refuted. Qed.
Print Assumptions user_proto_userset_roundtrip_refuted.

Theorem user_string_proto_roundtrip : forall s : bytes,
  is_valid_object s = true \/ is_valid_userset s = true ->
  user_proto_to_string (string_to_user_proto s) = s.
Proof. exact TupleStrProofs.user_string_proto_roundtrip. Qed.
Print Assumptions user_string_proto_roundtrip.
(* "user:*" is a valid object and becomes UWildcard "user" *)
Example user_string_proto_roundtrip_ex :
  is_valid_object [117; 115; 101; 114; 58; 42] = true /\
  string_to_user_proto [117; 115; 101; 114; 58; 42] = UWildcard [117; 115; 101; 114].
Proof. split; reflexivity. Qed.

(* untyped user strings ("anne", "*") are valid users but do not survive string -> proto -> string *)
Theorem untyped_user_string_roundtrip_refuted :
  exists s, is_valid_user s = true /\ user_proto_to_string (string_to_user_proto s) <> s.
Proof. exact TupleStrProofs.untyped_user_string_roundtrip_refuted. Qed.
Print Assumptions untyped_user_string_roundtrip_refuted.

Theorem wildcard_user_string_roundtrip_refuted :
  is_valid_user [c_star] = true /\
  user_proto_to_string (string_to_user_proto [c_star]) <> [c_star].
Proof. exact TupleStrProofs.wildcard_user_string_roundtrip_refuted. Qed.
Print Assumptions wildcard_user_string_roundtrip_refuted.

(* --- user parts --- *)

Theorem from_to_user_parts : forall s : bytes,
  is_valid_user s = true ->
  (let '(t, id, r) := to_user_parts s in from_user_parts t id r) = s.
Proof. exact TupleStrProofs.from_to_user_parts. Qed.
Print Assumptions from_to_user_parts.
(* "group:eng#member" *)
Example from_to_user_parts_ex :
  is_valid_user [103; 114; 111; 117; 112; 58; 101; 110; 103; 35; 109; 101; 109; 98; 101; 114] = true /\
  to_user_parts [103; 114; 111; 117; 112; 58; 101; 110; 103; 35; 109; 101; 109; 98; 101; 114]
  = ([103; 114; 111; 117; 112], [101; 110; 103], [109; 101; 109; 98; 101; 114]).
Proof. split; reflexivity. Qed.

(* Adjusted side conditions: '#' in the type or the id only hurts when the relation is empty. *)
Theorem to_from_user_parts : forall t id r : bytes,
  mem c_colon t = false -> mem c_hash r = false ->
  (r = [] -> mem c_hash t = false /\ mem c_hash id = false) ->
  (t = [] -> mem c_colon id = false) ->
  to_user_parts (from_user_parts t id r) = (t, id, r).
Proof. exact TupleStrProofs.to_from_user_parts_exact. Qed.
Print Assumptions to_from_user_parts.
(* "group", "eng", "member"; and "", "anne", "" *)
Example to_from_user_parts_ex :
  (mem c_colon [103; 114; 111; 117; 112] = false /\ mem c_hash [109; 101; 109; 98; 101; 114] = false /\
   ([109; 101; 109; 98; 101; 114] = [] ->
    mem c_hash [103; 114; 111; 117; 112] = false /\ mem c_hash [101; 110; 103] = false) /\
   ([103; 114; 111; 117; 112] = [] -> mem c_colon [101; 110; 103] = false)) /\
  to_user_parts (from_user_parts [] [97; 110; 110; 101] []) = ([], [97; 110; 110; 101], []).
Proof. repeat split; reflexivity. Qed.

(* the originally guessed (stronger) hypotheses *)
Theorem to_from_user_parts_simple : forall t id r : bytes,
  mem c_colon t = false -> mem c_hash t = false -> mem c_hash id = false ->
  mem c_hash r = false -> (t = [] -> mem c_colon id = false) ->
  to_user_parts (from_user_parts t id r) = (t, id, r).
Proof. exact TupleStrProofs.to_from_user_parts_simple. Qed.
Print Assumptions to_from_user_parts_simple.
(* "user", "anne", "" *)
Example to_from_user_parts_simple_ex :
  mem c_colon [117; 115; 101; 114] = false /\ mem c_hash [117; 115; 101; 114] = false /\
  mem c_hash [97; 110; 110; 101] = false /\ mem c_hash [] = false /\
  from_user_parts [117; 115; 101; 114] [97; 110; 110; 101] [] = [117; 115; 101; 114; 58; 97; 110; 110; 101].
Proof. repeat split; reflexivity. Qed.

(* each side condition of to_from_user_parts is needed *)
Theorem to_from_user_parts_type_colon_refuted :
  exists t id r, mem c_colon t = true /\ mem c_hash t = false /\ mem c_hash id = false /\
                 mem c_hash r = false /\ mem c_colon id = false /\
                 to_user_parts (from_user_parts t id r) <> (t, id, r).
Proof. exact TupleStrProofs.to_from_user_parts_type_colon_refuted. Qed.
Print Assumptions to_from_user_parts_type_colon_refuted.

Theorem to_from_user_parts_relation_hash_refuted :
  exists t id r, mem c_hash r = true /\ mem c_colon t = false /\ mem c_hash t = false /\
                 mem c_hash id = false /\ mem c_colon id = false /\
                 to_user_parts (from_user_parts t id r) <> (t, id, r).
Proof. exact TupleStrProofs.to_from_user_parts_relation_hash_refuted. Qed.
Print Assumptions to_from_user_parts_relation_hash_refuted.

Theorem to_from_user_parts_id_hash_refuted :
  exists t id, mem c_hash id = true /\ mem c_colon t = false /\ mem c_hash t = false /\ t <> [] /\
               to_user_parts (from_user_parts t id []) <> (t, id, []).
Proof. exact TupleStrProofs.to_from_user_parts_id_hash_refuted. Qed.
Print Assumptions to_from_user_parts_id_hash_refuted.

Theorem to_from_user_parts_type_hash_refuted :
  exists t id, mem c_hash t = true /\ mem c_colon t = false /\ mem c_hash id = false /\
               to_user_parts (from_user_parts t id []) <> (t, id, []).
Proof. exact TupleStrProofs.to_from_user_parts_type_hash_refuted. Qed.
Print Assumptions to_from_user_parts_type_hash_refuted.

Theorem to_from_user_parts_untyped_colon_refuted :
  exists id, mem c_colon id = true /\ mem c_hash id = false /\
             to_user_parts (from_user_parts [] id []) <> ([], id, []).
Proof. exact TupleStrProofs.to_from_user_parts_untyped_colon_refuted. Qed.
Print Assumptions to_from_user_parts_untyped_colon_refuted.
