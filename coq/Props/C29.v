From OFGA Require Import Codec.TupleStr.
Example placeholder : is_valid_object [97; 58; 98] = true. Proof. reflexivity. Qed.
