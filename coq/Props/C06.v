(* C06: ListUsers returns exactly the permitted users.

   Statements only.  Models: Query/ListUsers.v (algorithm model of
   pkg/server/commands/listusers/list_users_rpc.go + validate.go, AS CODED: channel contents as
   finite multisets of found = (user | typed wildcard | userset, relationship status, excluded
   list); the three combinators lu_union / lu_inter / lu_excl; "last writer wins" maps as the set
   of ALL possible maps; the fuelled traversal expand / list_users with cycle guard, depth limit
   and errors) and Sem/Semantics.v (reference semantics holds3).
   Proofs: Query/ListUsersProofs.v, Query/ListUsersSound.v.

   den w R k = "k is in the set the channel content R stands for": k was found explicitly, or k
   is a concrete object of the wildcard's type, the wildcard w was found and k is neither marked
   NoRelationship nor listed in an excludedUsers list.

   What is proved, for ALL operands / models / stores / filters / fuels / arrival orders:
     A. union        : explicit entries exact for all inputs; den = pointwise OR for positive
                       operands (any number, any mix of wildcards); REFUTED beyond
                       (an exclusion survives only if every operand lists it; occurrences are
                       counted, not operands).
     B. intersection : explicit entries characterised for all inputs; the counting trick equals the
                       pointwise AND of the denotations for any number of operands and any mix of
                       wildcards when every operand is well formed (wf_op: what a single exclusion
                       produces); REFUTED beyond (operand listing a found user as excluded).
     C. exclusion    : den = base AND NOT subtract when every base entry is HasRelationship,
                       whatever the subtract branch carries (wildcard, found users,
                       NoRelationship markers); REFUTED beyond (status of base entries ignored
                       below a wildcard; NoRel x NoRel = Has; excludedUsers of operands dropped).
     D. merge / race : several dispatches writing to one channel are an un-computed union
                       (REFUTED), one key with both statuses makes the answer order dependent.
     E. no duplicates: every possible answer is duplicate free.
     F. filter       : every returned entry has the filter's type, usersets also its relation;
                       REFUTED for the full statement (objects are returned for userset filters).
     G. composition  : on models without `but not`, every returned object / typed wildcard holds
                       the relation in the reference semantics (list_users_exact_partial);
                       soundness and completeness of the full statement are REFUTED with
                       whole-request witnesses (all replayed on the real ListUsers:
                       corpus/C06-witnesses.jsonl, checks/C06.findings.json).
   NOT proved: completeness of the positive fragment (the path-based cycle cut loses nothing)
   and anything about result limits / deadlines (checked by the correspondence run only). *)
From Coq Require Import List Bool NArith.
From OFGA Require Import Sem.B3 Sem.Vocab Sem.Valid Sem.Semantics Sem.SemProofs
  Query.ListUsers Query.ListUsersProofs Query.ListUsersSound.
Import ListNotations.
Open Scope N_scope.

(* ================================================================== *)
(* A. expandUnion                                                      *)
(* ================================================================== *)
Theorem lu_union_has : forall Rs k, has (lu_union Rs) k = existsb (fun R => has R k) Rs.
Proof. exact ListUsersProofs.lu_union_has. Qed.
Print Assumptions lu_union_has.
Example lu_union_has_ex :
  has (lu_union [[mkf W1 Has []; mkf ua NoRel [ua]]; [mkf ub Has [uc]]]) ub = true /\
  has (lu_union [[mkf W1 Has []; mkf ua NoRel [ua]]; [mkf ub Has [uc]]]) ua = false.
Proof. split; reflexivity. Qed.

Theorem lu_union_den : forall w Rs k,
  forallb clean Rs = true -> den w (lu_union Rs) k = existsb (fun R => den w R k) Rs.
Proof. exact ListUsersProofs.lu_union_den. Qed.
Print Assumptions lu_union_den.
Example lu_union_den_ex :
  let Rs := [[mkf W1 Has []; mkf ua Has []]; [mkf ub Has []]; [mkf W1 Has []]] in
  forallb clean Rs = true /\ den W1 (lu_union Rs) uc = true /\ has (lu_union Rs) uc = false.
Proof. exact ListUsersProofs.lu_union_den_ex. Qed.

Theorem lu_union_den_refuted :
  exists w Rs k, covers w k = true /\ den w (lu_union Rs) k <> existsb (fun R => den w R k) Rs.
Proof. exact ListUsersProofs.lu_union_den_refuted. Qed.
Print Assumptions lu_union_den_refuted.

Theorem lu_union_excl_found_refuted :
  exists Rs k, has (lu_union Rs) k = true /\ exl (lu_union Rs) k = true.
Proof. exact ListUsersProofs.lu_union_excl_found_refuted. Qed.
Print Assumptions lu_union_excl_found_refuted.

(* ================================================================== *)
(* B. expandIntersection                                               *)
(* ================================================================== *)
Theorem lu_inter_has : forall w Rs k,
  has (lu_inter w Rs) k =
  existsb (fun R => has R k) Rs && negb (existsb (fun R => exl R k) Rs) &&
  forallb (fun R => has R k || has R w) Rs.
Proof. exact ListUsersProofs.lu_inter_has. Qed.
Print Assumptions lu_inter_has.
Example lu_inter_has_ex :
  has (lu_inter W1 [[mkf W1 Has []]; [mkf ua Has []; mkf ub Has []]; [mkf ua Has []; mkf W1 Has []]]) ua = true /\
  has (lu_inter W1 [[mkf W1 Has []]; [mkf ua Has []; mkf ub Has []]; [mkf ua Has []; mkf W1 Has []]]) W1 = false.
Proof. split; reflexivity. Qed.

Theorem lu_inter_den : forall w Rs k,
  Rs <> [] -> forallb (wf_op w) Rs = true -> covers w k = true \/ k = w ->
  den w (lu_inter w Rs) k = forallb (fun R => den w R k) Rs.
Proof. exact ListUsersProofs.lu_inter_den. Qed.
Print Assumptions lu_inter_den.
Example lu_inter_den_ex :
  let Rs := [[mkf W1 Has []; mkf ua NoRel [ua]]; [mkf ua Has []; mkf ub Has []; mkf uc Has []]; [mkf W1 Has []]] in
  forallb (wf_op W1) Rs = true /\ Rs <> [] /\
  den W1 (lu_inter W1 Rs) ua = false /\ den W1 (lu_inter W1 Rs) ub = true /\ has (lu_inter W1 Rs) W1 = false.
Proof. exact ListUsersProofs.lu_inter_den_ex. Qed.

Theorem lu_inter_den_refuted :
  exists w Rs k, Rs <> [] /\ covers w k = true /\ den w (lu_inter w Rs) k <> forallb (fun R => den w R k) Rs.
Proof. exact ListUsersProofs.lu_inter_den_refuted. Qed.
Print Assumptions lu_inter_den_refuted.

(* ================================================================== *)
(* C. expandExclusion                                                  *)
(* ================================================================== *)
Theorem lu_excl_den : forall w B S,
  uniq S = true -> all_has B = true -> one_wild w S = true -> wild_has w S = true ->
  forall k, covers w k = true ->
  den w (lu_excl w B S) k = den w (of_map B) k && negb (den w (of_map S) k).
Proof. exact ListUsersProofs.lu_excl_den_covered. Qed.
Print Assumptions lu_excl_den.
Example lu_excl_den_ex :
  let B := [(W1, Has); (ua, Has)] in
  let S := [(W1, Has); (ub, NoRel); (uc, Has)] in
  uniq S = true /\ all_has B = true /\ one_wild W1 S = true /\ wild_has W1 S = true /\
  den W1 (lu_excl W1 B S) ub = true /\ den W1 (lu_excl W1 B S) ua = false /\ den W1 (lu_excl W1 B S) uc = false.
Proof. exact ListUsersProofs.lu_excl_den_ex. Qed.

Theorem lu_excl_den_wild : forall w B S,
  uniq S = true -> all_has B = true -> wild_has w S = true -> is_wildcard w = true ->
  den w (lu_excl w B S) w = den w (of_map B) w && negb (den w (of_map S) w).
Proof. exact ListUsersProofs.lu_excl_den_wild. Qed.
Print Assumptions lu_excl_den_wild.
Example lu_excl_den_wild_ex :
  den W1 (lu_excl W1 [(W1, Has); (ua, Has)] [(ub, Has)]) W1 = true /\
  den W1 (lu_excl W1 [(W1, Has); (ua, Has)] [(W1, Has)]) W1 = false.
Proof. split; reflexivity. Qed.

Theorem lu_excl_den_refuted :
  exists w B S k, uniq B = true /\ uniq S = true /\ covers w k = true /\
    den w (lu_excl w B S) k <> den w (of_map B) k && negb (den w (of_map S) k).
Proof. exact ListUsersProofs.lu_excl_den_refuted. Qed.
Print Assumptions lu_excl_den_refuted.

Theorem lu_excl_den_refuted_norel :
  exists w B S k, uniq B = true /\ uniq S = true /\ covers w k = true /\
    den w (lu_excl w B S) k <> den w (of_map B) k && negb (den w (of_map S) k).
Proof. exact ListUsersProofs.lu_excl_den_refuted_norel. Qed.
Print Assumptions lu_excl_den_refuted_norel.

Theorem lu_excl_drops_excluded_refuted :
  exists w Bc B k, In B (resolve Bc) /\ covers w k = true /\
    den w (lu_excl w B []) k <> den w Bc k && negb (den w [] k).
Proof. exact ListUsersProofs.lu_excl_drops_excluded_refuted. Qed.
Print Assumptions lu_excl_drops_excluded_refuted.

(* ================================================================== *)
(* D. shared channels and last-writer-wins maps                        *)
(* ================================================================== *)
Theorem merge_den_refuted :
  exists w R1 R2 k, covers w k = true /\ den w (R1 ++ R2) k <> den w R1 k || den w R2 k.
Proof. exact ListUsersProofs.merge_den_refuted. Qed.
Print Assumptions merge_den_refuted.

Theorem resolve_race_refuted :
  exists R m1 m2, In m1 (resolve R) /\ In m2 (resolve R) /\ final m1 = [ua] /\ final m2 = [].
Proof. exact ListUsersProofs.resolve_race_refuted. Qed.
Print Assumptions resolve_race_refuted.

(* ================================================================== *)
(* E. no entry is returned twice                                       *)
(* ================================================================== *)
Theorem lu_nodup : forall R m, In m (resolve R) -> NoDup (final m).
Proof. exact ListUsersProofs.lu_nodup. Qed.
Print Assumptions lu_nodup.
Example lu_nodup_ex :
  let R := [mkf ua Has []; mkf ub NoRel []; mkf ua Has []; mkf W1 Has []] in
  resolve R = [[(ub, NoRel); (ua, Has); (W1, Has)]] /\ final [(ub, NoRel); (ua, Has); (W1, Has)] = [ua; W1].
Proof. exact ListUsersProofs.lu_nodup_ex. Qed.

Theorem list_users_nodup : forall m conds store ft fr limit pruned o r res,
  In res (lf_results (list_users m conds store ft fr limit pruned o r)) -> NoDup res.
Proof. exact ListUsersProofs.list_users_nodup. Qed.
Print Assumptions list_users_nodup.
Example list_users_nodup_ex :
  lf_results (list_users m_nested [] s_nested tU 0 25%nat false doc1 4) = [[W1; ua]].
Proof. vm_compute. reflexivity. Qed.

(* ================================================================== *)
(* F. the user filter                                                  *)
(* ================================================================== *)
Theorem lu_filter_typed_partial : forall m conds store ft fr limit pruned o r res u,
  In res (lf_results (list_users m conds store ft fr limit pruned o r)) -> In u res ->
  key_ok ft fr u = true.
Proof. exact ListUsersProofs.lu_filter_typed_partial. Qed.
Print Assumptions lu_filter_typed_partial.
Example lu_filter_typed_ex :
  lf_results (list_users m_nested [] s_nested tU 0 25%nat false doc1 1) = [[W1]] /\ key_ok tU 0 W1 = true.
Proof. exact ListUsersProofs.lu_filter_typed_ex. Qed.

(* full statement: In u res -> filter_match ft fr u = true *)
Theorem lu_filter_typed_refuted :
  exists m conds store ft fr limit o r res u,
    validate m ft fr o r = None /\
    In res (lf_results (list_users m conds store ft fr limit false o r)) /\ In u res /\
    filter_match ft fr u = false.
Proof. exact ListUsersProofs.lu_filter_typed_refuted. Qed.
Print Assumptions lu_filter_typed_refuted.

(* ================================================================== *)
(* G. composition with the reference semantics                         *)
(* ================================================================== *)
(* Full statement (DESIGN.md C06 list_users_exact), for stratified models, converged fixpoint,
   no error, sufficient depth, no limit, every outcome res and every concrete u of the filter
   type occurring in the data:
       holds3 m conds store u atoms o r = T  <->  In u res \/ In (SWild ft) res
   and every returned wildcard / userset holds.  Both directions are refuted below; the
   soundness direction is proved for models without `but not`. *)
Theorem list_users_exact_partial : forall m conds store atoms ft fr limit,
  positive_model m = true -> no_empty_inter_model m = true ->
  universe_ok m conds store (SWild ft) atoms = true ->
  forall pruned o r res u,
  In res (lf_results (list_users m conds store ft fr limit pruned o r)) -> In u res ->
  plain u = true ->
  holds3 m conds store u atoms o r = T.
Proof. exact ListUsersSound.list_users_exact_partial. Qed.
Print Assumptions list_users_exact_partial.

Example list_users_exact_partial_ex :
  positive_model m_pos = true /\ no_empty_inter_model m_pos = true /\
  universe_ok m_pos [] s_pos (SWild tU) a_pos = true /\
  lf_results (list_users m_pos [] s_pos tU 0 25%nat false doc1 3) = [[ua; ub]] /\
  holds3 m_pos [] s_pos ua a_pos doc1 3 = T /\ holds3 m_pos [] s_pos uc a_pos doc1 3 = F.
Proof. exact ListUsersSound.list_users_exact_partial_ex. Qed.

Theorem list_users_sound_refuted :
  exists m conds store atoms ft fr limit o r res u,
    stratified m = true /\ converged m conds store u atoms = true /\
    lf_errs (list_users m conds store ft fr limit false o r) = [] /\
    In res (lf_results (list_users m conds store ft fr limit false o r)) /\ In u res /\
    holds3 m conds store u atoms o r = F.
Proof. exact ListUsersProofs.list_users_sound_refuted. Qed.
Print Assumptions list_users_sound_refuted.

Theorem list_users_complete_refuted :
  exists m conds store atoms ft fr limit o r u,
    stratified m = true /\ converged m conds store u atoms = true /\
    lf_errs (list_users m conds store ft fr limit false o r) = [] /\
    lf_results (list_users m conds store ft fr limit false o r) = [[]] /\
    covers (SWild ft) u = true /\
    holds3 m conds store u atoms o r = T.
Proof. exact ListUsersProofs.list_users_complete_refuted. Qed.
Print Assumptions list_users_complete_refuted.

(* ================================================================== *)
(* H. answers of a traversal that was cut short                        *)
(* ================================================================== *)
(* list_users_may (every key any source can send, set operators ignored) bounds what can be
   returned when the result limit is reached before a traversal error surfaces (finding
   limit_drops_error); it contains every key of every complete answer. *)
Theorem list_users_may_covers : forall m conds store ft fr limit pruned o r res u,
  In res (lf_results (list_users m conds store ft fr limit pruned o r)) -> In u res ->
  In u (list_users_may m conds store ft fr limit pruned o r).
Proof. exact ListUsersProofs.list_users_may_covers. Qed.
Print Assumptions list_users_may_covers.
Example list_users_may_ex :
  list_users_may m_nested [] s_nested tU 0 25%nat false doc1 4 = [W1; ua] /\
  list_users_may m_omit [] s_omit tU 0 25%nat false doc1 5 = [W1; uc; ub] /\
  lf_results (list_users m_omit [] s_omit tU 0 25%nat false doc1 5) = [[]].
Proof. vm_compute. repeat split; reflexivity. Qed.
