(* C32 — AuthZEN endpoints agree with the native API.
   Model: Query/Authzen.v (pkg/server/authzen.go).  The native API (Check, BatchCheck, ListUsers,
   ListObjects, the two error -> HTTP status maps) is a parameter of every statement: the
   theorems hold for ANY native implementation.  V = structpb values, E = native errors. *)
From Coq Require Import List NArith Bool.
From OFGA Require Import Base.Bytes Query.Authzen Query.AuthzenProofs.
Import ListNotations.
Open Scope N_scope.

(* The decision of an Evaluation is Check of the mapped request (user = subject type:id,
   relation = action name, object = resource type:id, context = merged properties), whatever
   Check is; it is InvalidArgument exactly when subject, resource or action is missing. *)
Theorem evaluation_eq_check :
  forall (V E : Type) (check : check_req V -> cres E),
    (forall st h s r a c,
       evaluation V E check {| ev_store := st; ev_header := h; ev_subject := Some s; ev_resource := Some r;
                               ev_action := Some a; ev_context := c |} =
       match check {| q_store := st; q_model := model_id_from_header h;
                      q_user := join_colon (e_type V s) (e_id V s);
                      q_relation := a_name V a;
                      q_object := join_colon (e_type V r) (e_id V r);
                      q_context := merge_properties_to_context V c (e_props V s) (e_props V r) (a_props V a) |} with
       | CAllow _ b => EvDecision E b
       | CErr _ e => EvError E e
       end) /\
    (forall r, evaluation V E check r = EvInvalidArg E <->
               ev_subject V r = None \/ ev_resource V r = None \/ ev_action V r = None).
Proof.
  intros V E check. split.
  - exact (evaluation_eq_check_lemma V E check).
  - exact (evaluation_invalid_iff V E check).
Qed.
Print Assumptions evaluation_eq_check.

(* Which source wins for a key, as coded: the merged context read at key k is the request
   context's entry if it has one; otherwise the action / resource / subject property k' when
   k = "action_"k' / "resource_"k' / "subject_"k' (the prefixes exclude each other, so properties
   never clash with each other: only the request context can hide a property). *)
Theorem merge_precedence :
  forall (V : Type) ctx subj res act k,
    mlookup V k (merge_properties_to_context V ctx subj res act) =
    first_some V (mlookup V k ctx)
      (first_some V (via V p_action k act) (first_some V (via V p_resource k res) (via V p_subject k subj))).
Proof. exact merge_lookup. Qed.
Print Assumptions merge_precedence.

Theorem merge_property_visibility :
  forall (V : Type) ctx subj res act k v,
    (mlookup V k ctx = Some v -> mlookup V k (merge_properties_to_context V ctx subj res act) = Some v) /\
    (mlookup V (p_subject ++ k) ctx = None -> mlookup V k subj = Some v ->
       mlookup V (p_subject ++ k) (merge_properties_to_context V ctx subj res act) = Some v) /\
    (mlookup V (p_resource ++ k) ctx = None -> mlookup V k res = Some v ->
       mlookup V (p_resource ++ k) (merge_properties_to_context V ctx subj res act) = Some v) /\
    (mlookup V (p_action ++ k) ctx = None -> mlookup V k act = Some v ->
       mlookup V (p_action ++ k) (merge_properties_to_context V ctx subj res act) = Some v).
Proof. exact merge_precedence_lemma. Qed.
Print Assumptions merge_property_visibility.

(* Distinct valid AuthZEN requests (no ':' in a type: the request validation's pattern) that map
   to the same native request have the same store, model, subject type and id, resource type and
   id, action name, and the same merged context. *)
Theorem map_inj_on_valid :
  forall (V : Type) st1 m1 s1 r1 a1 c1 st2 m2 s2 r2 a2 c2 q,
    valid_entity V s1 = true -> valid_entity V r1 = true -> valid_entity V s2 = true -> valid_entity V r2 = true ->
    build_check_request V st1 m1 (Some s1) (Some r1) (Some a1) c1 = inr q ->
    build_check_request V st2 m2 (Some s2) (Some r2) (Some a2) c2 = inr q ->
    st1 = st2 /\ m1 = m2 /\
    e_type V s1 = e_type V s2 /\ e_id V s1 = e_id V s2 /\
    e_type V r1 = e_type V r2 /\ e_id V r1 = e_id V r2 /\
    a_name V a1 = a_name V a2 /\
    merge_properties_to_context V c1 (e_props V s1) (e_props V r1) (a_props V a1) =
    merge_properties_to_context V c2 (e_props V s2) (e_props V r2) (a_props V a2).
Proof. exact map_inj_identity. Qed.
Print Assumptions map_inj_on_valid.

(* Full injectivity (properties and context included) does not hold, exactly because of the
   merge: a subject property x and a context entry subject_x give the same native request, and
   so do an empty context object and no context.  Without properties and with contexts that are
   absent or non-empty the context is mapped injectively. *)
Theorem map_inj_context_refuted :
  forall (V : Type) (v : V) st m st_ si rt ri an,
    let r := {| e_type := rt; e_id := ri; e_props := None |} in
    let a := {| a_name := an; a_props := None |} in
    (exists c1 p1 c2 p2,
       (c1, p1) <> (c2, p2) /\
       build_check_request V st m (Some {| e_type := st_; e_id := si; e_props := p1 |}) (Some r) (Some a) c1 =
       build_check_request V st m (Some {| e_type := st_; e_id := si; e_props := p2 |}) (Some r) (Some a) c2) /\
    build_check_request V st m (Some {| e_type := st_; e_id := si; e_props := None |}) (Some r) (Some a) (Some []) =
    build_check_request V st m (Some {| e_type := st_; e_id := si; e_props := None |}) (Some r) (Some a) None.
Proof. exact map_inj_refuted. Qed.
Print Assumptions map_inj_context_refuted.

Theorem map_inj_context_partial :
  forall (V : Type) (c1 c2 : option (pstruct V)),
    c1 <> Some [] -> c2 <> Some [] ->
    merge_properties_to_context V c1 None None None = merge_properties_to_context V c2 None None None ->
    c1 = c2.
Proof. exact map_inj_partial. Qed.
Print Assumptions map_inj_context_partial.

(* Batch, every semantics option.
   (1) no items: exactly the single Evaluation of the top-level fields;
   (2) which branch an option value selects (absent / execute_all, the two short-circuit options,
       anything else is InvalidArgument);
   (3) deny_on_first_deny / permit_on_first_permit: the response list is the list of the
       independent single evaluations of the items (item fields, defaults from the top level),
       cut right after the first response that stops the loop;
   (4) execute_all: when BatchCheck answers item by item with Check (hypothesis on the native
       API), every response is the single evaluation of its item. *)
Theorem batch_each_is_single :
  forall (V E : Type) (check : check_req V -> cres E) (batch_check : list (check_req V) -> E + list (cres E))
         (status_direct status_batch : E -> N),
    (forall top, es_items V top = [] ->
       evaluations V E check batch_check status_direct status_batch top =
       match evaluation V E check {| ev_store := es_store V top; ev_header := es_header V top;
                                     ev_subject := es_subject V top; ev_resource := es_resource V top;
                                     ev_action := es_action V top; ev_context := es_context V top |} with
       | EvDecision _ b => EsOk E [RDecision b]
       | EvInvalidArg _ => EsInvalidArg E
       | EvError _ e => EsError E e
       end) /\
    (forall top it rest, es_items V top = it :: rest ->
       let sem := match es_options V top with None => 0 | Some n => n end in
       (sem = 0 -> evaluations V E check batch_check status_direct status_batch top =
                   evaluate_all V E batch_check status_batch top) /\
       (sem = 1 \/ sem = 2 -> evaluations V E check batch_check status_direct status_batch top =
                              EsOk E (short_circuit V E check status_direct top sem (it :: rest))) /\
       (sem <> 0 -> sem <> 1 -> sem <> 2 ->
          evaluations V E check batch_check status_direct status_batch top = EsInvalidArg E)) /\
    (forall top sem items,
       let all := map (fun it => eresp_of_eval E status_direct (evaluation V E check (single_of_item V top it))) items in
       short_circuit V E check status_direct top sem items = firstn (stop_len sem all) all) /\
    ((forall qs l, batch_check qs = inr l -> l = map check qs) ->
     forall top l,
       evaluate_all V E batch_check status_batch top = EsOk E l ->
       l = map (fun it => eresp_of_eval E status_batch (evaluation V E check (single_of_item V top it))) (es_items V top)).
Proof.
  intros V E check batch_check sd sb. split; [exact (evaluations_empty_lemma V E check batch_check sd sb) |].
  split; [exact (evaluations_dispatch_lemma V E check batch_check sd sb) |].
  split; [exact (short_circuit_spec_lemma V E check sd) |].
  exact (evaluate_all_spec_lemma V E check batch_check sb).
Qed.
Print Assumptions batch_each_is_single.

(* The cut of a short-circuit response list: nothing before the last response stops the loop,
   and a list shorter than the request ends with a stopping response. *)
Theorem short_circuit_cut :
  forall sem rs,
    (stop_len sem rs <= length rs)%nat /\
    (forall i r, (S i < stop_len sem rs)%nat -> nth_error rs i = Some r -> stops sem r = false) /\
    ((stop_len sem rs < length rs)%nat ->
     exists r, nth_error rs (pred (stop_len sem rs)) = Some r /\ stops sem r = true).
Proof.
  intros sem rs. split; [apply stop_len_le |]. split; [apply stop_len_prefix | apply stop_len_cut].
Qed.
Print Assumptions short_circuit_cut.

(* Searches: the results are the native results of the mapped request, re-shaped (objects as
   they are, wildcards as id "*", usersets dropped; object strings split at the first colon). *)
Theorem searches_are_native :
  forall (V E : Type) (list_users : list_users_req V -> E + list user_res)
         (list_objects : list_objects_req V -> E + list bytes),
    (forall r, subject_search V E list_users r =
               match list_users (subject_search_map V r) with
               | inl e => inl e | inr l => inr (subjects_of_users l) end) /\
    (forall l t i, In (t, i) (subjects_of_users l) <->
                   In (UObject t i) l \/ (i = [c_star] /\ In (UWildcard t) l)) /\
    (forall r, resource_search V E list_objects r =
               match list_objects (resource_search_map V r) with
               | inl e => inl e | inr l => inr (resources_of_objects l) end) /\
    (forall l : list (bytes * bytes), Forall (fun p => mem c_colon (fst p) = false) l ->
       resources_of_objects (map (fun p => join_colon (fst p) (snd p)) l) = l).
Proof.
  intros V E lu lo. split; [exact (subject_search_spec_lemma V E lu) |].
  split; [exact subjects_of_users_In |].
  split; [exact (resource_search_spec_lemma V E lo) | exact resources_of_objects_roundtrip].
Qed.
Print Assumptions searches_are_native.

(* ActionSearch returns only relations of the type whose Check (no action properties in the
   context) is allowed. *)
Theorem action_search_sound :
  forall (V E : Type) (check : check_req V -> cres E) (batch_check : list (check_req V) -> E + list (cres E)),
    (forall qs l, batch_check qs = inr l -> l = map check qs) ->
    forall r rels l, action_search V E batch_check r rels = inr l ->
    forall rel, In rel l ->
      In rel rels /\
      check {| q_store := as_store V r; q_model := as_model V r;
               q_user := join_colon (e_type V (as_subject V r)) (e_id V (as_subject V r));
               q_relation := rel;
               q_object := join_colon (e_type V (as_resource V r)) (e_id V (as_resource V r));
               q_context := merge_properties_to_context V (as_context V r) (e_props V (as_subject V r))
                              (e_props V (as_resource V r)) None |} = CAllow E true.
Proof. intros V E check batch_check H. exact (action_search_spec_lemma V E check batch_check H). Qed.
Print Assumptions action_search_sound.

(* ---- non-vacuity ---- *)
(* subject.x = 1, resource.x = 2, action.x = 3, context {x: 4, subject_x: 5}: the context hides
   the subject property, the other two are visible under their prefixes *)
Example merge_example :
  mlookup N s_x ex_merged = Some 4 /\
  mlookup N (p_subject ++ s_x) ex_merged = Some 5 /\
  mlookup N (p_resource ++ s_x) ex_merged = Some 2 /\
  mlookup N (p_action ++ s_x) ex_merged = Some 3 /\
  mlookup N (p_action ++ s_1) ex_merged = None.
Proof. exact ex_merged_lookups. Qed.

(* a five-item batch (defaults at the top level, per-item context / resource) under every option:
   execute_all lists all five (the erring item as decision=false with the batch status),
   deny_on_first_deny stops after the first deny, permit_on_first_permit after the first permit,
   an undefined option value is refused; ex_batch satisfies the hypothesis of (4) *)
Example batch_example :
  evaluations N N ex_check ex_batch (fun e => 400 + e) (fun e => 500 + e) (ex_top None) =
    EsOk N [RDecision true; RDecision false; RDenyErr 507; RDecision false; RDecision true] /\
  evaluations N N ex_check ex_batch (fun e => 400 + e) (fun e => 500 + e) (ex_top (Some 0)) =
    EsOk N [RDecision true; RDecision false; RDenyErr 507; RDecision false; RDecision true] /\
  evaluations N N ex_check ex_batch (fun e => 400 + e) (fun e => 500 + e) (ex_top (Some 1)) =
    EsOk N [RDecision true; RDecision false] /\
  evaluations N N ex_check ex_batch (fun e => 400 + e) (fun e => 500 + e) (ex_top (Some 2)) =
    EsOk N [RDecision true] /\
  evaluations N N ex_check ex_batch (fun e => 400 + e) (fun e => 500 + e) (ex_top (Some 3)) = EsInvalidArg N.
Proof. exact ex_batches. Qed.

Example batch_hypothesis_satisfiable : forall qs l, ex_batch qs = inr l -> l = map ex_check qs.
Proof. intros qs l H. inversion H. reflexivity. Qed.

Example header_example :
  model_id_from_header (Some ([32] ++ ex_ulid ++ [9; 32])) = ex_ulid /\
  model_id_from_header (Some (map (fun c => if N.eqb c 72 then 104 else c) ex_ulid)) = [] /\
  model_id_from_header (Some (ex_ulid ++ [48])) = [] /\
  model_id_from_header (Some []) = [] /\
  model_id_from_header None = [].
Proof. exact ex_headers. Qed.
