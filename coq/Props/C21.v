(* C21 — The ListObjects pipeline tears down cycles without losing work.

   Model: Conc/StatusPool.v (track.StatusPool at atomic-operation granularity) and
   Conc/CycleGroup.v (Join, the Membership methods, and the concurrent protocol of
   Basic.Execute / MsgFunc / ProcessSender: one step = one atomic operation of one goroutine).
   [reach (init n np std) s] : s is reachable from the state after n Joins, with np processing
   goroutines per cyclical edge and the standard-input workload std (a forest of messages),
   under ANY interleaving, including cancellation of the request context at any moment.
   All statements are for every n >= 1, np >= 1, every workload and every schedule. *)
From OFGA Require Import Conc.StatusPool Conc.StatusPoolProofs Conc.CycleGroup
  Conc.CycleGroupProofs Conc.CycleGroupLive.

Definition wl : list (nat * list msg) :=
  [(0, [Msg 1 [Msg 2 []; Msg 0 [Msg 0 []]]]); (2, [Msg 2 []; Msg 1 [Msg 1 []]])].
Definition ex_final : state := run_rr 300 (init 3 2 wl).
(* a state in the middle of a run: six rounds of a skewed schedule *)
Definition ex_mid : state :=
  run (init 3 2 wl) (flat_map (fun _ => [TP 18; TP 19; TM 0; TP 2; TP 9; TM 2; TP 18; TM 1]) (seq 0 6)).

(* the pointer manipulations of Join build the ring i -> i-1 (0 -> n-1) with the member joined
   last as the leader, every member starting with one in-flight unit *)
Theorem join_ring : forall n, ring_ok n (join_seq n).
Proof. exact join_seq_ring. Qed.
Print Assumptions join_ring.
Example join_ring_ex : map mn_prev (g_nodes (join_seq 3)) = [Some 2; Some 0; Some 1] /\
                       map mn_leader (g_nodes (join_seq 3)) = [false; false; true].
Proof. vm_compute. auto. Qed.

(* the exact invariant the code maintains: inflight = members that have not yet executed the
   Add(-1) of SignalReady + counted messages held by goroutines (received and not yet Done, or
   between inflight.Add(1) and a successful Send / their own Done) + messages sitting in queues *)
Theorem inflight_invariant :
  forall n np std, 1 <= n -> 1 <= np -> forall s, reach (init n np std) s ->
  sp_inflight (st_pool s) =
  Z.of_nat (sumn mpend (st_main s) + sumn phold (st_proc s) + length (st_flight s)).
Proof. exact inflight_invariant_l. Qed.
Print Assumptions inflight_invariant.
Example inflight_invariant_ex :
  reach (init 3 2 wl) ex_mid /\ sp_inflight (st_pool ex_mid) = 6%Z /\
  sumn mpend (st_main ex_mid) = 2 /\ sumn phold (st_proc ex_mid) = 1 /\ length (st_flight ex_mid) = 3.
Proof. split; [apply reach_run; constructor|]. vm_compute. auto. Qed.

(* the design's shorter formulation (members not ready + messages in queues) is what one sees
   between method calls only; at atomic granularity goroutines hold counted messages *)
Theorem inflight_invariant_queued_only_refuted :
  exists s, reach (init 3 2 wl) s /\
            sp_inflight (st_pool s) <> Z.of_nat (sumn mpend (st_main s) + length (st_flight s)).
Proof. exists ex_mid. split; [apply reach_run; constructor|]. vm_compute. discriminate. Qed.
Print Assumptions inflight_invariant_queued_only_refuted.

(* latch closed => every member has signalled ready, no cyclical message is queued or held, no
   goroutine has anything left to send -- now and in every later state (none can be created) *)
Theorem quiescence_sound :
  forall n np std, 1 <= n -> 1 <= np -> forall s, reach (init n np std) s ->
  sp_quiet (st_pool s) = true -> forall s', reach s s' -> quiescent s'.
Proof. exact quiescence_sound_l. Qed.
Print Assumptions quiescence_sound.
Example quiescence_sound_ex : sp_quiet (st_pool ex_final) = true /\ reach (init 3 2 wl) ex_final.
Proof. split; [vm_compute; reflexivity|apply reach_run_rr; constructor]. Qed.

(* no stuck latch: all ready and nothing in flight => the latch is closed, or the goroutine that
   brought the count to zero is inside the tail of dec() and its next one or two operations
   close it *)
Theorem quiescence_complete :
  forall n np std, 1 <= n -> 1 <= np -> forall s, reach (init n np std) s -> quiescent s ->
  sp_quiet (st_pool s) = true \/
  exists t s1, t <> TC /\ step s t = Some s1 /\
               (sp_quiet (st_pool s1) = true \/
                exists s2, step s1 t = Some s2 /\ sp_quiet (st_pool s2) = true).
Proof. exact quiescence_complete_latch. Qed.
Print Assumptions quiescence_complete.

(* no deadlock: a reachable state in which no goroutine can take a step is the torn-down state *)
Theorem no_deadlock :
  forall n np std, 1 <= n -> 1 <= np -> forall s, reach (init n np std) s ->
  (forall t, t <> TC -> step s t = None) -> final s = true.
Proof. exact no_deadlock_l. Qed.
Print Assumptions no_deadlock.

(* every step decreases a natural-number measure, so no schedule is infinite and fairness is not
   needed: every maximal schedule is finite and (by no_deadlock) ends torn down *)
Theorem schedules_terminate :
  (forall s t s', step s t = Some s' -> measure s' < measure s) /\
  (forall s sched s', steps s sched s' -> length sched + measure s' <= measure s).
Proof. split; [exact step_decreases|exact schedule_length_bounded]. Qed.
Print Assumptions schedules_terminate.

(* teardown always completes: from every reachable state (cancelled or not, standard inputs
   exhausted or not) the goroutines by themselves reach the torn-down state *)
Theorem teardown_completes :
  forall n np std, 1 <= n -> 1 <= np -> forall s, reach (init n np std) s ->
  exists sched s', steps s sched s' /\ final s' = true /\ ~ In TC sched.
Proof. exact teardown_completes_l. Qed.
Print Assumptions teardown_completes.
Example teardown_completes_ex : final ex_final = true /\ final ex_mid = false.
Proof. vm_compute. auto. Qed.

(* the trace of listener closes and wake-ups is, at every moment, a prefix of the one canonical
   trace: leader (joined last) closes all its listeners, wakes n-2, which closes all its
   listeners, wakes n-3, ..., member 0 wakes the leader; so Cleanup of a member precedes the
   Wake of the next and nothing happens twice *)
Theorem teardown_order :
  forall n np std, 1 <= n -> 1 <= np -> forall s, reach (init n np std) s ->
  exists rest, st_log s ++ rest = canon_log n.
Proof. exact teardown_order_l. Qed.
Print Assumptions teardown_order.

(* ... and when everything has returned the whole chain has been walked: every member cleaned
   up and was woken exactly once *)
Theorem wake_chain_total :
  forall n np std, 1 <= n -> 1 <= np -> forall s, reach (init n np std) s ->
  final s = true -> st_log s = canon_log n.
Proof. exact wake_chain_total_l. Qed.
Print Assumptions wake_chain_total.
Example wake_chain_total_ex :
  st_log ex_final = [EClose 2 0; EClose 2 1; EClose 2 2; EWake 1; EClose 1 0; EClose 1 1;
                     EClose 1 2; EWake 0; EClose 0 0; EClose 0 1; EClose 0 2; EWake 2].
Proof. vm_compute. reflexivity. Qed.

(* unless the request is cancelled no message is ever dropped (no Send meets a closed listener)
   or drained unprocessed, and when the first listener of any member is closed every message of
   the workload has been received and processed and all its children have been sent *)
Theorem no_lost_work :
  forall n np std, 1 <= n -> 1 <= np -> forall s i, reach (init n np std) s ->
  st_cancel s = false ->
  st_lost s = 0 /\
  (i < n -> 0 < nth i (st_closed s) 0 -> quiescent s /\ st_processed s = workload std).
Proof. exact no_lost_work_l. Qed.
Print Assumptions no_lost_work.
Example no_lost_work_ex :
  st_cancel ex_final = false /\ nth 1 (st_closed ex_final) 0 = 3 /\
  st_processed ex_final = 7 /\ workload wl = 7 /\ st_lost ex_final = 0.
Proof. vm_compute. auto. Qed.

(* no channel is closed twice: the Swap guards of dec() and Wake(), and the mutex of set() *)
Theorem no_double_close :
  forall n np std, 1 <= n -> 1 <= np -> forall s, reach (init n np std) s ->
  sp_panic (st_pool s) = false.
Proof. exact no_panic_l. Qed.
Print Assumptions no_double_close.

(* torn down only after quiescence: whenever any listener of any member has been closed, the
   latch is closed and nothing is pending, queued or held -- with or without cancellation *)
Theorem teardown_only_after_quiescence :
  forall n np std, 1 <= n -> 1 <= np -> forall s i, reach (init n np std) s ->
  i < n -> 0 < nth i (st_closed s) 0 -> sp_quiet (st_pool s) = true /\ quiescent s.
Proof. exact teardown_after_quiescence_l. Qed.
Print Assumptions teardown_only_after_quiescence.

(* ---- the hypothesis on the cyclical queues -------------------------------------------------- *)
From OFGA Require Import Conc.CycleGroupBounded Conc.CycleGroupBoundedProofs.

(* HYPOTHESIS of no_deadlock / teardown_completes, explicit: in the model a Send on a cyclical
   edge never blocks -- a goroutine at Send can always execute it (enqueue, or fail on a closed
   queue / cancelled context).  The code satisfies it by building the queue of every cyclical edge
   with unlimited extensions (worker.NewQueueMedium -> mpmc.MustQueue(capacity, -1)); the driver
   reads that field on every run and reports DIFF "cyclical queue is bounded" otherwise. *)
Theorem cyclic_send_never_blocks :
  forall s k pr m r, nth_error (st_proc s) k = Some pr -> p_pc pr = PSend m r ->
  exists s', step s (TP k) = Some s'.
Proof. exact cyclic_send_never_blocks_l. Qed.
Print Assumptions cyclic_send_never_blocks.

(* ... and the hypothesis is necessary: with a bounded cyclical queue (here capacity 2, one
   member, one goroutine, one message with four children) a state is reached in which no
   goroutine can step, the latch is open and the request is not cancelled -- the in-flight count
   never reaches zero, teardown never starts, the output never closes *)
Theorem bounded_cyclic_queue_deadlock_refuted :
  exists cap s,
    s = run_bounded cap (init 1 1 [(0, [Msg 0 [Msg 0 []; Msg 0 []; Msg 0 []; Msg 0 []]])])
                    (flat_map (fun _ => [TP 1; TP 0; TM 0]) (seq 0 40)) /\
    (forall t, t <> TC -> step_bounded cap s t = None) /\
    final s = false /\ sp_quiet (st_pool s) = false /\ st_cancel s = false /\ edge_len s 0 0 = cap.
Proof. exists 2, bq_state. split; [reflexivity|exact bounded_queue_deadlock_l]. Qed.
Print Assumptions bounded_cyclic_queue_deadlock_refuted.

(* ---- draining after cancellation --------------------------------------------------------------- *)
From OFGA Require Import Conc.CycleGroupDrain Conc.CycleGroupDrainProofs.

(* In the model a goroutine whose context is cancelled still consumes its sender until it is
   closed (Core.ProcessSender: `defer DrainSender(context.Background(), ...)`), so there is no
   wedge: from EVERY reachable state, cancelled or not, the goroutines alone reach a state where
   everything has returned, the in-flight count is zero, no cyclical message is queued and the
   latch is closed *)
Theorem drain_reaches_zero :
  forall n np std, 1 <= n -> 1 <= np -> forall s, reach (init n np std) s ->
  exists sched s', steps s sched s' /\ ~ In TC sched /\ final s' = true /\
                   sp_inflight (st_pool s') = 0%Z /\ st_flight s' = [] /\ sp_quiet (st_pool s') = true.
Proof. exact drain_reaches_zero_l. Qed.
Print Assumptions drain_reaches_zero.
(* a run that is cancelled while messages are queued: they are drained (counted as lost), the
   count reaches zero and everything returns *)
Definition ex_cancelled : state :=
  run_rr 300 (run (init 3 2 wl) ([TP 18; TP 18; TP 18; TP 19; TP 19; TP 19; TC])).
Example drain_reaches_zero_ex :
  st_cancel ex_cancelled = true /\ final ex_cancelled = true /\ sp_inflight (st_pool ex_cancelled) = 0%Z /\
  st_flight ex_cancelled = [] /\ st_lost ex_cancelled = 7.
Proof. vm_compute. repeat split; auto. Qed.

(* ... and the draining is necessary: if a cancelled goroutine returns without consuming its sender
   (DrainSender with the cancelled context), the queued messages stay counted for ever: a state is
   reached in which no goroutine can step, two messages are queued, inflight = 2, the latch is
   open *)
Theorem drain_needed_refuted :
  exists s,
    s = run_nodrain (init 2 1 [(0, [Msg 1 []; Msg 1 []])])
          ([TP 4; TP 4; TP 4; TP 4; TP 4; TP 4; TC] ++
           flat_map (fun _ => [TP 0; TP 1; TP 2; TP 3; TM 0; TM 1]) (seq 0 30)) /\
    (forall t, t <> TC -> step_nodrain s t = None) /\
    final s = false /\ sp_quiet (st_pool s) = false /\ st_cancel s = true /\
    length (st_flight s) = 2 /\ sp_inflight (st_pool s) = 2%Z.
Proof. exists nd_state. split; [reflexivity|exact nodrain_wedge_l]. Qed.
Print Assumptions drain_needed_refuted.
