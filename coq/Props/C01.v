From OFGA Require Import Check.V1.
Example placeholder : or3 T E = T. Proof. reflexivity. Qed.
