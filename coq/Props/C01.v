(* C01: Check decisions match the model's relation semantics.

   Statements only.  Models: Sem/{B3,Vocab,Valid,Semantics}.v (reference semantics holds3 = Kleene
   least fixpoint, stratum by stratum) and Check/V1.v (algorithm model of the default engine,
   outcome SETS, trigger flags for the two reproduced defects).  Proofs: Sem/B3Proofs.v,
   Sem/SemProofs.v, Check/V1Proofs.v.

   What is proved (for ALL models / stores / requests / fuels / depths unless a hypothesis says
   otherwise):
     A. Kleene algebra; arrival order of children is irrelevant to or3_list / and3_list.
     B. The engine's reducers compute Kleene or / and / difference on outcome sets, for every
        arrival order; `exclusion` deviates exactly when the subtract branch reports
        "denied + CycleDetected" (F1) -- excl2_kleene_partial + excl2_deviation_iff.
     C. The reference semantics is well defined: a reported convergence is a fixpoint; for
        models without difference the iteration converges within the fuel it is given and is
        the least pre-fixpoint; holds3 ignores invalid tuples and the order of the store, and is
        monotone in the tuple set (positive fragment).
     D. Algorithm versus specification: every `allowed` the engine can return for a model
        without difference is forced by the least fixpoint (check_sound_positive_holds3), with
        conditional tuples in all three states, for every depth limit, PathExists pruning,
        visited path and fuel; the model's fuel bound (check_no_fuel).
     E. The full statement C01_full_statement is REFUTED by the faithful model with the two
        witnesses of checks/C01.findings.json (each raises its trigger flag).
     F. (second part, Check/V1Exact.v, building on Check/QueryCacheProofs.v) Every DECISION is
        the reference semantics' decision: for stratified models with union, intersection,
        exclusion and conditions, any fuel and depth limit, a run that did not drop a condition
        error (tr_swallow = false): `allowed` => holds3 = T and `denied without cycle flag` =>
        holds3 = F (check_exact_partial, C01_decision_correct_partial, C01_full_partial).  The
        F1 trigger need not be excluded: a cycle cut only ever yields "denied WITH cycle flag",
        which is kept apart from a definite denial by every reducer.  For models without
        difference `allowed` is exact (C01_allowed_exact_positive: completeness through the
        path-free unfolding and the path-cut completeness theorem of C08), so a top-level
        "denied with cycle flag" is then a correct denial (C01_cycle_denial_positive); for every
        model it means that no unfolding up to the fuel / depth determines the answer
        (top_no_decision_undetermined).  Condition errors come from a valid tuple whose
        condition cannot be evaluated; depth errors from reaching the limit.
   What is NOT proved: completeness under a difference (holds3 = T => `allowed`, and holds3 = F
   => some denial) for stratified models -- it is FALSE of the code as it is (F1: a cycle in the
   subtract branch turns `allowed` into "denied with cycle flag"); the exact statement that
   would hold under tr_excl_sub_cycle = false and an error-free run is not proved.  Hence a
   top-level "denied with cycle flag" of a model WITH difference is not characterised beyond
   top_no_decision_undetermined. *)
From Coq Require Import List Bool Arith NArith Permutation.
From OFGA Require Import Sem.B3 Sem.B3Proofs Sem.Vocab Sem.Valid Sem.Semantics Sem.SemProofs
  Check.V1 Check.V1Proofs Check.QueryCacheProofs Check.V1Exact.
Import ListNotations.
Open Scope N_scope.

(* ================================================================== *)
(* A. Kleene logic                                                     *)
(* ================================================================== *)

Theorem or3_comm : forall a b, or3 a b = or3 b a.
Proof. exact B3Proofs.or3_comm. Qed.
Print Assumptions or3_comm.
Theorem or3_assoc : forall a b c, or3 a (or3 b c) = or3 (or3 a b) c.
Proof. exact B3Proofs.or3_assoc. Qed.
Print Assumptions or3_assoc.
Theorem or3_idem : forall a, or3 a a = a.
Proof. exact B3Proofs.or3_idem. Qed.
Print Assumptions or3_idem.
Theorem or3_F_l : forall a, or3 F a = a.
Proof. exact B3Proofs.or3_F_l. Qed.
Print Assumptions or3_F_l.
Theorem or3_T_l : forall a, or3 T a = T.
Proof. exact B3Proofs.or3_T_l. Qed.
Print Assumptions or3_T_l.
Example or3_ex : or3 E T = T /\ or3 E F = E /\ or3 F F = F /\ or3 E E = E.
Proof. repeat split; reflexivity. Qed.

Theorem and3_comm : forall a b, and3 a b = and3 b a.
Proof. exact B3Proofs.and3_comm. Qed.
Print Assumptions and3_comm.
Theorem and3_assoc : forall a b c, and3 a (and3 b c) = and3 (and3 a b) c.
Proof. exact B3Proofs.and3_assoc. Qed.
Print Assumptions and3_assoc.
Theorem and3_idem : forall a, and3 a a = a.
Proof. exact B3Proofs.and3_idem. Qed.
Print Assumptions and3_idem.
Theorem and3_T_l : forall a, and3 T a = a.
Proof. exact B3Proofs.and3_T_l. Qed.
Print Assumptions and3_T_l.
Theorem and3_F_l : forall a, and3 F a = F.
Proof. exact B3Proofs.and3_F_l. Qed.
Print Assumptions and3_F_l.
Example and3_ex : and3 E F = F /\ and3 E T = E /\ and3 T T = T /\ and3 E E = E.
Proof. repeat split; reflexivity. Qed.

Theorem or3_and3_absorb : forall a b, or3 a (and3 a b) = a.
Proof. exact B3Proofs.or3_and3_absorb. Qed.
Print Assumptions or3_and3_absorb.
Theorem and3_or3_absorb : forall a b, and3 a (or3 a b) = a.
Proof. exact B3Proofs.and3_or3_absorb. Qed.
Print Assumptions and3_or3_absorb.
Theorem and3_or3_distr : forall a b c, and3 a (or3 b c) = or3 (and3 a b) (and3 a c).
Proof. exact B3Proofs.and3_or3_distr. Qed.
Print Assumptions and3_or3_distr.

Theorem de_morgan_or3 : forall a b, not3 (or3 a b) = and3 (not3 a) (not3 b).
Proof. exact B3Proofs.de_morgan_or3. Qed.
Print Assumptions de_morgan_or3.
Theorem de_morgan_and3 : forall a b, not3 (and3 a b) = or3 (not3 a) (not3 b).
Proof. exact B3Proofs.de_morgan_and3. Qed.
Print Assumptions de_morgan_and3.
Theorem not3_invol : forall a, not3 (not3 a) = a.
Proof. exact B3Proofs.not3_invol. Qed.
Print Assumptions not3_invol.
Theorem diff3_T_iff : forall b s, diff3 b s = T <-> b = T /\ s = F.
Proof. exact B3Proofs.diff3_T_iff. Qed.
Print Assumptions diff3_T_iff.
Example diff3_ex : diff3 T F = T /\ diff3 T E = E /\ diff3 T T = F /\ diff3 F E = F /\ diff3 E F = E.
Proof. repeat split; reflexivity. Qed.

(* arrival order of goroutine results cannot matter to the specification *)
Theorem or3_list_perm : forall l l', Permutation l l' -> or3_list l = or3_list l'.
Proof. exact B3Proofs.or3_list_perm. Qed.
Print Assumptions or3_list_perm.
Example or3_list_perm_ex :
  Permutation [E; F; T; E] [T; E; E; F] /\ or3_list [E; F; T; E] = T /\ or3_list [T; E; E; F] = T.
Proof.
  split; [|split; reflexivity].
  apply Permutation_trans with (l' := [E; T; F; E]).
  - apply perm_skip. apply perm_swap.
  - apply Permutation_trans with (l' := [T; E; F; E]); [apply perm_swap|].
    apply perm_skip. apply perm_skip. apply perm_swap.
Qed.
Theorem and3_list_perm : forall l l', Permutation l l' -> and3_list l = and3_list l'.
Proof. exact B3Proofs.and3_list_perm. Qed.
Print Assumptions and3_list_perm.
Example and3_list_perm_ex : Permutation [E; T; F] [E; F; T] /\ and3_list [E; T; F] = F.
Proof. split; [apply perm_skip; apply perm_swap | reflexivity]. Qed.

Theorem or3_list_T_iff : forall l, or3_list l = T <-> In T l.
Proof. exact B3Proofs.or3_list_T_iff. Qed.
Print Assumptions or3_list_T_iff.
Theorem and3_list_F_iff : forall l, and3_list l = F <-> In F l.
Proof. exact B3Proofs.and3_list_F_iff. Qed.
Print Assumptions and3_list_F_iff.

(* the truth order F < E < T *)
Theorem le3_refl : forall a, le3 a a = true.
Proof. exact B3Proofs.le3_refl. Qed.
Print Assumptions le3_refl.
Theorem le3_trans : forall a b c, le3 a b = true -> le3 b c = true -> le3 a c = true.
Proof. exact B3Proofs.le3_trans. Qed.
Print Assumptions le3_trans.
Theorem le3_antisym : forall a b, le3 a b = true -> le3 b a = true -> a = b.
Proof. exact B3Proofs.le3_antisym. Qed.
Print Assumptions le3_antisym.
Example le3_ex : le3 F E = true /\ le3 E T = true /\ le3 F T = true /\ le3 T E = false /\ le3 E F = false.
Proof. repeat split; reflexivity. Qed.

Theorem or3_mono : forall a a' b b',
  le3 a a' = true -> le3 b b' = true -> le3 (or3 a b) (or3 a' b') = true.
Proof. exact B3Proofs.or3_mono. Qed.
Print Assumptions or3_mono.
Theorem and3_mono : forall a a' b b',
  le3 a a' = true -> le3 b b' = true -> le3 (and3 a b) (and3 a' b') = true.
Proof. exact B3Proofs.and3_mono. Qed.
Print Assumptions and3_mono.
Theorem not3_anti : forall a b, le3 a b = true -> le3 (not3 b) (not3 a) = true.
Proof. exact B3Proofs.not3_anti. Qed.
Print Assumptions not3_anti.
Theorem diff3_mono_anti : forall b b' s s',
  le3 b b' = true -> le3 s' s = true -> le3 (diff3 b s) (diff3 b' s') = true.
Proof. exact B3Proofs.diff3_mono_anti. Qed.
Print Assumptions diff3_mono_anti.
Example mono_ex :
  le3 F E = true /\ le3 E T = true /\ le3 (or3 F E) (or3 E T) = true /\
  le3 (and3 F E) (and3 E T) = true /\ le3 (not3 E) (not3 F) = true.
Proof. repeat split; reflexivity. Qed.

(* ================================================================== *)
(* B. the reducers of internal/graph/check.go                          *)
(* ================================================================== *)

Theorem In_lift2 : forall op x A B,
  In x (lift2 op A B) <-> exists a b, In a A /\ In b B /\ In x (op a b).
Proof. exact V1Proofs.In_lift2. Qed.
Print Assumptions In_lift2.

Theorem reducers_kleene_union : forall A B,
  (forall x, In x (lift2 union2 A B) -> exists a b, In a A /\ In b B /\ val x = or3 (val a) (val b)) /\
  (forall a b, In a A -> In b B -> exists x, In x (lift2 union2 A B) /\ val x = or3 (val a) (val b)).
Proof. exact V1Proofs.reducers_kleene_union. Qed.
Print Assumptions reducers_kleene_union.
Example reducers_kleene_union_ex :
  lift2 union2 [AFn; AEc] [AFc; AEd] = [AFc; AEd; AEc] /\ lift2 union2 [AEc] [AT] = [AT].
Proof. split; reflexivity. Qed.

Theorem reducers_kleene_inter : forall A B,
  (forall x, In x (lift2 inter2 A B) -> exists a b, In a A /\ In b B /\ val x = and3 (val a) (val b)) /\
  (forall a b, In a A -> In b B -> exists x, In x (lift2 inter2 A B) /\ val x = and3 (val a) (val b)).
Proof. exact V1Proofs.reducers_kleene_inter. Qed.
Print Assumptions reducers_kleene_inter.
Example reducers_kleene_inter_ex :
  lift2 inter2 [AT; AEc] [AFc; AT] = [AFc; AT; AEc] /\ lift2 inter2 [AFn] [AFc] = [AFn; AFc].
Proof. split; reflexivity. Qed.

(* exclusion = Kleene difference, EXCEPT for a subtract branch that is "denied, cycle" (F1) *)
Theorem excl2_kleene_partial : forall A B,
  omem AFc B = false ->
  (forall x, In x (lift2 excl2 A B) -> exists a b, In a A /\ In b B /\ val x = diff3 (val a) (val b)) /\
  (forall a b, In a A -> In b B -> exists x, In x (lift2 excl2 A B) /\ val x = diff3 (val a) (val b)).
Proof. exact V1Proofs.excl2_kleene_partial. Qed.
Print Assumptions excl2_kleene_partial.
Example excl2_kleene_partial_ex :
  omem AFc [AFn; AEc; AT] = false /\ lift2 excl2 [AT; AEd] [AFn; AEc; AT] = [AT; AEc; AFn; AEd].
Proof. split; reflexivity. Qed.

Theorem excl2_sub_cycle_refuted :
  exists a b x, In x (excl2 a b) /\ val x <> diff3 (val a) (val b).
Proof. exact V1Proofs.excl2_sub_cycle_refuted. Qed.
Print Assumptions excl2_sub_cycle_refuted.

Theorem excl2_deviation_iff : forall a b,
  (exists x, In x (excl2 a b) /\ val x <> diff3 (val a) (val b)) <->
  (b = AFc /\ is_false a = false).
Proof. exact V1Proofs.excl2_deviation_iff. Qed.
Print Assumptions excl2_deviation_iff.
Example excl2_deviation_ex : excl2 AT AFc = [AFc] /\ diff3 (val AT) (val AFc) = T /\ excl2 AEc AFc = [AFc].
Proof. repeat split; reflexivity. Qed.

(* a child that reports an error instead of its true value never corrupts a decision *)
Theorem or3_refines : forall a a' b b', refines a a' -> refines b b' -> refines (or3 a b) (or3 a' b').
Proof. exact B3Proofs.or3_refines. Qed.
Print Assumptions or3_refines.
Theorem and3_refines : forall a a' b b', refines a a' -> refines b b' -> refines (and3 a b) (and3 a' b').
Proof. exact B3Proofs.and3_refines. Qed.
Print Assumptions and3_refines.
Theorem diff3_refines : forall a a' b b', refines a a' -> refines b b' -> refines (diff3 a b) (diff3 a' b').
Proof. exact B3Proofs.diff3_refines. Qed.
Print Assumptions diff3_refines.
Theorem lift2_union2_refines : forall A B ta tb,
  all_refine A ta -> all_refine B tb -> all_refine (lift2 union2 A B) (or3 ta tb).
Proof. exact V1Proofs.lift2_union2_refines. Qed.
Print Assumptions lift2_union2_refines.
Theorem lift2_inter2_refines : forall A B ta tb,
  all_refine A ta -> all_refine B tb -> all_refine (lift2 inter2 A B) (and3 ta tb).
Proof. exact V1Proofs.lift2_inter2_refines. Qed.
Print Assumptions lift2_inter2_refines.
Theorem lift2_excl2_refines_partial : forall A B ta tb,
  omem AFc B = false ->
  all_refine A ta -> all_refine B tb -> all_refine (lift2 excl2 A B) (diff3 ta tb).
Proof. exact V1Proofs.lift2_excl2_refines_partial. Qed.
Print Assumptions lift2_excl2_refines_partial.
(* depth error in one child, true value T; the other child denies: the union may only report the
   error (never a wrong decision); the intersection may decide `denied`, which is right *)
Example refines_ex :
  refines E T /\ refines F F /\ ~ refines F T /\
  all_refine [AEd] T /\ all_refine [AFn] F /\
  lift2 union2 [AEd] [AFn] = [AEd] /\ lift2 inter2 [AEd] [AFn] = [AFn].
Proof.
  split; [left; reflexivity|]. split; [right; reflexivity|].
  split; [intros [H|H]; discriminate H|].
  split; [intros x [H|[]]; subst x; left; reflexivity|].
  split; [intros x [H|[]]; subst x; right; reflexivity|].
  split; reflexivity.
Qed.

(* arrival order: the outcome SET is independent of it *)
Theorem lift2_union2_comm : forall A B, seteq (lift2 union2 A B) (lift2 union2 B A).
Proof. exact V1Proofs.lift2_union2_comm. Qed.
Print Assumptions lift2_union2_comm.
Theorem lift2_union2_assoc : forall A B C,
  seteq (lift2 union2 (lift2 union2 A B) C) (lift2 union2 A (lift2 union2 B C)).
Proof. exact V1Proofs.lift2_union2_assoc. Qed.
Print Assumptions lift2_union2_assoc.
Theorem lift2_inter2_comm : forall A B, seteq (lift2 inter2 A B) (lift2 inter2 B A).
Proof. exact V1Proofs.lift2_inter2_comm. Qed.
Print Assumptions lift2_inter2_comm.
Theorem lift2_inter2_assoc : forall A B C,
  seteq (lift2 inter2 (lift2 inter2 A B) C) (lift2 inter2 A (lift2 inter2 B C)).
Proof. exact V1Proofs.lift2_inter2_assoc. Qed.
Print Assumptions lift2_inter2_assoc.
Theorem union_fold_perm : forall l l',
  Permutation l l' -> seteq (fold_op union2 [AFn] l) (fold_op union2 [AFn] l').
Proof. exact V1Proofs.union_fold_perm. Qed.
Print Assumptions union_fold_perm.
Theorem inter_fold_perm : forall l l',
  Permutation l l' -> seteq (fold_op inter2 [AT] l) (fold_op inter2 [AT] l').
Proof. exact V1Proofs.inter_fold_perm. Qed.
Print Assumptions inter_fold_perm.
Example fold_perm_ex :
  Permutation [[AEc]; [AFc]; [AEd]] [[AFc]; [AEc]; [AEd]] /\
  fold_op union2 [AFn] [[AEc]; [AFc]; [AEd]] = [AEc; AEd] /\
  fold_op union2 [AFn] [[AFc]; [AEc]; [AEd]] = [AEc; AEd].
Proof. split; [apply perm_swap | split; reflexivity]. Qed.

Theorem union_fold_val : forall (l : list oset) (vs : list b3),
  Forall2 all_val l vs -> all_val (fold_op union2 [AFn] l) (or3_list vs).
Proof. exact V1Proofs.union_fold_val. Qed.
Print Assumptions union_fold_val.
Theorem inter_fold_val : forall (l : list oset) (vs : list b3),
  Forall2 all_val l vs -> all_val (fold_op inter2 [AT] l) (and3_list vs).
Proof. exact V1Proofs.inter_fold_val. Qed.
Print Assumptions inter_fold_val.
Example fold_val_ex : Forall2 all_val [[AFn; AFc]; [AEc; AEd]] [F; E].
Proof.
  constructor; [|constructor; [|constructor]].
  - intros x [H|[H|[]]]; subst x; reflexivity.
  - intros x [H|[H|[]]]; subst x; reflexivity.
Qed.

Theorem union_all_early_exit : forall hs,
  (forall h, In h hs -> fst (h tt) <> []) ->
  seteq (fst (union_all hs)) (fst (union_all_full hs)).
Proof. exact V1Proofs.union_all_early_exit. Qed.
Print Assumptions union_all_early_exit.
Example union_all_early_exit_ex :
  fst (union_all [fun _ => ([AT], notrig); fun _ => ([AEc; AFc], notrig)]) = [AT] /\
  fst (union_all_full [fun _ => ([AT], notrig); fun _ => ([AEc; AFc], notrig)]) = [AT].
Proof. split; reflexivity. Qed.

(* ================================================================== *)
(* C. the reference semantics is well defined                          *)
(* ================================================================== *)

Theorem lfp_at_fixpoint : forall m conds store subj atoms k fuel v v',
  lfp_at m conds store subj atoms k fuel v = (v', true) ->
  forall a, vget (step_at m conds store subj atoms k v') a = vget v' a.
Proof. exact SemProofs.lfp_at_fixpoint. Qed.
Print Assumptions lfp_at_fixpoint.
Example lfp_at_fixpoint_ex :
  snd (lfp_at f1_model [] f1_store f1_subj f1_atoms 0 12 []) = true /\
  snd (lfp_at f1_model [] f1_store f1_subj f1_atoms 1 12
         (fst (lfp_at f1_model [] f1_store f1_subj f1_atoms 0 12 []))) = true.
Proof. split; vm_compute; reflexivity. Qed.

Theorem eval_rw_mono : forall m conds subj s1 s2 v w,
  store_incl m conds s1 s2 -> vle v w ->
  forall o r rw, positive_rw rw = true ->
  le3 (eval_rw m conds s1 subj v o r rw) (eval_rw m conds s2 subj w o r rw) = true.
Proof. exact SemProofs.eval_rw_mono. Qed.
Print Assumptions eval_rw_mono.
Example eval_rw_mono_ex :
  positive_rw (Union [Computed 2; Computed 4; TTU 3 2]) = true /\
  positive_rw (Inter [Computed 4; Diff This (Computed 5)]) = false /\
  vle [] [((mk_obj 4 1, 2), E)].
Proof. split; [reflexivity | split; [reflexivity | intro a; apply B3Proofs.le3_F_l]]. Qed.

Theorem lfp_at_converges : forall m conds store subj atoms,
  positive_model m = true ->
  forall k fuel, (2 * length (atoms_at m atoms k) + 1 <= fuel)%nat ->
  snd (lfp_at m conds store subj atoms k fuel []) = true.
Proof. exact SemProofs.lfp_at_converges. Qed.
Print Assumptions lfp_at_converges.

Theorem positive_stratified : forall m, positive_model m = true -> stratified m = true.
Proof. exact SemProofs.positive_stratified. Qed.
Print Assumptions positive_stratified.

Theorem converged_positive : forall m,
  positive_model m = true ->
  forall conds store subj atoms, converged m conds store subj atoms = true.
Proof. exact SemProofs.converged_positive. Qed.
Print Assumptions converged_positive.
Example positive_model_ex :
  positive_model ex_model = true /\ positive_model f1_model = false /\
  length (atoms_at ex_model ex_atoms 0) = 8%nat.
Proof. repeat split; reflexivity. Qed.

Theorem lfp_least : forall m,
  positive_model m = true ->
  forall conds store subj atoms w,
    (forall a, In a atoms -> le3 (eval_atom m conds store subj w a) (vget w a) = true) ->
    vle (fst (lfp m conds store subj atoms)) w.
Proof. exact SemProofs.lfp_least. Qed.
Print Assumptions lfp_least.

Theorem positive_lfp_fixpoint_all : forall m conds store subj atoms,
  universe_ok m conds store subj atoms = true ->
  no_empty_inter_model m = true ->
  positive_model m = true ->
  forall a, eval_atom m conds store subj (fst (lfp m conds store subj atoms)) a =
            vget (fst (lfp m conds store subj atoms)) a.
Proof. exact SemProofs.positive_lfp_fixpoint_all. Qed.
Print Assumptions positive_lfp_fixpoint_all.
Example universe_ex :
  universe_ok ex_model [1] (ex_store ++ ex_bad) ex_subj ex_atoms = true /\
  no_empty_inter_model ex_model = true /\
  universe_ok ex_model [1] ex_store ex_subj [(mk_obj 4 1, 6)] = false.
Proof. repeat split; vm_compute; reflexivity. Qed.

Theorem holds3_invalid_ignored : forall m conds subj atoms s1 bad s2 o r,
  (forall t, In t bad -> valid_for_read m conds t = false) ->
  holds3 m conds (s1 ++ bad ++ s2) subj atoms o r = holds3 m conds (s1 ++ s2) subj atoms o r.
Proof. exact SemProofs.holds3_invalid_ignored. Qed.
Print Assumptions holds3_invalid_ignored.
Example holds3_invalid_ignored_ex :
  forallb (fun t => negb (valid_for_read ex_model [1] t)) ex_bad = true /\ ex_bad <> [] /\
  forallb (valid_for_read ex_model [1]) ex_store = true.
Proof. split; [vm_compute; reflexivity | split; [discriminate | vm_compute; reflexivity]]. Qed.

Theorem holds3_store_perm : forall m conds subj atoms s1 s2 o r,
  Permutation s1 s2 ->
  holds3 m conds s1 subj atoms o r = holds3 m conds s2 subj atoms o r.
Proof. exact SemProofs.holds3_store_perm. Qed.
Print Assumptions holds3_store_perm.
Example holds3_store_perm_ex :
  Permutation f1_store (rev f1_store) /\
  holds3 f1_model [] (rev f1_store) f1_subj f1_atoms (mk_obj 4 1) 4 = T.
Proof. split; [apply Permutation_rev | vm_compute; reflexivity]. Qed.

Theorem holds3_mono_tuples : forall m conds subj atoms,
  positive_model m = true ->
  forall s1 s2 o r,
    store_incl m conds s1 s2 ->
    le3 (holds3 m conds s1 subj atoms o r) (holds3 m conds s2 subj atoms o r) = true.
Proof. exact SemProofs.holds3_mono_tuples. Qed.
Print Assumptions holds3_mono_tuples.
Theorem holds3_mono_add : forall m conds subj atoms,
  positive_model m = true ->
  forall s extra o r,
    le3 (holds3 m conds s subj atoms o r) (holds3 m conds (s ++ extra) subj atoms o r) = true.
Proof. exact SemProofs.holds3_mono_add. Qed.
Print Assumptions holds3_mono_add.
(* without the group:1#member@user:1 tuple nothing reaches doc:1#viewer; with it the value is T *)
Example holds3_mono_add_ex :
  holds3 ex_model [1] (tl ex_store) ex_subj ex_atoms (mk_obj 4 1) 2 = F /\
  holds3 ex_model [1] (tl ex_store ++ [hd (mk_tuple (mk_obj 0 0) 0 (SWild 0) 0 F) ex_store])
         ex_subj ex_atoms (mk_obj 4 1) 2 = T.
Proof. split; vm_compute; reflexivity. Qed.

(* ================================================================== *)
(* D. algorithm versus specification                                   *)
(* ================================================================== *)

Theorem check_no_fuel : forall m conds store subj pathx maxdepth fuel o r,
  ((maxdepth + 1) * (max_rels m + 2) <= fuel)%nat ->
  ~ In AFuel (fst (check_top m conds store subj pathx maxdepth fuel o r)).
Proof. exact V1Proofs.check_no_fuel. Qed.
Print Assumptions check_no_fuel.
Example check_no_fuel_ex :
  max_rels ex_model = 5%nat /\
  fst (check_top ex_model [1] ex_store ex_subj ex_pathx 3 28 (mk_obj 4 1) 6) = [AT] /\
  fst (check_top ex_model [1] ex_store ex_subj ex_pathx 3 2 (mk_obj 4 1) 6) = [AFuel].
Proof. repeat split; vm_compute; reflexivity. Qed.

(* the outcome set is never empty (so the early exit of union_all is unobservable in `check`) *)
Theorem check_nonempty : forall m conds store subj pathx maxdepth fuel depth visited o r,
  fst (check m conds store subj pathx maxdepth fuel depth visited o r) <> [].
Proof. exact V1Proofs.check_nonempty. Qed.
Print Assumptions check_nonempty.

(* every `allowed` is forced in every pre-fixpoint of the specification's step operator *)
Theorem check_sound_positive : forall m conds store subj pathx maxdepth v,
  positive_model m = true ->
  (forall a, le3 (eval_atom m conds store subj v a) (vget v a) = true) ->
  forall fuel depth visited o r,
    In AT (fst (check m conds store subj pathx maxdepth fuel depth visited o r)) ->
    atomval subj v o r = T.
Proof. exact V1Proofs.check_sound_positive. Qed.
Print Assumptions check_sound_positive.

Theorem check_sound_positive_holds3 :
  forall m conds store subj pathx maxdepth atoms fuel o r,
    positive_model m = true ->
    no_empty_inter_model m = true ->
    universe_ok m conds store subj atoms = true ->
    In AT (fst (check_top m conds store subj pathx maxdepth fuel o r)) ->
    holds3 m conds store subj atoms o r = T.
Proof. exact V1Proofs.check_sound_positive_holds3. Qed.
Print Assumptions check_sound_positive_holds3.
(* the hypotheses hold of a model with union, intersection, tuple-to-userset, wildcard, a tuple
   cycle, conditions in all three states and an invalid tuple; Check returns `allowed` (and
   the F2 trigger is raised on the way: soundness of `allowed` does not depend on it) *)
Example check_sound_positive_holds3_ex :
  positive_model ex_model = true /\ no_empty_inter_model ex_model = true /\
  universe_ok ex_model [1] (ex_store ++ ex_bad) ex_subj ex_atoms = true /\
  check_top ex_model [1] (ex_store ++ ex_bad) ex_subj ex_pathx 25 30 (mk_obj 4 1) 6 =
    ([AT], {| tr_excl_sub_cycle := false; tr_swallow := true |}) /\
  holds3 ex_model [1] (ex_store ++ ex_bad) ex_subj ex_atoms (mk_obj 4 1) 6 = T /\
  holds3 ex_model [1] (ex_store ++ ex_bad) ex_subj ex_atoms (mk_obj 4 1) 3 = F.
Proof. repeat split; vm_compute; reflexivity. Qed.

Theorem C01_allowed_positive_partial :
  forall m conds store subj pathx atoms maxdepth fuel o r,
    positive_model m = true ->
    no_empty_inter_model m = true ->
    universe_ok m conds store subj atoms = true ->
    In AT (fst (check_top m conds store subj pathx maxdepth fuel o r)) ->
    decision_agrees AT (holds3 m conds store subj atoms o r) /\
    stratified m = true /\ converged m conds store subj atoms = true.
Proof. exact V1Proofs.C01_allowed_positive_partial. Qed.
Print Assumptions C01_allowed_positive_partial.

(* ================================================================== *)
(* E. the full statement is false of the code as it is                  *)
(* ================================================================== *)

Theorem C01_refuted_excl_sub_cycle :
  exists m conds store subj pathx atoms o r,
    stratified m = true /\
    converged m conds store subj atoms = true /\
    universe_ok m conds store subj atoms = true /\
    pathx_full m pathx = true /\
    forallb (valid_for_read m conds) store = true /\
    check_top m conds store subj pathx 25 30 o r =
      ([AFc], {| tr_excl_sub_cycle := true; tr_swallow := false |}) /\
    holds3 m conds store subj atoms o r = T.
Proof. exact V1Proofs.C01_refuted_excl_sub_cycle. Qed.
Print Assumptions C01_refuted_excl_sub_cycle.

Theorem C01_refuted_cond_err_swallowed :
  exists m conds store subj pathx atoms o r,
    stratified m = true /\
    converged m conds store subj atoms = true /\
    universe_ok m conds store subj atoms = true /\
    pathx_full m pathx = true /\
    forallb (valid_for_read m conds) store = true /\
    check_top m conds store subj pathx 25 30 o r =
      ([AT], {| tr_excl_sub_cycle := false; tr_swallow := true |}) /\
    holds3 m conds store subj atoms o r = E.
Proof. exact V1Proofs.C01_refuted_cond_err_swallowed. Qed.
Print Assumptions C01_refuted_cond_err_swallowed.

Theorem C01_full_refuted : ~ C01_full_statement.
Proof. exact V1Proofs.C01_full_refuted. Qed.
Print Assumptions C01_full_refuted.

(* ================================================================== *)
(* F. every decision is the reference semantics' decision               *)
(* ================================================================== *)

(* the stratified reference valuation is a fixpoint of the one-step operator on ALL atoms *)
Theorem stratified_lfp_fixpoint_all : forall m conds store subj atoms,
  stratified m = true ->
  converged m conds store subj atoms = true ->
  universe_ok m conds store subj atoms = true ->
  no_empty_inter_model m = true ->
  forall a, eval_atom m conds store subj (fst (lfp m conds store subj atoms)) a =
            vget (fst (lfp m conds store subj atoms)) a.
Proof. exact V1Exact.stratified_lfp_fixpoint_all. Qed.
Print Assumptions stratified_lfp_fixpoint_all.

(* no dependency of a relation is above it; one under a subtract is strictly below *)
Theorem deps_level : forall m,
  stratified m = true ->
  forall t r rd t' r' neg,
    get_relation m t r = Some rd ->
    In (t', r', neg) (deps m t rd false (rd_rw rd)) ->
    (lvl_get (final_levels m) t' r' + (if neg then 1 else 0) <= lvl_get (final_levels m) t r)%nat.
Proof. exact V1Exact.deps_level. Qed.
Print Assumptions deps_level.
Example deps_level_ex :
  stratified f1_model = true /\
  lvl_get (final_levels f1_model) 4 4 = 1%nat /\ lvl_get (final_levels f1_model) 4 3 = 0%nat /\
  deps f1_model 4 (mk_rel 4 (Diff (Computed 2) (Computed 3)) []) false (Diff (Computed 2) (Computed 3))
    = [(4, 2, false); (4, 3, true)].
Proof. repeat split; vm_compute; reflexivity. Qed.

(* definite outcomes are sound in EVERY total fixpoint, for every model, fuel, depth, path *)
Theorem check_definite_sound : forall m conds store subj pathx maxdepth v,
  (forall a, eval_atom m conds store subj v a = vget v a) ->
  keys_unique store ->
  (forall o r, rel_defined m (otype o) r = true -> path_exists pathx (otype o) r = false ->
               atomval subj v o r = F) ->
  forall fuel depth visited o r,
    swf (check m conds store subj pathx maxdepth fuel depth visited o r) ->
    sound_set (fst (check m conds store subj pathx maxdepth fuel depth visited o r)) (atomval subj v o r).
Proof. exact V1Exact.check_definite_sound. Qed.
Print Assumptions check_definite_sound.

Theorem keys_ok_unique : forall l, keys_ok l = true -> keys_unique l.
Proof. exact V1Exact.keys_ok_unique. Qed.
Print Assumptions keys_ok_unique.

Theorem check_exact_partial :
  forall m conds store subj pathx atoms maxdepth fuel o r,
    C01_setting m conds store subj pathx atoms ->
    tr_swallow (snd (check_top m conds store subj pathx maxdepth fuel o r)) = false ->
    (In AT (fst (check_top m conds store subj pathx maxdepth fuel o r)) ->
       holds3 m conds store subj atoms o r = T) /\
    (In AFn (fst (check_top m conds store subj pathx maxdepth fuel o r)) ->
       holds3 m conds store subj atoms o r = F).
Proof. exact V1Exact.check_exact_partial. Qed.
Print Assumptions check_exact_partial.

Theorem C01_decision_correct_partial :
  forall m conds store subj pathx atoms maxdepth fuel o r,
    C01_setting m conds store subj pathx atoms ->
    tr_swallow (snd (check_top m conds store subj pathx maxdepth fuel o r)) = false ->
    (fst (check_top m conds store subj pathx maxdepth fuel o r) = [AT] ->
       holds3 m conds store subj atoms o r = T) /\
    (fst (check_top m conds store subj pathx maxdepth fuel o r) = [AFn] ->
       holds3 m conds store subj atoms o r = F).
Proof. exact V1Exact.C01_decision_correct_partial. Qed.
Print Assumptions C01_decision_correct_partial.
(* a model WITH exclusion (doc.viewer: owner but not blocked): user:1 is owner and not blocked
   => {allowed}, reference T; user:2 is owner and blocked through group:1 => {denied}, reference F;
   no trigger is raised *)
Example C01_decision_correct_ex :
  C01_setting f1_model [] dx_store dx_subj1 f1_pathx dx_atoms /\
  C01_setting f1_model [] dx_store dx_subj2 f1_pathx dx_atoms /\
  check_top f1_model [] dx_store dx_subj1 f1_pathx 25 30 (mk_obj 4 1) 4 = ([AT], notrig) /\
  holds3 f1_model [] dx_store dx_subj1 dx_atoms (mk_obj 4 1) 4 = T /\
  check_top f1_model [] dx_store dx_subj2 f1_pathx 25 30 (mk_obj 4 1) 4 = ([AFn], notrig) /\
  holds3 f1_model [] dx_store dx_subj2 dx_atoms (mk_obj 4 1) 4 = F.
Proof.
  split; [apply C01_setting_intro; vm_compute; reflexivity|].
  split; [apply C01_setting_intro; vm_compute; reflexivity|].
  repeat split; vm_compute; reflexivity.
Qed.
(* the hypothesis tr_swallow = false cannot be dropped, in either direction: on the F2 witness
   the run raises the flag, doc:1#blocked is {denied} and doc:1#allowed is {allowed}, while the
   reference value of both is E *)
Example C01_decision_swallow_needed_ex :
  C01_setting f2_model [1] f2_store f2_subj f2_pathx f2_atoms /\
  check_top f2_model [1] f2_store f2_subj f2_pathx 25 30 (mk_obj 3 1) 3 =
    ([AFn], {| tr_excl_sub_cycle := false; tr_swallow := true |}) /\
  holds3 f2_model [1] f2_store f2_subj f2_atoms (mk_obj 3 1) 3 = E.
Proof.
  split; [apply C01_setting_intro; vm_compute; reflexivity|]. split; vm_compute; reflexivity.
Qed.

(* C01_full_statement minus exactly the two findings *)
Theorem C01_full_partial :
  forall m conds store subj pathx atoms maxdepth fuel o r x,
    C01_setting m conds store subj pathx atoms ->
    tr_swallow (snd (check_top m conds store subj pathx maxdepth fuel o r)) = false ->
    x <> AFc ->
    In x (fst (check_top m conds store subj pathx maxdepth fuel o r)) ->
    decision_agrees x (holds3 m conds store subj atoms o r).
Proof. exact V1Exact.C01_full_partial. Qed.
Print Assumptions C01_full_partial.
(* the F1 witness satisfies every hypothesis except x <> AFc *)
Example C01_full_partial_ex :
  C01_setting f1_model [] f1_store f1_subj f1_pathx f1_atoms /\
  tr_swallow (snd (check_top f1_model [] f1_store f1_subj f1_pathx 25 30 (mk_obj 4 1) 4)) = false /\
  fst (check_top f1_model [] f1_store f1_subj f1_pathx 25 30 (mk_obj 4 1) 4) = [AFc].
Proof.
  split; [apply C01_setting_intro; vm_compute; reflexivity|]. split; vm_compute; reflexivity.
Qed.

(* positive fragment: the reference semantics grants => Check answers `allowed` *)
Theorem lfp_T_unfolded : forall m conds store subj pathx,
  keys_unique store -> pathx_full m pathx = true -> positive_model m = true ->
  forall atoms o r,
    holds3 m conds store subj atoms o r = T ->
    fst (unfoldB m conds store subj pathx (S (round_fuel atoms)) o r) = true.
Proof. exact V1Exact.lfp_T_unfolded. Qed.
Print Assumptions lfp_T_unfolded.

Theorem check_complete_allowed_positive : forall m conds store subj pathx,
  keys_unique store -> pathx_full m pathx = true -> positive_model m = true ->
  forall atoms maxdepth fuel o r,
    (S (round_fuel atoms) <= fuel)%nat -> (S (round_fuel atoms) <= maxdepth)%nat ->
    holds3 m conds store subj atoms o r = T ->
    In AT (fst (check_top m conds store subj pathx maxdepth fuel o r)).
Proof. exact V1Exact.check_complete_allowed_positive. Qed.
Print Assumptions check_complete_allowed_positive.

Theorem C01_allowed_exact_positive :
  forall m conds store subj pathx atoms maxdepth fuel o r,
    C01_setting m conds store subj pathx atoms ->
    positive_model m = true ->
    (S (round_fuel atoms) <= fuel)%nat -> (S (round_fuel atoms) <= maxdepth)%nat ->
    (In AT (fst (check_top m conds store subj pathx maxdepth fuel o r)) <->
     holds3 m conds store subj atoms o r = T).
Proof. exact V1Exact.C01_allowed_exact_positive. Qed.
Print Assumptions C01_allowed_exact_positive.
Example C01_allowed_exact_positive_ex :
  C01_setting ex_model [1] ex_store ex_subj ex_pathx ex_atoms /\ positive_model ex_model = true /\
  round_fuel ex_atoms = 18%nat /\
  fst (check_top ex_model [1] ex_store ex_subj ex_pathx 19 19 (mk_obj 4 1) 6) = [AT] /\
  holds3 ex_model [1] ex_store ex_subj ex_atoms (mk_obj 4 1) 6 = T /\
  fst (check_top ex_model [1] ex_store ex_subj ex_pathx 19 19 (mk_obj 4 1) 3) = [AFn] /\
  holds3 ex_model [1] ex_store ex_subj ex_atoms (mk_obj 4 1) 3 = F.
Proof.
  split; [apply C01_setting_intro; vm_compute; reflexivity|]. repeat split; vm_compute; reflexivity.
Qed.

(* the top-level cycle flag *)
Theorem top_no_decision_undetermined :
  forall m conds store subj pathx maxdepth fuel o r h,
    ~ In AT (fst (check_top m conds store subj pathx maxdepth fuel o r)) ->
    ~ In AFn (fst (check_top m conds store subj pathx maxdepth fuel o r)) ->
    (h <= fuel)%nat -> (h <= maxdepth)%nat ->
    unfoldB m conds store subj pathx h o r = bot4.
Proof. exact V1Exact.top_no_decision_undetermined. Qed.
Print Assumptions top_no_decision_undetermined.
(* doc:1#blocked@user:1 on the F1 store: group:1#member and team:2#member only refer to each
   other; Check says "denied, cycle", no unfolding determines the value, the least fixpoint is F *)
Example top_no_decision_ex :
  check_top f1_model [] f1_store f1_subj f1_pathx 25 30 (mk_obj 4 1) 3 = ([AFc], notrig) /\
  unfoldB f1_model [] f1_store f1_subj f1_pathx 25 (mk_obj 4 1) 3 = bot4 /\
  holds3 f1_model [] f1_store f1_subj f1_atoms (mk_obj 4 1) 3 = F.
Proof. repeat split; vm_compute; reflexivity. Qed.

Theorem C01_cycle_denial_positive :
  forall m conds store subj pathx atoms maxdepth fuel o r,
    positive_model m = true -> keys_ok store = true -> pathx_full m pathx = true ->
    (S (round_fuel atoms) <= fuel)%nat -> (S (round_fuel atoms) <= maxdepth)%nat ->
    fst (check_top m conds store subj pathx maxdepth fuel o r) = [AFc] ->
    holds3 m conds store subj atoms o r <> T.
Proof. exact V1Exact.C01_cycle_denial_positive. Qed.
Print Assumptions C01_cycle_denial_positive.
(* group:2#member@user:2 in the positive example: group:1 and group:2 are members of each other
   and only user:1 is a direct member *)
Example C01_cycle_denial_positive_ex :
  fst (check_top ex_model [1] ex_store (SObj (mk_obj 1 2)) ex_pathx 19 19 (mk_obj 2 2) 1) = [AFc] /\
  holds3 ex_model [1] ex_store (SObj (mk_obj 1 2)) ex_atoms (mk_obj 2 2) 1 = F.
Proof. split; vm_compute; reflexivity. Qed.

(* errors *)
Theorem check_cond_error_witness : forall m conds store subj pathx maxdepth fuel depth visited o r,
  In AEc (fst (check m conds store subj pathx maxdepth fuel depth visited o r)) ->
  has_cond_error m conds store.
Proof. exact V1Exact.check_cond_error_witness. Qed.
Print Assumptions check_cond_error_witness.
Theorem check_depth_error_reached : forall m conds store subj pathx maxdepth fuel depth visited o r,
  In AEd (fst (check m conds store subj pathx maxdepth fuel depth visited o r)) ->
  (depth <= maxdepth /\ maxdepth - depth < fuel)%nat.
Proof. exact V1Exact.check_depth_error_reached. Qed.
Print Assumptions check_depth_error_reached.
Example check_errors_ex :
  fst (check_top f2_model [1] (tl f2_store) f2_subj f2_pathx 25 30 (mk_obj 3 1) 3) = [AEc] /\
  fst (check_top ex_model [1] ex_store ex_subj ex_pathx 1 30 (mk_obj 4 1) 2) = [AEd].
Proof. split; vm_compute; reflexivity. Qed.
