(* C28 — continuation tokens round-trip and resist tampering.
   Statements only; every proof is `exact <lemma>` (Codec/Base64Proofs.v, Codec/TokenProofs.v).
   Model: Codec/Base64.v (Go base64.URLEncoding, non-strict, CR/LF ignored),
          Codec/Token.v  ("ulid|type" serializer, Noop/Base64/Token encoders, GCMEncrypter with
                          its empty-input short cuts, ReadChanges/Read token handling).
   AES-GCM is abstract: [seal]/[aopen] with the hypotheses aead_bytes / aead_correct /
   aead_authentic (Codec/Token.v), quantified in each statement. *)
From OFGA Require Import Codec.Token Codec.Base64Proofs Codec.TokenProofs.
Open Scope N_scope.

(* ---- base64 ---- *)

Theorem C28_b64_decode_encode :
  forall bs, bytes_ok bs = true -> b64_decode (b64_encode bs) = Some bs.
Proof. exact b64_decode_encode. Qed.
Print Assumptions C28_b64_decode_encode.
Example C28_b64_decode_encode_ex :
  bytes_ok [0; 255; 16; 128] = true /\ b64_encode [0; 255; 16; 128] = [65; 80; 56; 81; 103; 65; 61; 61].
Proof. split; reflexivity. Qed.

Theorem C28_b64_decode_rejects_non_alphabet :
  forall s c, In c s -> is_b64_byte c = false -> b64_decode s = None.
Proof. exact b64_decode_rejects_non_alphabet. Qed.
Print Assumptions C28_b64_decode_rejects_non_alphabet.
Example C28_b64_decode_rejects_non_alphabet_ex :
  In 43 [90; 109; 43; 118] /\ is_b64_byte 43 = false /\ is_b64_byte 32 = false /\ is_b64_byte 47 = false.
Proof. repeat split. simpl. tauto. Qed.

Theorem C28_b64_decode_bytes_ok : forall s bs, b64_decode s = Some bs -> bytes_ok bs = true.
Proof. exact b64_decode_bytes_ok. Qed.
Print Assumptions C28_b64_decode_bytes_ok.

Theorem C28_b64_decode_empty_iff : forall s, b64_decode s = Some [] <-> forallb is_nl s = true.
Proof. exact b64_decode_empty_iff. Qed.
Print Assumptions C28_b64_decode_empty_iff.

(* ---- serializer ---- *)

Theorem C28_token_roundtrip : forall u t,
  (exists tok, serialize u t = Some tok /\ deserialize tok = Some (u, t)) <->
  (u <> [] /\ mem c_pipe u = false).
Proof. exact token_roundtrip. Qed.
Print Assumptions C28_token_roundtrip.
Example C28_token_roundtrip_ex : [52; 50] <> [] /\ mem c_pipe [52; 50] = false.
Proof. split; [discriminate | reflexivity]. Qed.

Theorem C28_deserialize_serialize : forall tok u t,
  deserialize tok = Some (u, t) -> serialize u t = Some tok /\ ulid_ok u = true.
Proof. exact deserialize_serialize. Qed.
Print Assumptions C28_deserialize_serialize.
Example C28_deserialize_serialize_ex : deserialize [52; 50; 124; 100] = Some ([52; 50], [100]).
Proof. reflexivity. Qed.

(* the round trip WITHOUT the side condition is false (not a defect: the datastores only
   produce ULIDs and decimal offsets, see ulid_ok_examples) *)
Theorem C28_token_roundtrip_unconditional_refuted :
  exists u t tok u' t', serialize u t = Some tok /\ deserialize tok = Some (u', t') /\ u' <> u.
Proof. exact token_roundtrip_unconditional_refuted. Qed.
Print Assumptions C28_token_roundtrip_unconditional_refuted.

(* ---- encoders ---- *)

Theorem C28_encoder_roundtrip :
  forall seal aopen issued, aead_correct seal aopen issued ->
  forall e n data, length n = nonce_size -> enc_pre seal issued e n data ->
  enc_decode aopen e (enc_encode seal e n data) = Some data.
Proof. exact encoder_roundtrip. Qed.
Print Assumptions C28_encoder_roundtrip.

Theorem C28_encoder_roundtrip_gcm_b64 :
  forall seal aopen issued, aead_correct seal aopen issued -> aead_bytes seal ->
  forall n data, length n = nonce_size -> bytes_ok n = true -> (data <> [] -> issued n data) ->
  enc_decode aopen gcm_b64 (enc_encode seal gcm_b64 n data) = Some data.
Proof. exact encoder_roundtrip_gcm_b64. Qed.
Print Assumptions C28_encoder_roundtrip_gcm_b64.
Example C28_encoder_roundtrip_gcm_b64_ex :
  enc_decode (toy_open [(ex_nonce, ex_plain)]) gcm_b64 (enc_encode toy_seal gcm_b64 ex_nonce ex_plain)
  = Some ex_plain.
Proof. exact encoder_roundtrip_toy. Qed.

Theorem C28_resume_issued_token :
  forall seal aopen issued, aead_correct seal aopen issued ->
  forall e n u t, length n = nonce_size -> ulid_ok u = true ->
  enc_pre seal issued e n (u ++ c_pipe :: t) ->
  read_changes_resume aopen e t (issue_token seal e n u t) = RFrom u /\
  read_resume aopen e (issue_token seal e n u t) = RFrom u.
Proof. exact resume_issued_token. Qed.
Print Assumptions C28_resume_issued_token.

(* ---- tampering ---- *)

Theorem C28_tamper_rejected :
  forall seal aopen issued, aead_authentic seal aopen issued ->
  forall inner s m, enc_decode aopen (EToken CGcm inner) s = Some m ->
  (m = [] /\ enc_decode aopen inner s = Some []) \/
  (exists n, length n = nonce_size /\ issued n m /\ enc_decode aopen inner s = Some (n ++ seal n m)).
Proof. exact tamper_rejected. Qed.
Print Assumptions C28_tamper_rejected.
Example C28_tamper_rejected_ex :
  aead_authentic toy_seal (toy_open [(ex_nonce, ex_plain)]) (toy_issued [(ex_nonce, ex_plain)]).
Proof. exact (toy_authentic _). Qed.

Theorem C28_tamper_rejected_error :
  forall seal aopen issued, aead_authentic seal aopen issued ->
  forall inner s d, enc_decode aopen inner s = Some d -> d <> [] ->
  (forall n m, issued n m -> d <> n ++ seal n m) ->
  enc_decode aopen (EToken CGcm inner) s = None.
Proof. exact tamper_rejected_error. Qed.
Print Assumptions C28_tamper_rejected_error.

Theorem C28_read_changes_position_authentic :
  forall seal aopen issued, aead_authentic seal aopen issued ->
  forall inner ty s u, read_changes_resume aopen (EToken CGcm inner) ty s = RFrom u ->
  exists n, length n = nonce_size /\ ulid_ok u = true /\ issued n (u ++ c_pipe :: ty) /\
            enc_decode aopen inner s = Some (n ++ seal n (u ++ c_pipe :: ty)).
Proof. exact read_changes_position_authentic. Qed.
Print Assumptions C28_read_changes_position_authentic.

Theorem C28_read_position_authentic :
  forall seal aopen issued, aead_authentic seal aopen issued ->
  forall inner s u, read_resume aopen (EToken CGcm inner) s = RFrom u ->
  exists n t, length n = nonce_size /\ ulid_ok u = true /\ issued n (u ++ c_pipe :: t) /\
              enc_decode aopen inner s = Some (n ++ seal n (u ++ c_pipe :: t)).
Proof. exact read_position_authentic. Qed.
Print Assumptions C28_read_position_authentic.

Theorem C28_tamper_never_other_position :
  forall seal aopen issued, aead_authentic seal aopen issued ->
  forall (P : bytes -> bytes -> Prop) inner ty s,
  (forall n m, issued n m -> exists u t, P u t /\ ulid_ok u = true /\ m = u ++ c_pipe :: t) ->
  match read_changes_resume aopen (EToken CGcm inner) ty s with
  | RFrom u => P u ty
  | _ => True
  end.
Proof. exact tamper_never_other_position. Qed.
Print Assumptions C28_tamper_never_other_position.
Example C28_tamper_never_other_position_ex :
  let aopen := toy_open [(ex_nonce, ex_plain)] in
  let tok := issue_token toy_seal gcm_b64 ex_nonce ex_ulid ex_type in
  read_changes_resume aopen gcm_b64 ex_type tok = RFrom ex_ulid /\
  read_changes_resume aopen gcm_b64 ex_type (66 :: tl tok) = RInvalid /\
  read_changes_resume aopen gcm_b64 ex_type (firstn 8 tok) = RInvalid.
Proof. vm_compute. repeat split. Qed.

(* the string-level reading of tamper resistance is false (base64 malleability); the accepted
   variant carries the same ciphertext and the same position *)
Theorem C28_token_string_uniqueness_refuted :
  exists seal aopen issued, aead_authentic seal aopen issued /\
  exists n u t s,
    s <> issue_token seal gcm_b64 n u t /\
    read_changes_resume aopen gcm_b64 t (issue_token seal gcm_b64 n u t) = RFrom u /\
    read_changes_resume aopen gcm_b64 t s = RFrom u.
Proof. exact token_string_uniqueness_refuted. Qed.
Print Assumptions C28_token_string_uniqueness_refuted.

(* ---- the unauthenticated len(data)==0 short cut of GCMEncrypter.Decrypt ---- *)

Theorem C28_empty_bypass_is_start :
  forall aopen inner ty s, enc_decode aopen inner s = Some [] ->
  enc_decode aopen (EToken CGcm inner) s = Some [] /\
  read_changes_resume aopen (EToken CGcm inner) ty s = RStart /\
  read_resume aopen (EToken CGcm inner) s = RStart.
Proof. exact empty_bypass_is_start. Qed.
Print Assumptions C28_empty_bypass_is_start.

Theorem C28_unauthenticated_accept_iff :
  forall seal aopen issued, aead_authentic seal aopen issued ->
  forall s, (forall n, ~ issued n []) ->
  (enc_decode aopen gcm_b64 s = Some [] <-> forallb is_nl s = true).
Proof. exact unauthenticated_accept_iff. Qed.
Print Assumptions C28_unauthenticated_accept_iff.
Example C28_unauthenticated_accept_ex :
  read_changes_resume (toy_open [(ex_nonce, ex_plain)]) gcm_b64 ex_type [13; 10] = RStart /\
  (forall n, ~ toy_issued [(ex_nonce, ex_plain)] n []).
Proof. split; [reflexivity|]. intros n [H|[]]. discriminate. Qed.
