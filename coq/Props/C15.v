(* C15 - The changelog faithfully records tuple history.

   Model: Store/Memory.v (memory backend Write and ReadChanges as coded; histories; replay).
   Proofs: Store/Changelog.v.  The sqlite backend is tied to the same statements through
   Props/C12.v (sql_refines_memory_partial) and by the correspondence run of this check.

   Nothing here is refuted by the unchanged code: the memory backend's changelog is faithful
   even for the malformed requests of finding F-b (a delete that matches several tuples logs
   one entry per tuple actually removed), so replay holds for every history; what F-b breaks
   is "one entry per request item", which is stated per removed / added tuple below. *)
From OFGA Require Import Store.Memory Store.MemoryProofs Store.Changelog.
Open Scope N_scope.

(* For every history of write requests - through the command layer or directly, valid or not,
   with any options - folding the changelog, oldest first, onto the empty store gives exactly
   the current tuples (same order even).  Hypothesis: every written key is recognised by the
   backend's own match (true of every well-formed key, wf_self_match). *)
Theorem replay_reconstructs :
  forall h : list req,
  forallb req_self_match h = true ->
  replay (obs_log (run_history h)) = obs_tuples (run_history h).
Proof. exact replay_reconstructs_lemma. Qed.
Print Assumptions replay_reconstructs.

Example replay_reconstructs_nonvacuous :
  forallb req_self_match ex_history = true /\ nows_sorted 0 ex_history = true /\
  length (obs_tuples (run_history ex_history)) = 2%nat /\ length (changes (run_history ex_history)) = 4%nat.
Proof. exact Changelog.replay_reconstructs_nonvacuous. Qed.

Theorem wf_keys_self_match :
  forall w, wf_key (w_key w) = true -> self_match w = true.
Proof. exact wf_self_match. Qed.
Print Assumptions wf_keys_self_match.

(* A successful write appends, in this order, exactly one delete entry per tuple it removed and
   one write entry per tuple it added, each carrying that tuple's key (and condition), all with
   the request's timestamp; nothing else. *)
Theorem one_entry_per_applied_item :
  forall ondup onmiss dels wrs now st st',
  mem_write ondup onmiss dels wrs now st = (WOk, st') ->
  exists (p : mrec -> bool) (news : list mrec),
    let gone := filter p (tuples st) in
    let kept := filter (fun r => negb (p r)) (tuples st) in
    tuples st' = kept ++ news
    /\ obs_log st' = obs_log st
                     ++ map (fun r => (OpDelete, rec_key r, (@nil N, @nil N))) gone
                     ++ map (fun r => (OpWrite, rec_key r, snd (rec_obs r))) news
    /\ length (changes st') = (length (changes st) + length gone + length news)%nat
    /\ Forall (fun c => c_ts c = now) (skipn (length (changes st)) (changes st')).
Proof. exact one_entry_per_applied_item_lemma. Qed.
Print Assumptions one_entry_per_applied_item.

(* Horizon (logical clock): ReadChanges never returns an entry newer than now - horizon, nor one
   of another object type, nor one that is not in the log *)
Theorem horizon_withholds :
  forall typ now h desc st c,
  In c (read_changes typ now h desc st) ->
  In c (changes st) /\ type_ok typ (c_key c) = true /\ c_ts c + h <= now.
Proof. exact horizon_withholds_lemma. Qed.
Print Assumptions horizon_withholds.

(* ... and, the clock never going backwards, withholds nothing else *)
Theorem horizon_complete :
  forall typ now h st,
  ts_sorted 0 (changes st) = true ->
  read_changes typ now h false st
  = filter (fun c => type_ok typ (c_key c) && (c_ts c + h <=? now)) (changes st).
Proof. exact horizon_complete_lemma. Qed.
Print Assumptions horizon_complete.

Theorem history_sorted :
  forall h, nows_sorted 0 h = true -> ts_sorted 0 (changes (run_history h)) = true.
Proof. exact history_sorted_lemma. Qed.
Print Assumptions history_sorted.

Theorem desc_is_rev_asc :
  forall typ now h st,
  read_changes typ now h true st = rev (read_changes typ now h false st).
Proof. exact desc_is_rev_asc_lemma. Qed.
Print Assumptions desc_is_rev_asc.

(* replaying only the entries selected by a predicate on keys (an object type) gives the
   selected tuples of the full replay *)
Theorem type_filter_commutes :
  forall (q : key -> bool) (l : olog),
  replay (filter (fun c => q (entry_key c)) l) = filter (fun t => q (fst t)) (replay l).
Proof. exact type_filter_commutes_lemma. Qed.
Print Assumptions type_filter_commutes.

(* hence: what ReadChanges returns for one object type (everything being old enough) replays to
   the store's tuples of that type *)
Theorem typed_replay_reconstructs :
  forall (h : list req) typ now hz,
  forallb req_self_match h = true ->
  (forall c, In c (changes (run_history h)) -> c_ts c + hz <= now) ->
  replay (map obs_change (read_changes typ now hz false (run_history h)))
  = filter (fun t => type_ok typ (fst t)) (obs_tuples (run_history h)).
Proof. exact typed_replay_reconstructs_lemma. Qed.
Print Assumptions typed_replay_reconstructs.

(* The same across pages: whatever the page size, the starting token and the number of requests,
   every page of a token-following read through the ReadChanges command holds only changes that
   are, at the time of THAT request, at least as old as the configured horizon (the command
   passes the horizon to the backend for every request, token or not). *)
Theorem horizon_withholds_all_pages :
  forall typ hz ps st nows tok pages tok',
  follow_tokens typ hz ps nows tok st = (pages, tok') ->
  Forall2 (fun now pg => forall c, In c pg ->
             In c (changes st) /\ type_ok typ (c_key c) = true /\ c_ts c + hz <= now)
          (firstn (length pages) nows) pages.
Proof. exact horizon_withholds_all_pages_lemma. Qed.
Print Assumptions horizon_withholds_all_pages.

(* non-vacuity: two old and two new changes, page size 1, horizon 1, read at time 3: two pages
   of one old change each, then the poll with the last token returns nothing *)
Example horizon_withholds_all_pages_nonvacuous :
  let st := run_history
    [ mkReq false OError OError [] [mkW k_d1 None true; mkW k_d2 None true] 1;
      mkReq false OError OError [k_d1] [mkW (mkKey b_doc1 b_viewer [117; 115; 101; 114; 58; 98]) None true] 3 ] in
  map (@length change) (fst (follow_tokens [] 1 1 [3; 3; 3; 3] 0 st)) = [1%nat; 1%nat]
  /\ snd (follow_tokens [] 1 1 [3; 3; 3; 3] 0 st) = 2%nat
  /\ fst (read_changes_cmd [] 1 3 2 1 st) = []
  /\ length (fst (read_changes_cmd [] 0 3 2 1 st)) = 1%nat.
Proof. vm_compute. repeat split; reflexivity. Qed.
