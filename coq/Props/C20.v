(* C20 — queries terminate (the part of "terminate and release their resources" that is a
   statement about the ALGORITHMS; wall-clock deadlines, goroutine and iterator release of the
   running binary are runtime facts explored by harness/cmd/c20, not proved).

   Every statement is for all models, stores, requests, depth limits and fuels.  The models are
   Check/V1.v (default Check engine), Check/V1Recursive.v (breadth-first recursive strategy),
   Query/ListUsers.v (ListUsers traversal), Query/Expand.v (Expand); "terminates" = the
   out-of-fuel outcome of the fuelled model is unreachable once the fuel reaches an explicit bound
   in terms of the depth limit / the size of the universe. *)
From Coq Require Import List Bool Arith NArith Lia.
From OFGA Require Import Sem.SemProofs Check.V1 Check.V1Proofs Check.V1Termination.
From OFGA Require Check.V1Recursive Check.V1RecursiveTermination.
From OFGA Require Query.ListUsers Query.ListUsersTermination.
From OFGA Require Query.Expand Query.ExpandTermination.
Import ListNotations.
Open Scope N_scope.

(* ---------------------------------------------------------------------------------------------
   1. The visited-set guard, generically: a recursion
        f visited x = if x ∈ visited then on_cycle x else combine x (map (f (x :: visited)) (next x))
      over a finite universe U closed under `next`
        - never runs out of fuel when fuel > |U \ visited|  (|U| + 1 at top level),
        - nests at most |U \ visited| calls,
        - returns the same value for every sufficient fuel.
      (VisitedPaths / hasCycle of Check, enteredCycle of ListUsers.) *)
Theorem visited_guard_terminates :
  forall (A : Type) (eqb : A -> A -> bool), (forall x y, eqb x y = true <-> x = y) ->
  forall (next : A -> list A) (R : Type) (on_cycle : A -> R) (combine : A -> list R -> R) (U : list A),
    closedb A eqb next U = true ->
    forall fuel visited x, vmem A eqb x U = true -> (unvisited A eqb U visited < fuel)%nat ->
    guarded A eqb next R on_cycle combine fuel visited x <> None.
Proof. exact visited_guard_terminates_gen. Qed.
Print Assumptions visited_guard_terminates.

Theorem visited_guard_nesting_bound :
  forall (A : Type) (eqb : A -> A -> bool), (forall x y, eqb x y = true <-> x = y) ->
  forall (next : A -> list A) (U : list A),
    closedb A eqb next U = true ->
    forall fuel visited x n, vmem A eqb x U = true ->
    nesting A eqb next fuel visited x = Some n -> (n <= unvisited A eqb U visited)%nat.
Proof. exact visited_guard_nesting_gen. Qed.
Print Assumptions visited_guard_nesting_bound.

Theorem visited_guard_fuel_irrelevant :
  forall (A : Type) (eqb : A -> A -> bool), (forall x y, eqb x y = true <-> x = y) ->
  forall (next : A -> list A) (R : Type) (on_cycle : A -> R) (combine : A -> list R -> R) (U : list A),
    closedb A eqb next U = true ->
    forall f1 f2 visited x, vmem A eqb x U = true ->
    (unvisited A eqb U visited < f1)%nat -> (unvisited A eqb U visited < f2)%nat ->
    guarded A eqb next R on_cycle combine f1 visited x = guarded A eqb next R on_cycle combine f2 visited x.
Proof. exact V1Termination.visited_guard_fuel_irrelevant. Qed.
Print Assumptions visited_guard_fuel_irrelevant.

(* non-vacuity: a 3-cycle; the universe is closed, the guard answers with fuel 4 = |U| + 1, the
   nesting is 3 = |U|, and fuel 3 is NOT enough *)
Example visited_guard_example :
  let next := fun x : nat => [Nat.modulo (S x) 3] in
  closedb nat Nat.eqb next [0; 1; 2]%nat = true /\
  nesting nat Nat.eqb next 4 [] 0%nat = Some 3%nat /\
  nesting nat Nat.eqb next 3 [] 0%nat = None.
Proof. vm_compute. repeat split; reflexivity. Qed.

(* ---------------------------------------------------------------------------------------------
   2. Check (default engine).
      check_terminates: in a universe of atoms (object, relation) closed under sub-problems
      (universe_closed: every dispatched userset / tuple-to-userset target and every computed
      userset of an atom of U is in U — a boolean), the model never runs out of fuel when
      fuel > |atoms of U not on the visited path|.  No assumption on the depth limit: this is the
      termination argument of the cycle test alone. *)
Theorem check_terminates :
  forall m conds store subj pathx maxdepth (U : list atom),
    universe_closed m conds store U = true ->
    forall fuel depth visited o r,
      amem (o, r) U = true -> (unvisited_atoms U visited < fuel)%nat ->
      ~ In AFuel (fst (check m conds store subj pathx maxdepth fuel depth visited o r)).
Proof. exact V1Termination.check_terminates. Qed.
Print Assumptions check_terminates.

Theorem check_top_terminates :
  forall m conds store subj pathx maxdepth (U : list atom) fuel o r,
    universe_closed m conds store U = true -> amem (o, r) U = true -> (length U < fuel)%nat ->
    ~ In AFuel (fst (check_top m conds store subj pathx maxdepth fuel o r)).
Proof. exact V1Termination.check_top_terminates. Qed.
Print Assumptions check_top_terminates.

(* the depth counter alone (proved for C01 in Check/V1Proofs.v): (maxdepth + 1) * (max_rels + 2)
   units of fuel suffice for EVERY store, closed universe or not *)
Theorem check_terminates_depth :
  forall m conds store subj pathx maxdepth fuel o r,
    ((maxdepth + 1) * (max_rels m + 2) <= fuel)%nat ->
    ~ In AFuel (fst (check_top m conds store subj pathx maxdepth fuel o r)).
Proof. exact check_no_fuel. Qed.
Print Assumptions check_terminates_depth.

(* ... and it always answers: the outcome set is never empty *)
Theorem check_always_answers :
  forall m conds store subj pathx maxdepth fuel depth visited o r,
    fst (check m conds store subj pathx maxdepth fuel depth visited o r) <> [].
Proof. exact check_nonempty. Qed.
Print Assumptions check_always_answers.

(* check_depth_bound: one resolution step started at depth <= maxdepth consults its recursion
   only at depths <= maxdepth (depth + 1 for dispatches, depth for computed usersets), with the
   visited path extended by the current atom, on the listed sub-problems: any two recursions that
   agree on those calls give the same step.  (check (S f) = check_step (check f).) *)
Theorem check_depth_bound :
  forall m conds store subj pathx maxdepth rec1 rec2 depth visited o r,
    (depth <= maxdepth)%nat ->
    (forall d a, (d <= maxdepth)%nat ->
                 (d = S depth /\ In a (dispatched m conds store o r)) \/
                 (d = depth /\ In a (computed_of m o r)) ->
                 rec1 d ((o, r) :: visited) (fst a) (snd a) = rec2 d ((o, r) :: visited) (fst a) (snd a)) ->
    check_step m conds store subj pathx maxdepth rec1 depth visited o r =
    check_step m conds store subj pathx maxdepth rec2 depth visited o r.
Proof. exact V1Termination.check_depth_bound. Qed.
Print Assumptions check_depth_bound.

Theorem check_is_iterated_step :
  forall m conds store subj pathx maxdepth f depth visited o r,
    check m conds store subj pathx maxdepth (S f) depth visited o r =
    check_step m conds store subj pathx maxdepth (check m conds store subj pathx maxdepth f) depth visited o r.
Proof. exact check_S. Qed.
Print Assumptions check_is_iterated_step.

(* the call tree of a request as a relation (subcall = the calls check_depth_bound lists, made
   only when the depth test and the cycle test pass): along every path from the top-level call
   the depth stays within the limit and within the length of the visited path, the visited path
   has no repetition, and in a closed universe it stays inside the universe — at most |U| nested
   calls, whatever the depth limit *)
Theorem check_call_depth_invariant :
  forall m conds store maxdepth o r c,
    reachable m conds store maxdepth (O, [], (o, r)) c ->
    (fst (fst c) <= maxdepth)%nat /\
    (fst (fst c) <= length (snd (fst c)))%nat /\
    NoDup (snd (fst c)).
Proof. exact reachable_call_invariant. Qed.
Print Assumptions check_call_depth_invariant.

Theorem check_call_nesting_bound :
  forall m conds store maxdepth U o r c,
    universe_closed m conds store U = true -> amem (o, r) U = true ->
    reachable m conds store maxdepth (O, [], (o, r)) c ->
    incl (snd c :: snd (fst c)) U /\ (length (snd (fst c)) <= length U)%nat.
Proof. exact reachable_nesting_bound. Qed.
Print Assumptions check_call_nesting_bound.

(* non-vacuity: doc:1#viewer (= owner but not blocked) calls doc:1#blocked at the same depth,
   which dispatches group:1#member one level deeper *)
Example check_call_tree_example :
  reachable f1_model [] f1_store 25 (O, [], (mk_obj 4 1, 4))
            (1%nat, [(mk_obj 4 1, 3); (mk_obj 4 1, 4)], (mk_obj 3 1, 1)).
Proof.
  eapply reach_step; [eapply reach_step; [apply reach_refl|]|].
  - apply (sc_computed f1_model [] f1_store 25 O [] (mk_obj 4 1) 4 (mk_obj 4 1, 3));
      [discriminate | reflexivity | vm_compute; auto].
  - apply (sc_dispatch f1_model [] f1_store 25 O [(mk_obj 4 1, 4)] (mk_obj 4 1) 3 (mk_obj 3 1, 1));
      [discriminate | reflexivity | vm_compute; auto].
Qed.

(* sufficient fuel is irrelevant fuel: the model has ONE answer set per request *)
Theorem check_fuel_irrelevant :
  forall m conds store subj pathx maxdepth (U : list atom),
    universe_closed m conds store U = true ->
    forall f1 f2 depth visited o r,
      amem (o, r) U = true ->
      (unvisited_atoms U visited < f1)%nat -> (unvisited_atoms U visited < f2)%nat ->
      check m conds store subj pathx maxdepth f1 depth visited o r =
      check m conds store subj pathx maxdepth f2 depth visited o r.
Proof. exact V1Termination.check_fuel_irrelevant. Qed.
Print Assumptions check_fuel_irrelevant.

Theorem check_fuel_irrelevant_depth :
  forall m conds store subj pathx maxdepth f1 f2 depth visited o r,
    (depth <= maxdepth)%nat ->
    (mu m maxdepth depth visited o <= f1)%nat -> (mu m maxdepth depth visited o <= f2)%nat ->
    check m conds store subj pathx maxdepth f1 depth visited o r =
    check m conds store subj pathx maxdepth f2 depth visited o r.
Proof. exact V1Termination.check_fuel_irrelevant_depth. Qed.
Print Assumptions check_fuel_irrelevant_depth.

(* non-vacuity on the cyclic store of finding F1 (team:2#member <-> group:1#member): its atoms
   form a closed universe; |U| + 1 = 6 units of fuel give an answer without AFuel although the
   tuples are cyclic; 1 unit does run out; a universe that misses group:1#member is not closed *)
Example check_terminates_example :
  universe_closed f1_model [] f1_store f1_atoms = true /\
  amem (mk_obj 4 1, 4) f1_atoms = true /\
  omem AFuel (fst (check_top f1_model [] f1_store f1_subj f1_pathx 25 6 (mk_obj 4 1) 4)) = false /\
  omem AFuel (fst (check_top f1_model [] f1_store f1_subj f1_pathx 25 1 (mk_obj 4 1) 4)) = true /\
  universe_closed f1_model [] f1_store [(mk_obj 4 1, 3); (mk_obj 2 2, 1)] = false.
Proof. vm_compute. repeat split; reflexivity. Qed.

(* ---------------------------------------------------------------------------------------------
   3. Check, recursive strategy (breadth-first search with `visitedUserset`). *)
Theorem bfs_terminates :
  forall succ failing targets maxdepth (nodes : list N),
    (forall x y, In x nodes -> In y (succ x) -> In y nodes) ->
    forall fuel depth visited frontier err,
      (forall x, In x frontier -> In x nodes) ->
      (V1RecursiveTermination.unvisitedN nodes visited + 2 <= fuel)%nat ->
      V1Recursive.bfs succ failing targets maxdepth fuel depth visited frontier err <> V1Recursive.BFuel.
Proof. exact V1RecursiveTermination.bfs_terminates. Qed.
Print Assumptions bfs_terminates.

Theorem bfs_terminates_depth :
  forall succ failing targets maxdepth fuel depth visited frontier err,
    (S depth <= maxdepth)%nat -> (maxdepth - depth <= fuel)%nat ->
    V1Recursive.bfs succ failing targets maxdepth fuel depth visited frontier err <> V1Recursive.BFuel.
Proof. exact V1RecursiveTermination.bfs_terminates_depth. Qed.
Print Assumptions bfs_terminates_depth.

(* unconditional: the fuel the model computes from the edge list always suffices *)
Theorem rec_check_terminates :
  forall edges direct maxdepth x,
    V1Recursive.rec_check edges direct maxdepth x <> V1Recursive.BFuel.
Proof. exact V1RecursiveTermination.rec_check_terminates. Qed.
Print Assumptions rec_check_terminates.

Example bfs_example :
  V1Recursive.rec_check [(1, 2); (2, 3); (3, 1); (3, 4)] [9] 25 1 = V1Recursive.BFalse /\
  V1Recursive.bfs (V1Recursive.succ_of [(1, 2); (2, 3); (3, 1); (3, 4)]) (fun _ => false) [9] 25 2 0 [] [2] false
    = V1Recursive.BFuel.
Proof. exact V1RecursiveTermination.rec_check_cycle_example. Qed.

(* ---------------------------------------------------------------------------------------------
   4. ListUsers: the depth counter is checked and incremented by EVERY expand call, so
      limit - depth + 1 units of fuel suffice for any data; the fuel of list_users (limit + 2)
      always does.  (The enteredCycle guard is the generic theorem of part 1.) *)
Theorem list_users_terminates :
  forall m conds store ftype frel limit pruned o r,
    ~ In ListUsers.LFuel (ListUsers.lf_errs (ListUsers.list_users m conds store ftype frel limit pruned o r)) /\
    ~ In ListUsers.LFuel (ListUsers.lf_amb (ListUsers.list_users m conds store ftype frel limit pruned o r)).
Proof. exact ListUsersTermination.list_users_terminates. Qed.
Print Assumptions list_users_terminates.

Theorem list_users_expand_terminates :
  forall m conds store ftype frel limit fuel depth visited o r,
    (1 <= fuel)%nat -> (limit < fuel + depth)%nat ->
    ListUsersTermination.fuel_free (ListUsers.expand m conds store ftype frel limit fuel depth visited o r).
Proof. exact ListUsersTermination.lu_expand_terminates. Qed.
Print Assumptions list_users_expand_terminates.

Theorem list_users_depth_bound :
  forall m conds store ftype frel limit f depth visited o r,
    (limit <= depth)%nat ->
    ListUsers.expand m conds store ftype frel limit (S f) depth visited o r = ListUsers.lres_err ListUsers.LDepth.
Proof. exact ListUsersTermination.expand_depth_bound. Qed.
Print Assumptions list_users_depth_bound.

(* non-vacuity: team:2#member <-> group:1#member again, users of type 1 of doc:1#blocked;
   with the limit 25 the cyclic store is answered without LFuel; a bare expand with fuel 2 at
   depth 0 does run out *)
Example list_users_example :
  ListUsers.lf_errs (ListUsers.list_users f1_model [] f1_store 1 0 25 false (mk_obj 4 1) 3) = [] /\
  In ListUsers.LFuel (ListUsers.l_errs (ListUsers.expand f1_model [] f1_store 1 0 25 2 0 [] (mk_obj 4 1) 3)).
Proof. vm_compute. split; [reflexivity | left; reflexivity]. Qed.

(* ---------------------------------------------------------------------------------------------
   5. Expand: structural recursion on the rewrite, never through tuples: the tree has exactly the
      rewrite's number of nodes and read leaves whatever the tuples are (no fuel in the model;
      totality is C30 expand_total). *)
Theorem expand_terminates :
  forall leb m conds all o r rw t,
    Expand.expand_rw leb m conds all o r rw = Expand.XTree t ->
    ExpandTermination.tree_nodes t = ExpandTermination.rw_nodes rw /\
    ExpandTermination.tree_reads t = ExpandTermination.rw_reads rw.
Proof. exact ExpandTermination.expand_tree_size. Qed.
Print Assumptions expand_terminates.

Theorem expand_work_data_independent :
  forall leb m conds all all' o r rw t t',
    Expand.expand_rw leb m conds all o r rw = Expand.XTree t ->
    Expand.expand_rw leb m conds all' o r rw = Expand.XTree t' ->
    ExpandTermination.tree_nodes t = ExpandTermination.tree_nodes t' /\
    ExpandTermination.tree_reads t = ExpandTermination.tree_reads t'.
Proof. exact ExpandTermination.expand_size_data_independent. Qed.
Print Assumptions expand_work_data_independent.

Example expand_example :
  exists t,
    Expand.expand_rw ExpandProofs.leb_num f1_model [] f1_store (mk_obj 4 1) 4 (Diff (Computed 2) (Computed 3)) = Expand.XTree t /\
    ExpandTermination.tree_nodes t = 3%nat.
Proof. eexists. split; vm_compute; reflexivity. Qed.
