(* C05: ListObjects returns exactly the permitted objects.

   Statements only; proofs in Query/ListObjectsProofs.v, model in Query/ListObjects.v.
   Layer proved here: evaluate / trySendCandidate de-duplication / trySendObject limit counter /
   deadline prefix, for ALL candidate lists (repetitions, any statuses), ALL check oracles, ALL
   limits and ALL interleavings of the confirmations (arrange_surjective: the arrival parameter
   reaches every permutation).  P is the reference semantics (Sem.holds3 = T), check the Check
   command used for RequiresFurtherEval candidates.
   The two hypotheses about the candidate list — nofurther_sound and complete — are the
   reverse-expansion contract; they are not proved but CHECKED on the real candidate stream of
   reverseexpand.ReverseExpandQuery.Execute against Sem on every run (translation validation).
   lo_sound_needs_contract_refuted: without nofurther_sound the layer passes a non-permitted
   object through (the hypothesis is necessary; this is how a read leak of a backend — the former
   finding F7 on sqlite, repaired by a279b76 — reached the result). *)
From Coq Require Import List Bool Arith Permutation.
From OFGA Require Import Query.ListObjects Query.ListObjectsProofs.
Import ListNotations.

Section Statements.
  Variable A : Type.
  Variable eqb : A -> A -> bool.
  Hypothesis eqb_spec : forall a b, eqb a b = true <-> a = b.

  Theorem lo_sound : forall (P check : A -> bool) cands limit arrival,
    (forall o, check o = true -> P o = true) ->
    nofurther_sound A P cands = true ->
    forall o, In o (evaluate A eqb cands check limit arrival) -> P o = true.
  Proof. exact (ListObjectsProofs.lo_sound A eqb). Qed.

  Theorem lo_complete : forall (P check : A -> bool) univ cands arrival,
    (forall o, P o = true -> check o = true) ->
    complete A eqb P univ cands = true ->
    forall o, In o univ -> P o = true -> In o (evaluate A eqb cands check 0 arrival).
  Proof. exact (ListObjectsProofs.lo_complete A eqb eqb_spec). Qed.

  Theorem lo_nodup : forall (check : A -> bool) cands limit arrival,
    NoDup (evaluate A eqb cands check limit arrival).
  Proof. exact (ListObjectsProofs.lo_nodup A eqb eqb_spec). Qed.

  Theorem lo_exact : forall (P check : A -> bool) univ cands arrival,
    (forall o, check o = P o) ->
    nofurther_sound A P cands = true ->
    complete A eqb P univ cands = true ->
    forall o, In o univ -> (In o (evaluate A eqb cands check 0 arrival) <-> P o = true).
  Proof. exact (ListObjectsProofs.lo_exact A eqb eqb_spec). Qed.

  Theorem lo_limit : forall (P check : A -> bool) cands limit arrival,
    (forall o, check o = P o) ->
    nofurther_sound A P cands = true ->
    0 < limit ->
    limit <= length (permitted_cands A eqb P cands) ->
    length (evaluate A eqb cands check limit arrival) = limit /\
    NoDup (evaluate A eqb cands check limit arrival) /\
    (forall o, In o (evaluate A eqb cands check limit arrival) -> P o = true).
  Proof. exact (ListObjectsProofs.lo_limit A eqb eqb_spec). Qed.

  Theorem lo_limit_short : forall (P check : A -> bool) cands limit arrival,
    (forall o, check o = P o) ->
    nofurther_sound A P cands = true ->
    length (permitted_cands A eqb P cands) <= limit ->
    forall o, In o (evaluate A eqb cands check limit arrival) <-> In o (permitted_cands A eqb P cands).
  Proof. exact (ListObjectsProofs.lo_limit_short A eqb). Qed.

  Theorem lo_deadline_prefix_sound : forall (P check : A -> bool) k cands limit arrival,
    (forall o, check o = true -> P o = true) ->
    nofurther_sound A P cands = true ->
    NoDup (run_prefix A eqb k cands check limit arrival) /\
    forall o, In o (run_prefix A eqb k cands check limit arrival) -> P o = true.
  Proof. exact (ListObjectsProofs.lo_deadline_prefix_sound A eqb eqb_spec). Qed.

  (* "for every arrival order": the arrival parameter is onto the orderings of the attempts *)
  Theorem arrange_surjective : forall l l' : list A,
    Permutation l l' -> exists arrival, arrange A arrival l = l'.
  Proof. exact (ListObjectsProofs.arrange_surjective A). Qed.

  Theorem evaluate_length : forall cands (check : A -> bool) limit arrival,
    length (evaluate A eqb cands check limit arrival) =
    match limit with O => length (attempts A eqb check cands) | S _ => Nat.min limit (length (attempts A eqb check cands)) end.
  Proof. exact (ListObjectsProofs.evaluate_length A eqb). Qed.

  (* Execute (unary) including its error handling; Failed = an error is returned *)
  Theorem execute_sound : forall (P check : A -> bool) cands limit arrival err_after l,
    (forall o, check o = true -> P o = true) ->
    nofurther_sound A P cands = true ->
    execute A eqb cands check limit arrival err_after = Objects A l ->
    NoDup l /\ forall o, In o l -> P o = true.
  Proof. exact (ListObjectsProofs.execute_sound A eqb eqb_spec). Qed.

  (* Full-strength statement (no hypothesis on err_after / limit) is refuted below
     (execute_complete_refuted); this is the _partial version: the boolean trigger excluded is
     "an evaluation error occurred and maxResults = 0". *)
  Theorem execute_complete_partial : forall (P check : A -> bool) univ cands limit arrival err_after l,
    err_after = None \/ 0 < limit ->
    (forall o, P o = true -> check o = true) ->
    complete A eqb P univ cands = true ->
    execute A eqb cands check limit arrival err_after = Objects A l ->
    limit = 0 \/ length l < limit ->
    forall o, In o univ -> P o = true -> In o l.
  Proof. exact (ListObjectsProofs.execute_complete_partial A eqb eqb_spec). Qed.

  (* with the kind of the error: a datastore fault (any error that is not a condition-evaluation
     error) fails the request; a response WITHOUT error that the limit did not cut is the complete
     permitted set unless a condition error met maxResults = 0 — the statement the fault-injection
     runs of harness/cmd/c05 check on the real code for every single-read fault *)
  Theorem execute_k_other_fails : forall (check : A -> bool) cands limit arrival k,
    execute_k A eqb cands check limit arrival (Some (k, OtherError)) = Failed A.
  Proof. exact (ListObjectsProofs.execute_k_other_fails A eqb). Qed.

  Theorem execute_k_complete_partial : forall (P check : A -> bool) univ cands limit arrival err l,
    (forall k, err <> Some (k, CondError)) \/ 0 < limit ->
    (forall o, P o = true -> check o = true) ->
    complete A eqb P univ cands = true ->
    execute_k A eqb cands check limit arrival err = Objects A l ->
    limit = 0 \/ length l < limit ->
    forall o, In o univ -> P o = true -> In o l.
  Proof. exact (ListObjectsProofs.execute_k_complete_partial A eqb eqb_spec). Qed.

  Theorem execute_k_sound : forall (P check : A -> bool) cands limit arrival err l,
    (forall o, check o = true -> P o = true) ->
    nofurther_sound A P cands = true ->
    execute_k A eqb cands check limit arrival err = Objects A l ->
    NoDup l /\ forall o, In o l -> P o = true.
  Proof. exact (ListObjectsProofs.execute_k_sound A eqb eqb_spec). Qed.

  Theorem execute_streamed_sound : forall (P check : A -> bool) cands arrival err_after,
    (forall o, check o = true -> P o = true) ->
    nofurther_sound A P cands = true ->
    NoDup (fst (execute_streamed A eqb cands check arrival err_after)) /\
    forall o, In o (fst (execute_streamed A eqb cands check arrival err_after)) -> P o = true.
  Proof. exact (ListObjectsProofs.execute_streamed_sound A eqb eqb_spec). Qed.

  Theorem execute_streamed_complete : forall (P check : A -> bool) univ cands arrival err_after,
    (forall o, P o = true -> check o = true) ->
    complete A eqb P univ cands = true ->
    snd (execute_streamed A eqb cands check arrival err_after) = false ->
    forall o, In o univ -> P o = true -> In o (fst (execute_streamed A eqb cands check arrival err_after)).
  Proof. exact (ListObjectsProofs.execute_streamed_complete A eqb eqb_spec). Qed.

  (* trySendObject at the granularity of its two steps (reserve, then select-send): the race with
     cancel() can only remove objects *)
  Theorem evaluate_racy_sound_nodup : forall (P check : A -> bool) cands limit arrival drop,
    (forall o, check o = true -> P o = true) ->
    nofurther_sound A P cands = true ->
    NoDup (evaluate_racy A eqb cands check limit arrival drop) /\
    forall o, In o (evaluate_racy A eqb cands check limit arrival drop) -> P o = true.
  Proof. exact (ListObjectsProofs.evaluate_racy_sound_nodup A eqb eqb_spec). Qed.

  Theorem evaluate_racy_no_drop : forall (check : A -> bool) cands limit arrival,
    evaluate_racy A eqb cands check limit arrival (fun _ => false) = evaluate A eqb cands check limit arrival.
  Proof. exact (ListObjectsProofs.evaluate_racy_no_drop A eqb). Qed.

  (* the pipeline's output stage (DeduplicatingReceiver + Recv loop): duplicate-free, nothing
     invented, sound when the delivered values are, complete without limit, exactly min(limit, distinct) *)
  Theorem pipeline_recv_spec : forall (P : A -> bool) values limit,
    NoDup (pipeline_recv A eqb values limit) /\
    (forall o, In o (pipeline_recv A eqb values limit) -> In o values) /\
    ((forall o, In o values -> P o = true) -> forall o, In o (pipeline_recv A eqb values limit) -> P o = true) /\
    (limit = 0 -> forall o, In o values -> In o (pipeline_recv A eqb values limit)) /\
    length (pipeline_recv A eqb values limit) =
      match limit with
      | O => length (distinct_objs A eqb (map (fun v => (v, NoFurtherEval)) values))
      | S _ => Nat.min limit (length (distinct_objs A eqb (map (fun v => (v, NoFurtherEval)) values)))
      end.
  Proof. exact (ListObjectsProofs.pipeline_recv_spec A eqb eqb_spec). Qed.
End Statements.

Print Assumptions lo_sound.
Print Assumptions lo_complete.
Print Assumptions lo_nodup.
Print Assumptions lo_exact.
Print Assumptions lo_limit.
Print Assumptions lo_limit_short.
Print Assumptions lo_deadline_prefix_sound.
Print Assumptions arrange_surjective.
Print Assumptions evaluate_length.
Print Assumptions execute_sound.
Print Assumptions execute_complete_partial.
Print Assumptions execute_streamed_sound.
Print Assumptions execute_k_other_fails.
Print Assumptions execute_k_complete_partial.
Print Assumptions execute_k_sound.
Print Assumptions execute_streamed_complete.
Print Assumptions pipeline_recv_spec.
Print Assumptions evaluate_racy_sound_nodup.
Print Assumptions evaluate_racy_no_drop.

(* ---- non-vacuity: a concrete run.  Objects 1..5; permitted = odd numbers.  The candidate list
   repeats 1 (second arrival with the other status), offers 2 and 4 for further evaluation and
   never mentions 6 (not permitted, so completeness is not affected). ---- *)
Definition ex_P (o : nat) : bool := Nat.odd o.
Definition ex_cands : list (cand nat) :=
  [(1, NoFurtherEval); (2, RequiresFurtherEval); (3, RequiresFurtherEval); (1, RequiresFurtherEval);
   (4, RequiresFurtherEval); (5, NoFurtherEval); (3, NoFurtherEval)].
Definition ex_univ : list nat := [1; 2; 3; 4; 5; 6].
Definition ex_arrival : list nat := [2; 0; 1].

Example lo_hyps_ex :
  nofurther_sound nat ex_P ex_cands = true /\
  complete nat Nat.eqb ex_P ex_univ ex_cands = true /\
  permitted_cands nat Nat.eqb ex_P ex_cands = [1; 3; 5] /\
  evaluate nat Nat.eqb ex_cands ex_P 0 ex_arrival = [3; 5; 1] /\
  evaluate nat Nat.eqb ex_cands ex_P 2 ex_arrival = [3; 5] /\
  evaluate nat Nat.eqb ex_cands ex_P 2 [] = [1; 3] /\
  evaluate nat Nat.eqb ex_cands ex_P 7 ex_arrival = [3; 5; 1] /\
  run_prefix nat Nat.eqb 1 ex_cands ex_P 2 ex_arrival = [3].
Proof. vm_compute. repeat split. Qed.

Example lo_sound_ex : forall o, In o (evaluate nat Nat.eqb ex_cands ex_P 2 ex_arrival) -> ex_P o = true.
Proof. apply (lo_sound nat Nat.eqb ex_P ex_P); [auto | reflexivity]. Qed.

Example lo_complete_ex : In 5 (evaluate nat Nat.eqb ex_cands ex_P 0 ex_arrival).
Proof.
  apply (lo_complete nat Nat.eqb nat_eqb_spec ex_P ex_P ex_univ); [auto | reflexivity | simpl; tauto | reflexivity].
Qed.

Example lo_nodup_ex : NoDup (evaluate nat Nat.eqb ex_cands ex_P 0 ex_arrival).
Proof. apply (lo_nodup nat Nat.eqb nat_eqb_spec). Qed.

Example lo_exact_ex : In 4 ex_univ /\ ~ In 4 (evaluate nat Nat.eqb ex_cands ex_P 0 ex_arrival).
Proof.
  split; [simpl; tauto|]. intro H.
  apply (lo_exact nat Nat.eqb nat_eqb_spec ex_P ex_P ex_univ ex_cands ex_arrival) in H;
    [discriminate | reflexivity | reflexivity | reflexivity | simpl; tauto].
Qed.

Example lo_limit_ex :
  length (evaluate nat Nat.eqb ex_cands ex_P 2 ex_arrival) = 2 /\
  NoDup (evaluate nat Nat.eqb ex_cands ex_P 2 ex_arrival) /\
  (forall o, In o (evaluate nat Nat.eqb ex_cands ex_P 2 ex_arrival) -> ex_P o = true).
Proof.
  apply (lo_limit nat Nat.eqb nat_eqb_spec ex_P ex_P); [reflexivity | reflexivity | auto | vm_compute; auto].
Qed.

Example lo_limit_short_ex : In 1 (evaluate nat Nat.eqb ex_cands ex_P 4 ex_arrival).
Proof.
  apply (lo_limit_short nat Nat.eqb ex_P ex_P); [reflexivity | reflexivity | vm_compute; auto | vm_compute; auto].
Qed.

Example lo_deadline_prefix_sound_ex :
  forall o, In o (run_prefix nat Nat.eqb 1 ex_cands ex_P 0 ex_arrival) -> ex_P o = true.
Proof. apply (lo_deadline_prefix_sound nat Nat.eqb nat_eqb_spec ex_P ex_P); [auto | reflexivity]. Qed.

Example arrange_surjective_ex : exists arrival, arrange nat arrival [1; 3; 5] = [5; 3; 1].
Proof. apply arrange_surjective. apply Permutation_rev with (l := [1; 3; 5]). Qed.

Example evaluate_length_ex : length (evaluate nat Nat.eqb ex_cands ex_P 2 ex_arrival) = 2.
Proof. rewrite evaluate_length. reflexivity. Qed.

(* ---- the contract is necessary.  Full-strength statement (no hypothesis on the candidates):
        forall P check cands limit arrival o, (forall o, check o = P o) ->
          In o (evaluate cands check limit arrival) -> P o = true
   is refuted: a NoFurtherEval candidate that is not permitted is returned unchecked.  This was
   the shape of the former finding F7 (before a279b76 sqlite's ReadStartingWithUser made reverse
   expansion for the subject group:1 emit doc:2, related only to group:1#member, with
   NoFurtherEval); the statement is about the layer's hypothesis, not about the current code:
   lo_sound above is the _partial version, its boolean hypothesis nofurther_sound excludes exactly
   this trigger, and the driver checks the hypothesis on every recorded stream. ---- *)
Theorem lo_sound_needs_contract_refuted :
  exists (P check : nat -> bool) (cands : list (cand nat)) (limit : nat) (arrival : list nat) (o : nat),
    (forall o, check o = P o) /\
    nofurther_sound nat P cands = false /\
    In o (evaluate nat Nat.eqb cands check limit arrival) /\ P o = false.
Proof.
  exists (fun o => Nat.eqb o 1), (fun o => Nat.eqb o 1), [(1, NoFurtherEval); (2, NoFurtherEval)], 0, [], 2.
  vm_compute. repeat split; auto.
Qed.
Print Assumptions lo_sound_needs_contract_refuted.

(* completeness likewise needs `complete`: an object the generator never emits is never returned *)
Theorem lo_complete_needs_contract_refuted :
  exists (P check : nat -> bool) (univ : list nat) (cands : list (cand nat)) (arrival : list nat) (o : nat),
    (forall o, check o = P o) /\
    complete nat Nat.eqb P univ cands = false /\
    In o univ /\ P o = true /\ ~ In o (evaluate nat Nat.eqb cands check 0 arrival).
Proof.
  exists (fun _ => true), (fun _ => true), [1; 2], [(1, NoFurtherEval)], [], 2.
  vm_compute. repeat split; auto. intros [H | []]. discriminate.
Qed.
Print Assumptions lo_complete_needs_contract_refuted.

(* ---- Execute: examples and the refutation of unconditional completeness ---- *)
Example execute_sound_ex :
  execute nat Nat.eqb ex_cands ex_P 2 ex_arrival (Some 5) = Objects nat [3; 5] /\
  execute nat Nat.eqb ex_cands ex_P 2 ex_arrival (Some 1) = Failed nat /\
  execute nat Nat.eqb ex_cands ex_P 0 ex_arrival None = Objects nat [3; 5; 1].
Proof. vm_compute. repeat split. Qed.

Example execute_complete_partial_ex : forall l,
  execute nat Nat.eqb ex_cands ex_P 7 ex_arrival None = Objects nat l -> In 1 l.
Proof.
  intros l H.
  apply (execute_complete_partial nat Nat.eqb nat_eqb_spec ex_P ex_P ex_univ ex_cands 7 ex_arrival None l);
    [left; reflexivity | auto | reflexivity | exact H | | simpl; tauto | reflexivity].
  right. vm_compute in H. inversion H; subst. simpl. auto with arith.
Qed.

Example execute_streamed_ex :
  execute_streamed nat Nat.eqb ex_cands ex_P ex_arrival (Some 2) = ([3; 5], true) /\
  execute_streamed nat Nat.eqb ex_cands ex_P ex_arrival None = ([3; 5; 1], false).
Proof. vm_compute. split; reflexivity. Qed.

(* Full-strength completeness of a successful, uncut unary response:
        forall ... err_after, execute ... = Objects l -> limit = 0 \/ length l < limit ->
          In o univ -> P o = true -> In o l
   is refuted by the code as written: with maxResults = 0 an evaluation error is dropped
   (len(objects) < 0 is never true) and the partial list is returned without error.
   Witness: the contract holds, check = P, objects 1 and 3 permitted, the error strikes after
   the first send; the response is Objects [3] and the permitted object 1 is missing.
   Finding limit0_error_swallowed; confirmed on the real code by harness/cmd/c05. *)
Theorem execute_complete_refuted :
  exists (P check : nat -> bool) (univ : list nat) (cands : list (cand nat)) (limit : nat)
         (arrival : list nat) (err_after : option nat) (l : list nat) (o : nat),
    (forall o, check o = P o) /\
    nofurther_sound nat P cands = true /\
    complete nat Nat.eqb P univ cands = true /\
    execute nat Nat.eqb cands check limit arrival err_after = Objects nat l /\
    limit = 0 /\ In o univ /\ P o = true /\ ~ In o l.
Proof.
  exists ex_P, ex_P, ex_univ, ex_cands, 0, ex_arrival, (Some 1), [3], 1.
  vm_compute. repeat split; auto. intros [H | []]. discriminate.
Qed.
Print Assumptions execute_complete_refuted.

Example pipeline_recv_spec_ex :
  pipeline_recv nat Nat.eqb [3; 1; 3; 5; 1] 0 = [3; 1; 5] /\
  pipeline_recv nat Nat.eqb [3; 1; 3; 5; 1] 2 = [3; 1] /\
  (forall o, In o [3; 1; 3; 5; 1] -> ex_P o = true).
Proof. split; [reflexivity | split; [reflexivity|]]. intros o H. simpl in H. intuition; subst; reflexivity. Qed.

(* ---- the limit theorem at the finer granularity.  lo_limit (above) is the _partial version: its
   model takes trySendObject's reservation and send as one step, i.e. it excludes the trigger
   "a reserved send of a RequiresFurtherEval candidate loses the select against cancel()".
   With the two steps separated the full statement
        0 < limit <= |permitted candidates|  ->  |output| = limit
   is refuted: three permitted candidates that all need a Check, limit 1; the first confirmation
   reserves the slot, the consumer reads the next candidate, sees the limit reached and cancels,
   the reserved send takes the ctx.Done() branch: nothing is returned.  Observed on the real code
   (finding limit_cancel_race: ListObjects(user:c, allowed, doc) with maxResults 1 returned [] ,
   no error, three permitted objects). ---- *)
Example evaluate_racy_ex :
  evaluate_racy nat Nat.eqb ex_cands ex_P 2 ex_arrival (fun o => Nat.eqb o 3) = [5] /\
  evaluate_racy nat Nat.eqb ex_cands ex_P 2 ex_arrival (fun o => Nat.eqb o 5) = [3; 5] /\
  evaluate_racy nat Nat.eqb ex_cands ex_P 7 ex_arrival (fun _ => true) = [3; 5; 1].
Proof. vm_compute. repeat split. Qed.

Theorem lo_limit_racy_refuted :
  exists (P check : nat -> bool) (cands : list (cand nat)) (limit : nat) (arrival : list nat) (drop : nat -> bool),
    (forall o, check o = P o) /\
    nofurther_sound nat P cands = true /\
    0 < limit /\ limit <= length (permitted_cands nat Nat.eqb P cands) /\
    length (evaluate_racy nat Nat.eqb cands check limit arrival drop) < limit.
Proof.
  exists (fun _ => true), (fun _ => true),
         [(1, RequiresFurtherEval); (2, RequiresFurtherEval); (3, RequiresFurtherEval)], 1, [], (fun _ => true).
  vm_compute. repeat split; auto.
Qed.
Print Assumptions lo_limit_racy_refuted.

(* ---- datastore faults: never a successful strict subset ---- *)
Example execute_k_ex :
  execute_k nat Nat.eqb ex_cands ex_P 0 ex_arrival (Some (1, OtherError)) = Failed nat /\
  execute_k nat Nat.eqb ex_cands ex_P 2 ex_arrival (Some (5, CondError)) = Objects nat [3; 5] /\
  execute_k nat Nat.eqb ex_cands ex_P 0 ex_arrival (Some (1, CondError)) = Objects nat [3] /\
  execute_k nat Nat.eqb ex_cands ex_P 0 ex_arrival None = Objects nat [3; 5; 1].
Proof. vm_compute. repeat split. Qed.

Example execute_k_complete_partial_ex : forall err l,
  (forall k, err <> Some (k, CondError)) ->
  execute_k nat Nat.eqb ex_cands ex_P 0 ex_arrival err = Objects nat l -> In 1 l /\ In 3 l /\ In 5 l.
Proof.
  intros err l Hne H.
  assert (Hall : forall o, In o ex_univ -> ex_P o = true -> In o l).
  { apply (execute_k_complete_partial nat Nat.eqb nat_eqb_spec ex_P ex_P ex_univ ex_cands 0 ex_arrival err l);
      [left; exact Hne | auto | reflexivity | exact H | left; reflexivity]. }
  repeat split; apply Hall; simpl; tauto || reflexivity.
Qed.
