(* C05: ListObjects returns exactly the permitted objects.

   Statements only; proofs in Query/ListObjectsProofs.v, model in Query/ListObjects.v.
   Layer proved here: evaluate / trySendCandidate de-duplication / trySendObject limit counter /
   deadline prefix, for ALL candidate lists (repetitions, any statuses), ALL check oracles, ALL
   limits and ALL interleavings of the confirmations (arrange_surjective: the arrival parameter
   reaches every permutation).  P is the reference semantics (Sem.holds3 = T), check the Check
   command used for RequiresFurtherEval candidates.
   The two hypotheses about the candidate list — nofurther_sound and complete — are the
   reverse-expansion contract; they are not proved but CHECKED on the real candidate stream of
   reverseexpand.ReverseExpandQuery.Execute against Sem on every run (translation validation).
   lo_sound_needs_contract_refuted: without nofurther_sound the layer passes a non-permitted
   object through — this is how finding F7 (sqlite ReadStartingWithUser leak) reaches the result. *)
From Coq Require Import List Bool Arith Permutation.
From OFGA Require Import Query.ListObjects Query.ListObjectsProofs.
Import ListNotations.

Section Statements.
  Variable A : Type.
  Variable eqb : A -> A -> bool.
  Hypothesis eqb_spec : forall a b, eqb a b = true <-> a = b.

  Theorem lo_sound : forall (P check : A -> bool) cands limit arrival,
    (forall o, check o = true -> P o = true) ->
    nofurther_sound A P cands = true ->
    forall o, In o (evaluate A eqb cands check limit arrival) -> P o = true.
  Proof. exact (ListObjectsProofs.lo_sound A eqb). Qed.

  Theorem lo_complete : forall (P check : A -> bool) univ cands arrival,
    (forall o, P o = true -> check o = true) ->
    complete A eqb P univ cands = true ->
    forall o, In o univ -> P o = true -> In o (evaluate A eqb cands check 0 arrival).
  Proof. exact (ListObjectsProofs.lo_complete A eqb eqb_spec). Qed.

  Theorem lo_nodup : forall (check : A -> bool) cands limit arrival,
    NoDup (evaluate A eqb cands check limit arrival).
  Proof. exact (ListObjectsProofs.lo_nodup A eqb eqb_spec). Qed.

  Theorem lo_exact : forall (P check : A -> bool) univ cands arrival,
    (forall o, check o = P o) ->
    nofurther_sound A P cands = true ->
    complete A eqb P univ cands = true ->
    forall o, In o univ -> (In o (evaluate A eqb cands check 0 arrival) <-> P o = true).
  Proof. exact (ListObjectsProofs.lo_exact A eqb eqb_spec). Qed.

  Theorem lo_limit : forall (P check : A -> bool) cands limit arrival,
    (forall o, check o = P o) ->
    nofurther_sound A P cands = true ->
    0 < limit ->
    limit <= length (permitted_cands A eqb P cands) ->
    length (evaluate A eqb cands check limit arrival) = limit /\
    NoDup (evaluate A eqb cands check limit arrival) /\
    (forall o, In o (evaluate A eqb cands check limit arrival) -> P o = true).
  Proof. exact (ListObjectsProofs.lo_limit A eqb eqb_spec). Qed.

  Theorem lo_limit_short : forall (P check : A -> bool) cands limit arrival,
    (forall o, check o = P o) ->
    nofurther_sound A P cands = true ->
    length (permitted_cands A eqb P cands) <= limit ->
    forall o, In o (evaluate A eqb cands check limit arrival) <-> In o (permitted_cands A eqb P cands).
  Proof. exact (ListObjectsProofs.lo_limit_short A eqb). Qed.

  Theorem lo_deadline_prefix_sound : forall (P check : A -> bool) k cands limit arrival,
    (forall o, check o = true -> P o = true) ->
    nofurther_sound A P cands = true ->
    NoDup (run_prefix A eqb k cands check limit arrival) /\
    forall o, In o (run_prefix A eqb k cands check limit arrival) -> P o = true.
  Proof. exact (ListObjectsProofs.lo_deadline_prefix_sound A eqb eqb_spec). Qed.

  (* "for every arrival order": the arrival parameter is onto the orderings of the attempts *)
  Theorem arrange_surjective : forall l l' : list A,
    Permutation l l' -> exists arrival, arrange A arrival l = l'.
  Proof. exact (ListObjectsProofs.arrange_surjective A). Qed.

  Theorem evaluate_length : forall cands (check : A -> bool) limit arrival,
    length (evaluate A eqb cands check limit arrival) =
    match limit with O => length (attempts A eqb check cands) | S _ => Nat.min limit (length (attempts A eqb check cands)) end.
  Proof. exact (ListObjectsProofs.evaluate_length A eqb). Qed.
End Statements.

Print Assumptions lo_sound.
Print Assumptions lo_complete.
Print Assumptions lo_nodup.
Print Assumptions lo_exact.
Print Assumptions lo_limit.
Print Assumptions lo_limit_short.
Print Assumptions lo_deadline_prefix_sound.
Print Assumptions arrange_surjective.
Print Assumptions evaluate_length.

(* ---- non-vacuity: a concrete run.  Objects 1..5; permitted = odd numbers.  The candidate list
   repeats 1 (second arrival with the other status), offers 2 and 4 for further evaluation and
   never mentions 6 (not permitted, so completeness is not affected). ---- *)
Definition ex_P (o : nat) : bool := Nat.odd o.
Definition ex_cands : list (cand nat) :=
  [(1, NoFurtherEval); (2, RequiresFurtherEval); (3, RequiresFurtherEval); (1, RequiresFurtherEval);
   (4, RequiresFurtherEval); (5, NoFurtherEval); (3, NoFurtherEval)].
Definition ex_univ : list nat := [1; 2; 3; 4; 5; 6].
Definition ex_arrival : list nat := [2; 0; 1].

Example lo_hyps_ex :
  nofurther_sound nat ex_P ex_cands = true /\
  complete nat Nat.eqb ex_P ex_univ ex_cands = true /\
  permitted_cands nat Nat.eqb ex_P ex_cands = [1; 3; 5] /\
  evaluate nat Nat.eqb ex_cands ex_P 0 ex_arrival = [3; 5; 1] /\
  evaluate nat Nat.eqb ex_cands ex_P 2 ex_arrival = [3; 5] /\
  evaluate nat Nat.eqb ex_cands ex_P 2 [] = [1; 3] /\
  evaluate nat Nat.eqb ex_cands ex_P 7 ex_arrival = [3; 5; 1] /\
  run_prefix nat Nat.eqb 1 ex_cands ex_P 2 ex_arrival = [3].
Proof. vm_compute. repeat split. Qed.

Example lo_sound_ex : forall o, In o (evaluate nat Nat.eqb ex_cands ex_P 2 ex_arrival) -> ex_P o = true.
Proof. apply (lo_sound nat Nat.eqb ex_P ex_P); [auto | reflexivity]. Qed.

Example lo_complete_ex : In 5 (evaluate nat Nat.eqb ex_cands ex_P 0 ex_arrival).
Proof.
  apply (lo_complete nat Nat.eqb nat_eqb_spec ex_P ex_P ex_univ); [auto | reflexivity | simpl; tauto | reflexivity].
Qed.

Example lo_nodup_ex : NoDup (evaluate nat Nat.eqb ex_cands ex_P 0 ex_arrival).
Proof. apply (lo_nodup nat Nat.eqb nat_eqb_spec). Qed.

Example lo_exact_ex : In 4 ex_univ /\ ~ In 4 (evaluate nat Nat.eqb ex_cands ex_P 0 ex_arrival).
Proof.
  split; [simpl; tauto|]. intro H.
  apply (lo_exact nat Nat.eqb nat_eqb_spec ex_P ex_P ex_univ ex_cands ex_arrival) in H;
    [discriminate | reflexivity | reflexivity | reflexivity | simpl; tauto].
Qed.

Example lo_limit_ex :
  length (evaluate nat Nat.eqb ex_cands ex_P 2 ex_arrival) = 2 /\
  NoDup (evaluate nat Nat.eqb ex_cands ex_P 2 ex_arrival) /\
  (forall o, In o (evaluate nat Nat.eqb ex_cands ex_P 2 ex_arrival) -> ex_P o = true).
Proof.
  apply (lo_limit nat Nat.eqb nat_eqb_spec ex_P ex_P); [reflexivity | reflexivity | auto | vm_compute; auto].
Qed.

Example lo_limit_short_ex : In 1 (evaluate nat Nat.eqb ex_cands ex_P 4 ex_arrival).
Proof.
  apply (lo_limit_short nat Nat.eqb ex_P ex_P); [reflexivity | reflexivity | vm_compute; auto | vm_compute; auto].
Qed.

Example lo_deadline_prefix_sound_ex :
  forall o, In o (run_prefix nat Nat.eqb 1 ex_cands ex_P 0 ex_arrival) -> ex_P o = true.
Proof. apply (lo_deadline_prefix_sound nat Nat.eqb nat_eqb_spec ex_P ex_P); [auto | reflexivity]. Qed.

Example arrange_surjective_ex : exists arrival, arrange nat arrival [1; 3; 5] = [5; 3; 1].
Proof. apply arrange_surjective. apply Permutation_rev with (l := [1; 3; 5]). Qed.

Example evaluate_length_ex : length (evaluate nat Nat.eqb ex_cands ex_P 2 ex_arrival) = 2.
Proof. rewrite evaluate_length. reflexivity. Qed.

(* ---- the contract is necessary.  Full-strength statement (no hypothesis on the candidates):
        forall P check cands limit arrival o, (forall o, check o = P o) ->
          In o (evaluate cands check limit arrival) -> P o = true
   is refuted: a NoFurtherEval candidate that is not permitted is returned unchecked.  This is
   the shape of F7: on sqlite, reverse expansion for the subject group:1 emits doc:2 (related
   only to group:1#member) with NoFurtherEval.  lo_sound above is the _partial version, its
   boolean hypothesis nofurther_sound excludes exactly this trigger. ---- *)
Theorem lo_sound_needs_contract_refuted :
  exists (P check : nat -> bool) (cands : list (cand nat)) (limit : nat) (arrival : list nat) (o : nat),
    (forall o, check o = P o) /\
    nofurther_sound nat P cands = false /\
    In o (evaluate nat Nat.eqb cands check limit arrival) /\ P o = false.
Proof.
  exists (fun o => Nat.eqb o 1), (fun o => Nat.eqb o 1), [(1, NoFurtherEval); (2, NoFurtherEval)], 0, [], 2.
  vm_compute. repeat split; auto.
Qed.
Print Assumptions lo_sound_needs_contract_refuted.

(* completeness likewise needs `complete`: an object the generator never emits is never returned *)
Theorem lo_complete_needs_contract_refuted :
  exists (P check : nat -> bool) (univ : list nat) (cands : list (cand nat)) (arrival : list nat) (o : nat),
    (forall o, check o = P o) /\
    complete nat Nat.eqb P univ cands = false /\
    In o univ /\ P o = true /\ ~ In o (evaluate nat Nat.eqb cands check 0 arrival).
Proof.
  exists (fun _ => true), (fun _ => true), [1; 2], [(1, NoFurtherEval)], [], 2.
  vm_compute. repeat split; auto. intros [H | []]. discriminate.
Qed.
Print Assumptions lo_complete_needs_contract_refuted.
