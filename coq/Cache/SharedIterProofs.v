(* Proofs about Cache/SharedIter.v (C23): every clone of a shared iterator observes the complete
   underlying sequence -- the items before the first error, then that error (or
   ErrIteratorDone) for ever -- for EVERY interleaving of the calls of all clones, of new clones
   being created, of clones being stopped and of the original instance expiring.  Induction over
   traces with an invariant that ties the shared buffer to the underlying script and the
   reference count to the clones that are still open. *)
From Coq Require Import List NArith ZArith Bool Arith Lia.
From OFGA Require Import Cache.IterAdapters Cache.IterAdaptersProofs Cache.SharedIter.
Import ListNotations.
Open Scope N_scope.

Lemma clean_prefix_items : forall l, clean_prefix (map Item l) = l /\ term_err (map Item l) = EDone.
Proof. induction l as [|x r [IH1 IH2]]; simpl; [auto|]. now rewrite IH1. Qed.
Lemma clean_prefix_app_err : forall l c r,
  clean_prefix (map Item l ++ Err c :: r) = l /\ term_err (map Item l ++ Err c :: r) = c.
Proof. induction l as [|x t IH]; intros c r; simpl; [auto|]. destruct (IH c r) as [H1 H2]. now rewrite H1. Qed.
Lemma clean_prefix_app : forall l rest, clean_prefix (map Item l ++ rest) = l ++ clean_prefix rest.
Proof. induction l as [|x t IH]; intro rest; simpl; [reflexivity | now rewrite IH]. Qed.

Fixpoint live_count (cs : list clone) : Z :=
  match cs with
  | [] => 0%Z
  | c :: r => ((if cl_stopped c then 0 else 1) + live_count r)%Z
  end.

Lemma live_count_nonneg : forall cs, (0 <= live_count cs)%Z.
Proof. induction cs as [|c r IH]; simpl; [lia|]. destruct (cl_stopped c); lia. Qed.
Lemma live_count_pos : forall cs i c, nth_error cs i = Some c -> cl_stopped c = false -> (1 <= live_count cs)%Z.
Proof.
  induction cs as [|a r IH]; intros i c H Hc; destruct i as [|i]; simpl in H; try discriminate.
  - inversion H; subst. simpl. rewrite Hc. pose proof (live_count_nonneg r). lia.
  - simpl. pose proof (IH i c H Hc). destruct (cl_stopped a); lia.
Qed.
Lemma live_count_set : forall cs i c c1, nth_error cs i = Some c ->
  live_count (set_nth i cs c1)
  = (live_count cs - (if cl_stopped c then 0 else 1) + (if cl_stopped c1 then 0 else 1))%Z.
Proof.
  induction cs as [|a r IH]; intros i c c1 H; destruct i as [|i]; simpl in H; try discriminate.
  - inversion H; subst. simpl. destruct (cl_stopped c); destruct (cl_stopped c1); lia.
  - simpl. rewrite (IH i c c1 H). destruct (cl_stopped a); lia.
Qed.
Lemma live_count_app : forall cs c, live_count (cs ++ [c]) = (live_count cs + (if cl_stopped c then 0 else 1))%Z.
Proof. induction cs as [|a r IH]; intro c; simpl; [lia|]. rewrite IH. lia. Qed.

Lemma nth_error_set_nth_eq : forall A (l : list A) i a x, nth_error l i = Some x -> nth_error (set_nth i l a) i = Some a.
Proof. induction l as [|y r IH]; intros i a x H; destruct i; simpl in *; try discriminate; eauto. Qed.
Lemma nth_error_set_nth_neq : forall A (l : list A) i j a, i <> j -> nth_error (set_nth i l a) j = nth_error l j.
Proof.
  induction l as [|y r IH]; intros i j a H; destruct i; destruct j; simpl; try reflexivity; try congruence.
  apply IH. congruence.
Qed.
Lemma nth_error_set_nth_none : forall A (l : list A) i a, nth_error l i = None -> set_nth i l a = l.
Proof. induction l as [|y r IH]; intros i a H; destruct i; simpl in *; try discriminate; try reflexivity. now rewrite IH. Qed.

Section SharedProofs.
  Variable b : nat.
  Let bufsz := S b.          (* the buffer of fetchMore has at least one slot (100 in the code) *)
  Variable evs0 : list ev.   (* the script of the underlying iterator *)

  Lemma src_next_open : forall s, sstopped s = false ->
    src_next s = match evs s with
                 | [] => (RDone, mkSrc [] false (nstops s))
                 | Item x :: r => (ROk x, mkSrc r false (nstops s))
                 | Err c :: r => (RErr c, mkSrc r false (nstops s))
                 end.
  Proof.
    intros s H. unfold src_next, live, put. rewrite H. destruct (evs s) as [|[x|c] r]; reflexivity.
  Qed.

  (* iteratorReader.Read on an iterator that has not been stopped *)
  Lemma read_n_spec : forall n s, sstopped s = false ->
    sstopped (snd (read_n n s)) = false
    /\ exists rest, evs s = map Item (fst (fst (read_n n s))) ++ rest
       /\ match snd (fst (read_n n s)) with
          | None => evs (snd (read_n n s)) = rest /\ (n <> O -> (length rest < length (evs s))%nat)
                    \/ (n = O /\ evs (snd (read_n n s)) = rest)
          | Some c => (rest = [] /\ c = EDone) \/ exists r, rest = Err c :: r
          end.
  Proof.
    induction n as [|n IH]; intros s Hs.
    - simpl. split; [exact Hs|]. exists (evs s). split; [reflexivity|]. right. auto.
    - simpl. rewrite (src_next_open s Hs). destruct (evs s) as [|[x|c] r] eqn:Ee.
      + simpl. split; [reflexivity|]. exists []. split; [reflexivity|]. left. auto.
      + specialize (IH (mkSrc r false (nstops s)) eq_refl).
        destruct (read_n n (mkSrc r false (nstops s))) as [[xs e] s2]. simpl in *.
        destruct IH as [H1 [rest [H2 H3]]]. split; [exact H1|]. exists rest. split; [now rewrite H2|].
        destruct e as [c|]; [exact H3|]. left. destruct H3 as [[H3 H4]|[H3 H4]].
        * split; [exact H3|]. intros _. rewrite H2. simpl. rewrite app_length. lia.
        * split; [exact H4|]. intros _. rewrite H2. simpl. rewrite app_length. lia.
      + simpl. split; [reflexivity|]. exists (Err c :: r). split; [reflexivity|]. right. eauto.
  Qed.

  (* the shared buffer is a faithful copy of the underlying script *)
  Definition buf_ok (sh : shared) : Prop :=
    (sh_err sh = None -> evs0 = map Item (sh_buf sh) ++ evs (sh_inner sh))
    /\ (forall e, sh_err sh = Some e -> sh_buf sh = clean_prefix evs0 /\ e = term_err evs0).

  Lemma fetch_more_ok : forall sh, buf_ok sh -> sstopped (sh_inner sh) = false -> sh_err sh = None ->
    buf_ok (fetch_more bufsz sh)
    /\ sstopped (sh_inner (fetch_more bufsz sh)) = false
    /\ sh_refs (fetch_more bufsz sh) = sh_refs sh
    /\ (sh_err (fetch_more bufsz sh) = None ->
        (length (evs (sh_inner (fetch_more bufsz sh))) < length (evs (sh_inner sh)))%nat).
  Proof.
    intros sh [I1 _] Hs He. specialize (I1 He). unfold fetch_more.
    pose proof (read_n_spec bufsz (sh_inner sh) Hs) as R.
    destruct (read_n bufsz (sh_inner sh)) as [[xs e] s1]. simpl in R.
    destruct R as [R0 [rest [R1 R2]]]. simpl. split; [|split; [exact R0 | split; [reflexivity|]]].
    - split; simpl.
      + intro H. destruct e as [c|]; [discriminate|]. rewrite map_app, <- app_assoc, I1, R1.
        destruct R2 as [[R2 _]|[_ R2]]; now rewrite R2.
      + intros e0 H. destruct e as [c|]; [|rewrite He in H; discriminate]. inversion H; subst e0.
        rewrite I1, R1. destruct R2 as [[R2 R3]|[r R2]]; subst.
        * rewrite app_nil_r, <- map_app. destruct (clean_prefix_items (sh_buf sh ++ xs)) as [A B].
          split; symmetry; assumption.
        * rewrite app_assoc, <- map_app. destruct (clean_prefix_app_err (sh_buf sh ++ xs) c r) as [A B].
          split; symmetry; assumption.
    - intro H. destruct e as [c|]; [discriminate|].
      destruct R2 as [[R2 R3]|[R2 _]]; [|unfold bufsz in R2; discriminate].
      rewrite R2. apply R3. unfold bufsz. discriminate.
  Qed.

  Lemma fetch_and_wait_ok : forall fuel head sh,
    buf_ok sh -> sstopped (sh_inner sh) = false -> (length (evs (sh_inner sh)) < fuel)%nat ->
    exists sh1, fetch_and_wait bufsz fuel head sh = Some sh1
      /\ buf_ok sh1 /\ sstopped (sh_inner sh1) = false /\ sh_refs sh1 = sh_refs sh
      /\ ((head < length (sh_buf sh1))%nat \/ exists e, sh_err sh1 = Some e).
  Proof.
    induction fuel as [|fuel IH]; intros head sh Hok Hs Hf; [lia|].
    simpl. destruct (Nat.ltb head (length (sh_buf sh))) eqn:El.
    - simpl. exists sh. split; [reflexivity|]. split; [exact Hok|]. split; [exact Hs|]. split; [reflexivity|].
      left. now apply Nat.ltb_lt.
    - destruct (sh_err sh) as [e|] eqn:Ee.
      + simpl. exists sh. split; [reflexivity|]. split; [exact Hok|]. split; [exact Hs|]. split; [reflexivity|].
        right. eauto.
      + simpl. destruct (fetch_more_ok sh Hok Hs Ee) as [F1 [F2 [F3 F4]]].
        destruct (sh_err (fetch_more bufsz sh)) as [e|] eqn:Ee1.
        * (* the next round stops at once, whatever fuel is left *)
          exists (fetch_more bufsz sh). split.
          -- destruct fuel; simpl; rewrite Ee1; now rewrite orb_true_r.
          -- split; [exact F1|]. split; [exact F2|]. split; [exact F3|]. right. eauto.
        * specialize (F4 eq_refl).
          destruct (IH head (fetch_more bufsz sh) F1 F2 ltac:(lia)) as [sh1 [G1 [G2 [G3 [G4 G5]]]]].
          exists sh1. split; [exact G1|]. split; [exact G2|]. split; [exact G3|]. split; [congruence | exact G5].
  Qed.

  (* currentLocked of an open clone returns what the underlying script has at its position *)
  Lemma current_ok : forall c sh, buf_ok sh -> sstopped (sh_inner sh) = false -> cl_stopped c = false ->
    fst (current bufsz false c sh) = ideal evs0 (cl_head c)
    /\ buf_ok (snd (current bufsz false c sh))
    /\ sstopped (sh_inner (snd (current bufsz false c sh))) = false
    /\ sh_refs (snd (current bufsz false c sh)) = sh_refs sh.
  Proof.
    intros c sh Hok Hs Hc. unfold current. rewrite Hc.
    destruct (fetch_and_wait_ok (fetch_fuel sh) (cl_head c) sh Hok Hs ltac:(unfold fetch_fuel; lia))
      as [sh1 [G1 [G2 [G3 [G4 G5]]]]].
    rewrite G1. unfold ideal. destruct G2 as [I1 I2].
    destruct (nth_error (sh_buf sh1) (cl_head c)) as [x|] eqn:En; simpl.
    - split; [|split; [split; [exact I1 | exact I2] | split; [exact G3 | exact G4]]].
      destruct (sh_err sh1) as [e|] eqn:Ee.
      + destruct (I2 e eq_refl) as [I3 _]. rewrite <- I3, En. reflexivity.
      + rewrite (I1 eq_refl), clean_prefix_app. rewrite nth_error_app1; [now rewrite En|].
        apply nth_error_Some. congruence.
    - split; [|split; [split; [exact I1 | exact I2] | split; [exact G3 | exact G4]]].
      pose proof En as En2. apply nth_error_None in En2.
      destruct G5 as [G5|[e G5]]; [lia|]. rewrite G5. destruct (I2 e G5) as [I3 I4].
      rewrite <- I3. rewrite En. now rewrite I4.
  Qed.

  (* ---- the invariant of the whole system ---- *)

  Definition SInv (st : sys) : Prop :=
    buf_ok (sy_sh st)
    /\ sh_refs (sy_sh st) = (live_count (sy_clones st) + (if sy_orig_stopped st then 0 else 1))%Z
    /\ (sstopped (sh_inner (sy_sh st)) = true -> sh_refs (sy_sh st) = 0%Z).

  Lemma sinv_init : SInv (sys_init evs0).
  Proof. repeat split; simpl; try reflexivity; intros; discriminate. Qed.

  Lemma open_of_live : forall st i c, SInv st -> nth_error (sy_clones st) i = Some c -> cl_stopped c = false ->
    sstopped (sh_inner (sy_sh st)) = false.
  Proof.
    intros st i c [_ [H2 H3]] Hn Hc. destruct (sstopped (sh_inner (sy_sh st))) eqn:E; [|reflexivity].
    specialize (H3 eq_refl). pose proof (live_count_pos _ _ _ Hn Hc). destruct (sy_orig_stopped st); lia.
  Qed.

  Lemma release_ok : forall stopped sh, buf_ok sh -> buf_ok (release stopped sh).
  Proof.
    intros stopped sh H. unfold release. destruct stopped; [exact H|].
    destruct H as [I1 I2]. destruct ((sh_refs sh - 1 =? 0)%Z); split; simpl; auto.
  Qed.

  Lemma sinv_same : forall st sh1 i c c1, SInv st ->
    nth_error (sy_clones st) i = Some c -> cl_stopped c1 = cl_stopped c ->
    buf_ok sh1 -> sh_refs sh1 = sh_refs (sy_sh st) ->
    (sstopped (sh_inner sh1) = true -> sstopped (sh_inner (sy_sh st)) = true) ->
    SInv (mkSys sh1 (sy_orig_stopped st) (set_nth i (sy_clones st) c1)).
  Proof.
    intros st sh1 i c c1 [H1 [H2 H3]] En Hc Hok Hr Hs. split; [exact Hok|]. split; simpl.
    - rewrite Hr, H2, (live_count_set _ _ _ c1 En), Hc. lia.
    - intro H. rewrite Hr. apply H3. now apply Hs.
  Qed.

  Theorem sinv_step : forall o st, SInv st -> SInv (snd (sys_step bufsz o st)).
  Proof.
    intros o st Hinv. pose proof Hinv as [H1 [H2 H3]]. destruct o as [i canc|i canc|i| |]; simpl.
    - (* Next *)
      destruct (nth_error (sy_clones st) i) as [c|] eqn:En; [|exact Hinv].
      unfold clone_next. destruct canc.
      + simpl. apply (sinv_same st (sy_sh st) i c c Hinv En eq_refl H1 eq_refl). auto.
      + destruct (cl_stopped c) eqn:Ec.
        * unfold current. rewrite Ec. simpl.
          apply (sinv_same st (sy_sh st) i c c Hinv En eq_refl H1 eq_refl). auto.
        * pose proof (open_of_live st i c Hinv En Ec) as Ho.
          destruct (current_ok c (sy_sh st) H1 Ho Ec) as [C1 [C2 [C3 C4]]].
          destruct (current bufsz false c (sy_sh st)) as [r sh1]. simpl in *.
          assert (G : forall c1, cl_stopped c1 = cl_stopped c ->
                      SInv (mkSys sh1 (sy_orig_stopped st) (set_nth i (sy_clones st) c1))).
          { intros c1 Hc1. apply (sinv_same st sh1 i c c1 Hinv En Hc1 C2 C4). rewrite C3. discriminate. }
          destruct r as [[x|] [e|]]; simpl; apply G; simpl; congruence.
    - (* Head *)
      destruct (nth_error (sy_clones st) i) as [c|] eqn:En; [|exact Hinv].
      destruct canc; [exact Hinv|]. destruct (cl_stopped c) eqn:Ec.
      + unfold current. rewrite Ec. exact Hinv.
      + pose proof (open_of_live st i c Hinv En Ec) as Ho.
        destruct (current_ok c (sy_sh st) H1 Ho Ec) as [C1 [C2 [C3 C4]]].
        destruct (current bufsz false c (sy_sh st)) as [r sh1]. simpl in *.
        split; [exact C2|]. split; simpl.
        * now rewrite C4.
        * rewrite C3. discriminate.
    - (* Stop of a clone *)
      destruct (nth_error (sy_clones st) i) as [c|] eqn:En; [|exact Hinv]. simpl.
      split; [now apply release_ok|]. unfold release. destruct (cl_stopped c) eqn:Ec.
      + split; [|exact H3]. simpl. rewrite (live_count_set _ _ _ (mkClone (cl_head c) true) En), Ec. simpl. lia.
      + simpl. split.
        * rewrite (live_count_set _ _ _ (mkClone (cl_head c) true) En), Ec. simpl. lia.
        * destruct ((sh_refs (sy_sh st) - 1 =? 0)%Z) eqn:Ez; simpl.
          -- intros _. now apply Z.eqb_eq.
          -- intro Hs. specialize (H3 Hs). pose proof (live_count_pos _ _ _ En Ec).
             destruct (sy_orig_stopped st); lia.
    - (* a new clone *)
      destruct (sy_orig_stopped st) eqn:Eo; [exact Hinv|]. simpl. split; [|split].
      + destruct H1 as [I1 I2]. split; simpl; [exact I1 | exact I2].
      + simpl. rewrite live_count_app. simpl. rewrite H2. lia.
      + simpl. intro Hs. specialize (H3 Hs). pose proof (live_count_nonneg (sy_clones st)). lia.
    - (* the original instance expires *)
      split; [now apply release_ok|]. unfold release. destruct (sy_orig_stopped st) eqn:Eo.
      + split; [|exact H3]. simpl. lia.
      + simpl. split; [lia|].
        destruct ((sh_refs (sy_sh st) - 1 =? 0)%Z) eqn:Ez; simpl.
        * intros _. now apply Z.eqb_eq.
        * intro Hs. specialize (H3 Hs). pose proof (live_count_nonneg (sy_clones st)). lia.
  Qed.

  Lemma sinv_run : forall ops st, SInv st -> SInv (snd (sys_run bufsz ops st)).
  Proof.
    induction ops as [|o r IH]; intros st H; simpl; [exact H|].
    pose proof (sinv_step o st H) as H1. destruct (sys_step bufsz o st) as [x s1]. simpl in H1.
    specialize (IH s1 H1). destruct (sys_run bufsz r s1). exact IH.
  Qed.

  (* ---- what one clone observes along an arbitrary trace ---- *)

  Definition head_of (i : nat) (st : sys) : nat :=
    match nth_error (sy_clones st) i with Some c => cl_head c | None => O end.
  Definition open_at (i : nat) (st : sys) : bool :=
    match nth_error (sy_clones st) i with Some c => negb (cl_stopped c) | None => false end.

  (* the results of the (uncancelled) Next calls of clone i while it is open *)
  Fixpoint reads (i : nat) (ops : list shop) (st : sys) : list res :=
    match ops with
    | [] => []
    | o :: r =>
      let rest := reads i r (snd (sys_step bufsz o st)) in
      match o with
      | ShNext j false => if Nat.eqb j i && open_at i st then fst (sys_step bufsz o st) :: rest else rest
      | _ => rest
      end
    end.

  Definition advance (h : nat) (r : res) : nat := match r with R (Some _) None => S h | _ => h end.
  Fixpoint ideal_seq (h : nat) (n : nat) : list res :=
    match n with
    | O => []
    | S k => ideal evs0 h :: ideal_seq (advance h (ideal evs0 h)) k
    end.

  Lemma next_open_clone : forall st i c, SInv st ->
    nth_error (sy_clones st) i = Some c -> cl_stopped c = false ->
    fst (sys_step bufsz (ShNext i false) st) = ideal evs0 (cl_head c)
    /\ head_of i (snd (sys_step bufsz (ShNext i false) st)) = advance (cl_head c) (ideal evs0 (cl_head c)).
  Proof.
    intros st i c Hinv En Ec. pose proof Hinv as [H1 _].
    pose proof (open_of_live st i c Hinv En Ec) as Ho.
    destruct (current_ok c (sy_sh st) H1 Ho Ec) as [C1 _].
    simpl. rewrite En. unfold clone_next.
    destruct (current bufsz false c (sy_sh st)) as [r sh1]. simpl in C1. subst r.
    unfold head_of.
    destruct (ideal evs0 (cl_head c)) as [[x|] [e|]]; simpl;
      rewrite (nth_error_set_nth_eq _ _ _ _ _ En); auto.
  Qed.

  (* no other step moves the position of clone i *)
  Lemma head_of_other : forall o st i,
    (forall c, o = ShNext i false -> nth_error (sy_clones st) i = Some c -> cl_stopped c = true) ->
    head_of i (snd (sys_step bufsz o st)) = head_of i st.
  Proof.
    intros o st i Hno. unfold head_of. destruct o as [j canc|j canc|j| |]; simpl.
    - destruct (nth_error (sy_clones st) j) as [c|] eqn:En; [|reflexivity].
      destruct (Nat.eq_dec j i) as [Hj|Hj].
      + subst j. unfold clone_next. destruct canc.
        * simpl. rewrite (nth_error_set_nth_eq _ _ _ _ _ En), En. reflexivity.
        * specialize (Hno c eq_refl En). unfold current. rewrite Hno. simpl.
          rewrite (nth_error_set_nth_eq _ _ _ _ _ En), En. reflexivity.
      + destruct (clone_next bufsz canc c (sy_sh st)) as [[r c1] sh1]. simpl.
        now rewrite nth_error_set_nth_neq.
    - destruct (nth_error (sy_clones st) j) as [c|]; [|reflexivity].
      destruct (current bufsz canc c (sy_sh st)). reflexivity.
    - destruct (nth_error (sy_clones st) j) as [c|] eqn:En; [|reflexivity]. simpl.
      destruct (Nat.eq_dec j i) as [Hj|Hj].
      + subst j. rewrite (nth_error_set_nth_eq _ _ _ _ _ En), En. reflexivity.
      + now rewrite nth_error_set_nth_neq.
    - destruct (sy_orig_stopped st); [reflexivity|]. simpl.
      destruct (nth_error (sy_clones st) i) as [c|] eqn:En.
      + rewrite nth_error_app1; [now rewrite En | apply nth_error_Some; congruence].
      + apply nth_error_None in En. destruct (Nat.eq_dec i (length (sy_clones st))) as [He|He].
        * subst i. rewrite nth_error_app2, Nat.sub_diag by lia. reflexivity.
        * assert (Hn : nth_error (sy_clones st ++ [mkClone O false]) i = None).
          { apply nth_error_None. rewrite app_length. simpl. lia. }
          now rewrite Hn.
    - reflexivity.
  Qed.

  (* shared_clone_complete *)
  Opaque sys_step.
  Theorem shared_clone_complete_from : forall ops st i, SInv st ->
    reads i ops st = ideal_seq (head_of i st) (length (reads i ops st)).
  Proof.
    induction ops as [|o r IH]; intros st i Hinv; [reflexivity|].
    pose proof (sinv_step o st Hinv) as Hinv1. cbn [reads].
    assert (Hother : (forall c, o = ShNext i false -> nth_error (sy_clones st) i = Some c -> cl_stopped c = true) ->
                     reads i r (snd (sys_step bufsz o st))
                     = ideal_seq (head_of i st) (length (reads i r (snd (sys_step bufsz o st))))).
    { intro Hno. rewrite (IH _ i Hinv1) at 1. now rewrite (head_of_other o st i Hno). }
    destruct o as [j canc|j canc|j| |]; try (apply Hother; intros c Hc; discriminate).
    destruct canc; [apply Hother; intros c Hc; discriminate|].
    destruct (Nat.eqb j i) eqn:Ej; cbn [andb].
    - apply Nat.eqb_eq in Ej. subst j. unfold open_at.
      destruct (nth_error (sy_clones st) i) as [c|] eqn:En.
      + destruct (cl_stopped c) eqn:Ec; cbn [negb].
        * apply Hother. intros c0 _ Hc0. inversion Hc0; subst. exact Ec.
        * destruct (next_open_clone st i c Hinv En Ec) as [N1 N2].
          assert (Hh : head_of i st = cl_head c) by (unfold head_of; now rewrite En).
          cbn [length ideal_seq]. rewrite !Hh. rewrite N1. f_equal.
          pose proof (IH _ i Hinv1) as IH1. rewrite N2 in IH1. exact IH1.
      + apply Hother. intros c0 _ Hc0. discriminate.
    - apply Hother. intros c Hc. inversion Hc; subst. rewrite Nat.eqb_refl in Ej. discriminate.
  Qed.
  Transparent sys_step.

  Theorem shared_clone_complete : forall ops i,
    reads i ops (sys_init evs0) = ideal_seq O (length (reads i ops (sys_init evs0))).
  Proof.
    intros ops i. pose proof (shared_clone_complete_from ops (sys_init evs0) i sinv_init) as H.
    assert (Hh : head_of i (sys_init evs0) = O) by (unfold head_of; simpl; destruct i; reflexivity).
    now rewrite Hh in H.
  Qed.

  (* the ideal sequence, spelled out: all items of the underlying iterator before its first
     error, then that error (ErrIteratorDone at the end) for ever *)
  Lemma ideal_seq_tail : forall k h, (length (clean_prefix evs0) <= h)%nat ->
    ideal_seq h k = repeat (RErr (term_err evs0)) k.
  Proof.
    induction k as [|k IH]; intros h Hh; simpl; [reflexivity|].
    unfold ideal. assert (Hn : nth_error (clean_prefix evs0) h = None) by now apply nth_error_None.
    rewrite Hn. simpl. f_equal. now apply IH.
  Qed.
  Theorem ideal_seq_full : forall k,
    ideal_seq O (length (clean_prefix evs0) + k) = map ROk (clean_prefix evs0) ++ repeat (RErr (term_err evs0)) k.
  Proof.
    intro k.
    assert (G : forall m h, (h + m = length (clean_prefix evs0))%nat ->
                ideal_seq h (m + k) = map ROk (skipn h (clean_prefix evs0)) ++ repeat (RErr (term_err evs0)) k).
    { induction m as [|m IH]; intros h Hh.
      - simpl. rewrite skipn_all2 by lia. simpl. apply ideal_seq_tail. lia.
      - cbn [Nat.add ideal_seq].
        destruct (nth_error (clean_prefix evs0) h) as [x|] eqn:En.
        + assert (Hi : ideal evs0 h = R (Some x) None) by (unfold ideal; now rewrite En).
          rewrite Hi. cbn [advance]. rewrite (IH (S h)) by lia.
          assert (Hs : skipn h (clean_prefix evs0) = x :: skipn (S h) (clean_prefix evs0)).
          { clear -En. revert h En. induction (clean_prefix evs0) as [|a l IHl]; intros h En; destruct h; simpl in *;
              try discriminate; [inversion En; reflexivity | now apply IHl]. }
          rewrite Hs. reflexivity.
        + apply nth_error_None in En. lia. }
    apply (G (length (clean_prefix evs0)) O). reflexivity.
  Qed.

  (* a stopped clone answers ErrIteratorDone and touches nothing *)
  Theorem stopped_clone_done : forall c sh, cl_stopped c = true ->
    clone_next bufsz false c sh = (RDone, c, sh) /\ current bufsz false c sh = (RDone, sh).
  Proof. intros c sh H. unfold clone_next, current. rewrite H. auto. Qed.
  (* Stop is idempotent: the reference is given back once *)
  Theorem clone_stop_idem : forall st i,
    snd (sys_step bufsz (ShStop i) (snd (sys_step bufsz (ShStop i) st))) = snd (sys_step bufsz (ShStop i) st).
  Proof.
    intros st i. simpl. destruct (nth_error (sy_clones st) i) as [c|] eqn:En; simpl.
    - rewrite (nth_error_set_nth_eq _ _ _ _ _ En). simpl. f_equal.
      clear. revert i. induction (sy_clones st) as [|a l IH]; intro i; destruct i; simpl; try reflexivity.
      now rewrite IH.
    - now rewrite En.
  Qed.
  (* the underlying iterator is stopped exactly when the last reference is given back, and never
     while a clone is still open *)
  Theorem inner_stopped_only_when_unreferenced : forall ops i c,
    let st := snd (sys_run bufsz ops (sys_init evs0)) in
    nth_error (sy_clones st) i = Some c -> cl_stopped c = false -> sstopped (sh_inner (sy_sh st)) = false.
  Proof. intros ops i c st Hn Hc. apply (open_of_live st i c (sinv_run ops _ sinv_init) Hn Hc). Qed.
End SharedProofs.

(* the producer error leaves the counter of stored items incremented (observation, not part of
   the property): one failing Read with limit 1 makes the next Read bypass the shared iterator *)
Example ctr_leak_on_producer_error :
  fst (ds_run 100 [DOpen 1 false; DOpen 1 false] (ds_init 1 [None; Some [Item 1]; Some [Item 1]]))
  = [RErr EOpen; R (Some 2) None].
Proof. vm_compute. reflexivity. Qed.

(* ---- layer 2: every shared iterator stored by the datastore wrapper keeps the invariant, for
        its own underlying script, along every sequence of datastore operations ---- *)

Lemma Forall2_set_nth : forall A B (P : A -> B -> Prop) (la : list A) (lb : list B) i a b0,
  Forall2 P la lb -> nth_error la i = Some a -> P a b0 -> Forall2 P la (set_nth i lb b0).
Proof.
  intros A B P la lb i a b0 H. revert i. induction H as [|x y la lb Hxy H IH]; intros i Hn Hp.
  - destruct i; discriminate.
  - destruct i as [|i]; simpl in *.
    + inversion Hn; subst. constructor; assumption.
    + constructor; [assumption | now apply IH].
Qed.
Lemma Forall2_nth : forall A B (P : A -> B -> Prop) (la : list A) (lb : list B) i b0,
  Forall2 P la lb -> nth_error lb i = Some b0 -> exists a, nth_error la i = Some a /\ P a b0.
Proof.
  intros A B P la lb i b0 H. revert i. induction H as [|x y la lb Hxy H IH]; intros i Hn.
  - destruct i; discriminate.
  - destruct i as [|i]; simpl in *; [inversion Hn; subst; eauto | now apply IH].
Qed.

Section DatastoreProofs.
  Variable b : nat.
  Let bufsz := S b.
  Definition DInv (ss : list (list ev)) (d : ds) : Prop := Forall2 (fun l st => SInv l st) ss (ds_inst d).

  Opaque sys_step.
  Lemma dinv_inst_step : forall ss d i o, DInv ss d -> DInv ss (snd (inst_step bufsz i o d)).
  Proof.
    intros ss d i o H. unfold inst_step. destruct (nth_error (ds_inst d) i) as [st|] eqn:En; [|exact H].
    destruct (Forall2_nth _ _ _ _ _ _ _ H En) as [l [Hl Hs]].
    pose proof (sinv_step b l o st Hs) as H1. fold bufsz in H1.
    destruct (sys_step bufsz o st) as [r st1]. simpl in *. unfold DInv. simpl.
    eapply Forall2_set_nth; eauto.
  Qed.

  Lemma dinv_expire : forall (m : list (N * nat)) ss insts,
    Forall2 (fun l st => SInv l st) ss insts ->
    Forall2 (fun l st => SInv l st) ss
      (fold_left (fun (insts : list sys) (p : N * nat) =>
                    match nth_error insts (snd p) with
                    | None => insts
                    | Some st => set_nth (snd p) insts (snd (sys_step bufsz ShExpire st))
                    end) m insts).
  Proof.
    induction m as [|p r IH]; intros ss insts H; simpl; [exact H|]. apply IH.
    destruct (nth_error insts (snd p)) as [st|] eqn:En; [|exact H].
    destruct (Forall2_nth _ _ _ _ _ _ _ H En) as [l [Hl Hs]].
    eapply Forall2_set_nth; eauto. apply (sinv_step b l ShExpire st Hs).
  Qed.

  Theorem dinv_step : forall o d ss, DInv ss d -> exists ext, DInv (ss ++ ext) (snd (ds_step bufsz o d)).
  Proof.
    intros o d ss H.
    assert (Hby : DInv ss (snd (open_bypass d))).
    { unfold open_bypass. destruct (take_script d) as [[l|] rest]; exact H. }
    destruct o as [k higher|h canc|h canc|h|]; simpl.
    - destruct higher; [exists []; now rewrite app_nil_r|].
      destruct ((ds_limit d =? 0)%Z || (ds_limit d <=? ds_ctr d)%Z); [exists []; now rewrite app_nil_r|].
      destruct (lookup k (ds_map d)) as [i|].
      + destruct (nth_error (ds_inst d) i) as [st|] eqn:En; [|exists []; now rewrite app_nil_r].
        destruct (Forall2_nth _ _ _ _ _ _ _ H En) as [l [Hl Hs]].
        pose proof (sinv_step b l ShClone st Hs) as H1. fold bufsz in H1.
        destruct (sys_step bufsz ShClone st) as [r st1]. simpl in H1.
        destruct r as [[c|] [e|]]; try (exists []; rewrite app_nil_r; exact Hby).
        exists []. rewrite app_nil_r. unfold DInv. simpl. eapply Forall2_set_nth; eauto.
      + destruct (take_script d) as [[l|] rest].
        * pose proof (sinv_step b l ShClone (sys_init l) (sinv_init l)) as H1. fold bufsz in H1.
          destruct (sys_step bufsz ShClone (sys_init l)) as [r st1]. simpl in H1.
          exists [l]. unfold DInv. simpl. apply Forall2_app; [exact H | constructor; [exact H1 | constructor]].
        * exists []. now rewrite app_nil_r.
    - exists []. rewrite app_nil_r. destruct (nth_error (ds_handles d) h) as [[i c|bi]|]; [| |exact H].
      + now apply dinv_inst_step.
      + destruct (nth_error (ds_bypass d) bi); [|exact H]. destruct canc; [exact H|].
        destruct (src_next s). exact H.
    - exists []. rewrite app_nil_r. destruct (nth_error (ds_handles d) h) as [[i c|bi]|]; [| |exact H].
      + now apply dinv_inst_step.
      + destruct (nth_error (ds_bypass d) bi); [|exact H]. destruct canc; exact H.
    - exists []. rewrite app_nil_r. destruct (nth_error (ds_handles d) h) as [[i c|bi]|]; [| |exact H].
      + now apply dinv_inst_step.
      + destruct (nth_error (ds_bypass d) bi); exact H.
    - exists []. rewrite app_nil_r. unfold DInv. simpl. now apply dinv_expire.
  Qed.

  Theorem dinv_run : forall ops d ss, DInv ss d -> exists ext, DInv (ss ++ ext) (snd (ds_run bufsz ops d)).
  Proof.
    induction ops as [|o r IH]; intros d ss H; simpl.
    - exists []. now rewrite app_nil_r.
    - destruct (dinv_step o d ss H) as [e1 H1]. destruct (ds_step bufsz o d) as [x d1]. simpl in H1.
      destruct (IH d1 _ H1) as [e2 H2]. destruct (ds_run bufsz r d1) as [xs d2]. simpl in *.
      exists (e1 ++ e2). now rewrite app_assoc.
  Qed.

  (* a read through a handle of a shared iterator returns what the underlying script of THAT
     iterator has at the clone's position, whatever happened before on any handle of any key *)
  Theorem ds_shared_read_complete : forall ops limit scripts h i c st cl,
    let d := snd (ds_run bufsz ops (ds_init limit scripts)) in
    nth_error (ds_handles d) h = Some (HShared i c) ->
    nth_error (ds_inst d) i = Some st ->
    nth_error (sy_clones st) c = Some cl -> cl_stopped cl = false ->
    exists l, fst (ds_step bufsz (DNext h false) d) = ideal l (cl_head cl).
  Proof.
    intros ops limit scripts h i c st cl d Hh Hi Hc Hs.
    destruct (dinv_run ops (ds_init limit scripts) [] ltac:(constructor)) as [ext H]. fold d in H.
    destruct (Forall2_nth _ _ _ _ _ _ _ H Hi) as [l [_ Hinv]]. exists l.
    simpl. rewrite Hh. unfold inst_step. rewrite Hi.
    destruct (next_open_clone b l st c cl Hinv Hc Hs) as [N1 _]. fold bufsz in N1.
    destruct (sys_step bufsz (ShNext c false) st) as [r st1]. simpl in *. exact N1.
  Qed.
  Transparent sys_step.
End DatastoreProofs.
