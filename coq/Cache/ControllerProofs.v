(* Proofs about Cache/Controller.v (C11). *)
From Coq Require Import NArith List Bool Arith Lia Sorted.
From Coq Require Import ZifyBool ZifyN ZifyNat.
Import ListNotations.
From OFGA Require Import Cache.Controller.
Open Scope N_scope.

(* ------------------------------------------------------------------------------------------ *)
(* Key equality                                                                                *)

Lemma list_eqb_spec {A} (e : A -> A -> bool) :
  (forall a b, e a b = true <-> a = b) -> forall a b, list_eqb e a b = true <-> a = b.
Proof.
  intros He a; induction a as [|x a IH]; intros [|y b]; simpl; split; intro H;
    try reflexivity; try discriminate.
  - apply andb_true_iff in H as [H1 H2]. apply He in H1. apply IH in H2. congruence.
  - inversion H; subst. apply andb_true_iff. split; [apply He | apply IH]; reflexivity.
Qed.

Lemma ikey_eqb_spec a b : ikey_eqb a b = true <-> a = b.
Proof.
  destruct a as [o1 t1 i1 r1|u1 t1 r1], b as [o2 t2 i2 r2|u2 t2 r2]; simpl; split; intro H;
    try discriminate.
  - repeat (apply andb_true_iff in H as [H ?]). apply N.eqb_eq in H.
    repeat match goal with X : (_ =? _) = true |- _ => apply N.eqb_eq in X end. congruence.
  - inversion H; subst. rewrite !N.eqb_refl. reflexivity.
  - repeat (apply andb_true_iff in H as [H ?]). apply (list_eqb_spec N.eqb N.eqb_eq) in H.
    repeat match goal with X : (_ =? _) = true |- _ => apply N.eqb_eq in X end. congruence.
  - inversion H; subst. rewrite !N.eqb_refl.
    rewrite (proj2 (list_eqb_spec N.eqb N.eqb_eq u2 u2) eq_refl). reflexivity.
Qed.

Lemma mkey_eqb_spec a b : mkey_eqb a b = true <-> a = b.
Proof.
  destruct a, b; simpl; split; intro H; try discriminate; try reflexivity.
  - repeat (apply andb_true_iff in H as [H ?]). apply N.eqb_eq in H.
    repeat match goal with X : (_ =? _) = true |- _ => apply N.eqb_eq in X end. congruence.
  - inversion H; subst. rewrite !N.eqb_refl. reflexivity.
  - repeat (apply andb_true_iff in H as [H ?]). apply N.eqb_eq in H.
    repeat match goal with X : (_ =? _) = true |- _ => apply N.eqb_eq in X end. congruence.
  - inversion H; subst. rewrite !N.eqb_refl. reflexivity.
Qed.


(* ------------------------------------------------------------------------------------------ *)
(* Association lists                                                                           *)

Section AssocLemmas.
  Context {K V : Type} (eqb : K -> K -> bool).
  Hypothesis eqb_spec : forall a b, eqb a b = true <-> a = b.

  Lemma eqb_refl_ a : eqb a a = true.
  Proof. apply eqb_spec. reflexivity. Qed.

  Lemma eqb_neq a b : a <> b -> eqb a b = false.
  Proof. intro H. destruct (eqb a b) eqn:E; [apply eqb_spec in E; contradiction | reflexivity]. Qed.

  Lemma aget_adel_same k (l : list (K * V)) : aget eqb k (adel eqb k l) = None.
  Proof.
    induction l as [|[k' v] l IH]; simpl; [reflexivity|].
    destruct (eqb k k') eqn:E; simpl; [exact IH | rewrite E; exact IH].
  Qed.

  Lemma aget_adel_other k k' (l : list (K * V)) : k <> k' -> aget eqb k (adel eqb k' l) = aget eqb k l.
  Proof.
    intro Hne. induction l as [|[k2 v] l IH]; simpl; [reflexivity|].
    destruct (eqb k' k2) eqn:E; simpl.
    - apply eqb_spec in E; subst k2. rewrite (eqb_neq k k' Hne). exact IH.
    - destruct (eqb k k2); [reflexivity | exact IH].
  Qed.

  Lemma aget_aset_same k v (l : list (K * V)) : aget eqb k (aset eqb k v l) = Some v.
  Proof. unfold aset; simpl. rewrite eqb_refl_. reflexivity. Qed.

  Lemma aget_aset_other k k' v (l : list (K * V)) : k <> k' -> aget eqb k (aset eqb k' v l) = aget eqb k l.
  Proof. intro Hne. unfold aset; simpl. rewrite (eqb_neq k k' Hne). apply aget_adel_other; exact Hne. Qed.

  Lemma aget_aset_cases k k' v (l : list (K * V)) e :
    aget eqb k (aset eqb k' v l) = Some e -> (k = k' /\ e = v) \/ (k <> k' /\ aget eqb k l = Some e).
  Proof.
    intro H. destruct (eqb k k') eqn:E.
    - apply eqb_spec in E; subst k'. rewrite aget_aset_same in H. left; split; congruence.
    - assert (Hne : k <> k') by (intro X; subst; rewrite eqb_refl_ in E; discriminate).
      rewrite aget_aset_other in H by exact Hne. right; split; assumption.
  Qed.

  Lemma aget_adel_some k k' (l : list (K * V)) e :
    aget eqb k (adel eqb k' l) = Some e -> k <> k' /\ aget eqb k l = Some e.
  Proof.
    intro H. destruct (eqb k k') eqn:E.
    - apply eqb_spec in E; subst k'. rewrite aget_adel_same in H. discriminate.
    - assert (Hne : k <> k') by (intro X; subst; rewrite eqb_refl_ in E; discriminate).
      rewrite aget_adel_other in H by exact Hne. split; assumption.
  Qed.
End AssocLemmas.

Definition iget := aget (V := ient) ikey_eqb.
Definition mget := aget (V := ment) mkey_eqb.
Definition qget := aget (V := qent) N.eqb.

(* ------------------------------------------------------------------------------------------ *)
(* The marker keys cover the specification of [touches]                                        *)

Lemma touch_covered t k :
  touches t k = true -> exists m, In m (markers_of_write t) /\ In m (markers_of_key k).
Proof.
  destruct k as [o ot oid r|us ot r]; simpl; intro H.
  - repeat (apply andb_true_iff in H as [H ?]). apply N.eqb_eq in H.
    repeat match goal with X : (_ =? _) = true |- _ => apply N.eqb_eq in X end. subst.
    exists (MOR (tu_otype t) (tu_oid t) (tu_rel t)). split; left; reflexivity.
  - repeat (apply andb_true_iff in H as [H ?]).
    repeat match goal with X : (_ =? _) = true |- _ => apply N.eqb_eq in X end. subst.
    apply existsb_exists in H as [u [Hu E]]. apply N.eqb_eq in E. subst u.
    exists (MUOT (tu_user t) (tu_otype t)). split; [right; left; reflexivity|].
    apply in_map_iff. exists (tu_user t). split; [reflexivity | exact Hu].
Qed.

(* ------------------------------------------------------------------------------------------ *)
(* List helpers                                                                                *)

Lemma nth_app_cases {A} (l1 l2 : list A) j c :
  nth_error (l1 ++ l2) j = Some c ->
  ((j < length l1)%nat /\ nth_error l1 j = Some c) \/ ((length l1 <= j)%nat /\ In c l2).
Proof.
  intro H. destruct (Nat.lt_ge_cases j (length l1)) as [Hlt|Hge].
  - left. split; [exact Hlt|]. rewrite nth_error_app1 in H by exact Hlt. exact H.
  - right. split; [exact Hge|]. rewrite nth_error_app2 in H by exact Hge. eapply nth_error_In; exact H.
Qed.

Lemma firstn_In_ {A} (l : list A) n x : In x (firstn n l) -> In x l.
Proof. intro H. rewrite <- (firstn_skipn n l). apply in_or_app. left; exact H. Qed.

Lemma skipn_In_ {A} (l : list A) n x : In x (skipn n l) -> In x l.
Proof. intro H. rewrite <- (firstn_skipn n l). apply in_or_app. right; exact H. Qed.

Lemma nth_skipn {A} (l : list A) d j : nth_error (skipn d l) j = nth_error l (d + j).
Proof.
  revert l; induction d as [|d IH]; intros l; simpl; [reflexivity|].
  destruct l as [|x l]; simpl; [destruct j; reflexivity | apply IH].
Qed.

Definition tsle (a b : change) : Prop := ch_ts a <= ch_ts b.

Lemma sorted_idx (db : list change) :
  StronglySorted tsle db ->
  forall j1 j2 c1 c2, (j1 <= j2)%nat -> nth_error db j1 = Some c1 -> nth_error db j2 = Some c2 ->
  ch_ts c1 <= ch_ts c2.
Proof.
  induction 1 as [|a l Hs IH Hall]; intros j1 j2 c1 c2 Hle H1 H2.
  - destruct j1; discriminate.
  - destruct j1 as [|j1], j2 as [|j2]; simpl in *.
    + injection H1 as <-. injection H2 as <-. lia.
    + injection H1 as <-. apply nth_error_In in H2.
      rewrite Forall_forall in Hall. apply Hall in H2. exact H2.
    + lia.
    + eapply IH; [|exact H1|exact H2]. lia.
Qed.

Lemma sorted_app_new (db : list change) (t : N) (ws : list tup) :
  StronglySorted tsle db -> (forall c, In c db -> ch_ts c <= t) ->
  StronglySorted tsle (db ++ map (mkCh t) ws).
Proof.
  induction 1 as [|a l Hs IH Hall]; intro Hle; simpl.
  - induction ws as [|w ws IHw]; simpl; constructor; [exact IHw|].
    apply Forall_forall. intros c Hc. apply in_map_iff in Hc as [x [<- _]]. unfold tsle; simpl. lia.
  - constructor.
    + apply IH. intros c Hc. apply Hle. right; exact Hc.
    + apply Forall_app. split; [exact Hall|].
      apply Forall_forall. intros c Hc. apply in_map_iff in Hc as [x [<- _]]. unfold tsle; simpl.
      apply Hle. left; reflexivity.
Qed.

(* ------------------------------------------------------------------------------------------ *)
(* Configuration facts                                                                         *)

Record cfg_facts (c : cfg) : Prop := {
  cf_single : c_qon c && c_ion c = false;
  cf_jit : c_jit c = 0;
  cf_wtick : 1 <= c_wtick c;
  cf_qttl : 0 < c_qttl c;
  cf_ittl : 0 < c_ittl c;
  cf_full : c_ittl c <= c_full c;
  cf_page : (1 <= c_page c)%nat;
  cf_subinv : c_subinv c = true
}.

Lemma cfg_ok_facts c : cfg_ok c = true -> cfg_facts c.
Proof.
  unfold cfg_ok. intro H.
  repeat (apply andb_true_iff in H as [H ?]).
  constructor.
  - apply negb_true_iff in H. exact H.
  - apply N.eqb_eq. assumption.
  - apply N.leb_le. assumption.
  - apply N.ltb_lt. assumption.
  - apply N.ltb_lt. assumption.
  - apply N.leb_le. assumption.
  - apply Nat.leb_le. assumption.
  - assumption.
Qed.

Lemma jext_zero ttl j : jext ttl 0 j = 0.
Proof. unfold jext. simpl. rewrite N.mul_0_r. simpl. apply N.min_0_r. Qed.

(* ------------------------------------------------------------------------------------------ *)
(* Basic invariant: holds for EVERY configuration                                              *)

Definition mk_ttl (c : cfg) (m : mkey) : N := match m with MStore => c_full c | _ => c_ittl c end.

Record Inv0 (c : cfg) (s : state) : Prop := {
  i0_ts : forall ch, In ch (s_db s) -> ch_ts ch <= s_now s;
  i0_sorted : StronglySorted tsle (s_db s);
  i0_mk : forall m e, mget m (s_mk s) = Some e -> me_lm e <= s_now s /\ me_exp e = me_lm e + mk_ttl c m;
  i0_cl : forall e, s_cl s = Some e ->
          cl_checked e <= s_now s /\ cl_exp e = cl_checked e + c_qttl c /\
          exists ch, In ch (s_db s) /\ cl_lm e = ch_ts ch /\
                     (forall r, s_run s = Some (RRead r) -> In ch (r_seen r));
  i0_run : forall r, s_run s = Some (RRead r) ->
           r_page r = firstn (c_page c) (rev (r_seen r)) /\ exists rest, s_db s = r_seen r ++ rest
}.

Lemma inv0_init c : Inv0 c init_state.
Proof.
  constructor; simpl; intros; try contradiction; try discriminate. constructor.
Qed.

Lemma spawn_cases s :
  spawn s = (s, false) \/
  (s_run s = None /\ exists x, spawn s = (set_run s (Some (RPending x)), true) /\
     (x = 0 \/ exists e, s_cl s = Some e /\ x = cl_lm e)).
Proof.
  unfold spawn. destruct (s_run s) eqn:R; [left; reflexivity|]. right. split; [reflexivity|].
  eexists. split; [reflexivity|]. unfold cl_live. destruct (s_cl s) as [e|]; [|left; reflexivity].
  destruct (s_now s <? cl_exp e); [right; exists e; split; reflexivity | left; reflexivity].
Qed.

Lemma inv0_set_pending c s x : Inv0 c s -> s_run s = None -> Inv0 c (set_run s (Some (RPending x))).
Proof.
  intros [H1 H2 H3 H4 H5] R. constructor; simpl; try assumption.
  - intros e He. destruct (H4 e He) as [A [B [ch [C [D _]]]]]. repeat split; try assumption.
    exists ch. repeat split; try assumption. intros r X; discriminate.
  - intros r X; discriminate.
Qed.

Lemma mget_fold_markers c f ms mk m e :
  mget m (fold_left (fun acc m0 => aset mkey_eqb m0 (mkME f (f + c_ittl c)) acc) ms mk) = Some e ->
  (In m ms /\ e = mkME f (f + c_ittl c)) \/ (~ In m ms /\ mget m mk = Some e).
Proof.
  revert mk. induction ms as [|m0 ms IH]; intros mk H; simpl in *.
  - right. split; [tauto | exact H].
  - apply IH in H as [[Hin He]|[Hnin H]].
    + left. split; [right; exact Hin | exact He].
    + unfold mget in H. apply (aget_aset_cases mkey_eqb mkey_eqb_spec) in H as [[-> ->]|[Hne H]].
      * left. split; [left; reflexivity | reflexivity].
      * right. split; [|exact H]. intros [X|X]; [congruence | contradiction].
Qed.

Lemma mget_set_markers_list c f recent mk m e :
  mget m (fold_left (set_markers c f) recent mk) = Some e ->
  ((exists ch, In ch recent /\ In m (markers_of_write (ch_tup ch))) /\ e = mkME f (f + c_ittl c)) \/
  ((forall ch, In ch recent -> ~ In m (markers_of_write (ch_tup ch))) /\ mget m mk = Some e).
Proof.
  revert mk. induction recent as [|ch recent IH]; intros mk H; simpl in *.
  - right. split; [intros ? [] | exact H].
  - apply IH in H as [[[ch' [Hin Hm]] He]|[Hnone H]].
    + left. split; [exists ch'; split; [right; exact Hin | exact Hm] | exact He].
    + unfold set_markers in H. apply mget_fold_markers in H as [[Hin He]|[Hnin H]].
      * left. split; [exists ch; split; [left; reflexivity | exact Hin] | exact He].
      * right. split; [|exact H]. intros ch' [<-|Hc]; [exact Hnin | apply Hnone; exact Hc].
Qed.

(* markers only grow: every marker of the old state is still there, not older, not shorter-lived *)
Definition mk_le (mk mk' : list (mkey * ment)) : Prop :=
  forall m e, mget m mk = Some e ->
  exists e', mget m mk' = Some e' /\ me_lm e <= me_lm e' /\ me_exp e <= me_exp e'.

Lemma mk_le_refl mk : mk_le mk mk.
Proof. intros m e H. exists e. split; [exact H | lia]. Qed.

Lemma mget_fold_keep c f ms mk m :
  mget m mk = Some (mkME f (f + c_ittl c)) ->
  mget m (fold_left (fun acc m0 => aset mkey_eqb m0 (mkME f (f + c_ittl c)) acc) ms mk)
  = Some (mkME f (f + c_ittl c)).
Proof.
  revert mk. induction ms as [|m0 ms IH]; intros mk H; simpl; [exact H|].
  apply IH. unfold mget. destruct (mkey_eqb m m0) eqn:E.
  - apply mkey_eqb_spec in E; subst m0. apply (aget_aset_same mkey_eqb mkey_eqb_spec).
  - rewrite (aget_aset_other mkey_eqb mkey_eqb_spec); [exact H|].
    intro X; subst. rewrite (proj2 (mkey_eqb_spec m0 m0) eq_refl) in E. discriminate.
Qed.

Lemma mget_in_fold_markers c f ms mk m :
  In m ms -> mget m (fold_left (fun acc m0 => aset mkey_eqb m0 (mkME f (f + c_ittl c)) acc) ms mk)
             = Some (mkME f (f + c_ittl c)).
Proof.
  revert mk. induction ms as [|m0 ms IH]; intros mk Hin; simpl in *; [contradiction|].
  destruct (mkey_eqb m m0) eqn:E.
  - apply mkey_eqb_spec in E; subst m0. apply mget_fold_keep.
    apply (aget_aset_same mkey_eqb mkey_eqb_spec).
  - destruct Hin as [->|Hin].
    + rewrite (proj2 (mkey_eqb_spec m m) eq_refl) in E. discriminate.
    + apply IH; exact Hin.
Qed.

Lemma mget_set_markers_keep c f recent mk m :
  mget m mk = Some (mkME f (f + c_ittl c)) ->
  mget m (fold_left (set_markers c f) recent mk) = Some (mkME f (f + c_ittl c)).
Proof.
  revert mk. induction recent as [|ch recent IH]; intros mk H; simpl; [exact H|].
  apply IH. unfold set_markers. apply mget_fold_keep. exact H.
Qed.

Lemma mget_in_set_markers c f recent mk m ch :
  In ch recent -> In m (markers_of_write (ch_tup ch)) ->
  mget m (fold_left (set_markers c f) recent mk) = Some (mkME f (f + c_ittl c)).
Proof.
  revert mk. induction recent as [|ch0 recent IH]; intros mk Hin Hm; simpl in *; [contradiction|].
  destruct Hin as [->|Hin].
  - apply mget_set_markers_keep. unfold set_markers. apply mget_in_fold_markers. exact Hm.
  - apply IH; assumption.
Qed.

Lemma inv0_caches c s ic qc d :
  Inv0 c s -> Inv0 c (mkSt (s_now s) (s_db s) ic qc (s_cl s) (s_mk s) (s_run s) d).
Proof. intros [H1 H2 H3 H4 H5]. constructor; simpl; assumption. Qed.

Lemma inv0_spawn c s : Inv0 c s -> Inv0 c (fst (spawn s)).
Proof.
  intro H. destruct (spawn_cases s) as [E|[R [x [E _]]]]; rewrite E; simpl; [exact H|].
  apply inv0_set_pending; assumption.
Qed.

Lemma spawn_same s :
  s_now (fst (spawn s)) = s_now s /\ s_db (fst (spawn s)) = s_db s /\ s_ic (fst (spawn s)) = s_ic s /\
  s_qc (fst (spawn s)) = s_qc s /\ s_cl (fst (spawn s)) = s_cl s /\ s_mk (fst (spawn s)) = s_mk s /\
  s_done (fst (spawn s)) = s_done s.
Proof. unfold spawn. destruct (s_run s); simpl; repeat split; reflexivity. Qed.

Lemma page_in_seen c (r : run) ch :
  r_page r = firstn (c_page c) (rev (r_seen r)) -> In ch (r_page r) -> In ch (r_seen r).
Proof.
  intros Hp Hin. rewrite Hp in Hin. apply firstn_In_ in Hin. apply in_rev in Hin. exact Hin.
Qed.

Lemma markers_of_write_ttl c t m : In m (markers_of_write t) -> mk_ttl c m = c_ittl c.
Proof. unfold markers_of_write. intros [<-|[<-|[]]]; reflexivity. Qed.

Lemma inv0_finish c s r : Inv0 c s -> s_run s = Some (RRead r) -> Inv0 c (fst (finish c s r)).
Proof.
  intros [H1 H2 H3 H4 H5] R. destruct (H5 r R) as [Hpage [rest Hdb]].
  assert (Hmk_store : forall m e, mget m (aset mkey_eqb MStore (mkME (s_now s) (s_now s + c_full c)) (s_mk s)) = Some e ->
            me_lm e <= s_now s /\ me_exp e = me_lm e + mk_ttl c m).
  { intros m e He. unfold mget in He.
    apply (aget_aset_cases mkey_eqb mkey_eqb_spec) in He as [[-> ->]|[_ He]]; simpl.
    - split; [lia | reflexivity].
    - apply H3; exact He. }
  assert (Hcl_old : forall e, s_cl s = Some e ->
            cl_checked e <= s_now s /\ cl_exp e = cl_checked e + c_qttl c /\
            exists ch, In ch (s_db s) /\ cl_lm e = ch_ts ch /\
                       (forall r0, @None runphase = Some (RRead r0) -> In ch (r_seen r0))).
  { intros e He. destruct (H4 e He) as [A [B [ch [C [D _]]]]]. repeat split; try assumption.
    exists ch. repeat split; try assumption. intros r0 X; discriminate. }
  unfold finish. destruct (r_page r) as [|newest page'] eqn:P.
  - constructor; simpl; try assumption. intros r0 X; discriminate.
  - assert (Hnew : In newest (s_db s)).
    { rewrite Hdb. apply in_or_app. left. apply (page_in_seen c r); [rewrite P; exact Hpage|]. rewrite P. left; reflexivity. }
    assert (Hcl_new : forall e, Some (mkCL (ch_ts newest) (s_now s) (s_now s + c_qttl c)) = Some e ->
              cl_checked e <= s_now s /\ cl_exp e = cl_checked e + c_qttl c /\
              exists ch, In ch (s_db s) /\ cl_lm e = ch_ts ch /\
                         (forall r0, @None runphase = Some (RRead r0) -> In ch (r_seen r0))).
    { intros e He. injection He as <-. simpl. repeat split; try lia.
      exists newest. repeat split; try assumption. intros r0 X; discriminate. }
    destruct (ch_ts newest <=? r_cached r).
    + constructor; simpl; try assumption. intros r0 X; discriminate.
    + destruct (Nat.eqb _ _).
      * constructor; simpl; try assumption. intros r0 X; discriminate.
      * destruct (drop_old c (s_now s) (rev (newest :: page'))) as [|ch0 rec'] eqn:D.
        -- constructor; simpl; try assumption. intros r0 X; discriminate.
        -- constructor; cbn [s_now s_db s_ic s_qc s_cl s_mk s_run s_done fst]; try assumption;
             [|intros r0 X; discriminate].
           intros m e He. apply mget_set_markers_list in He as [[[ch [_ Hm]] ->]|[_ He]]; simpl.
           ++ split; [lia|]. rewrite (markers_of_write_ttl c _ _ Hm). reflexivity.
           ++ apply H3; exact He.
Qed.

Lemma inv0_step c s o : Inv0 c s -> Inv0 c (fst (step c s o)).
Proof.
  intro H. destruct o as [ws|keys st jq jis|k ws st j| | | |d]; simpl.
  - (* Write *)
    destruct H as [H1 H2 H3 H4 H5]. constructor; simpl.
    + intros ch Hin. apply in_app_or in Hin as [Hin|Hin].
      * apply H1 in Hin. lia.
      * apply in_map_iff in Hin as [x [<- _]]. simpl. lia.
    + apply sorted_app_new; [exact H2|]. intros ch Hin. apply H1 in Hin. lia.
    + intros m e He. destruct (H3 m e He) as [A B]. split; [lia | exact B].
    + intros e He. destruct (H4 e He) as [A [B [ch [C [D E]]]]]. repeat split; try lia; try assumption.
      exists ch. repeat split; try assumption. apply in_or_app; left; exact C.
    + intros r R. destruct (H5 r R) as [A [rest B]]. split; [exact A|].
      exists (rest ++ map (mkCh (s_now s + c_wtick c)) ws). rewrite B. rewrite app_assoc. reflexivity.
  - (* Request *)
    destruct (determine c s) as [tinv trig].
    assert (Hs1 : Inv0 c (fst (if trig then spawn s else (s, false)))).
    { destruct trig; [apply inv0_spawn; exact H | exact H]. }
    assert (Hsame : forall s1, s1 = fst (if trig then spawn s else (s, false)) ->
              s_now s1 = s_now s /\ s_db s1 = s_db s /\ s_cl s1 = s_cl s /\ s_mk s1 = s_mk s).
    { intros s1 ->. destruct trig; [|repeat split; reflexivity].
      destruct (spawn_same s) as [A [B [_ [_ [C [D _]]]]]]. repeat split; assumption. }
    destruct (if trig then spawn s else (s, false)) as [s1 spawned] eqn:E1. simpl in Hs1.
    destruct (Hsame s1 eq_refl) as [A [B [C D]]]. cbn [fst].
    rewrite <- A, <- B, <- C, <- D. apply inv0_caches. exact Hs1.
  - (* RaceRead: for Inv0 it is a write followed by a tick *)
    assert (H2 : Inv0 c (mkSt (s_now s + c_wtick c + c_wtick c) (s_db s ++ map (mkCh (s_now s + c_wtick c)) ws)
                         (s_ic s) (s_qc s) (s_cl s) (s_mk s) (s_run s) (s_done s))).
    { destruct H as [H1 H2 H3 H4 H5]. constructor; simpl.
      + intros ch Hin. apply in_app_or in Hin as [Hin|Hin].
        * apply H1 in Hin. lia.
        * apply in_map_iff in Hin as [x [<- _]]. simpl. lia.
      + apply sorted_app_new; [exact H2|]. intros ch Hin. apply H1 in Hin. lia.
      + intros m e He. destruct (H3 m e He) as [A B]. split; [lia | exact B].
      + intros e He. destruct (H4 e He) as [A [B [ch [C [D E]]]]]. repeat split; try lia; try assumption.
        exists ch. repeat split; try assumption. apply in_or_app; left; exact C.
      + intros r R. destruct (H5 r R) as [A [rest B]]. split; [exact A|].
        exists (rest ++ map (mkCh (s_now s + c_wtick c)) ws). rewrite B. rewrite app_assoc. reflexivity. }
    match goal with |- context [match ?u with Some _ => _ | None => _ end] => destruct u as [e|] end; simpl.
    + exact H2.
    + exact (inv0_caches c _ _ _ _ H2).
  - (* InvStart *)
    destruct (spawn s) as [s1 b] eqn:E. simpl. change s1 with (fst (s1, b)). rewrite <- E. apply inv0_spawn; exact H.
  - (* InvRead *)
    destruct (s_run s) as [[x|r]|] eqn:R; simpl; try exact H.
    destruct H as [H1 H2 H3 H4 H5]. constructor; simpl; try assumption.
    + intros e He. destruct (H4 e He) as [A [B [ch [C [D _]]]]]. repeat split; try assumption.
      exists ch. repeat split; try assumption. intros r X. injection X as <-. simpl. exact C.
    + intros r X. injection X as <-. simpl. split; [reflexivity|]. exists []. rewrite app_nil_r. reflexivity.
  - (* InvFinish *)
    destruct (s_run s) as [[x|r]|] eqn:R; simpl; try exact H.
    destruct (finish c s r) as [s1 d] eqn:E. simpl. change s1 with (fst (s1, d)). rewrite <- E.
    apply inv0_finish; assumption.
  - (* Tick *)
    destruct H as [H1 H2 H3 H4 H5]. constructor; simpl; try assumption.
    + intros ch Hin. apply H1 in Hin. lia.
    + intros m e He. destruct (H3 m e He) as [A B]. split; [lia | exact B].
    + intros e He. destruct (H4 e He) as [A [B C]]. repeat split; try lia; assumption.
Qed.

(* ------------------------------------------------------------------------------------------ *)
(* Reads through the iterator cache                                                            *)

Definition fresh_ent (c : cfg) (now : N) (n : nat) (j : N) : ient :=
  mkIE now (now + c_ittl c + jext (c_ittl c) (c_jit c) j) n.

Definition usable_i (mk : list (mkey * ment)) (now : N) (ic : list (ikey * ient)) (k : ikey) (e : ient) : Prop :=
  iget k ic = Some e /\ now < ie_exp e /\ invalid_at mk now (ie_lm e) k = false.

Lemma iter_read_cases c now n mk st j ic k ic' n' h :
  iter_read c now n mk st j ic k = (ic', (n', h)) ->
  (forall k0 e0, iget k0 ic' = Some e0 -> iget k0 ic = Some e0 \/ e0 = fresh_ent c now n j) /\
  ((h = true /\ c_ion c = true /\ exists e, usable_i mk now ic k e /\ n' = ie_snap e) \/ (h = false /\ n' = n)).
Proof.
  unfold iter_read. destruct (c_ion c) eqn:Ion; simpl.
  2:{ intro H. injection H as <- <- <-. split; [intros; left; assumption | right; split; reflexivity]. }
  assert (Hmiss : forall ic0,
    (forall k0 e0, iget k0 ic0 = Some e0 -> iget k0 ic = Some e0) ->
    (if st && negb (invalid_at mk now now k)
     then (aset ikey_eqb k (mkIE now (now + c_ittl c + jext (c_ittl c) (c_jit c) j) n) ic0, (n, false))
     else (ic0, (n, false))) = (ic', (n', h)) ->
    (forall k0 e0, iget k0 ic' = Some e0 -> iget k0 ic = Some e0 \/ e0 = fresh_ent c now n j) /\
    ((h = true /\ true = true /\ exists e, usable_i mk now ic k e /\ n' = ie_snap e) \/ (h = false /\ n' = n))).
  { intros ic0 Hsub H. destruct (st && negb (invalid_at mk now now k)); injection H as <- <- <-.
    - split; [|right; split; reflexivity]. intros k0 e0 He. unfold iget in He.
      apply (aget_aset_cases ikey_eqb ikey_eqb_spec) in He as [[-> ->]|[_ He]]; [right; reflexivity|].
      left. apply Hsub. exact He.
    - split; [|right; split; reflexivity]. intros k0 e0 He. left. apply Hsub; exact He. }
  destruct (aget ikey_eqb k ic) as [e|] eqn:G.
  - destruct (now <? ie_exp e) eqn:L.
    + destruct (invalid_at mk now (ie_lm e) k) eqn:I.
      * apply Hmiss. intros k0 e0 He. unfold iget in He.
        apply (aget_adel_some ikey_eqb ikey_eqb_spec) in He as [_ He]. exact He.
      * intro H. injection H as <- <- <-. split; [intros; left; assumption|].
        left. repeat split. exists e. split; [|reflexivity]. repeat split; try assumption.
        apply N.ltb_lt; exact L.
    + apply Hmiss. intros; assumption.
  - apply Hmiss. intros; assumption.
Qed.

Lemma iter_reads_cases c now n mk st jis ic keys ic' res :
  iter_reads c now n mk st jis ic keys = (ic', res) ->
  (forall k0 e0, iget k0 ic' = Some e0 -> iget k0 ic = Some e0 \/ exists j, e0 = fresh_ent c now n j) /\
  (forall k n' h, In (k, n', h) res ->
     n' = n \/ (c_ion c = true /\ exists e, usable_i mk now ic k e /\ n' = ie_snap e)) /\
  map (fun x => fst (fst x)) res = keys.
Proof.
  revert jis ic ic' res. induction keys as [|k ks IH]; intros jis ic ic' res H; simpl in H.
  - injection H as <- <-. repeat split; [intros; left; assumption | intros ? ? ? []].
  - destruct (iter_read c now n mk st (hd 0 jis) ic k) as [ic1 [n1 h1]] eqn:E1.
    destruct (iter_reads c now n mk st (tl jis) ic1 ks) as [ic2 rest] eqn:E2.
    injection H as <- <-.
    apply iter_read_cases in E1 as [A1 B1]. apply IH in E2 as [A2 [B2 C2]].
    split; [|split].
    + intros k0 e0 He. apply A2 in He as [He|[j ->]]; [|right; exists j; reflexivity].
      apply A1 in He as [He| ->]; [left; exact He | right; eexists; reflexivity].
    + intros k' n' h [X|Hin].
      * injection X as <- <- <-. destruct B1 as [[_ [Ion [e [U ->]]]]|[_ ->]]; [right | left; reflexivity].
        split; [exact Ion|]. exists e. split; [exact U | reflexivity].
      * apply B2 in Hin as [->|[Ion [e [[G [L I]] ->]]]]; [left; reflexivity|].
        apply A1 in G as [G| ->].
        -- right. split; [exact Ion|]. exists e. split; [|reflexivity]. repeat split; assumption.
        -- left. reflexivity.
    + simpl. rewrite C2. reflexivity.
Qed.

Lemma res_src_in k n res : In (k, n) (res_src res) -> exists h, In (k, n, h) res.
Proof.
  unfold res_src. intro H. apply in_map_iff in H as [[[k0 n0] h0] [E Hin]]. simpl in E.
  injection E as <- <-. exists h0. exact Hin.
Qed.

Lemma invalid_at_mono mk mk' now ts k :
  mk_le mk mk' -> invalid_at mk now ts k = true -> invalid_at mk' now ts k = true.
Proof.
  intros Hle H. unfold invalid_at in *. apply existsb_exists in H as [m [Hin H]].
  destruct (aget mkey_eqb m mk) as [e|] eqn:G; [|discriminate].
  apply andb_true_iff in H as [H1 H2]. apply N.ltb_lt in H1. apply N.ltb_lt in H2.
  destruct (Hle m e G) as [e' [G' [A B]]]. apply existsb_exists. exists m. split; [exact Hin|].
  unfold mget in G'. rewrite G'. apply andb_true_iff. split; apply N.ltb_lt; lia.
Qed.


(* ------------------------------------------------------------------------------------------ *)
(* Resolution of a forest of sub-problems, relative to a BASE state (ic0, qc0, mk0, T0) that is
   at most as invalidated as the state the resolution runs in                                   *)

Section Resolve.
  Variables (c : cfg) (now : N) (n : nat) (mk : list (mkey * ment)) (store : bool) (jq : N) (jis : list N).
  Variables (ic0 : list (ikey * ient)) (qc0 : list (N * qent)) (mk0 : list (mkey * ment)) (T0 : N).
  Hypothesis Hmk : mk_le mk0 mk.

  Definition read_ok (k : ikey) (n' : nat) : Prop :=
    n' = n \/ (c_ion c = true /\ exists e, usable_i mk0 now ic0 k e /\ n' = ie_snap e).

  Definition pair_ok (k : ikey) (n' : nat) : Prop :=
    read_ok k n' \/
    (c_qon c = true /\ exists id e, qget id qc0 = Some e /\ now < qe_exp e /\
       (T0 < qe_lm e \/ c_subinv c = false) /\ In (k, n') (qe_src e)).

  Definition newq (P : ikey -> nat -> Prop) (e : qent) : Prop :=
    c_qon c = true /\ qe_lm e = now /\ qe_exp e = now + c_qttl c + jext (c_qttl c) (c_jit c) jq /\
    forall k n', In (k, n') (qe_src e) -> P k n'.

  Definition st_ok (b : bool) (st : rstate) : Prop :=
    (forall k e, iget k (fst st) = Some e -> iget k ic0 = Some e \/ exists j, e = fresh_ent c now n j) /\
    (forall id e, qget id (snd st) = Some e ->
       qget id qc0 = Some e \/ newq (if b then read_ok else pair_ok) e).

  Lemma reads_ok ic ic1 res keys :
    (forall k e, iget k ic = Some e -> iget k ic0 = Some e \/ exists j, e = fresh_ent c now n j) ->
    iter_reads c now n mk store jis ic keys = (ic1, res) ->
    (forall k e, iget k ic1 = Some e -> iget k ic0 = Some e \/ exists j, e = fresh_ent c now n j) /\
    (forall k n', In (k, n') (res_src res) -> read_ok k n').
  Proof.
    intros Hic R. apply iter_reads_cases in R as [R1 [R2 _]]. split.
    - intros k e He. apply R1 in He as [He|[j ->]]; [apply Hic; exact He | right; exists j; reflexivity].
    - intros k n' Hin. apply res_src_in in Hin as [h Hin].
      apply R2 in Hin as [->|[Ion [e [[G [L V]] ->]]]]; [left; reflexivity|].
      apply Hic in G as [G|[j ->]]; [|left; reflexivity].
      right. split; [exact Ion|]. exists e. split; [|reflexivity]. repeat split; try assumption.
      destruct (invalid_at mk0 now (ie_lm e) k) eqn:I; [|reflexivity].
      rewrite (invalid_at_mono _ _ _ _ _ Hmk I) in V. discriminate.
  Qed.

  Lemma resolve_ok f : forall b tinv st st' out,
    st_ok b st -> (b = true -> forest_flat f = true) ->
    (T0 <= tinv \/ (c_subinv c = false /\ tinv = 0)) ->
    resolve c now n mk store jq jis tinv st f = (st', out) ->
    st_ok b st' /\ (forall k n', In (k, n') (fst (fst out)) -> pair_ok k n').
  Proof.
    induction f as [|id keys ch IHch sib IHsib]; intros b tinv st st' out Hst Hflat Ht R.
    - simpl in R. injection R as <- <-. split; [exact Hst | intros k n' []].
    - simpl in R.
      assert (Hfl : b = true -> ch = QNil /\ forest_flat sib = true).
      { intro Hb. specialize (Hflat Hb). simpl in Hflat. apply andb_true_iff in Hflat as [A B].
        split; [destruct ch; [reflexivity | discriminate] | exact B]. }
      (* the node itself *)
      set (r1 := match qlookup c now tinv (snd st) id with
                 | Some e => (st, (qe_src e, [true], []))
                 | None => _ end) in R.
      assert (H1 : st_ok b (fst r1) /\ (forall k n', In (k, n') (fst (fst (snd r1))) -> pair_ok k n')).
      { subst r1. destruct (qlookup c now tinv (snd st) id) as [e|] eqn:Q.
        - cbn [fst snd]. split; [exact Hst|]. intros k n' Hin.
          unfold qlookup in Q. destruct (c_qon c) eqn:Qon; [|discriminate].
          destruct (aget N.eqb id (snd st)) as [e'|] eqn:G; [|discriminate].
          destruct ((now <? qe_exp e') && (tinv <? qe_lm e')) eqn:V; [|discriminate]. injection Q as ->.
          apply andb_true_iff in V as [V1 V2]. apply N.ltb_lt in V1. apply N.ltb_lt in V2.
          destruct (proj2 Hst id e G) as [G0|[_ [_ [_ Hp]]]].
          + right. split; [exact Qon|]. exists id, e. repeat split; try assumption.
            destruct Ht as [Ht|[Ht _]]; [left; lia | right; exact Ht].
          + specialize (Hp k n' Hin). destruct b; [left; exact Hp | exact Hp].
        - destruct (iter_reads c now n mk store jis (fst st) keys) as [ic1 res] eqn:Rd.
          destruct (reads_ok _ _ _ _ (proj1 Hst) Rd) as [Hic1 Hres].
          cbn [fst snd].
          destruct (resolve c now n mk store jq jis (if c_subinv c then tinv else 0) (ic1, snd st) ch)
            as [[ic2 qc2] [[a2 qh2] ih2]] eqn:Rc.
          assert (Hstc : st_ok b (ic1, snd st)) by (split; [exact Hic1 | exact (proj2 Hst)]).
          assert (Htc : T0 <= (if c_subinv c then tinv else 0) \/ (c_subinv c = false /\ (if c_subinv c then tinv else 0) = 0)).
          { destruct (c_subinv c); [|right; split; reflexivity].
            destruct Ht as [Ht|[X _]]; [left; exact Ht | discriminate]. }
          assert (Hflc : b = true -> forest_flat ch = true).
          { intro Hb. destruct (Hfl Hb) as [-> _]. reflexivity. }
          destruct (IHch b _ _ _ _ Hstc Hflc Htc Rc) as [[Hic2 Hqc2] Ha2]. cbn [fst snd] in *.
          assert (Ha2' : b = true -> a2 = []).
          { intro Hb. destruct (Hfl Hb) as [-> _]. simpl in Rc. injection Rc as _ _ <- _ _. reflexivity. }
          assert (Hall : forall k n', In (k, n') (res_src res ++ a2) -> pair_ok k n').
          { intros k n' Hin. apply in_app_or in Hin as [Hin|Hin]; [left; apply Hres; exact Hin | apply Ha2; exact Hin]. }
          split; [|exact Hall]. split; [exact Hic2|].
          intros id' e He. destruct (c_qon c) eqn:Qon; [|apply Hqc2; exact He].
          unfold qget in He. apply (aget_aset_cases N.eqb N.eqb_eq) in He as [[-> ->]|[_ He]]; [|apply Hqc2; exact He].
          right. split; [exact Qon|]. split; [reflexivity|]. split; [reflexivity|]. cbn [qe_src].
          intros k n' Hin. destruct b.
          + rewrite (Ha2' eq_refl), app_nil_r in Hin. apply Hres; exact Hin.
          + apply Hall; exact Hin. }
      destruct H1 as [Hst1 Ha1].
      destruct (resolve c now n mk store jq jis tinv (fst r1) sib) as [st2 [[a3 qh3] ih3]] eqn:Rs.
      cbn [fst snd] in R. injection R as <- <-.
      assert (Hfls : b = true -> forest_flat sib = true) by (intro Hb; apply (Hfl Hb)).
      destruct (IHsib b _ _ _ _ Hst1 Hfls Ht Rs) as [Hst2 Ha3]. cbn [fst snd] in *.
      split; [exact Hst2|]. intros k n' Hin. apply in_app_or in Hin as [Hin|Hin]; [apply Ha1 | apply Ha3]; exact Hin.
  Qed.
End Resolve.

(* ------------------------------------------------------------------------------------------ *)
(* The invariant behind staleness_bounded (needs cfg_ok)                                       *)

Definition cached_of (s : state) : option N :=
  match s_run s with
  | Some (RPending x) => Some x
  | Some (RRead r) => Some (r_cached r)
  | None => None
  end.

Record Inv1 (c : cfg) (s : state) : Prop := {
  i1_pos : forall ch, In ch (s_db s) -> 1 <= ch_ts ch;
  i1_done : (s_done s <= length (s_db s))%nat;
  i1_ic : forall k e, iget k (s_ic s) = Some e ->
          ie_lm e <= s_now s /\ ie_exp e = ie_lm e + c_ittl c /\
          (forall j ch, nth_error (s_db s) j = Some ch -> (ie_snap e <= j)%nat -> ie_lm e <= ch_ts ch) /\
          ((ie_snap e < length (s_db s))%nat -> ie_lm e < s_now s);
  i1_qc : forall id e, qget id (s_qc s) = Some e ->
          qe_lm e <= s_now s /\ qe_exp e = qe_lm e + c_qttl c /\
          (c_ion c = false -> forall k n, In (k, n) (qe_src e) ->
             forall j ch, nth_error (s_db s) j = Some ch -> (n <= j)%nat ->
             touches (ch_tup ch) k = true -> qe_lm e < ch_ts ch);
  i1_cached : forall x, cached_of s = Some x -> x <= s_now s;
  i1_run : forall r, s_run s = Some (RRead r) ->
           (s_done s <= length (r_seen r))%nat /\
           forall rest, s_db s = r_seen r ++ rest ->
           forall c' ch, In c' (r_seen r) -> In ch rest -> ch_ts c' < ch_ts ch;
  i1_J : forall i ch, nth_error (s_db s) i = Some ch ->
         ((exists e, s_cl s = Some e /\ ch_ts ch <= cl_lm e) \/
          (exists x, cached_of s = Some x /\ ch_ts ch <= x)) ->
         (i < s_done s)%nat;
  i1_Ic : forall i ch k e, (i < s_done s)%nat -> nth_error (s_db s) i = Some ch ->
          iget k (s_ic s) = Some e -> touches (ch_tup ch) k = true -> (ie_snap e <= i)%nat ->
          s_now s < ie_exp e ->
          exists m me, In m (MStore :: markers_of_key k) /\ mget m (s_mk s) = Some me /\
                       ie_lm e < me_lm me /\ ie_exp e <= me_exp me;
  i1_Qc : c_ion c = false ->
          forall i ch id e k n, (i < s_done s)%nat -> nth_error (s_db s) i = Some ch ->
          qget id (s_qc s) = Some e -> In (k, n) (qe_src e) -> touches (ch_tup ch) k = true ->
          (n <= i)%nat -> s_now s < qe_exp e ->
          exists cl, s_cl s = Some cl /\ qe_lm e <= cl_lm cl /\ qe_exp e <= cl_exp cl
}.

Lemma inv1_init c : Inv1 c init_state.
Proof.
  constructor; simpl; intros; try contradiction; try discriminate; try lia.
  destruct i; discriminate.
Qed.

Lemma inv1_tick c s d : Inv1 c s -> Inv1 c (fst (step c s (Tick d))).
Proof.
  intros [P D IC QC CA RU J I Q]. constructor; simpl; try assumption.
  - intros k e He. destruct (IC k e He) as [A [B [C S]]]. split; [lia|]. split; [exact B|]. split; [exact C|]. intro X. specialize (S X). lia.
  - intros ks e He. destruct (QC ks e He) as [A [B C]]. repeat split; try assumption. lia.
  - intros x Hx. unfold cached_of in *. simpl in Hx. apply CA in Hx. lia.
  - intros i ch k e Hi Hn He Ht Hs Hl. apply (I i ch k e); try assumption. lia.
  - intros Ion i ch ks e k n Hi Hn He Hin Ht Hs Hl. apply (Q Ion i ch ks e k n); try assumption. lia.
Qed.

Lemma inv1_write c s ws : cfg_facts c -> Inv0 c s -> Inv1 c s -> Inv1 c (fst (step c s (Write ws))).
Proof.
  intros F I0 [P D IC QC CA RU J I Q]. pose proof (cf_wtick c F) as W.
  assert (Hnew : forall ch, In ch (map (mkCh (s_now s + c_wtick c)) ws) -> ch_ts ch = s_now s + c_wtick c).
  { intros ch Hin. apply in_map_iff in Hin as [x [<- _]]. reflexivity. }
  constructor; simpl.
  - intros ch Hin. apply in_app_or in Hin as [Hin|Hin]; [apply P; exact Hin|]. rewrite (Hnew ch Hin). lia.
  - rewrite app_length. lia.
  - intros k e He. destruct (IC k e He) as [A [B [C S]]]. split; [lia|]. split; [exact B|]. split; [|intros _; lia].
    intros j ch Hn Hj. apply nth_app_cases in Hn as [[_ Hn]|[_ Hin]]; [apply (C j); assumption|].
    rewrite (Hnew ch Hin). lia.
  - intros ks e He. destruct (QC ks e He) as [A [B C]]. repeat split; try assumption; [lia|].
    intros Ion k n Hin j ch Hn Hj Ht. apply nth_app_cases in Hn as [[_ Hn]|[_ Hin']]; [apply (C Ion k n Hin j); assumption|].
    rewrite (Hnew ch Hin'). lia.
  - intros x Hx. unfold cached_of in *. simpl in Hx. apply CA in Hx. lia.
  - intros r R. destruct (RU r R) as [A B]. split; [exact A|].
    intros rest Hdb c' ch Hc' Hch.
    destruct (i0_run c s I0 r R) as [_ [rest0 Hdb0]].
    rewrite Hdb0 in Hdb. rewrite <- app_assoc in Hdb. apply app_inv_head in Hdb. subst rest.
    apply in_app_or in Hch as [Hch|Hch]; [apply (B rest0 Hdb0); assumption|].
    rewrite (Hnew ch Hch). assert (In c' (s_db s)) by (rewrite Hdb0; apply in_or_app; left; exact Hc').
    pose proof (i0_ts c s I0 c' H). lia.
  - intros i ch Hn Hor. apply nth_app_cases in Hn as [[_ Hn]|[_ Hin]]; [apply (J i ch Hn Hor)|].
    exfalso. rewrite (Hnew ch Hin) in Hor. destruct Hor as [[e [He Hle]]|[x [Hx Hle]]].
    + destruct (i0_cl c s I0 e He) as [_ [_ [ch0 [Hin0 [E _]]]]]. pose proof (i0_ts c s I0 ch0 Hin0). lia.
    + unfold cached_of in Hx. simpl in Hx. apply CA in Hx. lia.
  - intros i ch k e Hi Hn He Ht Hs Hl.
    rewrite nth_error_app1 in Hn by lia.
    destruct (IC k e He) as [A [B _]].
    destruct (N.lt_ge_cases (s_now s) (ie_exp e)) as [Hlive|Hdead]; [|lia].
    apply (I i ch k e); assumption.
  - intros Ion i ch ks e k n Hi Hn He Hin Ht Hs Hl.
    rewrite nth_error_app1 in Hn by lia.
    destruct (QC ks e He) as [A [B _]].
    destruct (N.lt_ge_cases (s_now s) (qe_exp e)) as [Hlive|Hdead].
    + apply (Q Ion i ch ks e k n); assumption.
    + (* the entry was already dead before the write *) lia.
Qed.

Lemma inv1_set_pending c s x :
  Inv0 c s -> Inv1 c s -> s_run s = None -> (x = 0 \/ exists e, s_cl s = Some e /\ x = cl_lm e) ->
  Inv1 c (set_run s (Some (RPending x))).
Proof.
  intros I0 [P D IC QC CA RU J I Q] R Hx. constructor; simpl; try assumption.
  - intros y Hy. unfold cached_of in Hy. simpl in Hy. injection Hy as <-.
    destruct Hx as [->|[e [He ->]]]; [lia|].
    destruct (i0_cl c s I0 e He) as [_ [_ [ch0 [Hin0 [E _]]]]]. pose proof (i0_ts c s I0 ch0 Hin0). lia.
  - intros r X; discriminate.
  - intros i ch Hn [Hcl|[y [Hy Hle]]]; [apply (J i ch Hn); left; exact Hcl|].
    unfold cached_of in Hy. simpl in Hy. injection Hy as <-.
    destruct Hx as [->|[e [He ->]]].
    + apply nth_error_In in Hn. apply P in Hn. lia.
    + apply (J i ch Hn). left. exists e. split; assumption.
Qed.

Lemma inv1_spawn c s : Inv0 c s -> Inv1 c s -> Inv1 c (fst (spawn s)).
Proof.
  intros I0 I1. destruct (spawn_cases s) as [E|[R [x [E Hx]]]]; rewrite E; simpl; [exact I1|].
  apply inv1_set_pending; assumption.
Qed.

Lemma inv1_read c s : Inv0 c s -> Inv1 c s -> Inv1 c (fst (step c s InvRead)).
Proof.
  intros I0 I1. simpl. destruct (s_run s) as [[x|r]|] eqn:R; simpl; try exact I1.
  destruct I1 as [P D IC QC CA RU J I Q]. constructor; simpl; try assumption.
  - intros y Hy. unfold cached_of in Hy. simpl in Hy. injection Hy as <-. apply CA. unfold cached_of. rewrite R. reflexivity.
  - intros r X. injection X as <-. simpl. split; [exact D|].
    intros rest Hdb c' ch _ Hch. rewrite <- (app_nil_r (s_db s)) in Hdb at 1. apply app_inv_head in Hdb. subst rest. contradiction.
  - intros i ch Hn [Hcl|[y [Hy Hle]]]; [apply (J i ch Hn); left; exact Hcl|].
    unfold cached_of in Hy. simpl in Hy. injection Hy as <-.
    apply (J i ch Hn). right. exists x. split; [unfold cached_of; rewrite R; reflexivity | exact Hle].
Qed.

Definition new_ient (c : cfg) (s : state) (e : ient) : Prop :=
  ie_lm e <= s_now s /\ ie_exp e = ie_lm e + c_ittl c /\
  (forall j ch, nth_error (s_db s) j = Some ch -> (ie_snap e <= j)%nat -> ie_lm e <= ch_ts ch) /\
  ((ie_snap e < length (s_db s))%nat -> ie_lm e < s_now s) /\
  (s_done s <= ie_snap e)%nat.

Lemma inv1_caches_gen c s ic' qc' :
  cfg_facts c -> Inv1 c s ->
  (forall k e, iget k ic' = Some e -> iget k (s_ic s) = Some e \/ new_ient c s e) ->
  (forall id e, qget id qc' = Some e ->
     qget id (s_qc s) = Some e \/
     (exists jq, qe_lm e = s_now s /\ qe_exp e = s_now s + c_qttl c + jext (c_qttl c) (c_jit c) jq) /\
     (* a new entry reflects every change that touches one of its reads *)
     (c_ion c = false -> forall k n, In (k, n) (qe_src e) ->
        forall j ch, nth_error (s_db s) j = Some ch -> (n <= j)%nat -> touches (ch_tup ch) k = true -> False)) ->
  Inv1 c (mkSt (s_now s) (s_db s) ic' qc' (s_cl s) (s_mk s) (s_run s) (s_done s)).
Proof.
  intros F [P D IC QC CA RU J I Q] Hic Hqc. pose proof (cf_jit c F) as Jit.
  constructor; simpl; try assumption.
  - intros k e He. apply Hic in He as [He|[A [B [C [S _]]]]]; [apply (IC k e He)|]. repeat split; assumption.
  - intros id e He. apply Hqc in He as [He|[[jq [A B]] C]]; [apply (QC id e He)|].
    rewrite Jit, jext_zero in B. repeat split; try lia.
    intros Ion k n Hin j ch Hn Hj Ht. exfalso. apply (C Ion k n Hin j ch Hn Hj Ht).
  - intros i ch k e Hi Hn He Ht Hs Hl. apply Hic in He as [He|[_ [_ [_ [_ X]]]]]; [apply (I i ch k e); assumption|]. lia.
  - intros Ion i ch id e k n Hi Hn He Hin Ht Hs Hl. apply Hqc in He as [He|[_ C]].
    + apply (Q Ion i ch id e k n); assumption.
    + exfalso. apply (C Ion k n Hin i ch Hn Hs Ht).
Qed.

Lemma fresh_ent_new c s j : cfg_facts c -> Inv1 c s -> new_ient c s (fresh_ent c (s_now s) (length (s_db s)) j).
Proof.
  intros F I1. unfold new_ient, fresh_ent; simpl. rewrite (cf_jit c F), jext_zero.
  split; [lia|]. split; [lia|]. split; [|split; [lia | apply (i1_done c s I1)]].
  intros j0 ch Hn Hj. assert (nth_error (s_db s) j0 = None) by (apply nth_error_None; exact Hj). congruence.
Qed.

Lemma inv1_caches c s ic' qc' :
  cfg_facts c -> Inv1 c s ->
  (forall k e, iget k ic' = Some e ->
     iget k (s_ic s) = Some e \/ exists j, e = fresh_ent c (s_now s) (length (s_db s)) j) ->
  (forall id e, qget id qc' = Some e ->
     qget id (s_qc s) = Some e \/
     (exists jq, qe_lm e = s_now s /\ qe_exp e = s_now s + c_qttl c + jext (c_qttl c) (c_jit c) jq) /\
     (c_ion c = false -> forall k n, In (k, n) (qe_src e) ->
        forall j ch, nth_error (s_db s) j = Some ch -> (n <= j)%nat -> touches (ch_tup ch) k = true -> False)) ->
  Inv1 c (mkSt (s_now s) (s_db s) ic' qc' (s_cl s) (s_mk s) (s_run s) (s_done s)).
Proof.
  intros F I1 Hic Hqc. apply inv1_caches_gen; try assumption.
  intros k e He. apply Hic in He as [He|[j ->]]; [left; exact He | right; apply fresh_ent_new; assumption].
Qed.

(* a usable query entry cannot miss a change that a completed run has covered *)
Lemma usable_q_covers c s id e k n i ch :
  Inv1 c s -> c_ion c = false -> qget id (s_qc s) = Some e -> s_now s < qe_exp e ->
  fst (determine c s) < qe_lm e ->
  In (k, n) (qe_src e) -> (i < s_done s)%nat -> nth_error (s_db s) i = Some ch ->
  touches (ch_tup ch) k = true -> (n <= i)%nat -> False.
Proof.
  intros I1 Ion G L T Hin Hi Hn Ht Hs.
  destruct (i1_Qc c s I1 Ion i ch id e k n Hi Hn G Hin Ht Hs L) as [cl [Hcl [A B]]].
  unfold determine, cl_live in T. rewrite Hcl in T.
  assert (X : s_now s <? cl_exp cl = true) by (apply N.ltb_lt; lia). rewrite X in T. simpl in T. lia.
Qed.

Lemma mk_le_refl_ mk : mk_le mk mk.
Proof. apply mk_le_refl. Qed.

Lemma inv1_request c s f st jq jis :
  cfg_facts c -> Inv0 c s -> Inv1 c s -> req_ok c s f = true ->
  Inv1 c (fst (step c s (Request f st jq jis))).
Proof.
  intros F I0 I1 Hok. simpl.
  destruct (determine c s) as [tinv trig] eqn:Det.
  assert (Hs1 : Inv1 c (fst (if trig then spawn s else (s, false)))).
  { destruct trig; [apply inv1_spawn; assumption | exact I1]. }
  assert (Hsame : forall s1, s1 = fst (if trig then spawn s else (s, false)) ->
            s_now s1 = s_now s /\ s_db s1 = s_db s /\ s_ic s1 = s_ic s /\ s_qc s1 = s_qc s /\
            s_cl s1 = s_cl s /\ s_mk s1 = s_mk s /\ s_done s1 = s_done s).
  { intros s1 ->. destruct trig; [apply spawn_same | repeat split; reflexivity]. }
  destruct (if trig then spawn s else (s, false)) as [s1 spawned] eqn:E1. simpl in Hs1.
  destruct (Hsame s1 eq_refl) as [A [B [C [D [E [G H]]]]]]. cbn [fst].
  destruct (resolve c (s_now s) (length (s_db s)) (s_mk s) st jq jis tinv (s_ic s, s_qc s) f) as [st' out] eqn:R.
  cbn [fst snd].
  set (b := forest_flat f).
  assert (Hst0 : st_ok c (s_now s) (length (s_db s)) jq (s_ic s) (s_qc s) (s_mk s) tinv b (s_ic s, s_qc s)).
  { split; intros ? e He; left; exact He. }
  destruct (resolve_ok c (s_now s) (length (s_db s)) (s_mk s) st jq jis (s_ic s) (s_qc s) (s_mk s) tinv
              (mk_le_refl (s_mk s)) f b tinv _ _ _ Hst0 (fun X => X) (or_introl (N.le_refl _)) R) as [[Hic Hqc] _].
  rewrite <- A, <- B, <- E, <- G, <- H.
  apply inv1_caches; [exact F | exact Hs1 | |].
  - intros k e0 He. rewrite A, B, C. apply Hic; exact He.
  - intros id e0 He. rewrite D. apply Hqc in He as [He|[Qon [Hlm [Hexp Hp]]]]; [left; exact He|].
    right. split; [exists jq; rewrite A; split; assumption|].
    intros Ion k n Hin j ch Hn Hj Ht. rewrite B in Hn.
    assert (Hread : read_ok c (s_now s) (length (s_db s)) (s_ic s) (s_mk s) k n -> False).
    { intros [->|[Ion' _]]; [|congruence].
      assert (nth_error (s_db s) j = None) by (apply nth_error_None; exact Hj). congruence. }
    specialize (Hp k n Hin). destruct b eqn:Eb; [exact (Hread Hp)|].
    destruct Hp as [Hp|[_ [id0 [e1 [G1 [L1 [T1 Hin1]]]]]]]; [exact (Hread Hp)|].
    (* the pair comes from an older usable entry: only possible in a covered state *)
    unfold req_ok in Hok. rewrite Qon in Hok. fold b in Hok. rewrite Eb in Hok. simpl in Hok.
    apply Nat.eqb_eq in Hok.
    destruct T1 as [T1|T1]; [|rewrite (cf_subinv c F) in T1; discriminate].
    assert (Hj' : (j < s_done s)%nat) by (rewrite Hok; apply nth_error_Some; congruence).
    apply (usable_q_covers c s id0 e1 k n j ch I1 Ion G1 L1); try assumption.
    rewrite Det. exact T1.
Qed.

(* ------------------------------------------------------------------------------------------ *)
(* Facts about the page, the window and the markers, for the finish step                       *)

Lemma sorted_app_le (l1 l2 : list change) x :
  StronglySorted tsle (l1 ++ x :: l2) -> forall y, In y l1 -> ch_ts y <= ch_ts x.
Proof.
  induction l1 as [|a l1 IH]; intros Hs y Hin; [contradiction|].
  simpl in Hs. apply StronglySorted_inv in Hs as [Hs Hall]. destruct Hin as [<-|Hin].
  - rewrite Forall_forall in Hall. apply (Hall x). apply in_or_app. right; left; reflexivity.
  - apply IH; assumption.
Qed.

(* a non-empty page starts with the LAST change the run saw *)
Lemma page_newest c (seen : list change) newest page' :
  firstn (c_page c) (rev seen) = newest :: page' -> exists l, seen = l ++ [newest].
Proof.
  intro H. destruct (rev seen) as [|x l] eqn:E.
  - destruct (c_page c); discriminate.
  - destruct (c_page c) as [|p]; [discriminate|]. simpl in H. injection H as -> _.
    exists (rev l). rewrite <- (rev_involutive seen), E. reflexivity.
Qed.

Lemma page_empty c (seen : list change) : (1 <= c_page c)%nat -> firstn (c_page c) (rev seen) = [] -> seen = [].
Proof.
  intros P H. destruct (c_page c) as [|p]; [lia|]. destruct (rev seen) as [|x l] eqn:E; [|discriminate].
  rewrite <- (rev_involutive seen), E. reflexivity.
Qed.

Lemma seen_le_newest c (s : state) seen rest newest page' :
  StronglySorted tsle (s_db s) -> s_db s = seen ++ rest ->
  firstn (c_page c) (rev seen) = newest :: page' ->
  forall y, In y seen -> ch_ts y <= ch_ts newest.
Proof.
  intros Hs Hdb Hp y Hy. apply page_newest in Hp as [l ->].
  apply in_app_or in Hy as [Hy|[<-|[]]]; [|lia].
  rewrite Hdb, <- app_assoc in Hs. simpl in Hs. eapply sorted_app_le; eassumption.
Qed.

Lemma drop_old_in c f l x : In x l -> In x (drop_old c f l) \/ inwin c f x = false.
Proof.
  induction l as [|a l IH]; intro Hin; [contradiction|]. simpl.
  destruct (inwin c f a) eqn:W.
  - left. exact Hin.
  - destruct Hin as [<-|Hin]; [right; exact W | apply IH; exact Hin].
Qed.

Lemma drop_old_len c f l : (length (drop_old c f l) <= length l)%nat.
Proof. induction l as [|a l IH]; simpl; [lia|]. destruct (inwin c f a); simpl; lia. Qed.

Lemma drop_old_short c f l :
  Nat.eqb (length (drop_old c f l)) (length l) = false ->
  exists o l', l = o :: l' /\ inwin c f o = false.
Proof.
  destruct l as [|o l']; simpl; [discriminate|]. destruct (inwin c f o) eqn:W.
  - simpl. rewrite Nat.eqb_refl. discriminate.
  - intros _. exists o, l'. split; [reflexivity | exact W].
Qed.

(* a change the run saw is either among the changes that get markers, or too old for the window *)
Lemma covered_or_old c (s : state) seen rest i ch :
  StronglySorted tsle (s_db s) -> s_db s = seen ++ rest ->
  (i < length seen)%nat -> nth_error (s_db s) i = Some ch ->
  let rp := rev (firstn (c_page c) (rev seen)) in
  Nat.eqb (length (drop_old c (s_now s) rp)) (length rp) = false ->
  In ch (drop_old c (s_now s) rp) \/ ch_ts ch + c_ittl c <= s_now s.
Proof.
  intros Hs Hdb Hi Hn rp Hshort.
  assert (Erp : rp = skipn (length seen - c_page c) seen).
  { unfold rp. rewrite firstn_rev, rev_involutive. reflexivity. }
  set (d := (length seen - c_page c)%nat) in *.
  assert (Hn' : nth_error seen i = Some ch).
  { rewrite Hdb, nth_error_app1 in Hn by exact Hi. exact Hn. }
  destruct (Nat.le_gt_cases d i) as [Hdi|Hid].
  - assert (In ch rp).
    { rewrite Erp. apply (nth_error_In _ (i - d)). rewrite nth_skipn. replace (d + (i - d))%nat with i by lia. exact Hn'. }
    destruct (drop_old_in c (s_now s) rp ch H) as [X|X]; [left; exact X|].
    right. unfold inwin in X. apply N.ltb_ge in X. exact X.
  - right. apply drop_old_short in Hshort as [o [l' [El W]]].
    assert (Ho : nth_error seen d = Some o).
    { pose proof (nth_skipn seen d 0) as X. rewrite <- Erp, El in X. simpl in X. rewrite Nat.add_0_r in X. symmetry; exact X. }
    assert (Ho' : nth_error (s_db s) d = Some o).
    { rewrite Hdb, nth_error_app1; [exact Ho|]. apply nth_error_Some. congruence. }
    pose proof (sorted_idx (s_db s) Hs i d ch o (Nat.lt_le_incl _ _ Hid) Hn Ho') as Hle.
    unfold inwin in W. apply N.ltb_ge in W. lia.
Qed.

Definition dom (c : cfg) (f : N) (mk : list (mkey * ment)) : Prop :=
  forall m e, mget m mk = Some e -> me_lm e <= f /\ me_exp e <= f + mk_ttl c m.

Lemma mk_le_trans a b d : mk_le a b -> mk_le b d -> mk_le a d.
Proof.
  intros H1 H2 m e He. destruct (H1 m e He) as [e1 [A [B C]]]. destruct (H2 m e1 A) as [e2 [D [E G]]].
  exists e2. split; [exact D | lia].
Qed.

Lemma mk_le_aset c f mk m0 :
  dom c f mk -> mk_le mk (aset mkey_eqb m0 (mkME f (f + mk_ttl c m0)) mk) /\
                dom c f (aset mkey_eqb m0 (mkME f (f + mk_ttl c m0)) mk).
Proof.
  intro D. split.
  - intros m e He. destruct (mkey_eqb m m0) eqn:E.
    + apply mkey_eqb_spec in E; subst m0. exists (mkME f (f + mk_ttl c m)). split.
      * apply (aget_aset_same mkey_eqb mkey_eqb_spec).
      * simpl. apply D in He. lia.
    + exists e. split; [|lia]. unfold mget. rewrite (aget_aset_other mkey_eqb mkey_eqb_spec); [exact He|].
      intro X; subst. rewrite (proj2 (mkey_eqb_spec m0 m0) eq_refl) in E. discriminate.
  - intros m e He. unfold mget in He.
    apply (aget_aset_cases mkey_eqb mkey_eqb_spec) in He as [[-> ->]|[_ He]]; simpl; [lia | apply D; exact He].
Qed.

Lemma mk_le_fold c f ms mk :
  dom c f mk -> (forall m, In m ms -> mk_ttl c m = c_ittl c) ->
  mk_le mk (fold_left (fun acc m0 => aset mkey_eqb m0 (mkME f (f + c_ittl c)) acc) ms mk) /\
  dom c f (fold_left (fun acc m0 => aset mkey_eqb m0 (mkME f (f + c_ittl c)) acc) ms mk).
Proof.
  revert mk. induction ms as [|m0 ms IH]; intros mk D Hms; simpl.
  - split; [apply mk_le_refl | exact D].
  - rewrite <- (Hms m0 (or_introl eq_refl)). destruct (mk_le_aset c f mk m0 D) as [A B].
    assert (Hms' : forall m, In m ms -> mk_ttl c m = c_ittl c) by (intros m Hm; apply Hms; right; exact Hm).
    rewrite (Hms m0 (or_introl eq_refl)) in *.
    destruct (IH _ B Hms') as [A' B']. split; [eapply mk_le_trans; eassumption | exact B'].
Qed.

Lemma mk_le_set_markers c f recent mk :
  dom c f mk -> mk_le mk (fold_left (set_markers c f) recent mk) /\ dom c f (fold_left (set_markers c f) recent mk).
Proof.
  revert mk. induction recent as [|ch recent IH]; intros mk D; simpl.
  - split; [apply mk_le_refl | exact D].
  - destruct (mk_le_fold c f (markers_of_write (ch_tup ch)) mk D (markers_of_write_ttl c (ch_tup ch))) as [A B].
    destruct (IH _ B) as [A' B']. split; [eapply mk_le_trans; eassumption | exact B'].
Qed.

Lemma inv0_dom c s : Inv0 c s -> dom c (s_now s) (s_mk s).
Proof. intros I0 m e He. destruct (i0_mk c s I0 m e He) as [A B]. lia. Qed.

Lemma inv1_finish_frame c s r cl' mk' :
  Inv1 c s -> s_run s = Some (RRead r) -> (length (r_seen r) <= length (s_db s))%nat ->
  let done' := Nat.max (s_done s) (length (r_seen r)) in
  (forall i ch, nth_error (s_db s) i = Some ch -> (exists e, cl' = Some e /\ ch_ts ch <= cl_lm e) -> (i < done')%nat) ->
  (forall i ch k e, (i < done')%nat -> nth_error (s_db s) i = Some ch ->
     iget k (s_ic s) = Some e -> touches (ch_tup ch) k = true -> (ie_snap e <= i)%nat -> s_now s < ie_exp e ->
     exists m me, In m (MStore :: markers_of_key k) /\ mget m mk' = Some me /\
                  ie_lm e < me_lm me /\ ie_exp e <= me_exp me) ->
  (c_ion c = false -> forall i ch ks e k n, (i < done')%nat -> nth_error (s_db s) i = Some ch ->
     qget ks (s_qc s) = Some e -> In (k, n) (qe_src e) -> touches (ch_tup ch) k = true ->
     (n <= i)%nat -> s_now s < qe_exp e ->
     exists cl, cl' = Some cl /\ qe_lm e <= cl_lm cl /\ qe_exp e <= cl_exp cl) ->
  Inv1 c (mkSt (s_now s) (s_db s) (s_ic s) (s_qc s) cl' mk' None done').
Proof.
  intros [P D IC QC CA RU J I Q] R Hlen done' HJ HI HQ. constructor; simpl; try assumption.
  - unfold done'. lia.
  - intros x X; discriminate.
  - intros r0 X; discriminate.
  - intros i ch Hn [Hcl|[x [X _]]]; [apply (HJ i ch Hn Hcl) | discriminate].
Qed.

Lemma inv1_finish c s r :
  cfg_facts c -> Inv0 c s -> Inv1 c s -> s_run s = Some (RRead r) -> Inv1 c (fst (finish c s r)).
Proof.
  intros F I0 I1 R.
  destruct (i0_run c s I0 r R) as [Hpage [rest Hdb]].
  destruct (i1_run c s I1 r R) as [Hdone Hstrict]. specialize (Hstrict rest Hdb).
  pose proof (i0_sorted c s I0) as Hsorted.
  assert (Hlen : (length (r_seen r) <= length (s_db s))%nat) by (rewrite Hdb, app_length; lia).
  assert (Hseen : forall i ch, (i < length (r_seen r))%nat -> nth_error (s_db s) i = Some ch -> In ch (r_seen r)).
  { intros i ch Hi Hn. rewrite Hdb, nth_error_app1 in Hn by exact Hi. eapply nth_error_In; exact Hn. }
  assert (Hmax : forall i, (i < Nat.max (s_done s) (length (r_seen r)))%nat -> (i < length (r_seen r))%nat) by (intros; lia).
  unfold finish. destruct (r_page r) as [|newest page'] eqn:Pg.
  - (* ReadChanges error: the run saw an empty changelog *)
    assert (Es : r_seen r = []) by (apply (page_empty c); [apply (cf_page c F) | rewrite <- Hpage; reflexivity]).
    simpl. apply inv1_finish_frame; try assumption.
    + intros i ch Hn Hcl. rewrite Es in Hmax |- *. simpl. rewrite Nat.max_0_r.
      apply (i1_J c s I1 i ch Hn). left; exact Hcl.
    + intros i ch k e Hi Hn He Ht Hs Hl. rewrite Es in Hi. simpl in Hi. rewrite Nat.max_0_r in Hi.
      destruct (i1_Ic c s I1 i ch k e Hi Hn He Ht Hs Hl) as [m [me [A [B [C D]]]]].
      destruct (mk_le_aset c (s_now s) (s_mk s) MStore (inv0_dom c s I0)) as [Hle _].
      destruct (Hle m me B) as [me' [A' [B' C']]]. exists m, me'. repeat split; try assumption; lia.
    + intros Ion i ch ks e k n Hi. rewrite Es in Hi. simpl in Hi. rewrite Nat.max_0_r in Hi.
      apply (i1_Qc c s I1 Ion i ch ks e k n Hi).
  - assert (Hnew_in : In newest (r_seen r)).
    { apply (page_in_seen c r); [rewrite Pg; exact Hpage | rewrite Pg; left; reflexivity]. }
    assert (Hle_new : forall y, In y (r_seen r) -> ch_ts y <= ch_ts newest).
    { apply (seen_le_newest c s (r_seen r) rest newest page'); try assumption. rewrite <- Hpage. reflexivity. }
    (* facts shared by all four outcomes: J and Qclean for the new changelog entry *)
    assert (HJ : forall i ch, nth_error (s_db s) i = Some ch ->
              (exists e, Some (mkCL (ch_ts newest) (s_now s) (s_now s + c_qttl c)) = Some e /\ ch_ts ch <= cl_lm e) ->
              (i < Nat.max (s_done s) (length (r_seen r)))%nat).
    { intros i ch Hn [e [He Hts]]. injection He as <-. simpl in Hts.
      rewrite Hdb in Hn. apply nth_app_cases in Hn as [[Hi _]|[_ Hin]]; [lia|].
      pose proof (Hstrict newest ch Hnew_in Hin). lia. }
    assert (HQ : c_ion c = false -> forall i ch ks e k n, (i < Nat.max (s_done s) (length (r_seen r)))%nat ->
              nth_error (s_db s) i = Some ch -> qget ks (s_qc s) = Some e -> In (k, n) (qe_src e) ->
              touches (ch_tup ch) k = true -> (n <= i)%nat -> s_now s < qe_exp e ->
              exists cl, Some (mkCL (ch_ts newest) (s_now s) (s_now s + c_qttl c)) = Some cl /\
                         qe_lm e <= cl_lm cl /\ qe_exp e <= cl_exp cl).
    { intros Ion i ch ks e k n Hi Hn He Hin Ht Hs Hl. eexists. split; [reflexivity|]. simpl.
      destruct (i1_qc c s I1 ks e He) as [A [B C]]. specialize (C Ion k n Hin i ch Hn Hs).
      pose proof (Hle_new ch (Hseen i ch (Hmax i Hi) Hn)). lia. }
    destruct (ch_ts newest <=? r_cached r) eqn:Cmp.
    + (* no new change: everything the run saw was already covered *)
      simpl. apply inv1_finish_frame; try assumption.
      intros i ch k e Hi Hn He Ht Hs Hl.
      assert (Hi' : (i < s_done s)%nat).
      { apply (i1_J c s I1 i ch Hn). right. exists (r_cached r). split; [unfold cached_of; rewrite R; reflexivity|].
        apply N.leb_le in Cmp. pose proof (Hle_new ch (Hseen i ch (Hmax i Hi) Hn)). lia. }
      apply (i1_Ic c s I1 i ch k e Hi' Hn He Ht Hs Hl).
    + assert (Hent : forall i ch k e, (i < Nat.max (s_done s) (length (r_seen r)))%nat ->
                nth_error (s_db s) i = Some ch -> iget k (s_ic s) = Some e -> (ie_snap e <= i)%nat ->
                ie_exp e = ie_lm e + c_ittl c /\ (ie_lm e <= ch_ts ch /\ ie_lm e < s_now s) /\ ch_ts ch <= s_now s).
      { intros i ch k e Hi Hn He Hs. destruct (i1_ic c s I1 k e He) as [_ [B [C S]]].
        split; [exact B|]. split; [split; [apply (C i ch Hn Hs)|]|apply (i0_ts c s I0); eapply nth_error_In; exact Hn].
        apply S. assert ((i < length (s_db s))%nat) by (apply nth_error_Some; congruence). lia. }
      destruct (Nat.eqb (length (drop_old c (s_now s) (rev (newest :: page')))) (length (rev (newest :: page')))) eqn:Full.
      * (* full invalidation *)
        simpl. apply inv1_finish_frame; try assumption.
        intros i ch k e Hi Hn He Ht Hs Hl. destruct (Hent i ch k e Hi Hn He Hs) as [A [B C]].
        exists MStore, (mkME (s_now s) (s_now s + c_full c)). split; [|split; [|split]].
        -- left; reflexivity.
        -- apply (aget_aset_same mkey_eqb mkey_eqb_spec).
        -- simpl. lia.
        -- simpl. pose proof (cf_full c F). lia.
      * (* partial or nothing in the window *)
        assert (Hcov : forall i ch, (i < Nat.max (s_done s) (length (r_seen r)))%nat -> nth_error (s_db s) i = Some ch ->
                  In ch (drop_old c (s_now s) (rev (newest :: page'))) \/ ch_ts ch + c_ittl c <= s_now s).
        { intros i ch Hi Hn. rewrite Hpage in Full |- *.
          apply (covered_or_old c s (r_seen r) rest i ch Hsorted Hdb (Hmax i Hi) Hn). exact Full. }
        destruct (drop_old c (s_now s) (rev (newest :: page'))) as [|ch0 rec'] eqn:Drop.
        -- simpl. apply inv1_finish_frame; try assumption.
           intros i ch k e Hi Hn He Ht Hs Hl. destruct (Hent i ch k e Hi Hn He Hs) as [A [B C]].
           destruct (Hcov i ch Hi Hn) as [[]|Hold]. lia.
        -- cbn [fst]. apply inv1_finish_frame; try assumption.
           intros i ch k e Hi Hn He Ht Hs Hl. destruct (Hent i ch k e Hi Hn He Hs) as [A [B C]].
           destruct (Hcov i ch Hi Hn) as [Hin|Hold]; [|lia].
           destruct (touch_covered _ _ Ht) as [m [Hm1 Hm2]].
           exists m, (mkME (s_now s) (s_now s + c_ittl c)). split; [|split; [|split]].
           ++ right; exact Hm2.
           ++ apply (mget_in_set_markers c (s_now s) (ch0 :: rec') (s_mk s) m ch Hin Hm1).
           ++ simpl. lia.
           ++ simpl. lia.
Qed.

Lemma inv1_race c s k ws st j :
  cfg_facts c -> Inv0 c s -> Inv1 c s -> Inv1 c (fst (step c s (RaceRead k ws st j))).
Proof.
  intros F I0 I1. pose proof (cf_wtick c F) as W.
  set (sW := fst (step c s (Write ws))).
  set (sT := fst (step c sW (Tick (c_wtick c)))).
  assert (IT : Inv1 c sT) by (apply inv1_tick; apply inv1_write; assumption).
  set (t := s_now s + c_wtick c).
  assert (Hold : forall ic', (forall k0 e0, iget k0 ic' = Some e0 -> iget k0 (s_ic s) = Some e0 \/ new_ient c sT e0) ->
            Inv1 c (mkSt (t + c_wtick c) (s_db s ++ map (mkCh t) ws) ic' (s_qc s) (s_cl s) (s_mk s) (s_run s) (s_done s))).
  { intros ic' Hic. apply (inv1_caches_gen c sT ic' (s_qc s) F IT); [exact Hic|]. intros id e He. left. exact He. }
  simpl.
  match goal with |- context [match ?u with Some _ => _ | None => _ end] => destruct u as [e|] end; cbn [fst].
  - apply Hold. intros k0 e0 He. left. exact He.
  - destruct (c_ion c); [|apply Hold; intros k0 e0 He; left; exact He].
    destruct (st && negb (invalid_at (s_mk s) (s_now s + c_wtick c) (s_now s + c_wtick c) k)).
    + apply Hold. intros k0 e0 He. unfold iget in He.
      apply (aget_aset_cases ikey_eqb ikey_eqb_spec) in He as [[-> ->]|[_ He]]; [|left; exact He].
      right. unfold new_ient; simpl. rewrite (cf_jit c F), jext_zero. fold t.
      split; [lia|]. split; [lia|]. split; [|split; [intros _; lia | apply (i1_done c s I1)]].
      intros j0 ch Hn Hj. apply nth_app_cases in Hn as [[Hlt _]|[_ Hin]]; [lia|].
      apply in_map_iff in Hin as [x [<- _]]. simpl. lia.
    + apply Hold. intros k0 e0 He. unfold iget in He.
      apply (aget_adel_some ikey_eqb ikey_eqb_spec) in He as [_ He]. left; exact He.
Qed.

Definition op_ok (c : cfg) (s : state) (o : op) : bool :=
  match o with Request f _ _ _ => req_ok c s f | _ => true end.

Lemma inv1_step c s o : cfg_facts c -> Inv0 c s -> Inv1 c s -> op_ok c s o = true -> Inv1 c (fst (step c s o)).
Proof.
  intros F I0 I1 Hop. destruct o as [ws|f st jq jis|k ws st j| | | |d].
  - apply inv1_write; assumption.
  - apply inv1_request; assumption.
  - apply inv1_race; assumption.
  - simpl. destruct (spawn s) as [s1 b] eqn:E. simpl. change s1 with (fst (s1, b)). rewrite <- E.
    apply inv1_spawn; assumption.
  - apply inv1_read; assumption.
  - simpl. destruct (s_run s) as [[x|r]|] eqn:R; simpl; try exact I1.
    destruct (finish c s r) as [s1 d] eqn:E. simpl. change s1 with (fst (s1, d)). rewrite <- E.
    apply inv1_finish; assumption.
  - apply inv1_tick; assumption.
Qed.

Lemma hist_ok_cons c o h s : hist_ok c (o :: h) s = op_ok c s o && hist_ok c h (fst (step c s o)).
Proof. destruct o; reflexivity. Qed.

Lemma inv_run c h : cfg_facts c -> forall s, Inv0 c s -> Inv1 c s -> hist_ok c h s = true ->
  Inv0 c (run_ops c h s) /\ Inv1 c (run_ops c h s).
Proof.
  intro F. induction h as [|o h IH]; intros s I0 I1 Hh; [split; assumption|].
  rewrite hist_ok_cons in Hh. apply andb_true_iff in Hh as [Ho Hh]. simpl.
  apply IH; [apply inv0_step; exact I0 | apply inv1_step; assumption | exact Hh].
Qed.

Lemma hist_ok_app c h1 h2 s : hist_ok c (h1 ++ h2) s = hist_ok c h1 s && hist_ok c h2 (run_ops c h1 s).
Proof.
  revert s. induction h1 as [|o h1 IH]; intro s; [reflexivity|].
  rewrite <- app_comm_cons, !hist_ok_cons, IH. simpl. rewrite andb_assoc. reflexivity.
Qed.

Lemma inv0_run c h : forall s, Inv0 c s -> Inv0 c (run_ops c h s).
Proof. induction h as [|o h IH]; intros s I0; simpl; [exact I0|]. apply IH. apply inv0_step; exact I0. Qed.

(* ------------------------------------------------------------------------------------------ *)
(* The answer of a request in a state that satisfies the invariant                             *)

Lemma invalid_at_marker mk now ts k m me :
  In m (MStore :: markers_of_key k) -> mget m mk = Some me -> now < me_exp me -> ts < me_lm me ->
  invalid_at mk now ts k = true.
Proof.
  intros Hin Hg Hl Ht. unfold invalid_at. apply existsb_exists. exists m. split; [exact Hin|].
  unfold mget in Hg. rewrite Hg. apply andb_true_iff. split; apply N.ltb_lt; assumption.
Qed.

Lemma answer_fresh c s f st jq jis i :
  cfg_facts c -> Inv1 c s -> (i < s_done s)%nat ->
  fresh_at (s_db s) i (out_src (snd (step c s (Request f st jq jis)))).
Proof.
  intros F I1 Hi ch Hn k n Hin Ht. simpl in Hin.
  destruct (determine c s) as [tinv trig] eqn:Det.
  destruct (if trig then spawn s else (s, false)) as [s1 spawned].
  destruct (resolve c (s_now s) (length (s_db s)) (s_mk s) st jq jis tinv (s_ic s, s_qc s) f) as [st' out] eqn:R.
  cbn [fst snd out_src] in Hin.
  assert (Hst0 : st_ok c (s_now s) (length (s_db s)) jq (s_ic s) (s_qc s) (s_mk s) tinv false (s_ic s, s_qc s)).
  { split; intros ? e He; left; exact He. }
  destruct (resolve_ok c (s_now s) (length (s_db s)) (s_mk s) st jq jis (s_ic s) (s_qc s) (s_mk s) tinv
              (mk_le_refl (s_mk s)) f false tinv _ _ _ Hst0 (fun X => ltac:(discriminate X)) (or_introl (N.le_refl _)) R) as [_ Hp].
  destruct (Nat.lt_ge_cases i n) as [Hlt|Hge]; [exact Hlt|exfalso].
  destruct (Hp k n Hin) as [[->|[Ion [e [[G [L V]] ->]]]]|[Qon [id [e [G [L [T Hin']]]]]]].
  - pose proof (i1_done c s I1). lia.
  - destruct (i1_Ic c s I1 i ch k e Hi Hn G Ht Hge L) as [m [me [A [B [C D]]]]].
    rewrite (invalid_at_marker (s_mk s) (s_now s) (ie_lm e) k m me A B) in V; [discriminate | lia | exact C].
  - assert (Ion : c_ion c = false).
    { pose proof (cf_single c F) as X. rewrite Qon in X. simpl in X. exact X. }
    destruct T as [T|T]; [|rewrite (cf_subinv c F) in T; discriminate].
    apply (usable_q_covers c s id e k n i ch I1 Ion G L); try assumption. rewrite Det. exact T.
Qed.

Lemma staleness_ghost c h :
  cfg_ok c = true -> hist_ok c h init_state = true ->
  let s := run_ops c h init_state in
  forall i, (i < s_done s)%nat ->
  forall f st jq jis, fresh_at (s_db s) i (out_src (snd (step c s (Request f st jq jis)))).
Proof.
  intros Ok Hh s i Hi f st jq jis. apply cfg_ok_facts in Ok.
  destruct (inv_run c h Ok init_state (inv0_init c) (inv1_init c) Hh) as [_ I1].
  apply answer_fresh; assumption.
Qed.

(* ------------------------------------------------------------------------------------------ *)
(* From the ghost counter to a statement about the history itself                              *)

Lemma run_ops_app c h1 h2 s : run_ops c (h1 ++ h2) s = run_ops c h2 (run_ops c h1 s).
Proof. unfold run_ops. apply fold_left_app. Qed.

Lemma spawn_run_cases s :
  s_run (fst (spawn s)) = s_run s \/ (s_run s = None /\ exists x, s_run (fst (spawn s)) = Some (RPending x)).
Proof.
  destruct (spawn_cases s) as [E|[R [x [E _]]]]; rewrite E; simpl; [left; reflexivity|].
  right. split; [exact R|]. exists x. reflexivity.
Qed.

Lemma finish_fields c s r :
  s_db (fst (finish c s r)) = s_db s /\
  s_done (fst (finish c s r)) = Nat.max (s_done s) (length (r_seen r)) /\
  s_run (fst (finish c s r)) = None.
Proof.
  unfold finish. destruct (r_page r) as [|newest page']; [simpl; repeat split|].
  destruct (ch_ts newest <=? r_cached r); [simpl; repeat split|].
  destruct (Nat.eqb _ _); [simpl; repeat split|].
  destruct (drop_old c (s_now s) (rev (newest :: page'))); cbn [fst s_db s_done s_run]; repeat split.
Qed.

Lemma request_fields c s f st jq jis :
  let s' := fst (step c s (Request f st jq jis)) in
  s_db s' = s_db s /\ s_done s' = s_done s /\
  (s_run s' = s_run s \/ (s_run s = None /\ exists x, s_run s' = Some (RPending x))).
Proof.
  simpl. destruct (determine c s) as [tinv trig].
  assert (X : let s1 := fst (if trig then spawn s else (s, false)) in
              (s_run s1 = s_run s \/ (s_run s = None /\ exists x, s_run s1 = Some (RPending x)))).
  { destruct trig; simpl; [apply spawn_run_cases | left; reflexivity]. }
  destruct (if trig then spawn s else (s, false)) as [s1 spawned]. simpl in X. cbn [fst s_db s_done s_run].
  repeat split. exact X.
Qed.

Lemma step_db_done c s o :
  (exists rest, s_db (fst (step c s o)) = s_db s ++ rest) /\ (s_done s <= s_done (fst (step c s o)))%nat.
Proof.
  destruct o as [ws|f st jq jis|k ws st j| | | |d].
  - simpl. split; [eexists; reflexivity | lia].
  - destruct (request_fields c s f st jq jis) as [A [B _]]. rewrite A, B.
    split; [exists []; rewrite app_nil_r; reflexivity | lia].
  - simpl. match goal with |- context [match ?u with Some _ => _ | None => _ end] => destruct u as [e|] end;
      simpl; (split; [eexists; reflexivity | lia]).
  - simpl. destruct (spawn s) as [s1 b] eqn:E. simpl.
    destruct (spawn_same s) as [_ [B [_ [_ [_ [_ D]]]]]]. rewrite E in B, D. simpl in B, D. rewrite B, D.
    split; [exists []; rewrite app_nil_r; reflexivity | lia].
  - simpl. destruct (s_run s) as [[x|r]|]; simpl; (split; [exists []; rewrite app_nil_r; reflexivity | lia]).
  - simpl. destruct (s_run s) as [[x|r]|]; simpl; try (split; [exists []; rewrite app_nil_r; reflexivity | lia]).
    destruct (finish c s r) as [s1 d] eqn:E. simpl.
    destruct (finish_fields c s r) as [A [B _]]. rewrite E in A, B. simpl in A, B. rewrite A, B.
    split; [exists []; rewrite app_nil_r; reflexivity | lia].
  - simpl. split; [exists []; rewrite app_nil_r; reflexivity | lia].
Qed.

Lemma run_db_done c h : forall s,
  (exists rest, s_db (run_ops c h s) = s_db s ++ rest) /\ (s_done s <= s_done (run_ops c h s))%nat.
Proof.
  induction h as [|o h IH]; intro s; simpl.
  - split; [exists []; rewrite app_nil_r; reflexivity | lia].
  - destruct (IH (fst (step c s o))) as [[r1 A] B]. destruct (step_db_done c s o) as [[r2 C] D].
    split; [|lia]. exists (r2 ++ r1). rewrite A, C, app_assoc. reflexivity.
Qed.

Lemma step_keeps_read c s o r :
  s_run s = Some (RRead r) -> (match o with InvFinish => false | _ => true end) = true ->
  s_run (fst (step c s o)) = Some (RRead r).
Proof.
  intros R Ho. destruct o as [ws|f st jq jis|k ws st j| | | |d]; try discriminate.
  - simpl. exact R.
  - destruct (request_fields c s f st jq jis) as [_ [_ [A|[A _]]]]; [rewrite A; exact R | congruence].
  - simpl. match goal with |- context [match ?u with Some _ => _ | None => _ end] => destruct u as [e|] end;
      simpl; exact R.
  - simpl. destruct (spawn s) as [s1 b] eqn:E. simpl.
    destruct (spawn_run_cases s) as [A|[A _]]; [rewrite E in A; simpl in A; rewrite A; exact R | congruence].
  - simpl. rewrite R. simpl. exact R.
  - simpl. exact R.
Qed.

Lemma run_keeps_read c h : forall s r,
  s_run s = Some (RRead r) -> no_finish h = true -> s_run (run_ops c h s) = Some (RRead r).
Proof.
  induction h as [|o h IH]; intros s r R Hn; simpl; [exact R|].
  simpl in Hn. apply andb_true_iff in Hn as [Ho Hn]. apply IH; [|exact Hn].
  apply step_keeps_read; assumption.
Qed.

Lemma staleness_bounded_lemma :
  forall (c : cfg) (h1 : list op) (ws : list tup) (h2 h3 h4 : list op),
  cfg_ok c = true ->
  hist_ok c (h1 ++ [Write ws] ++ h2 ++ [InvRead] ++ h3 ++ [InvFinish] ++ h4) init_state = true ->
  let sW := run_ops c (h1 ++ [Write ws]) init_state in
  let sA := run_ops c (h1 ++ [Write ws] ++ h2) init_state in
  (exists x, s_run sA = Some (RPending x)) ->
  no_finish h3 = true ->
  let s := run_ops c (h1 ++ [Write ws] ++ h2 ++ [InvRead] ++ h3 ++ [InvFinish] ++ h4) init_state in
  firstn (length (s_db sW)) (s_db s) = s_db sW /\
  forall i, (i < length (s_db sW))%nat ->
  forall f st jq jis, fresh_at (s_db s) i (out_src (snd (step c s (Request f st jq jis)))).
Proof.
  intros c h1 ws h2 h3 h4 Ok Hh sW sA [x Hpend] Hnf s.
  assert (EA : sA = run_ops c h2 sW).
  { unfold sA, sW. rewrite app_assoc. apply run_ops_app. }
  assert (ES : s = run_ops c h4 (fst (step c (run_ops c h3 (fst (step c sA InvRead))) InvFinish))).
  { unfold s, sA. rewrite !app_assoc. rewrite run_ops_app. f_equal.
    rewrite run_ops_app. simpl. f_equal. f_equal. rewrite run_ops_app. f_equal.
    rewrite run_ops_app. simpl. rewrite <- !app_assoc. reflexivity. }
  set (sB := fst (step c sA InvRead)) in *.
  set (sC := run_ops c h3 sB) in *.
  set (sD := fst (step c sC InvFinish)) in *.
  set (r := mkRun x (firstn (c_page c) (rev (s_db sA))) (s_db sA)).
  assert (RB : s_run sB = Some (RRead r)).
  { unfold sB. simpl. rewrite Hpend. reflexivity. }
  assert (RC : s_run sC = Some (RRead r)) by (apply run_keeps_read; assumption).
  assert (DD : (length (s_db sA) <= s_done sD)%nat).
  { unfold sD. simpl. rewrite RC. destruct (finish c sC r) as [s1 d] eqn:E. simpl.
    destruct (finish_fields c sC r) as [_ [B _]]. rewrite E in B. simpl in B. rewrite B. simpl. lia. }
  destruct (run_db_done c h2 sW) as [[r1 P1] _]. rewrite <- EA in P1.
  destruct (step_db_done c sA InvRead) as [[r2 P2] _]. fold sB in P2.
  destruct (run_db_done c h3 sB) as [[r3 P3] _]. fold sC in P3.
  destruct (step_db_done c sC InvFinish) as [[r4 P4] _]. fold sD in P4.
  destruct (run_db_done c h4 sD) as [[r5 P5] M5]. rewrite <- ES in P5, M5.
  split.
  - rewrite P5, P4, P3, P2, P1, <- !app_assoc.
    rewrite firstn_app, Nat.sub_diag, firstn_all. simpl. apply app_nil_r.
  - intros i Hi f st jq jis. apply staleness_ghost; [exact Ok | exact Hh |].
    fold s. assert (length (s_db sW) <= length (s_db sA))%nat by (rewrite P1, app_length; lia). lia.
Qed.

(* ------------------------------------------------------------------------------------------ *)
(* Invalidation only forces recomputation                                                      *)

Lemma inv_monotone_safe_lemma :
  forall (c : cfg) (s s' : state), more_invalid c s s' ->
  forall f st jq jis k n,
  In (k, n) (out_src (snd (step c s' (Request f st jq jis)))) ->
  n = length (s_db s) \/
  (c_ion c = true /\ exists e, i_usable s k e /\ ie_snap e = n) \/
  (exists id e, q_usable c s id e /\ In (k, n) (qe_src e)).
Proof.
  intros c s s' [Hnow [Hdb [Hic [Hqc [Hmk Ht]]]]] f st jq jis k n Hin. simpl in Hin.
  unfold inval_time in Ht.
  destruct (determine c s') as [tinv trig] eqn:Det. simpl in Ht.
  destruct (if trig then spawn s' else (s', false)) as [s1 spawned].
  destruct (resolve c (s_now s') (length (s_db s')) (s_mk s') st jq jis tinv (s_ic s', s_qc s') f) as [st' out] eqn:R.
  cbn [fst snd out_src] in Hin.
  assert (Hst0 : st_ok c (s_now s') (length (s_db s')) jq (s_ic s) (s_qc s) (s_mk s) (fst (determine c s)) false (s_ic s', s_qc s')).
  { split; intros ? e He; left; [apply Hic | apply Hqc]; exact He. }
  destruct (resolve_ok c (s_now s') (length (s_db s')) (s_mk s') st jq jis (s_ic s) (s_qc s) (s_mk s) (fst (determine c s))
              Hmk f false tinv _ _ _ Hst0 (fun X => ltac:(discriminate X)) (or_introl Ht) R) as [_ Hp].
  destruct (Hp k n Hin) as [[->|[Ion [e [[G [L V]] ->]]]]|[Qon [id [e [G [L [T Hin']]]]]]].
  - left. congruence.
  - right. left. split; [exact Ion|]. exists e. split; [|reflexivity].
    unfold i_usable. rewrite <- Hnow. repeat split; assumption.
  - right. right. exists id, e. split; [|exact Hin'].
    unfold q_usable, inval_time. rewrite <- Hnow. repeat split; assumption.
Qed.

Lemma invalidation_correct_lemma :
  forall (c : cfg) (s s' : state), cache_consistent c s -> more_invalid c s s' ->
  forall f st jq jis k n,
  In (k, n) (out_src (snd (step c s' (Request f st jq jis)))) ->
  view (s_db s') k n = view (s_db s') k (length (s_db s')).
Proof.
  intros c s s' [Ci Cq] M f st jq jis k n Hin.
  assert (Hdb : s_db s' = s_db s) by (destruct M as [_ [X _]]; exact X).
  destruct (inv_monotone_safe_lemma c s s' M f st jq jis k n Hin) as [->|[[_ [e [U <-]]]|[id [e [U Hs]]]]]; rewrite Hdb.
  - reflexivity.
  - apply Ci; exact U.
  - apply (Cq id e U); exact Hs.
Qed.

Lemma more_invalid_refl c s : more_invalid c s s.
Proof.
  unfold more_invalid. split; [reflexivity|]. split; [reflexivity|].
  split; [intros; assumption|]. split; [intros; assumption|]. split; [|lia].
  intros m e He. exists e. split; [exact He | lia].
Qed.

Lemma more_invalid_set_run c s r : more_invalid c s (set_run s r).
Proof.
  unfold more_invalid, inval_time, determine, cl_live. simpl.
  split; [reflexivity|]. split; [reflexivity|].
  split; [intros; assumption|]. split; [intros; assumption|]. split; [|lia].
  intros m e He. exists e. split; [exact He | lia].
Qed.

Lemma controller_only_invalidates_step c s o :
  0 < c_qttl c -> Inv0 c s -> controller_op o = true -> more_invalid c s (fst (step c s o)).
Proof.
  intros Q I0 Ho. destruct o as [ws|keys st jq jis|k ws st j| | | |d]; try discriminate; simpl.
  - destruct (spawn_cases s) as [E|[_ [x [E _]]]]; rewrite E; simpl; [apply more_invalid_refl | apply more_invalid_set_run].
  - destruct (s_run s) as [[x|r]|]; simpl; try apply more_invalid_refl. apply more_invalid_set_run.
  - destruct (s_run s) as [[x|r]|] eqn:R; simpl; try apply more_invalid_refl.
    destruct (i0_run c s I0 r R) as [Hpage [rest Hdb]].
    pose proof (inv0_dom c s I0) as D.
    assert (Hsame : forall mk', mk_le (s_mk s) mk' -> forall cl', (fst (determine c s) <= fst (determine c (mkSt (s_now s) (s_db s) (s_ic s) (s_qc s) cl' mk' None (Nat.max (s_done s) (length (r_seen r)))))) ->
              more_invalid c s (mkSt (s_now s) (s_db s) (s_ic s) (s_qc s) cl' mk' None (Nat.max (s_done s) (length (r_seen r))))).
    { intros mk' Hle cl' Ht. unfold more_invalid. simpl.
      split; [reflexivity|]. split; [reflexivity|].
      split; [intros; assumption|]. split; [intros; assumption|]. split; [exact Hle | exact Ht]. }
    unfold finish. destruct (r_page r) as [|newest page'] eqn:Pg.
    + simpl. apply Hsame; [apply (proj1 (mk_le_aset c (s_now s) (s_mk s) MStore D))|].
      unfold determine, cl_live; simpl. lia.
    + assert (Ht : forall mk', fst (determine c s) <=
                fst (determine c (mkSt (s_now s) (s_db s) (s_ic s) (s_qc s)
                       (Some (mkCL (ch_ts newest) (s_now s) (s_now s + c_qttl c))) mk' None
                       (Nat.max (s_done s) (length (r_seen r)))))).
      { intro mk'. unfold determine, cl_live; simpl.
        assert (L : s_now s <? s_now s + c_qttl c = true) by (apply N.ltb_lt; lia). rewrite L. simpl.
        destruct (s_cl s) as [e|] eqn:Cl; simpl; [|lia]. destruct (s_now s <? cl_exp e); simpl; [|lia].
        destruct (i0_cl c s I0 e Cl) as [_ [_ [ch [_ [E Hin]]]]]. rewrite E.
        apply (seen_le_newest c s (r_seen r) rest newest page' (i0_sorted c s I0) Hdb); [rewrite <- Hpage; reflexivity|].
        apply Hin. exact R. }
      destruct (ch_ts newest <=? r_cached r); [simpl; apply Hsame; [apply mk_le_refl | apply Ht]|].
      destruct (Nat.eqb _ _).
      * simpl. apply Hsame; [apply (proj1 (mk_le_aset c (s_now s) (s_mk s) MStore D)) | apply Ht].
      * destruct (drop_old c (s_now s) (rev (newest :: page'))) as [|ch0 rec'] eqn:Drop.
        -- simpl. apply Hsame; [apply mk_le_refl | apply Ht].
        -- cbn [fst]. apply Hsame; [apply (proj1 (mk_le_set_markers c (s_now s) (ch0 :: rec') (s_mk s) D)) | apply Ht].
Qed.

(* ------------------------------------------------------------------------------------------ *)
(* fresh_atb decides fresh_at                                                                  *)

Lemma fresh_atb_spec db i a : fresh_atb db i a = true <-> fresh_at db i a.
Proof.
  unfold fresh_atb, fresh_at. destruct (nth_error db i) as [ch|]; split.
  - intros H ch0 E k n Hin Ht. injection E as <-. rewrite forallb_forall in H.
    specialize (H (k, n) Hin). simpl in H. rewrite Ht in H. simpl in H. apply Nat.ltb_lt. exact H.
  - intro H. apply forallb_forall. intros [k n] Hin. simpl.
    destruct (touches (ch_tup ch) k) eqn:Ht; simpl; [|reflexivity]. apply Nat.ltb_lt. apply (H ch eq_refl k n Hin Ht).
  - intros _ ch0 E; discriminate.
  - reflexivity.
Qed.

Lemma controller_only_invalidates_lemma :
  forall (c : cfg) (h : list op) (o : op), 0 < c_qttl c -> controller_op o = true ->
  let s := run_ops c h init_state in more_invalid c s (fst (step c s o)).
Proof.
  intros c h o Q Ho s. apply controller_only_invalidates_step; try assumption.
  apply inv0_run. apply inv0_init.
Qed.

Lemma invalidation_never_wrong_lemma :
  forall (c : cfg) (h : list op) (o : op), 0 < c_qttl c -> controller_op o = true ->
  let s := run_ops c h init_state in
  cache_consistent c s ->
  let s' := fst (step c s o) in
  forall f st jq jis k n,
  In (k, n) (out_src (snd (step c s' (Request f st jq jis)))) ->
  view (s_db s') k n = view (s_db s') k (length (s_db s')).
Proof.
  intros c h o Q Ho s Cons s' f st jq jis k n Hin.
  apply (invalidation_correct_lemma c s s' Cons) with (f := f) (st := st) (jq := jq) (jis := jis); [|exact Hin].
  apply controller_only_invalidates_lemma; assumption.
Qed.

(* ------------------------------------------------------------------------------------------ *)
(* Witnesses: what the faithful model does outside the hypotheses of staleness_bounded         *)

Definition w_k1 : ikey := KOR 1 1 1 1.
Definition w_k2 : ikey := KOR 1 1 2 1.
Definition w_t (u : N) : tup := mkTup u 1 1 1 false.
(* requests: [w_q1] reads k1, [w_q12] reads k1 and k2; [w_p1] and [w_p2] are two different parents
   of the same sub-problem 9, which reads k1 *)
Definition w_q1 : qforest := qleaf 1 [w_k1].
Definition w_q12 : qforest := qleaf 2 [w_k1; w_k2].
Definition w_p1 : qforest := QCons 11 [] (qleaf 9 [w_k1]) QNil.
Definition w_p2 : qforest := QCons 12 [] (qleaf 9 [w_k1]) QNil.

(* both caches on (docs/caching.md, "Stale Query Cache Entry via Stale Iterator Cache") *)
Definition w_cfg_both : cfg := mkCfg true true 300 300 100 1000000 50 0 1 true.
(* one cache, 100% jitter *)
Definition w_cfg_jit_i : cfg := mkCfg false true 300 300 100 1000000 50 100 1 true.
Definition w_cfg_jit_q : cfg := mkCfg true false 300 300 100 1000000 50 100 1 true.
(* one cache, no jitter, but a clock so coarse that a write gets the timestamp of the read before it *)
Definition w_cfg_coarse : cfg := mkCfg false true 300 300 100 1000000 50 0 0 true.
(* query cache only, everything as coded *)
Definition w_cfg_q : cfg := mkCfg true false 300 300 100 1000000 50 0 1 true.
(* query cache only, but dispatched sub-problems do not get LastCacheInvalidationTime *)
Definition w_cfg_nosub : cfg := mkCfg true false 300 300 100 1000000 50 0 1 false.

Definition w_hist (h1 : list op) (ws : list tup) (h2 h3 h4 : list op) : list op :=
  h1 ++ [Write ws] ++ h2 ++ [InvRead] ++ h3 ++ [InvFinish] ++ h4.

Definition refutes (c : cfg) (h1 : list op) (ws : list tup) (h2 h3 h4 : list op) (i : nat) (f : qforest) : Prop :=
  (exists x, s_run (run_ops c (h1 ++ [Write ws] ++ h2) init_state) = Some (RPending x)) /\
  no_finish h3 = true /\
  (i < length (s_db (run_ops c (h1 ++ [Write ws]) init_state)))%nat /\
  let s := run_ops c (w_hist h1 ws h2 h3 h4) init_state in
  ~ fresh_at (s_db s) i (out_src (snd (step c s (Request f true 0 [])))).

Ltac refute :=
  unfold refutes, w_hist; split; [eexists; vm_compute; reflexivity|];
  split; [vm_compute; reflexivity|]; split; [vm_compute; lia|];
  cbv zeta; let H := fresh "H" in (intro H; apply fresh_atb_spec in H; vm_compute in H; discriminate).

Lemma both_caches_refuted_lemma :
  exists c h1 ws h2 h3 h4 i f,
    c_qon c = true /\ c_ion c = true /\ c_jit c = 0 /\ cfg_rest c = true /\ c_subinv c = true /\
    hist_ok c (w_hist h1 ws h2 h3 h4) init_state = true /\ refutes c h1 ws h2 h3 h4 i f.
Proof.
  exists w_cfg_both, [Write [w_t 1]; Tick 1; Request w_q1 true 0 []; Tick 1], [w_t 2],
         [Tick 1; Request w_q12 true 0 []; Tick 1; InvStart], [], [Tick 1], 1%nat, w_q12.
  do 5 (split; [reflexivity|]). split; [vm_compute; reflexivity|]. refute.
Qed.

Lemma staleness_jitter_iter_refuted_lemma :
  exists c h1 ws h2 h3 h4 i f,
    c_qon c = false /\ c_ion c = true /\ c_jit c = 100 /\ cfg_rest c = true /\ c_subinv c = true /\
    hist_ok c (w_hist h1 ws h2 h3 h4) init_state = true /\ refutes c h1 ws h2 h3 h4 i f.
Proof.
  exists w_cfg_jit_i, [Write [w_t 1]; Tick 1; Request w_q1 true 0 [300]; Tick 1], [w_t 2],
         [Tick 310; InvStart], [], [Tick 1], 1%nat, w_q1.
  do 5 (split; [reflexivity|]). split; [vm_compute; reflexivity|]. refute.
Qed.

Lemma staleness_jitter_query_refuted_lemma :
  exists c h1 ws h2 h3 h4 i f,
    c_qon c = true /\ c_ion c = false /\ c_jit c = 100 /\ cfg_rest c = true /\ c_subinv c = true /\
    hist_ok c (w_hist h1 ws h2 h3 h4) init_state = true /\ refutes c h1 ws h2 h3 h4 i f.
Proof.
  exists w_cfg_jit_q, [Write [w_t 1]; Tick 1; Request w_q1 true 300 []; Tick 1], [w_t 2],
         [Tick 1; InvStart], [], [Tick 310], 1%nat, w_q1.
  do 5 (split; [reflexivity|]). split; [vm_compute; reflexivity|]. refute.
Qed.

Lemma staleness_coarse_clock_refuted_lemma :
  exists c h1 ws h2 h3 h4 i f,
    c_wtick c = 0 /\
    cfg_ok (mkCfg (c_qon c) (c_ion c) (c_qttl c) (c_ittl c) (c_interval c) (c_full c) (c_page c) (c_jit c) 1 (c_subinv c)) = true /\
    hist_ok c (w_hist h1 ws h2 h3 h4) init_state = true /\ refutes c h1 ws h2 h3 h4 i f.
Proof.
  exists w_cfg_coarse, [Tick 5; Write [w_t 1]; Request w_q1 true 0 []], [w_t 2], [], [], [Tick 1], 1%nat, w_q1.
  do 2 (split; [reflexivity|]). split; [vm_compute; reflexivity|]. refute.
Qed.

(* As coded, query cache only, no jitter: a request that dispatches a sub-problem between the write
   and the run re-stamps the stale content of the sub-problem's entry (hist_ok is the ONLY hypothesis
   of staleness_bounded that fails) *)
Lemma subproblem_restamp_refuted_lemma :
  exists c h1 ws h2 h3 h4 i f,
    cfg_ok c = true /\ hist_ok c (w_hist h1 ws h2 h3 h4) init_state = false /\ refutes c h1 ws h2 h3 h4 i f.
Proof.
  exists w_cfg_q, [Write [w_t 1]; Tick 1; InvStart; InvRead; InvFinish; Tick 1; Request w_p1 true 0 []; Tick 1], [w_t 2],
         [Tick 1; Request w_p2 true 0 []; Tick 1; InvStart], [], [Tick 1], 1%nat, w_p2.
  split; [reflexivity|]. split; [vm_compute; reflexivity|]. refute.
Qed.

(* If clone() did not hand LastCacheInvalidationTime to the dispatched sub-problems (c_subinv = false,
   everything else as in cfg_ok, history admissible): the parent is recomputed from the child's entry *)
Lemma subproblem_time_dropped_refuted_lemma :
  exists c h1 ws h2 h3 h4 i f,
    c_subinv c = false /\
    cfg_ok (mkCfg (c_qon c) (c_ion c) (c_qttl c) (c_ittl c) (c_interval c) (c_full c) (c_page c) (c_jit c) (c_wtick c) true) = true /\
    hist_ok c (w_hist h1 ws h2 h3 h4) init_state = true /\ refutes c h1 ws h2 h3 h4 i f.
Proof.
  exists w_cfg_nosub, [Write [w_t 1]; Tick 1; InvStart; InvRead; InvFinish; Tick 1; Request w_p1 true 0 []; Tick 1], [w_t 2],
         [Tick 1; InvStart], [], [Tick 1], 1%nat, w_p1.
  do 2 (split; [reflexivity|]). split; [vm_compute; reflexivity|]. refute.
Qed.

(* constants of the non-vacuity examples in Props/C11.v *)
Definition x_cfg_i : cfg := mkCfg false true 300 300 100 1000000 50 0 1 true.
Definition x_cfg_q : cfg := mkCfg true false 300 300 100 1000000 50 0 1 true.
Definition x_other (n : nat) : op := Write [mkTup (N.of_nat n) 1 9 1 false].
