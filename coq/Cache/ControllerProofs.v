(* Proofs about Cache/Controller.v (C11). *)
From Coq Require Import NArith List Bool Arith Lia Sorted.
From Coq Require Import ZifyBool ZifyN ZifyNat.
Import ListNotations.
From OFGA Require Import Cache.Controller.
Open Scope N_scope.

(* ------------------------------------------------------------------------------------------ *)
(* Key equality                                                                                *)

Lemma list_eqb_spec {A} (e : A -> A -> bool) :
  (forall a b, e a b = true <-> a = b) -> forall a b, list_eqb e a b = true <-> a = b.
Proof.
  intros He a; induction a as [|x a IH]; intros [|y b]; simpl; split; intro H;
    try reflexivity; try discriminate.
  - apply andb_true_iff in H as [H1 H2]. apply He in H1. apply IH in H2. congruence.
  - inversion H; subst. apply andb_true_iff. split; [apply He | apply IH]; reflexivity.
Qed.

Lemma ikey_eqb_spec a b : ikey_eqb a b = true <-> a = b.
Proof.
  destruct a as [o1 t1 i1 r1|u1 t1 r1], b as [o2 t2 i2 r2|u2 t2 r2]; simpl; split; intro H;
    try discriminate.
  - repeat (apply andb_true_iff in H as [H ?]). apply N.eqb_eq in H.
    repeat match goal with X : (_ =? _) = true |- _ => apply N.eqb_eq in X end. congruence.
  - inversion H; subst. rewrite !N.eqb_refl. reflexivity.
  - repeat (apply andb_true_iff in H as [H ?]). apply (list_eqb_spec N.eqb N.eqb_eq) in H.
    repeat match goal with X : (_ =? _) = true |- _ => apply N.eqb_eq in X end. congruence.
  - inversion H; subst. rewrite !N.eqb_refl.
    rewrite (proj2 (list_eqb_spec N.eqb N.eqb_eq u2 u2) eq_refl). reflexivity.
Qed.

Lemma mkey_eqb_spec a b : mkey_eqb a b = true <-> a = b.
Proof.
  destruct a, b; simpl; split; intro H; try discriminate; try reflexivity.
  - repeat (apply andb_true_iff in H as [H ?]). apply N.eqb_eq in H.
    repeat match goal with X : (_ =? _) = true |- _ => apply N.eqb_eq in X end. congruence.
  - inversion H; subst. rewrite !N.eqb_refl. reflexivity.
  - repeat (apply andb_true_iff in H as [H ?]). apply N.eqb_eq in H.
    repeat match goal with X : (_ =? _) = true |- _ => apply N.eqb_eq in X end. congruence.
  - inversion H; subst. rewrite !N.eqb_refl. reflexivity.
Qed.

Lemma qkey_eqb_spec a b : qkey_eqb a b = true <-> a = b.
Proof. apply list_eqb_spec. apply ikey_eqb_spec. Qed.

(* ------------------------------------------------------------------------------------------ *)
(* Association lists                                                                           *)

Section AssocLemmas.
  Context {K V : Type} (eqb : K -> K -> bool).
  Hypothesis eqb_spec : forall a b, eqb a b = true <-> a = b.

  Lemma eqb_refl_ a : eqb a a = true.
  Proof. apply eqb_spec. reflexivity. Qed.

  Lemma eqb_neq a b : a <> b -> eqb a b = false.
  Proof. intro H. destruct (eqb a b) eqn:E; [apply eqb_spec in E; contradiction | reflexivity]. Qed.

  Lemma aget_adel_same k (l : list (K * V)) : aget eqb k (adel eqb k l) = None.
  Proof.
    induction l as [|[k' v] l IH]; simpl; [reflexivity|].
    destruct (eqb k k') eqn:E; simpl; [exact IH | rewrite E; exact IH].
  Qed.

  Lemma aget_adel_other k k' (l : list (K * V)) : k <> k' -> aget eqb k (adel eqb k' l) = aget eqb k l.
  Proof.
    intro Hne. induction l as [|[k2 v] l IH]; simpl; [reflexivity|].
    destruct (eqb k' k2) eqn:E; simpl.
    - apply eqb_spec in E; subst k2. rewrite (eqb_neq k k' Hne). exact IH.
    - destruct (eqb k k2); [reflexivity | exact IH].
  Qed.

  Lemma aget_aset_same k v (l : list (K * V)) : aget eqb k (aset eqb k v l) = Some v.
  Proof. unfold aset; simpl. rewrite eqb_refl_. reflexivity. Qed.

  Lemma aget_aset_other k k' v (l : list (K * V)) : k <> k' -> aget eqb k (aset eqb k' v l) = aget eqb k l.
  Proof. intro Hne. unfold aset; simpl. rewrite (eqb_neq k k' Hne). apply aget_adel_other; exact Hne. Qed.

  Lemma aget_aset_cases k k' v (l : list (K * V)) e :
    aget eqb k (aset eqb k' v l) = Some e -> (k = k' /\ e = v) \/ (k <> k' /\ aget eqb k l = Some e).
  Proof.
    intro H. destruct (eqb k k') eqn:E.
    - apply eqb_spec in E; subst k'. rewrite aget_aset_same in H. left; split; congruence.
    - assert (Hne : k <> k') by (intro X; subst; rewrite eqb_refl_ in E; discriminate).
      rewrite aget_aset_other in H by exact Hne. right; split; assumption.
  Qed.

  Lemma aget_adel_some k k' (l : list (K * V)) e :
    aget eqb k (adel eqb k' l) = Some e -> k <> k' /\ aget eqb k l = Some e.
  Proof.
    intro H. destruct (eqb k k') eqn:E.
    - apply eqb_spec in E; subst k'. rewrite aget_adel_same in H. discriminate.
    - assert (Hne : k <> k') by (intro X; subst; rewrite eqb_refl_ in E; discriminate).
      rewrite aget_adel_other in H by exact Hne. split; assumption.
  Qed.
End AssocLemmas.

Definition iget := aget (V := ient) ikey_eqb.
Definition mget := aget (V := ment) mkey_eqb.
Definition qget := aget (V := qent) qkey_eqb.

(* ------------------------------------------------------------------------------------------ *)
(* The marker keys cover the specification of [touches]                                        *)

Lemma touch_covered t k :
  touches t k = true -> exists m, In m (markers_of_write t) /\ In m (markers_of_key k).
Proof.
  destruct k as [o ot oid r|us ot r]; simpl; intro H.
  - repeat (apply andb_true_iff in H as [H ?]). apply N.eqb_eq in H.
    repeat match goal with X : (_ =? _) = true |- _ => apply N.eqb_eq in X end. subst.
    exists (MOR (tu_otype t) (tu_oid t) (tu_rel t)). split; left; reflexivity.
  - repeat (apply andb_true_iff in H as [H ?]).
    repeat match goal with X : (_ =? _) = true |- _ => apply N.eqb_eq in X end. subst.
    apply existsb_exists in H as [u [Hu E]]. apply N.eqb_eq in E. subst u.
    exists (MUOT (tu_user t) (tu_otype t)). split; [right; left; reflexivity|].
    apply in_map_iff. exists (tu_user t). split; [reflexivity | exact Hu].
Qed.

(* ------------------------------------------------------------------------------------------ *)
(* List helpers                                                                                *)

Lemma nth_app_cases {A} (l1 l2 : list A) j c :
  nth_error (l1 ++ l2) j = Some c ->
  ((j < length l1)%nat /\ nth_error l1 j = Some c) \/ ((length l1 <= j)%nat /\ In c l2).
Proof.
  intro H. destruct (Nat.lt_ge_cases j (length l1)) as [Hlt|Hge].
  - left. split; [exact Hlt|]. rewrite nth_error_app1 in H by exact Hlt. exact H.
  - right. split; [exact Hge|]. rewrite nth_error_app2 in H by exact Hge. eapply nth_error_In; exact H.
Qed.

Lemma firstn_In_ {A} (l : list A) n x : In x (firstn n l) -> In x l.
Proof. intro H. rewrite <- (firstn_skipn n l). apply in_or_app. left; exact H. Qed.

Lemma skipn_In_ {A} (l : list A) n x : In x (skipn n l) -> In x l.
Proof. intro H. rewrite <- (firstn_skipn n l). apply in_or_app. right; exact H. Qed.

Lemma nth_skipn {A} (l : list A) d j : nth_error (skipn d l) j = nth_error l (d + j).
Proof.
  revert l; induction d as [|d IH]; intros l; simpl; [reflexivity|].
  destruct l as [|x l]; simpl; [destruct j; reflexivity | apply IH].
Qed.

Definition tsle (a b : change) : Prop := ch_ts a <= ch_ts b.

Lemma sorted_idx (db : list change) :
  StronglySorted tsle db ->
  forall j1 j2 c1 c2, (j1 <= j2)%nat -> nth_error db j1 = Some c1 -> nth_error db j2 = Some c2 ->
  ch_ts c1 <= ch_ts c2.
Proof.
  induction 1 as [|a l Hs IH Hall]; intros j1 j2 c1 c2 Hle H1 H2.
  - destruct j1; discriminate.
  - destruct j1 as [|j1], j2 as [|j2]; simpl in *.
    + injection H1 as <-. injection H2 as <-. lia.
    + injection H1 as <-. apply nth_error_In in H2.
      rewrite Forall_forall in Hall. apply Hall in H2. exact H2.
    + lia.
    + eapply IH; [|exact H1|exact H2]. lia.
Qed.

Lemma sorted_app_new (db : list change) (t : N) (ws : list tup) :
  StronglySorted tsle db -> (forall c, In c db -> ch_ts c <= t) ->
  StronglySorted tsle (db ++ map (mkCh t) ws).
Proof.
  induction 1 as [|a l Hs IH Hall]; intro Hle; simpl.
  - induction ws as [|w ws IHw]; simpl; constructor; [exact IHw|].
    apply Forall_forall. intros c Hc. apply in_map_iff in Hc as [x [<- _]]. unfold tsle; simpl. lia.
  - constructor.
    + apply IH. intros c Hc. apply Hle. right; exact Hc.
    + apply Forall_app. split; [exact Hall|].
      apply Forall_forall. intros c Hc. apply in_map_iff in Hc as [x [<- _]]. unfold tsle; simpl.
      apply Hle. left; reflexivity.
Qed.

(* ------------------------------------------------------------------------------------------ *)
(* Configuration facts                                                                         *)

Record cfg_facts (c : cfg) : Prop := {
  cf_single : c_qon c && c_ion c = false;
  cf_jit : c_jit c = 0;
  cf_wtick : 1 <= c_wtick c;
  cf_qttl : 0 < c_qttl c;
  cf_ittl : 0 < c_ittl c;
  cf_full : c_ittl c <= c_full c;
  cf_page : (1 <= c_page c)%nat
}.

Lemma cfg_ok_facts c : cfg_ok c = true -> cfg_facts c.
Proof.
  unfold cfg_ok. intro H.
  repeat (apply andb_true_iff in H as [H ?]).
  constructor.
  - apply negb_true_iff in H. exact H.
  - apply N.eqb_eq. assumption.
  - apply N.leb_le. assumption.
  - apply N.ltb_lt. assumption.
  - apply N.ltb_lt. assumption.
  - apply N.leb_le. assumption.
  - apply Nat.leb_le. assumption.
Qed.

Lemma jext_zero ttl j : jext ttl 0 j = 0.
Proof. unfold jext. simpl. rewrite N.mul_0_r. simpl. apply N.min_0_r. Qed.

(* ------------------------------------------------------------------------------------------ *)
(* Basic invariant: holds for EVERY configuration                                              *)

Definition mk_ttl (c : cfg) (m : mkey) : N := match m with MStore => c_full c | _ => c_ittl c end.

Record Inv0 (c : cfg) (s : state) : Prop := {
  i0_ts : forall ch, In ch (s_db s) -> ch_ts ch <= s_now s;
  i0_sorted : StronglySorted tsle (s_db s);
  i0_mk : forall m e, mget m (s_mk s) = Some e -> me_lm e <= s_now s /\ me_exp e = me_lm e + mk_ttl c m;
  i0_cl : forall e, s_cl s = Some e ->
          cl_checked e <= s_now s /\ cl_exp e = cl_checked e + c_qttl c /\
          exists ch, In ch (s_db s) /\ cl_lm e = ch_ts ch /\
                     (forall r, s_run s = Some (RRead r) -> In ch (r_seen r));
  i0_run : forall r, s_run s = Some (RRead r) ->
           r_page r = firstn (c_page c) (rev (r_seen r)) /\ exists rest, s_db s = r_seen r ++ rest
}.

Lemma inv0_init c : Inv0 c init_state.
Proof.
  constructor; simpl; intros; try contradiction; try discriminate. constructor.
Qed.

Lemma spawn_cases s :
  spawn s = (s, false) \/
  (s_run s = None /\ exists x, spawn s = (set_run s (Some (RPending x)), true) /\
     (x = 0 \/ exists e, s_cl s = Some e /\ x = cl_lm e)).
Proof.
  unfold spawn. destruct (s_run s) eqn:R; [left; reflexivity|]. right. split; [reflexivity|].
  eexists. split; [reflexivity|]. unfold cl_live. destruct (s_cl s) as [e|]; [|left; reflexivity].
  destruct (s_now s <? cl_exp e); [right; exists e; split; reflexivity | left; reflexivity].
Qed.

Lemma inv0_set_pending c s x : Inv0 c s -> s_run s = None -> Inv0 c (set_run s (Some (RPending x))).
Proof.
  intros [H1 H2 H3 H4 H5] R. constructor; simpl; try assumption.
  - intros e He. destruct (H4 e He) as [A [B [ch [C [D _]]]]]. repeat split; try assumption.
    exists ch. repeat split; try assumption. intros r X; discriminate.
  - intros r X; discriminate.
Qed.

Lemma mget_fold_markers c f ms mk m e :
  mget m (fold_left (fun acc m0 => aset mkey_eqb m0 (mkME f (f + c_ittl c)) acc) ms mk) = Some e ->
  (In m ms /\ e = mkME f (f + c_ittl c)) \/ (~ In m ms /\ mget m mk = Some e).
Proof.
  revert mk. induction ms as [|m0 ms IH]; intros mk H; simpl in *.
  - right. split; [tauto | exact H].
  - apply IH in H as [[Hin He]|[Hnin H]].
    + left. split; [right; exact Hin | exact He].
    + unfold mget in H. apply (aget_aset_cases mkey_eqb mkey_eqb_spec) in H as [[-> ->]|[Hne H]].
      * left. split; [left; reflexivity | reflexivity].
      * right. split; [|exact H]. intros [X|X]; [congruence | contradiction].
Qed.

Lemma mget_set_markers_list c f recent mk m e :
  mget m (fold_left (set_markers c f) recent mk) = Some e ->
  ((exists ch, In ch recent /\ In m (markers_of_write (ch_tup ch))) /\ e = mkME f (f + c_ittl c)) \/
  ((forall ch, In ch recent -> ~ In m (markers_of_write (ch_tup ch))) /\ mget m mk = Some e).
Proof.
  revert mk. induction recent as [|ch recent IH]; intros mk H; simpl in *.
  - right. split; [intros ? [] | exact H].
  - apply IH in H as [[[ch' [Hin Hm]] He]|[Hnone H]].
    + left. split; [exists ch'; split; [right; exact Hin | exact Hm] | exact He].
    + unfold set_markers in H. apply mget_fold_markers in H as [[Hin He]|[Hnin H]].
      * left. split; [exists ch; split; [left; reflexivity | exact Hin] | exact He].
      * right. split; [|exact H]. intros ch' [<-|Hc]; [exact Hnin | apply Hnone; exact Hc].
Qed.

(* markers only grow: every marker of the old state is still there, not older, not shorter-lived *)
Definition mk_le (mk mk' : list (mkey * ment)) : Prop :=
  forall m e, mget m mk = Some e ->
  exists e', mget m mk' = Some e' /\ me_lm e <= me_lm e' /\ me_exp e <= me_exp e'.

Lemma mk_le_refl mk : mk_le mk mk.
Proof. intros m e H. exists e. split; [exact H | lia]. Qed.

Lemma mget_fold_keep c f ms mk m :
  mget m mk = Some (mkME f (f + c_ittl c)) ->
  mget m (fold_left (fun acc m0 => aset mkey_eqb m0 (mkME f (f + c_ittl c)) acc) ms mk)
  = Some (mkME f (f + c_ittl c)).
Proof.
  revert mk. induction ms as [|m0 ms IH]; intros mk H; simpl; [exact H|].
  apply IH. unfold mget. destruct (mkey_eqb m m0) eqn:E.
  - apply mkey_eqb_spec in E; subst m0. apply (aget_aset_same mkey_eqb mkey_eqb_spec).
  - rewrite (aget_aset_other mkey_eqb mkey_eqb_spec); [exact H|].
    intro X; subst. rewrite (proj2 (mkey_eqb_spec m0 m0) eq_refl) in E. discriminate.
Qed.

Lemma mget_in_fold_markers c f ms mk m :
  In m ms -> mget m (fold_left (fun acc m0 => aset mkey_eqb m0 (mkME f (f + c_ittl c)) acc) ms mk)
             = Some (mkME f (f + c_ittl c)).
Proof.
  revert mk. induction ms as [|m0 ms IH]; intros mk Hin; simpl in *; [contradiction|].
  destruct (mkey_eqb m m0) eqn:E.
  - apply mkey_eqb_spec in E; subst m0. apply mget_fold_keep.
    apply (aget_aset_same mkey_eqb mkey_eqb_spec).
  - destruct Hin as [->|Hin].
    + rewrite (proj2 (mkey_eqb_spec m m) eq_refl) in E. discriminate.
    + apply IH; exact Hin.
Qed.

Lemma mget_set_markers_keep c f recent mk m :
  mget m mk = Some (mkME f (f + c_ittl c)) ->
  mget m (fold_left (set_markers c f) recent mk) = Some (mkME f (f + c_ittl c)).
Proof.
  revert mk. induction recent as [|ch recent IH]; intros mk H; simpl; [exact H|].
  apply IH. unfold set_markers. apply mget_fold_keep. exact H.
Qed.

Lemma mget_in_set_markers c f recent mk m ch :
  In ch recent -> In m (markers_of_write (ch_tup ch)) ->
  mget m (fold_left (set_markers c f) recent mk) = Some (mkME f (f + c_ittl c)).
Proof.
  revert mk. induction recent as [|ch0 recent IH]; intros mk Hin Hm; simpl in *; [contradiction|].
  destruct Hin as [->|Hin].
  - apply mget_set_markers_keep. unfold set_markers. apply mget_in_fold_markers. exact Hm.
  - apply IH; assumption.
Qed.

Lemma inv0_caches c s ic qc d :
  Inv0 c s -> Inv0 c (mkSt (s_now s) (s_db s) ic qc (s_cl s) (s_mk s) (s_run s) d).
Proof. intros [H1 H2 H3 H4 H5]. constructor; simpl; assumption. Qed.

Lemma inv0_spawn c s : Inv0 c s -> Inv0 c (fst (spawn s)).
Proof.
  intro H. destruct (spawn_cases s) as [E|[R [x [E _]]]]; rewrite E; simpl; [exact H|].
  apply inv0_set_pending; assumption.
Qed.

Lemma spawn_same s :
  s_now (fst (spawn s)) = s_now s /\ s_db (fst (spawn s)) = s_db s /\ s_ic (fst (spawn s)) = s_ic s /\
  s_qc (fst (spawn s)) = s_qc s /\ s_cl (fst (spawn s)) = s_cl s /\ s_mk (fst (spawn s)) = s_mk s /\
  s_done (fst (spawn s)) = s_done s.
Proof. unfold spawn. destruct (s_run s); simpl; repeat split; reflexivity. Qed.

Lemma page_in_seen c (r : run) ch :
  r_page r = firstn (c_page c) (rev (r_seen r)) -> In ch (r_page r) -> In ch (r_seen r).
Proof.
  intros Hp Hin. rewrite Hp in Hin. apply firstn_In_ in Hin. apply in_rev in Hin. exact Hin.
Qed.

Lemma markers_of_write_ttl c t m : In m (markers_of_write t) -> mk_ttl c m = c_ittl c.
Proof. unfold markers_of_write. intros [<-|[<-|[]]]; reflexivity. Qed.

Lemma inv0_finish c s r : Inv0 c s -> s_run s = Some (RRead r) -> Inv0 c (fst (finish c s r)).
Proof.
  intros [H1 H2 H3 H4 H5] R. destruct (H5 r R) as [Hpage [rest Hdb]].
  assert (Hmk_store : forall m e, mget m (aset mkey_eqb MStore (mkME (s_now s) (s_now s + c_full c)) (s_mk s)) = Some e ->
            me_lm e <= s_now s /\ me_exp e = me_lm e + mk_ttl c m).
  { intros m e He. unfold mget in He.
    apply (aget_aset_cases mkey_eqb mkey_eqb_spec) in He as [[-> ->]|[_ He]]; simpl.
    - split; [lia | reflexivity].
    - apply H3; exact He. }
  assert (Hcl_old : forall e, s_cl s = Some e ->
            cl_checked e <= s_now s /\ cl_exp e = cl_checked e + c_qttl c /\
            exists ch, In ch (s_db s) /\ cl_lm e = ch_ts ch /\
                       (forall r0, @None runphase = Some (RRead r0) -> In ch (r_seen r0))).
  { intros e He. destruct (H4 e He) as [A [B [ch [C [D _]]]]]. repeat split; try assumption.
    exists ch. repeat split; try assumption. intros r0 X; discriminate. }
  unfold finish. destruct (r_page r) as [|newest page'] eqn:P.
  - constructor; simpl; try assumption. intros r0 X; discriminate.
  - assert (Hnew : In newest (s_db s)).
    { rewrite Hdb. apply in_or_app. left. apply (page_in_seen c r); [rewrite P; exact Hpage|]. rewrite P. left; reflexivity. }
    assert (Hcl_new : forall e, Some (mkCL (ch_ts newest) (s_now s) (s_now s + c_qttl c)) = Some e ->
              cl_checked e <= s_now s /\ cl_exp e = cl_checked e + c_qttl c /\
              exists ch, In ch (s_db s) /\ cl_lm e = ch_ts ch /\
                         (forall r0, @None runphase = Some (RRead r0) -> In ch (r_seen r0))).
    { intros e He. injection He as <-. simpl. repeat split; try lia.
      exists newest. repeat split; try assumption. intros r0 X; discriminate. }
    destruct (ch_ts newest <=? r_cached r).
    + constructor; simpl; try assumption. intros r0 X; discriminate.
    + destruct (Nat.eqb _ _).
      * constructor; simpl; try assumption. intros r0 X; discriminate.
      * destruct (drop_old c (s_now s) (rev (newest :: page'))) as [|ch0 rec'] eqn:D.
        -- constructor; simpl; try assumption. intros r0 X; discriminate.
        -- constructor; simpl; try assumption; [|intros r0 X; discriminate].
           intros m e He. apply mget_set_markers_list in He as [[[ch [_ Hm]] ->]|[_ He]]; simpl.
           ++ split; [lia|]. rewrite (markers_of_write_ttl c _ _ Hm). reflexivity.
           ++ apply H3; exact He.
Qed.

Lemma inv0_step c s o : Inv0 c s -> Inv0 c (fst (step c s o)).
Proof.
  intro H. destruct o as [ws|keys st jq jis| | | |d]; simpl.
  - (* Write *)
    destruct H as [H1 H2 H3 H4 H5]. constructor; simpl.
    + intros ch Hin. apply in_app_or in Hin as [Hin|Hin].
      * apply H1 in Hin. lia.
      * apply in_map_iff in Hin as [x [<- _]]. simpl. lia.
    + apply sorted_app_new; [exact H2|]. intros ch Hin. apply H1 in Hin. lia.
    + intros m e He. destruct (H3 m e He) as [A B]. split; [lia | exact B].
    + intros e He. destruct (H4 e He) as [A [B [ch [C [D E]]]]]. repeat split; try lia; try assumption.
      exists ch. repeat split; try assumption. apply in_or_app; left; exact C.
    + intros r R. destruct (H5 r R) as [A [rest B]]. split; [exact A|].
      exists (rest ++ map (mkCh (s_now s + c_wtick c)) ws). rewrite B. rewrite app_assoc. reflexivity.
  - (* Request *)
    destruct (determine c s) as [tinv trig].
    assert (Hs1 : Inv0 c (fst (if trig then spawn s else (s, false)))).
    { destruct trig; [apply inv0_spawn; exact H | exact H]. }
    assert (Hsame : forall s1, s1 = fst (if trig then spawn s else (s, false)) ->
              s_now s1 = s_now s /\ s_db s1 = s_db s /\ s_cl s1 = s_cl s /\ s_mk s1 = s_mk s).
    { intros s1 ->. destruct trig; [|repeat split; reflexivity].
      destruct (spawn_same s) as [A [B [_ [_ [C [D _]]]]]]. repeat split; assumption. }
    destruct (if trig then spawn s else (s, false)) as [s1 spawned] eqn:E1. simpl in Hs1.
    destruct (Hsame s1 eq_refl) as [A [B [C D]]].
    match goal with |- context [match ?h with Some _ => _ | None => _ end] => destruct h as [e|] end.
    + simpl. exact Hs1.
    + destruct (iter_reads c (s_now s) (length (s_db s)) (s_mk s) st jis (s_ic s) keys) as [ic' res]. simpl.
      rewrite <- A, <- B, <- C, <- D. apply inv0_caches. exact Hs1.
  - (* InvStart *)
    destruct (spawn s) as [s1 b] eqn:E. simpl. change s1 with (fst (s1, b)). rewrite <- E. apply inv0_spawn; exact H.
  - (* InvRead *)
    destruct (s_run s) as [[x|r]|] eqn:R; simpl; try exact H.
    destruct H as [H1 H2 H3 H4 H5]. constructor; simpl; try assumption.
    + intros e He. destruct (H4 e He) as [A [B [ch [C [D _]]]]]. repeat split; try assumption.
      exists ch. repeat split; try assumption. intros r X. injection X as <-. simpl. exact C.
    + intros r X. injection X as <-. simpl. split; [reflexivity|]. exists []. rewrite app_nil_r. reflexivity.
  - (* InvFinish *)
    destruct (s_run s) as [[x|r]|] eqn:R; simpl; try exact H.
    destruct (finish c s r) as [s1 d] eqn:E. simpl. change s1 with (fst (s1, d)). rewrite <- E.
    apply inv0_finish; assumption.
  - (* Tick *)
    destruct H as [H1 H2 H3 H4 H5]. constructor; simpl; try assumption.
    + intros ch Hin. apply H1 in Hin. lia.
    + intros m e He. destruct (H3 m e He) as [A B]. split; [lia | exact B].
    + intros e He. destruct (H4 e He) as [A [B C]]. repeat split; try lia; assumption.
Qed.
