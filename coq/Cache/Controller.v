(* Executable model of the CACHE CONTROLLER and of the two caches it invalidates (C11):

     internal/cachecontroller/cache_controller.go      InMemoryCacheController
         DetermineInvalidationTime, InvalidateIfNeeded (single in-flight run per store),
         findChangesAndInvalidateIfNecessary (newest changelog page, none / full / partial)
     pkg/storage/storagewrappers/cached_datastore.go   isInvalidAt, findInCache, newCachedIterator, flush
     internal/graph/cached_resolver.go                 validity of a query-cache entry versus
                                                       LastCacheInvalidationTime
     pkg/storage/cache.go                              ChangelogCacheEntry, InvalidEntityCacheEntry,
                                                       the three invalidation keys, JitteredTTL

   Definitions only; the proofs are in ControllerProofs.v.

   TIME is a logical clock [s_now : N] (think: nanoseconds).  Every entry of the shared LRU cache
   carries its absolute expiry; theine's Get returns an entry iff [now < expiry].  (TTL 0 means
   "never expires" in theine; that corner is NOT modelled, [cfg_ok] asks for positive TTLs.  LRU
   eviction by capacity is not modelled either: the theorems are about a cache that is not full.)

   THE STORE is its changelog [s_db] (oldest first; one [change] per written or deleted tuple; all
   changes of one Write call carry the same timestamp, as in memory.Write / the SQL stores).  What a
   datastore read returns is a function of the changes that TOUCH the read ([touches]); a cached
   read remembers how many changelog entries existed when it was taken ([ie_snap]), which is the
   provenance the theorems talk about.

   A REQUEST is a forest of SUB-PROBLEMS ([qforest]: first child / next sibling).  A sub-problem has
   an identity (its query-cache key: object, relation, user), performs its own datastore reads one
   after the other and dispatches its children through the resolver chain, i.e. through the query
   cache again (LocalChecker -> CachedCheckResolver).  With the query cache on, every sub-problem's
   answer is cached under its identity, stamped when the sub-problem returns.  The top-level request
   carries LastCacheInvalidationTime; ResolveCheckRequest.clone() hands it to every dispatched child
   ([c_subinv] = true, as coded).  An answer is its provenance: for every read the changelog length
   its data was read at.  A request is atomic (no write between its datastore reads and the moment
   its cache entries are stamped).

   AN INVALIDATION RUN has three moments, which other operations may separate arbitrarily:
     [InvStart]  InvalidateIfNeeded: LoadOrStore on the in-flight map; the goroutine starts and reads
                 the cached ChangelogCacheEntry (lastChangeTimeCached);
     [InvRead]   the goroutine's ReadChanges (descending, page size [c_page] = 50) returns;
     [InvFinish] everything after it, all at one instant f: Set(changelog entry), the comparison with
                 lastChangeTimeCached, the window [f - iteratorTTL, f], full / partial / no markers.
   A Request also performs DetermineInvalidationTime, which may do what [InvStart] does. *)
From Coq Require Import NArith List Bool.
Import ListNotations.
Open Scope N_scope.

(* ------------------------------------------------------------------------------------------ *)
(* Vocabulary (strings are abstracted to identifiers)                                          *)

(* one tuple change: user string, object type, object id, relation; [tu_del] (write or delete) is
   ignored by the controller and only used by the oracle to compute the content of a read *)
Record tup := mkTup { tu_user : N; tu_otype : N; tu_oid : N; tu_rel : N; tu_del : bool }.
Record change := mkCh { ch_ts : N; ch_tup : tup }.

(* iterator-cache keys: [KOR op ..] = Read (op 0) / ReadUsersetTuples (op 1) -- scans by
   object+relation; [KUOT users ..] = ReadStartingWithUser -- scans by user(s)+object type+relation *)
Inductive ikey :=
| KOR (op otype oid rel : N)
| KUOT (users : list N) (otype rel : N).

(* invalidation-marker keys of pkg/storage/cache.go: InvalidIteratorCacheKey,
   InvalidIteratorByObjectRelationCacheKey, InvalidIteratorByUserObjectTypeCacheKey *)
Inductive mkey :=
| MStore
| MOR (otype oid rel : N)
| MUOT (user otype : N).

Fixpoint list_eqb {A : Type} (e : A -> A -> bool) (a b : list A) : bool :=
  match a, b with
  | [], [] => true
  | x :: a', y :: b' => e x y && list_eqb e a' b'
  | _, _ => false
  end.

Definition ikey_eqb (a b : ikey) : bool :=
  match a, b with
  | KOR o1 t1 i1 r1, KOR o2 t2 i2 r2 => (o1 =? o2) && (t1 =? t2) && (i1 =? i2) && (r1 =? r2)
  | KUOT u1 t1 r1, KUOT u2 t2 r2 => list_eqb N.eqb u1 u2 && (t1 =? t2) && (r1 =? r2)
  | _, _ => false
  end.

Definition mkey_eqb (a b : mkey) : bool :=
  match a, b with
  | MStore, MStore => true
  | MOR t1 i1 r1, MOR t2 i2 r2 => (t1 =? t2) && (i1 =? i2) && (r1 =? r2)
  | MUOT u1 t1, MUOT u2 t2 => (u1 =? u2) && (t1 =? t2)
  | _, _ => false
  end.

(* SPECIFICATION of the datastore: which changes alter the result of which read *)
Definition touches (t : tup) (k : ikey) : bool :=
  match k with
  | KOR _ ot oid r => (tu_otype t =? ot) && (tu_oid t =? oid) && (tu_rel t =? r)
  | KUOT us ot r => existsb (N.eqb (tu_user t)) us && (tu_otype t =? ot) && (tu_rel t =? r)
  end.

(* the two markers the controller writes per change (partial invalidation) ... *)
Definition markers_of_write (t : tup) : list mkey :=
  [MOR (tu_otype t) (tu_oid t) (tu_rel t); MUOT (tu_user t) (tu_otype t)].

(* ... and the entity markers a cached read consults (newCachedIteratorByObjectRelation /
   newCachedIteratorByUserObjectType); the store-wide marker is consulted by every read *)
Definition markers_of_key (k : ikey) : list mkey :=
  match k with
  | KOR _ ot oid r => [MOR ot oid r]
  | KUOT us ot _ => map (fun u => MUOT u ot) us
  end.

(* ------------------------------------------------------------------------------------------ *)
(* Association lists (the LRU cache, one list per entry type)                                  *)

Section Assoc.
  Context {K V : Type} (eqb : K -> K -> bool).
  Fixpoint aget (k : K) (l : list (K * V)) : option V :=
    match l with
    | [] => None
    | (k', v) :: r => if eqb k k' then Some v else aget k r
    end.
  Definition adel (k : K) (l : list (K * V)) : list (K * V) :=
    filter (fun p => negb (eqb k (fst p))) l.
  Definition aset (k : K) (v : V) (l : list (K * V)) : list (K * V) := (k, v) :: adel k l.
End Assoc.

(* ------------------------------------------------------------------------------------------ *)
(* Configuration and state                                                                     *)

Record cfg := mkCfg {
  c_qon : bool;        (* Check query cache enabled *)
  c_ion : bool;        (* iterator cache enabled *)
  c_qttl : N;          (* queryCacheTTL *)
  c_ittl : N;          (* iteratorCacheTTL *)
  c_interval : N;      (* minInvalidationInterval (cache controller TTL) *)
  c_full : N;          (* TTL of the store-wide marker: math.MaxInt truncated to one year by Set *)
  c_page : nat;        (* storage.DefaultPageSize = 50 *)
  c_jit : N;           (* cacheTTLJitterPercentage, 0..100 *)
  c_wtick : N;         (* clock units a write takes before it is stamped (1 = strictly monotone clock) *)
  c_subinv : bool      (* clone() copies LastCacheInvalidationTime to dispatched sub-problems (true as coded) *)
}.

Record ient := mkIE { ie_lm : N; ie_exp : N; ie_snap : nat }.      (* TupleIteratorCacheEntry *)
Definition src := list (ikey * nat).
Record qent := mkQE { qe_lm : N; qe_exp : N; qe_src : src }.       (* CheckResponseCacheEntry *)
Record clent := mkCL { cl_lm : N; cl_checked : N; cl_exp : N }.    (* ChangelogCacheEntry *)
Record ment := mkME { me_lm : N; me_exp : N }.                     (* InvalidEntityCacheEntry *)

(* [r_seen] is ghost: the changelog as it was when the run read it *)
Record run := mkRun { r_cached : N; r_page : list change; r_seen : list change }.
Inductive runphase := RPending (cached : N) | RRead (r : run).

Record state := mkSt {
  s_now : N;
  s_db : list change;
  s_ic : list (ikey * ient);
  s_qc : list (N * qent);          (* query cache, keyed by the identity of the sub-problem *)
  s_cl : option clent;
  s_mk : list (mkey * ment);
  s_run : option runphase;     (* inflightInvalidations[store] *)
  s_done : nat                 (* ghost: longest changelog a COMPLETED run had read *)
}.

Definition init_state : state := mkSt 0 [] [] [] None [] None 0%nat.

(* sub-problems: identity, own reads, children (dispatched), next sibling *)
Inductive qforest :=
| QNil
| QCons (id : N) (keys : list ikey) (children siblings : qforest).

Definition qleaf (id : N) (keys : list ikey) : qforest := QCons id keys QNil QNil.

(* no sub-problem dispatches another one *)
Fixpoint forest_flat (f : qforest) : bool :=
  match f with
  | QNil => true
  | QCons _ _ ch sib => (match ch with QNil => true | _ => false end) && forest_flat sib
  end.

Inductive op :=
| Write (ws : list tup)
| Request (f : qforest) (store : bool) (jq : N) (jis : list N)
  (* store: whether the iterators were drained so that their results are flushed to the cache;
     jq / jis: the random jitter draws for the query entry / for the iterator entry of each key *)
| RaceRead (k : ikey) (ws : list tup) (store : bool) (j : N)
  (* a bare cached datastore read (no query cache) that RACES with a write: the datastore selects the
     rows, the write ws commits, and only then the iterator is handed back (cachedIterator.initializedAt
     = time.Now() after the query returned) and flushed: an entry with pre-write rows and a
     LastModified that is not before the write *)
| InvStart
| InvRead
| InvFinish
| Tick (d : N).

Inductive decision :=
| DNoRun             (* no run at that stage *)
| DError             (* ReadChanges failed (empty changelog): store-wide marker, nothing else *)
| DNoNew             (* newest change not after lastChangeTimeCached: "none" *)
| DNoneInWindow      (* nothing on the page is younger than the iterator TTL: "none" *)
| DFull              (* oldest change on the page inside the window: store-wide marker *)
| DPartial (ms : list mkey).

Inductive out :=
| OUnit
| OAns (answer : src) (qhits : list bool) (ihits : list bool) (trigger spawned : bool)
  (* qhits: query-cache hit or miss of every sub-problem that was looked up, in order;
     ihits: iterator-cache hit or miss of every read that was performed, in order *)
| OStart (spawned : bool)
| ORead (did : bool)
| OFin (d : decision).

(* ------------------------------------------------------------------------------------------ *)
(* JitteredTTL: ttl + draw, the draw bounded by ttl * min(pct,100) / 100                       *)

Definition jext (ttl pct j : N) : N := N.min j (ttl * N.min pct 100 / 100).

(* ------------------------------------------------------------------------------------------ *)
(* DetermineInvalidationTime / InvalidateIfNeeded                                              *)

Definition cl_live (s : state) : option clent :=
  match s_cl s with
  | Some c => if s_now s <? cl_exp c then Some c else None
  | None => None
  end.

(* (LastCacheInvalidationTime, whether InvalidateIfNeeded is called) *)
Definition determine (c : cfg) (s : state) : N * bool :=
  match cl_live s with
  | None => (0, true)
  | Some e => (cl_lm e, cl_checked e + c_interval c <? s_now s)   (* time.Since(LastChecked) > interval *)
  end.

Definition set_run (s : state) (r : option runphase) : state :=
  mkSt (s_now s) (s_db s) (s_ic s) (s_qc s) (s_cl s) (s_mk s) r (s_done s).

Definition spawn (s : state) : state * bool :=
  match s_run s with
  | Some _ => (s, false)
  | None =>
    let cached := match cl_live s with Some e => cl_lm e | None => 0 end in
    (set_run s (Some (RPending cached)), true)
  end.

(* ------------------------------------------------------------------------------------------ *)
(* Iterator cache: isInvalidAt / findInCache / flush                                           *)

Definition invalid_at (mk : list (mkey * ment)) (now ts : N) (k : ikey) : bool :=
  existsb (fun m => match aget mkey_eqb m mk with
                    | Some e => (now <? me_exp e) && (ts <? me_lm e)       (* ts.Before(LastModified) *)
                    | None => false
                    end)
          (MStore :: markers_of_key k).

(* one cached datastore read at instant [now] with the changelog at length [n] *)
Definition iter_read (c : cfg) (now : N) (n : nat) (mk : list (mkey * ment)) (store : bool) (j : N)
           (ic : list (ikey * ient)) (k : ikey) : list (ikey * ient) * (nat * bool) :=
  if negb (c_ion c) then (ic, (n, false)) else
  let miss (ic0 : list (ikey * ient)) :=
    if store && negb (invalid_at mk now now k)
    then (aset ikey_eqb k (mkIE now (now + c_ittl c + jext (c_ittl c) (c_jit c) j) n) ic0, (n, false))
    else (ic0, (n, false)) in
  match aget ikey_eqb k ic with
  | Some e =>
    if now <? ie_exp e then
      if invalid_at mk now (ie_lm e) k then miss (adel ikey_eqb k ic)   (* findInCache deletes it *)
      else (ic, (ie_snap e, true))
    else miss ic
  | None => miss ic
  end.

Fixpoint iter_reads (c : cfg) (now : N) (n : nat) (mk : list (mkey * ment)) (store : bool) (jis : list N)
         (ic : list (ikey * ient)) (keys : list ikey) : list (ikey * ient) * list (ikey * nat * bool) :=
  match keys with
  | [] => (ic, [])
  | k :: ks =>
    let '(ic1, (n1, h1)) := iter_read c now n mk store (hd 0 jis) ic k in
    let '(ic2, rest) := iter_reads c now n mk store (tl jis) ic1 ks in
    (ic2, (k, n1, h1) :: rest)
  end.

Definition res_src (res : list (ikey * nat * bool)) : src := map (fun x => (fst (fst x), snd (fst x))) res.
Definition res_hits (res : list (ikey * nat * bool)) : list bool := map snd res.

(* ------------------------------------------------------------------------------------------ *)
(* CachedCheckResolver.ResolveCheck over a forest of sub-problems                              *)

Definition qlookup (c : cfg) (now tinv : N) (qc : list (N * qent)) (id : N) : option qent :=
  if c_qon c then
    match aget N.eqb id qc with
    | Some e => if (now <? qe_exp e) && (tinv <? qe_lm e) then Some e else None   (* LastModified.After(T) *)
    | None => None
    end
  else None.

Definition rstate := (list (ikey * ient) * list (N * qent))%type.
Definition rout := (src * list bool * list bool)%type.

Fixpoint resolve (c : cfg) (now : N) (n : nat) (mk : list (mkey * ment)) (store : bool) (jq : N) (jis : list N)
         (tinv : N) (st : rstate) (f : qforest) : rstate * rout :=
  match f with
  | QNil => (st, ([], [], []))
  | QCons id keys ch sib =>
    let r1 :=
      match qlookup c now tinv (snd st) id with
      | Some e => (st, (qe_src e, [true], []))
      | None =>
        let rd := iter_reads c now n mk store jis (fst st) keys in
        (* the children are dispatched with the clone of the request *)
        let rc := resolve c now n mk store jq jis (if c_subinv c then tinv else 0) (fst rd, snd st) ch in
        let a := res_src (snd rd) ++ fst (fst (snd rc)) in
        let qc3 :=
          if c_qon c
          then aset N.eqb id (mkQE now (now + c_qttl c + jext (c_qttl c) (c_jit c) jq) a) (snd (fst rc))
          else snd (fst rc) in
        ((fst (fst rc), qc3), (a, false :: snd (fst (snd rc)), res_hits (snd rd) ++ snd (snd rc)))
      end in
    let r2 := resolve c now n mk store jq jis tinv (fst r1) sib in
    (fst r2, (fst (fst (snd r1)) ++ fst (fst (snd r2)),
              snd (fst (snd r1)) ++ snd (fst (snd r2)),
              snd (snd r1) ++ snd (snd r2)))
  end.

(* ------------------------------------------------------------------------------------------ *)
(* The run's decision (findChangesAndInvalidateIfNecessary after ReadChanges returned)         *)

(* changes[idx].Timestamp.After(now - iteratorTTL) *)
Definition inwin (c : cfg) (f : N) (ch : change) : bool := f <? ch_ts ch + c_ittl c.

(* the loop "for ; idx >= 0; idx--" from the oldest change: skip what is outside the window *)
Fixpoint drop_old (c : cfg) (f : N) (l : list change) : list change :=
  match l with
  | [] => []
  | ch :: r => if inwin c f ch then l else drop_old c f r
  end.

Definition set_markers (c : cfg) (f : N) (mk : list (mkey * ment)) (ch : change) : list (mkey * ment) :=
  fold_left (fun acc m => aset mkey_eqb m (mkME f (f + c_ittl c)) acc) (markers_of_write (ch_tup ch)) mk.

Definition finish (c : cfg) (s : state) (r : run) : state * decision :=
  let f := s_now s in
  let done := Nat.max (s_done s) (length (r_seen r)) in
  match r_page r with
  | [] =>
    (mkSt f (s_db s) (s_ic s) (s_qc s) (s_cl s)
          (aset mkey_eqb MStore (mkME f (f + c_full c)) (s_mk s)) None done, DError)
  | newest :: _ =>
    let cl' := Some (mkCL (ch_ts newest) f (f + c_qttl c)) in
    if ch_ts newest <=? r_cached r then
      (mkSt f (s_db s) (s_ic s) (s_qc s) cl' (s_mk s) None done, DNoNew)
    else
      let oldest_first := rev (r_page r) in
      let recent := drop_old c f oldest_first in
      if Nat.eqb (length recent) (length oldest_first) then
        (mkSt f (s_db s) (s_ic s) (s_qc s) cl'
              (aset mkey_eqb MStore (mkME f (f + c_full c)) (s_mk s)) None done, DFull)
      else
        match recent with
        | [] => (mkSt f (s_db s) (s_ic s) (s_qc s) cl' (s_mk s) None done, DNoneInWindow)
        | _ =>
          (mkSt f (s_db s) (s_ic s) (s_qc s) cl' (fold_left (set_markers c f) recent (s_mk s)) None done,
           DPartial (flat_map (fun ch => markers_of_write (ch_tup ch)) recent))
        end
  end.

(* ------------------------------------------------------------------------------------------ *)
(* One operation                                                                               *)

Definition step (c : cfg) (s : state) (o : op) : state * out :=
  match o with
  | Tick d =>
    (mkSt (s_now s + d) (s_db s) (s_ic s) (s_qc s) (s_cl s) (s_mk s) (s_run s) (s_done s), OUnit)
  | Write ws =>
    let t := s_now s + c_wtick c in
    (mkSt t (s_db s ++ map (mkCh t) ws) (s_ic s) (s_qc s) (s_cl s) (s_mk s) (s_run s) (s_done s), OUnit)
  | RaceRead k ws store j =>
    let now := s_now s in
    let n0 := length (s_db s) in
    let t := now + c_wtick c in
    let db' := s_db s ++ map (mkCh t) ws in
    let usable :=
      if c_ion c then
        match aget ikey_eqb k (s_ic s) with
        | Some e => if (now <? ie_exp e) && negb (invalid_at (s_mk s) now (ie_lm e) k) then Some e else None
        | None => None
        end
      else None in
    match usable with
    | Some e =>   (* served from the cache; the write commits afterwards *)
      (mkSt (t + c_wtick c) db' (s_ic s) (s_qc s) (s_cl s) (s_mk s) (s_run s) (s_done s),
       OAns [(k, ie_snap e)] [] [true] false false)
    | None =>
      let ic' :=
        if c_ion c then
          if store && negb (invalid_at (s_mk s) t t k)
          then aset ikey_eqb k (mkIE t (t + c_ittl c + jext (c_ittl c) (c_jit c) j) n0) (s_ic s)
          else adel ikey_eqb k (s_ic s)
        else s_ic s in
      (mkSt (t + c_wtick c) db' ic' (s_qc s) (s_cl s) (s_mk s) (s_run s) (s_done s),
       OAns [(k, n0)] [] [false] false false)
    end
  | InvStart => let '(s1, b) := spawn s in (s1, OStart b)
  | InvRead =>
    match s_run s with
    | Some (RPending cached) =>
      (set_run s (Some (RRead (mkRun cached (firstn (c_page c) (rev (s_db s))) (s_db s)))), ORead true)
    | _ => (s, ORead false)
    end
  | InvFinish =>
    match s_run s with
    | Some (RRead r) => let '(s1, d) := finish c s r in (s1, OFin d)
    | _ => (s, OFin DNoRun)
    end
  | Request f store jq jis =>
    let '(tinv, trig) := determine c s in
    let '(s1, spawned) := if trig then spawn s else (s, false) in
    let r := resolve c (s_now s) (length (s_db s)) (s_mk s) store jq jis tinv (s_ic s, s_qc s) f in
    (mkSt (s_now s) (s_db s) (fst (fst r)) (snd (fst r)) (s_cl s) (s_mk s) (s_run s1) (s_done s),
     OAns (fst (fst (snd r))) (snd (fst (snd r))) (snd (snd r)) trig spawned)
  end.

Definition run_ops (c : cfg) (h : list op) (s : state) : state :=
  fold_left (fun st o => fst (step c st o)) h s.

(* with the outputs, for the oracle *)
Fixpoint run_outs (c : cfg) (h : list op) (s : state) : state * list out :=
  match h with
  | [] => (s, [])
  | o :: r => let '(s1, x) := step c s o in let '(s2, xs) := run_outs c r s1 in (s2, x :: xs)
  end.

Definition out_src (o : out) : src := match o with OAns a _ _ _ _ => a | _ => [] end.

(* ------------------------------------------------------------------------------------------ *)
(* The property's predicates                                                                   *)

(* an answer reflects the i-th change: every part of it that the change touches was read from a
   changelog that already contained it *)
Definition fresh_at (db : list change) (i : nat) (a : src) : Prop :=
  forall ch, nth_error db i = Some ch ->
  forall k n, In (k, n) a -> touches (ch_tup ch) k = true -> (i < n)%nat.

Definition fresh_atb (db : list change) (i : nat) (a : src) : bool :=
  match nth_error db i with
  | None => true
  | Some ch => forallb (fun p => negb (touches (ch_tup ch) (fst p)) || Nat.ltb i (snd p)) a
  end.

(* what a datastore read of key k returns is a function of this list *)
Definition view (db : list change) (k : ikey) (n : nat) : list change :=
  filter (fun ch => touches (ch_tup ch) k) (firstn n db).

(* the hypotheses of the staleness theorem: at most one of the two caches, no jitter, the clock
   advances strictly across a write, positive TTLs, the store-wide marker lives at least as long as
   an iterator entry, non-empty changelog page *)
Definition cfg_ok (c : cfg) : bool :=
  negb (c_qon c && c_ion c) && (c_jit c =? 0) && (1 <=? c_wtick c) && (0 <? c_qttl c) && (0 <? c_ittl c)
  && (c_ittl c <=? c_full c) && Nat.leb 1 (c_page c) && c_subinv c.

(* A request that dispatches sub-problems through the query cache must not fall between a write and
   the completion of a run that read after it (otherwise a parent is re-stamped AFTER the write with
   the content of a child entry from BEFORE the write: subproblem_restamp_refuted) *)
Definition req_ok (c : cfg) (s : state) (f : qforest) : bool :=
  negb (c_qon c) || forest_flat f || Nat.eqb (s_done s) (length (s_db s)).

Fixpoint hist_ok (c : cfg) (h : list op) (s : state) : bool :=
  match h with
  | [] => true
  | o :: r =>
    (match o with Request f _ _ _ => req_ok c s f | _ => true end) && hist_ok c r (fst (step c s o))
  end.

(* cfg_ok without its first two conjuncts (used by the refutations) *)
Definition cfg_rest (c : cfg) : bool :=
  (1 <=? c_wtick c) && (0 <? c_qttl c) && (0 <? c_ittl c) && (c_ittl c <=? c_full c) && Nat.leb 1 (c_page c).

Definition no_finish (h : list op) : bool :=
  forallb (fun o => match o with InvFinish => false | _ => true end) h.

(* the configuration of a real server (times in milliseconds): both TTLs 10 s, controller 10 s *)
Definition real_cfg (qon ion : bool) (jit : N) : cfg :=
  mkCfg qon ion 10000 10000 10000 31536000000 50 jit 1 true.

(* ------------------------------------------------------------------------------------------ *)
(* "Invalidation only forces recomputation"                                                    *)

Definition inval_time (c : cfg) (s : state) : N := fst (determine c s).

(* a cache entry that a request made now would use *)
Definition i_usable (s : state) (k : ikey) (e : ient) : Prop :=
  aget ikey_eqb k (s_ic s) = Some e /\ s_now s < ie_exp e /\
  invalid_at (s_mk s) (s_now s) (ie_lm e) k = false.

(* with the time as coded, or with time zero when sub-problems do not get the time *)
Definition q_usable (c : cfg) (s : state) (id : N) (e : qent) : Prop :=
  c_qon c = true /\ aget N.eqb id (s_qc s) = Some e /\ s_now s < qe_exp e /\
  (inval_time c s < qe_lm e \/ c_subinv c = false).

(* s' is s after "more invalidation": same clock and store, data entries removed but never added
   or altered, every marker still present and not older / not shorter-lived, a later
   LastCacheInvalidationTime *)
Definition more_invalid (c : cfg) (s s' : state) : Prop :=
  s_now s' = s_now s /\ s_db s' = s_db s /\
  (forall k e, aget ikey_eqb k (s_ic s') = Some e -> aget ikey_eqb k (s_ic s) = Some e) /\
  (forall id e, aget N.eqb id (s_qc s') = Some e -> aget N.eqb id (s_qc s) = Some e) /\
  (forall m e, aget mkey_eqb m (s_mk s) = Some e ->
     exists e', aget mkey_eqb m (s_mk s') = Some e' /\ me_lm e <= me_lm e' /\ me_exp e <= me_exp e') /\
  inval_time c s <= inval_time c s'.

(* every usable entry holds what an uncached read would return now *)
Definition cache_consistent (c : cfg) (s : state) : Prop :=
  (forall k e, i_usable s k e -> view (s_db s) k (ie_snap e) = view (s_db s) k (length (s_db s))) /\
  (forall id e, q_usable c s id e ->
     forall k n, In (k, n) (qe_src e) -> view (s_db s) k n = view (s_db s) k (length (s_db s))).

Definition controller_op (o : op) : bool :=
  match o with InvStart | InvRead | InvFinish => true | _ => false end.

