(* C10 -- higher-consistency requests are never stale.  Definitions only; proofs are in
   Cache/ConsistencyProofs.v.

   The Go code (pinned commit):
     internal/graph/cached_resolver.go        CachedCheckResolver.ResolveCheck   (check query cache, default engine)
     pkg/storage/storagewrappers/cached_datastore.go   CachedDatastore.{Read,ReadUsersetTuples,ReadStartingWithUser}
                                                       (iterator cache of Check and of ListObjects, default engine)
     pkg/storage/storagewrappers/cached_reader.go      CachedTupleReader.*       (iterator cache, weighted-graph engine)
     pkg/storage/storagewrappers/sharediterator/shared_iterator_datastore.go   IteratorDatastore.*
     internal/check/check.go                  Resolver.isCached / ResolveUnionEdges / ResolveRecursive (edge cache)
     pkg/server/commands/check_command.go, pkg/server/check.go, pkg/server/batch_check.go,
     pkg/server/commands/list_objects.go      the cache controller is not consulted for HIGHER_CONSISTENCY
   Every one of these methods tests the request's consistency preference BEFORE its first cache
   access.  A HIGHER_CONSISTENCY request
     - never reads any cache,
     - never creates a caching iterator (the iterator caches are not written),
     - DOES write its result into the check query cache (CachedCheckResolver: `tryCache` only guards
       the lookup, `c.cache.Set` is unconditional) and into the weighted-graph edge cache
       (ResolveUnionEdges / ResolveRecursive: `r.cache.Set` after ResolveEdge): it refreshes them.

   Three layers of definitions.

   1. SKELETONS.  Generated/C10Bypass.v (written by harness/cmd/gen_c10 from the Go source on every
      run) holds the control skeleton of each of the methods above as a `c10_prog`.  `run p hi ch` is
      the sequence of cache events of one execution: `hi` = the request is HIGHER_CONSISTENCY, `ch`
      resolves every other conditional (data dependent: hit / miss, entry valid / invalidated /
      expired, error, ...).  `flow` / `deleg` are the static checks: on no HIGHER path is there a
      cache read, a cache delete, a cache-controller call or an unrecognised statement; on every
      HIGHER path of a wrapper the wrapped reader / resolver is called.

   2. MACHINE.  The layered cache machine: store states `S` with an abstract datastore read `db`, an
      abstract engine given as a resolution program (`reads_of`, `subs_of`, `combine`: the reads a
      sub-problem performs, the sub-problems it dispatches, how it combines them; `None` = error or
      cycle, fuel = resolution depth), and three cache layers interpreted FROM THE SKELETONS:
         query layer   (CachedCheckResolver.ResolveCheck, or isCached + Set for the weighted graph)
         shared iterator layer  ->  iterator cache layer  ->  datastore
      Each layer executes the event trace of its skeleton: CacheGet makes the cached value current,
      Delegate calls the next layer, CacheSet stores the current value, the current value is
      returned.  Cache contents are arbitrary (stale, wrong, half evicted): the theorems quantify
      over every cache state and every resolution `ch` of the data-dependent conditionals, which
      covers TTL expiry, LRU eviction, invalidation by the cache controller and goroutine schedules
      of one request.

   3. REPLAY.  The request-level executable model the correspondence oracle replays a recorded
      history on (answers are opaque codes keyed by request id). *)
From Coq Require Export NArith List Bool String.
From OFGA Require Export Generated.C10Bypass.
Export ListNotations.
Close Scope string_scope.
Open Scope list_scope.
Open Scope N_scope.

(* ================================================================================================ *)
(* 1. skeletons                                                                                      *)

Inductive status := SNorm | SBrk (n : nat) | SRet.

Definition pop (ch : list bool) : bool * list bool :=
  match ch with [] => (false, []) | b :: t => (b, t) end.

Definition unblock (s : status) : status :=
  match s with SBrk O => SNorm | SBrk (S n) => SBrk n | x => x end.

(* the events of one execution, the unused choices, how the execution left p *)
Fixpoint run (p : c10_prog) (hi : bool) (ch : list bool) : list c10_ev * list bool * status :=
  match p with
  | PSkip => ([], ch, SNorm)
  | PEv e => ([e], ch, SNorm)
  | PSeq2 a b =>
      let '(ta, ch1, sa) := run a hi ch in
      match sa with
      | SNorm => let '(tb, ch2, sb) := run b hi ch1 in (ta ++ tb, ch2, sb)
      | _ => (ta, ch1, sa)
      end
  | PIfCons _ h l => if hi then run h hi ch else run l hi ch
  | PIf a b => let (c, ch1) := pop ch in if c then run a hi ch1 else run b hi ch1
  | PCall q => let '(t, ch1, _) := run q hi ch in (t, ch1, SNorm)
  | PBlock q => let '(t, ch1, s) := run q hi ch in (t, ch1, unblock s)
  | PBreak n => ([], ch, SBrk n)
  | PReturn => ([], ch, SRet)
  end.

Definition trace (p : c10_prog) (hi : bool) (ch : list bool) : list c10_ev := fst (fst (run p hi ch)).

(* events a HIGHER_CONSISTENCY request must not reach *)
Definition bad_hi (e : c10_ev) : bool :=
  match e with CacheGet | CacheDel | CtrlCall | Unknown => true | _ => false end.

Definition is_ev (x e : c10_ev) : bool :=
  match x, e with
  | CacheGet, CacheGet | CacheSet, CacheSet | CacheDel, CacheDel
  | Delegate, Delegate | CtrlCall, CtrlCall | Unknown, Unknown => true
  | _, _ => false
  end.

(* flow bad p = (ok, may_norm): no event of `bad` on a HIGHER path; may_norm = false only when no
   HIGHER path leaves p normally (then what follows p in a sequence is unreachable) *)
Fixpoint flow (bad : c10_ev -> bool) (p : c10_prog) : bool * bool :=
  match p with
  | PSkip => (true, true)
  | PEv e => (negb (bad e), true)
  | PSeq2 a b =>
      let (oa, na) := flow bad a in
      if na then let (ob, nb) := flow bad b in (oa && ob, nb) else (oa, false)
  | PIfCons _ h _ => flow bad h
  | PIf a b => let (oa, na) := flow bad a in let (ob, nb) := flow bad b in (oa && ob, na || nb)
  | PCall q => (fst (flow bad q), true)
  | PBlock q => (fst (flow bad q), true)
  | PBreak _ => (true, false)
  | PReturn => (true, false)
  end.

Definition safe_hi (p : c10_prog) : bool := fst (flow bad_hi p).
(* no cache write either (iterator caches, shared iterators) *)
Definition bad_hi_w (e : c10_ev) : bool := bad_hi e || is_ev e CacheSet.
Definition nowrite_hi (p : c10_prog) : bool := fst (flow bad_hi_w p).

(* deleg p = (dn, db, dr): a Delegate event occurred on every HIGHER path that leaves p normally /
   by break / by return *)
Fixpoint deleg (p : c10_prog) : bool * bool * bool :=
  match p with
  | PSkip => (false, true, true)
  | PEv e => (is_ev e Delegate, true, true)
  | PSeq2 a b =>
      let '(na, ba, ra) := deleg a in
      let '(nb, bb, rb) := deleg b in
      (na || nb, ba && (na || bb), ra && (na || rb))
  | PIfCons _ h _ => deleg h
  | PIf a b =>
      let '(na, ba, ra) := deleg a in
      let '(nb, bb, rb) := deleg b in
      (na && nb, ba && bb, ra && rb)
  | PCall q => let '(n, b, r) := deleg q in (n && b && r, true, true)
  | PBlock q => let '(n, b, r) := deleg q in (n && b, b, r)
  | PBreak _ => (true, false, true)
  | PReturn => (true, true, false)
  end.

Definition delegates_hi (p : c10_prog) : bool :=
  let '(n, b, r) := deleg p in n && b && r.

(* the order of first occurrences in the source (pre-order): the literal "the consistency test
   precedes the first cache access" *)
Inductive mark := MTest | MEv (e : c10_ev).

Fixpoint flatten (p : c10_prog) : list mark :=
  match p with
  | PSkip | PBreak _ | PReturn => []
  | PEv e => [MEv e]
  | PSeq2 a b => flatten a ++ flatten b
  | PIfCons _ h l => MTest :: flatten h ++ flatten l
  | PIf a b => flatten a ++ flatten b
  | PCall q => flatten q
  | PBlock q => flatten q
  end.

Definition is_access (m : mark) : bool :=
  match m with MEv CacheGet | MEv CacheDel | MEv CtrlCall | MEv Unknown => true | _ => false end.

(* true when no access occurs before the first test (or there is no access at all) *)
Fixpoint test_first (l : list mark) : bool :=
  match l with
  | [] => true
  | MTest :: _ => true
  | m :: l' => negb (is_access m) && test_first l'
  end.

(* the expressions the tests are made on (source text) *)
Fixpoint tested (p : c10_prog) : list string :=
  match p with
  | PSeq2 a b | PIf a b => tested a ++ tested b
  | PIfCons s h l => s :: tested h ++ tested l
  | PCall q | PBlock q => tested q
  | _ => []
  end.

Definition consistency_exprs : list string :=
  ["req.Consistency"; "options.Consistency.Preference"; "opts.Consistency.Preference";
   "params.Consistency"; "req.GetConsistency()"; "consistency"]%string.

Definition str_mem (s : string) (l : list string) : bool := existsb (String.eqb s) l.

(* a row of the generated table passes: the test is first, no HIGHER path reaches a cache read /
   delete / controller call / unrecognised statement, and every test is on the request's preference *)
Definition row_ok (r : c10_row) : bool :=
  test_first (flatten (c10_body r)) && safe_hi (c10_body r) &&
  forallb (fun s => str_mem s consistency_exprs) (tested (c10_body r)).

Definition find_row (name : string) : c10_prog :=
  match find (fun r => String.eqb (c10_name r) name) c10_table with
  | Some r => c10_body r
  | None => PEv Unknown
  end.

(* ---- the read call sites (second generated table) ---- *)
(* The wrappers test `options.Consistency.Preference`: the bypass only works when every datastore
   read of the engines and commands FORWARDS the request's preference in its options.  c10_reads
   lists every Read / ReadUsersetTuples / ReadStartingWithUser / ReadUserTuple / ReadPage call of
   internal/check, internal/graph, internal/checkutil, internal/listobjects/pipeline and
   pkg/server/commands (+ reverseexpand, listusers) with the expression its options carry as
   Consistency.Preference (NoConsistency: no such field, e.g. storage.ReadOptions{}; UnknownOpts:
   not understood), and the calls of pipeline.WithStoreConsistency. *)

(* expressions that denote the request's preference at these sites:
     req.GetConsistency()  (check.Request, graph.ResolveCheckRequest, the API requests)
     req.Consistency       (reverseexpand.ReverseExpandRequest)
     r.consistency         (pipeline.ValidatingStore: set by WithStoreConsistency, whose call sites are
                            rows of the table themselves and must pass req.GetConsistency())
     consistency           (commands/expand.go: parameter of the Expand helpers, passed down from
                            req.GetConsistency() in ExpandQuery.Execute) *)
Definition preference_exprs : list string :=
  ["req.GetConsistency()"; "req.Consistency"; "r.consistency"; "consistency"]%string.

(* reviewed call sites that legitimately do not forward the preference: (file, function, method).
   There is none at the pinned commit: every one of the listed reads forwards it.  A site may only
   be added here with the reason why a stale read cannot reach a HIGHER_CONSISTENCY answer. *)
Definition reads_allow : list (string * string * string) := [].

Definition allowlisted (r : c10_read) : bool :=
  existsb (fun a => String.eqb (fst (fst a)) (c10r_file r) && String.eqb (snd (fst a)) (c10r_func r) &&
                    String.eqb (snd a) (c10r_meth r)) reads_allow.

Definition read_ok (r : c10_read) : bool :=
  match c10r_fwd r with
  | Forwards e =>
      if String.eqb (c10r_meth r) "WithStoreConsistency" then String.eqb e "req.GetConsistency()"
      else str_mem e preference_exprs
  | _ => allowlisted r
  end.

Definition has_read (f m : string) : bool :=
  existsb (fun r => String.eqb (c10r_func r) f && String.eqb (c10r_meth r) m) c10_reads.

(* ================================================================================================ *)
(* 2. the layered machine                                                                            *)

(* the skeletons the machine interprets *)
Record wrappers := mkW {
  w_query : c10_prog;                 (* CachedCheckResolver.ResolveCheck *)
  w_edge : c10_prog;                  (* weighted graph: one edge of ResolveUnionEdges *)
  w_iter : N -> c10_prog;             (* CachedDatastore: read kind 0 Read, 1 ReadUsersetTuples, 2 ReadStartingWithUser *)
  w_iter2 : N -> c10_prog;            (* CachedTupleReader *)
  w_shared : N -> c10_prog            (* IteratorDatastore *)
}.

(* one edge of ResolveUnionEdges / the recursive edge of ResolveRecursive, written around the
   generated isCached:  `res, ok := r.isCached(consistency, id)`; `if ok { use res }`; otherwise
   ResolveEdge, and the result is stored unless an error or a cancellation occurred.  isCached
   returns ok = false on its HIGHER_CONSISTENCY branch (first statement), so the `if ok` branch
   belongs to the other side of that same test: this data dependency is the one hand-written step
   (the generated rows of ResolveUnionEdges / ResolveRecursive themselves pass row_ok). *)
Definition edge_skeleton (is_cached : c10_prog) : c10_prog :=
  PSeq2 (PCall is_cached)
        (PSeq2 (PIfCons "consistency" PSkip (PIf PReturn PSkip))
               (PSeq2 (PEv Delegate) (PSeq2 (PIf (PEv CacheSet) PSkip) PReturn))).

Definition kind_name (k : N) : string :=
  match k with 0 => "Read" | 1 => "ReadUsersetTuples" | _ => "ReadStartingWithUser" end%string.

Definition gen_wrappers : wrappers :=
  mkW (find_row "CachedCheckResolver.ResolveCheck")
      (edge_skeleton (find_row "v2.Resolver.isCached"))
      (fun k => find_row (String.append "CachedDatastore." (kind_name k)))
      (fun k => find_row (String.append "CachedTupleReader." (kind_name k)))
      (fun k => find_row (String.append "IteratorDatastore." (kind_name k))).

Definition kinds : list N := [0; 1; 2].

Definition wrappers_ok (w : wrappers) : bool :=
  safe_hi (w_query w) && delegates_hi (w_query w) &&
  safe_hi (w_edge w) && delegates_hi (w_edge w) &&
  forallb (fun k => nowrite_hi (w_iter w k) && delegates_hi (w_iter w k)) kinds &&
  forallb (fun k => nowrite_hi (w_iter2 w k) && delegates_hi (w_iter2 w k)) kinds &&
  forallb (fun k => nowrite_hi (w_shared w k) && delegates_hi (w_shared w k)) kinds.

(* which layers a request passes through *)
Record layers := mkL { l_query : bool; l_iter : bool; l_shared : bool; l_v2 : bool }.

Definition qval := option bool.       (* allowed / denied; None = error, cycle, depth *)
Definition rval := list N.            (* the tuples of one read *)
Definition rkey := (N * N)%type.      (* read kind, query *)

Definition rkey_eqb (a b : rkey) : bool := N.eqb (fst a) (fst b) && N.eqb (snd a) (snd b).

Record cstate := mkC {
  qc : list (N * qval);               (* check query cache / edge cache *)
  ic : list (rkey * rval);            (* iterator cache *)
  sh : list (rkey * rval);            (* shared iterators in flight *)
  chs : list bool                     (* resolution of the data-dependent conditionals still to come *)
}.

Fixpoint qlook (c : list (N * qval)) (k : N) : option qval :=
  match c with [] => None | (k', v) :: c' => if N.eqb k k' then Some v else qlook c' k end.
Fixpoint rlook (c : list (rkey * rval)) (k : rkey) : option rval :=
  match c with [] => None | (k', v) :: c' => if rkey_eqb k k' then Some v else rlook c' k end.

Definition set_chs (st : cstate) (ch : list bool) : cstate := mkC (qc st) (ic st) (sh st) ch.

(* left-to-right traversal threading the cache state *)
Fixpoint map_st {A B : Type} (f : A -> cstate -> B * cstate) (l : list A) (st : cstate) : list B * cstate :=
  match l with
  | [] => ([], st)
  | x :: l' =>
      let (v, st1) := f x st in
      let (vs, st2) := map_st f l' st1 in
      (v :: vs, st2)
  end.

Section Layer.
  Variable V : Type.
  Variable get : cstate -> option V.
  Variable set : V -> cstate -> cstate.
  Variable del : cstate -> cstate.
  Variable dlg : cstate -> V * cstate.

  (* cur = the value obtained last (from the cache or from the wrapped layer), if any *)
  Fixpoint apply_trace (t : list c10_ev) (cur : option V) (st : cstate) : option V * cstate :=
    match t with
    | [] => (cur, st)
    | CacheGet :: t' => apply_trace t' (match get st with Some v => Some v | None => cur end) st
    | CacheSet :: t' => apply_trace t' cur (match cur with Some v => set v st | None => st end)
    | CacheDel :: t' => apply_trace t' cur (del st)
    | Delegate :: t' => let (v, st') := dlg st in apply_trace t' (Some v) st'
    | _ :: t' => apply_trace t' cur st
    end.

  (* a wrapper: the trace of its skeleton applied to the state; `dflt` is returned when the
     skeleton neither found a cached value nor delegated (excluded by delegates_hi) *)
  Definition layer (p : c10_prog) (hi : bool) (dflt : V) (st : cstate) : V * cstate :=
    let '(t, ch', _) := run p hi (chs st) in
    let (r, st') := apply_trace t None (set_chs st ch') in
    (match r with Some v => v | None => dflt end, st').
End Layer.

Section Machine.
  Variable S : Type.
  Variable db : S -> rkey -> rval.
  Variable reads_of : N -> list rkey.
  Variable subs_of : N -> list rval -> list N.
  Variable combine : N -> list rval -> list qval -> qval.
  Variable w : wrappers.

  (* the answer for the store state s, no cache anywhere *)
  Fixpoint spec (fuel : nat) (s : S) (q : N) : qval :=
    match fuel with
    | O => None
    | Datatypes.S f =>
        let rs := map (db s) (reads_of q) in
        combine q rs (map (spec f s) (subs_of q rs))
    end.

  Definition qset (k : N) (v : qval) (st : cstate) : cstate := mkC ((k, v) :: qc st) (ic st) (sh st) (chs st).
  Definition qdel (k : N) (st : cstate) : cstate :=
    mkC (filter (fun e => negb (N.eqb k (fst e))) (qc st)) (ic st) (sh st) (chs st).
  Definition iset (k : rkey) (v : rval) (st : cstate) : cstate := mkC (qc st) ((k, v) :: ic st) (sh st) (chs st).
  Definition idel (k : rkey) (st : cstate) : cstate :=
    mkC (qc st) (filter (fun e => negb (rkey_eqb k (fst e))) (ic st)) (sh st) (chs st).
  Definition sset (k : rkey) (v : rval) (st : cstate) : cstate := mkC (qc st) (ic st) ((k, v) :: sh st) (chs st).
  Definition sdel (k : rkey) (st : cstate) : cstate :=
    mkC (qc st) (ic st) (filter (fun e => negb (rkey_eqb k (fst e))) (sh st)) (chs st).

  (* shared iterator -> iterator cache -> datastore, as NewRequestStorageWrapperWithCache / the
     weighted-graph CheckQueryV2.resolve stack them *)
  Definition read_db (s : S) (k : rkey) (st : cstate) : rval * cstate := (db s k, st).

  Definition read_iter (l : layers) (hi : bool) (s : S) (k : rkey) (st : cstate) : rval * cstate :=
    if l_iter l then
      layer rval (fun st => rlook (ic st) k) (iset k) (idel k) (read_db s k)
            (if l_v2 l then w_iter2 w (fst k) else w_iter w (fst k)) hi [] st
    else read_db s k st.

  Definition read_top (l : layers) (hi : bool) (s : S) (k : rkey) (st : cstate) : rval * cstate :=
    if l_shared l && negb (l_v2 l) then
      layer rval (fun st => rlook (sh st) k) (sset k) (sdel k) (read_iter l hi s k)
            (w_shared w (fst k)) hi [] st
    else read_iter l hi s k st.

  Definition read_all (l : layers) (hi : bool) (s : S) (ks : list rkey) (st : cstate) : list rval * cstate :=
    map_st (read_top l hi s) ks st.

  Definition query_layer (l : layers) (hi : bool) (q : N) (dlg : cstate -> qval * cstate) (st : cstate) : qval * cstate :=
    if l_query l then
      layer qval (fun st => qlook (qc st) q) (qset q) (qdel q) dlg
            (if l_v2 l then w_edge w else w_query w) hi None st
    else dlg st.

  (* one sub-problem: through the query layer; its reads through the read layers; its dispatched
     sub-problems recursively (left to right: one schedule; the others are other `chs`) *)
  Fixpoint resolve (fuel : nat) (l : layers) (hi : bool) (s : S) (q : N) (st : cstate) {struct fuel} : qval * cstate :=
    match fuel with
    | O => (None, st)
    | Datatypes.S f =>
        query_layer l hi q (fun st0 =>
          let (rs, st1) := read_all l hi s (reads_of q) st0 in
          let (vs, st2) := map_st (resolve f l hi s) (subs_of q rs) st1 in
          (combine q rs vs, st2)) st
    end.

  (* ListObjects: its own reads go through the ListObjects iterator cache and the shared iterators,
     its candidate checks through the check query cache only (NewCheckCommand without
     WithCheckCommandCache: no iterator cache, no shared iterator); the list itself is not cached *)
  Definition resolve_list (fuel : nat) (ltop lsub : layers) (hi : bool) (s : S) (q : N) (st : cstate) : qval * cstate :=
    match fuel with
    | O => (None, st)
    | Datatypes.S f =>
        let (rs, st1) := read_all ltop hi s (reads_of q) st in
        let (vs, st2) := map_st (resolve f lsub hi s) (subs_of q rs) st1 in
        (combine q rs vs, st2)
    end.

  (* server configuration: the five cache flags and the engine *)
  Record config := mkCfg {
    c_query : bool;        (* check query cache *)
    c_iter : bool;         (* check iterator cache *)
    c_lo_iter : bool;      (* ListObjects iterator cache *)
    c_shared : bool;       (* shared iterators *)
    c_ctrl : bool;         (* cache controller: only decides which entries are still valid = part of chs *)
    c_v2 : bool            (* weighted-graph Check *)
  }.

  Inductive api := ACheck | ABatchCheck | AListObjects | AListUsers.

  Definition request (c : config) (a : api) (fuel : nat) (hi : bool) (s : S) (q : N) (st : cstate) : qval * cstate :=
    match a with
    | ACheck | ABatchCheck => resolve fuel (mkL (c_query c) (c_iter c) (c_shared c) (c_v2 c)) hi s q st
    | AListObjects =>
        resolve_list fuel (mkL false (c_lo_iter c) (c_shared c) false) (mkL (c_query c) false false false) hi s q st
    | AListUsers => (spec fuel s q, st)      (* ListUsers wraps the datastore without any cache *)
    end.

  Inductive op := OWrite (s' : S) | OReq (a : api) (hi : bool) (q : N).

  (* a history: the answers, each with the store state at the time of the request *)
  Fixpoint run_hist (c : config) (fuel : nat) (h : list op) (s : S) (st : cstate) : list (bool * N * S * qval) :=
    match h with
    | [] => []
    | OWrite s' :: h' => run_hist c fuel h' s' st
    | OReq a hi q :: h' =>
        let (v, st') := request c a fuel hi s q st in
        (hi, q, s, v) :: run_hist c fuel h' s st'
    end.

  (* every new entry of the query cache is the answer for the store state s *)
  Definition qc_fresh (fuel : nat) (s : S) (old new : list (N * qval)) : Prop :=
    forall k v, In (k, v) new -> In (k, v) old \/ exists f, (f <= fuel)%nat /\ v = spec f s k.
End Machine.



(* ================================================================================================ *)
(* 3. the request-level replay model (executable; the oracle runs it on the recorded history)        *)

(* PExactOrCancelled: the shared iterators hand the FIRST consumer's iterator (created under that
   consumer's context) to later consumers of the same read; when the first consumer is a branch that
   the engine cancels (short circuit of a union / intersection), the others fail with `Request
   Cancelled` (code 2058, interned as answer 2 by the driver).  Open finding of C09
   (shared_admission_cancel_leak); it only concerns requests that pass through the shared
   iterators, i.e. never a HIGHER_CONSISTENCY request. *)
Inductive prediction := PExact (a : N) | PExactOrCancelled (a : N) | PExactOrError (a : N) | PAnyAnswer.
Definition cancelled_code : N := 2.
(* answer codes: 0 denied, 1 allowed, 2..99 error classes (2 = Request Cancelled), 100.. result sets *)
Definition is_error (a : N) : bool := N.leb 2 a && N.ltb a 100.

Record rcfg := mkR {
  r_query : bool; r_iter : bool; r_lo_iter : bool; r_shared : bool; r_ctrl : bool; r_v2 : bool
}.

(* api: 0 Check, 1 BatchCheck item, 2 ListObjects, 3 ListUsers *)
Record rreq := mkReq {
  rq_api : N;
  rq_hi : bool;           (* HIGHER_CONSISTENCY *)
  rq_key : N;             (* request id: equal ids = equal request (tuple key, type, context) *)
  rq_ref : N;             (* answer of a cache-less server on the same store state (opaque code) *)
  rq_obs : N;             (* answer of the server under test *)
  rq_clobber : list N     (* ids of the OTHER Check requests whose top-level cache key this request may
                             (re)write as one of its dispatched sub-problems / candidate checks: same
                             user, same context, same contextual tuples *);
  rq_fault : bool         (* the driver made the datastore reads of the server under test fail during this
                             request (transient fault): the request may fail, but a HIGHER_CONSISTENCY
                             request must not fall back on a cached decision *)
}.

Inductive rop := RWrite | RReq (r : rreq).

Record rstate := mkRS {
  rs_top : list (N * N);  (* default engine, query cache on: top-level Check entries (request id, stored answer) *)
  rs_pop : bool;          (* some cache may hold an entry *)
  rs_dirty : bool         (* a write happened after an entry may have been stored *)
}.

Definition rs0 : rstate := mkRS [] false false.

Fixpoint nlook (c : list (N * N)) (k : N) : option N :=
  match c with [] => None | (k', v) :: c' => if N.eqb k k' then Some v else nlook c' k end.

Definition is_check (a : N) : bool := N.eqb a 0 || N.eqb a 1.

(* does the request pass through any cache at all *)
(* With the weighted-graph flag on, Server.Check / BatchCheck FALL BACK to the default engine - with
   all of its caches: query cache, check iterator cache, shared iterators - whenever the weighted-graph
   check returns a non-terminal error (a request shape it refuses, e.g. a userset subject under an
   exclusion; a datastore error): a Check may pass through the shared iterators under either engine. *)
Definition caches_on (c : rcfg) (a : N) : bool :=
  if is_check a then r_query c || r_iter c || r_shared c
  else if N.eqb a 2 then r_query c || r_lo_iter c || r_shared c
  else false.

(* does a request of this kind leave entries behind: a cached one always does when a cache is on, a
   HIGHER_CONSISTENCY one only in the query / edge cache *)
Definition leaves_entries (c : rcfg) (r : rreq) : bool :=
  if rq_hi r then (is_check (rq_api r) || N.eqb (rq_api r) 2) && r_query c
  else caches_on c (rq_api r).

(* answers 0 (denied) and 1 (allowed) of a Check are stored under the top-level key; errors are not *)
Definition storable (a : N) : bool := N.leb a 1.

Definition top_tracked (c : rcfg) (r : rreq) : bool :=
  is_check (rq_api r) && r_query c && negb (r_v2 c).

(* the request's sub-problems pass through the default engine's query cache *)
Definition uses_query (c : rcfg) (r : rreq) : bool :=
  r_query c && ((is_check (rq_api r) && negb (r_v2 c)) || N.eqb (rq_api r) 2).

Definition forget (ks : list N) (top : list (N * N)) : list (N * N) :=
  filter (fun e => negb (existsb (N.eqb (fst e)) ks)) top.

(* a cached request whose reads go through the shared iterators *)
Definition through_shared (c : rcfg) (r : rreq) : bool :=
  r_shared c && (is_check (rq_api r) || N.eqb (rq_api r) 2).

Definition predict0 (c : rcfg) (st : rstate) (r : rreq) : prediction :=
  if rq_hi r then PExact (rq_ref r)
  else if negb (caches_on c (rq_api r)) then PExact (rq_ref r)
  else match (if top_tracked c r && negb (r_ctrl c) then nlook (rs_top st) (rq_key r) else None) with
       | Some v => PExact v                  (* top-level hit: the stored response, stale or not *)
       | None => if rs_dirty st then PAnyAnswer
                 else if through_shared c r then PExactOrCancelled (rq_ref r)
                 else PExact (rq_ref r)
       end.

(* under an injected datastore fault: the current answer or an error, never another decision *)
Definition predict (c : rcfg) (st : rstate) (r : rreq) : prediction :=
  if rq_fault r then
    (if rq_hi r || negb (caches_on c (rq_api r)) then PExactOrError (rq_ref r) else PAnyAnswer)
  else predict0 c st r.

Definition rstep (c : rcfg) (st : rstate) (o : rop) : rstate :=
  match o with
  | RWrite => mkRS (rs_top st) (rs_pop st) (rs_pop st || rs_dirty st)
  | RReq r =>
      let hit := if rq_hi r || negb (top_tracked c r) || r_ctrl c then None else nlook (rs_top st) (rq_key r) in
      match hit with
      | Some _ => st                                             (* top-level hit: nothing is evaluated *)
      | None =>
          (* evaluated: sub-problems of the same partition may have been rewritten (forget them) *)
          let top1 := if uses_query c r then forget (rq_clobber r) (rs_top st) else rs_top st in
          let top2 := if top_tracked c r && storable (rq_obs r)
                      then (rq_key r, rq_obs r) :: top1      (* stored, HIGHER included *)
                      else top1 in
          mkRS top2 (rs_pop st || leaves_entries c r) (rs_dirty st)
      end
  end.

Definition agrees (p : prediction) (obs : N) : bool :=
  match p with
  | PExact a => N.eqb a obs
  | PExactOrCancelled a => N.eqb a obs || N.eqb obs cancelled_code
  | PExactOrError a => N.eqb a obs || is_error obs
  | PAnyAnswer => true
  end.

(* verdict per request: 0 ok, 1 the observed answer is not the predicted one (DIFF), 2 a
   HIGHER_CONSISTENCY (or uncached) answer differs from the reference (PROP) *)
Fixpoint replay (c : rcfg) (st : rstate) (h : list rop) : list N :=
  match h with
  | [] => []
  | RWrite :: h' => replay c (rstep c st RWrite) h'
  | RReq r :: h' =>
      let p := predict c st r in
      let v := if agrees p (rq_obs r) then 0
               else if rq_hi r || negb (caches_on c (rq_api r)) then 2 else 1 in
      v :: replay c (rstep c st (RReq r)) h'
  end.

(* the predictions themselves (for the proofs and for the oracle's statistics) *)
Fixpoint predictions (c : rcfg) (st : rstate) (h : list rop) : list (rreq * prediction) :=
  match h with
  | [] => []
  | RWrite :: h' => predictions c (rstep c st RWrite) h'
  | RReq r :: h' => (r, predict c st r) :: predictions c (rstep c st (RReq r)) h'
  end.
