(* C10 -- proofs about Cache/Consistency.v.

   1. skeletons: soundness of the static checks (flow_sound, deleg_sound) with respect to `run`;
      the generated table passes them (table_ok, gen_wrappers_ok: by computation over
      Generated/C10Bypass.v, so a reordering in the Go source breaks them);
   2. machine: a HIGHER_CONSISTENCY request returns `spec` of the current store for EVERY cache
      state, every resolution of the data-dependent conditionals, every layer configuration
      (resolve_hi), lifted to histories (hist_hi); what it leaves in the caches (resolve_hi again:
      iterator cache and shared iterators untouched, every new query-cache entry is `spec`);
   3. replay model: a HIGHER_CONSISTENCY request is predicted `PExact reference` in every history. *)
From Coq Require Import Lia.
From OFGA Require Import Cache.Consistency.
Close Scope string_scope.
Open Scope list_scope.

(* ================================================================================================ *)
(* 1. skeletons                                                                                      *)

Definition clean (bad : c10_ev -> bool) (t : list c10_ev) : bool := forallb (fun e => negb (bad e)) t.

Lemma clean_app bad t1 t2 : clean bad (t1 ++ t2) = clean bad t1 && clean bad t2.
Proof. unfold clean. apply forallb_app. Qed.

Lemma flow_sound bad p :
  fst (flow bad p) = true ->
  forall ch, clean bad (fst (fst (run p true ch))) = true /\
             (snd (flow bad p) = false -> snd (run p true ch) <> SNorm).
Proof.
  induction p as [| e | a IHa b IHb | lhs h IHh l IHl | a IHa b IHb | q IHq | q IHq | n |]; intros Hok ch; simpl in *.
  - split; [reflexivity | discriminate].
  - split; [ | discriminate]. unfold clean. simpl. rewrite Hok. reflexivity.
  - destruct (flow bad a) as [oa na] eqn:Fa. simpl in IHa.
    destruct na.
    + destruct (flow bad b) as [ob nb] eqn:Fb. simpl in *.
      apply andb_true_iff in Hok. destruct Hok as [Hoa Hob].
      destruct (IHa Hoa ch) as [Ca _].
      destruct (run a true ch) as [[ta ch1] sa] eqn:Ra. simpl in Ca.
      destruct sa.
      * destruct (IHb Hob ch1) as [Cb Nb].
        destruct (run b true ch1) as [[tb ch2] sb] eqn:Rb. simpl in *.
        split; [rewrite clean_app, Ca, Cb; reflexivity | exact Nb].
      * simpl. split; [exact Ca | discriminate].
      * simpl. split; [exact Ca | discriminate].
    + simpl in *. destruct (IHa Hok ch) as [Ca Na].
      destruct (run a true ch) as [[ta ch1] sa] eqn:Ra. simpl in *.
      destruct sa.
      * exfalso. apply Na; reflexivity.
      * simpl. split; [exact Ca | discriminate].
      * simpl. split; [exact Ca | discriminate].
  - apply IHh. exact Hok.
  - destruct (flow bad a) as [oa na] eqn:Fa. destruct (flow bad b) as [ob nb] eqn:Fb. simpl in *.
    apply andb_true_iff in Hok. destruct Hok as [Hoa Hob].
    destruct (pop ch) as [c ch1]. destruct c.
    + destruct (IHa Hoa ch1) as [Ca Na]. split; [exact Ca |].
      intros Hn. apply orb_false_iff in Hn. apply Na. apply Hn.
    + destruct (IHb Hob ch1) as [Cb Nb]. split; [exact Cb |].
      intros Hn. apply orb_false_iff in Hn. apply Nb. apply Hn.
  - destruct (IHq Hok ch) as [Cq _].
    destruct (run q true ch) as [[t ch1] s]. simpl in *. split; [exact Cq | discriminate].
  - destruct (IHq Hok ch) as [Cq _].
    destruct (run q true ch) as [[t ch1] s]. simpl in *. split; [exact Cq | discriminate].
  - split; [reflexivity | discriminate].
  - split; [reflexivity | discriminate].
Qed.

Lemma safe_hi_sound p ch : safe_hi p = true -> clean bad_hi (trace p true ch) = true.
Proof. intros H. apply (flow_sound bad_hi p H ch). Qed.

Lemma nowrite_hi_sound p ch : nowrite_hi p = true -> clean bad_hi_w (trace p true ch) = true.
Proof. intros H. apply (flow_sound bad_hi_w p H ch). Qed.

Definition has_deleg (t : list c10_ev) : bool := existsb (fun e => is_ev e Delegate) t.

Lemma has_deleg_app t1 t2 : has_deleg (t1 ++ t2) = has_deleg t1 || has_deleg t2.
Proof. unfold has_deleg. apply existsb_app. Qed.

Definition deleg_post (d : bool * bool * bool) (t : list c10_ev) (s : status) : Prop :=
  let '(n, b, r) := d in
  match s with
  | SNorm => n = true -> has_deleg t = true
  | SBrk _ => b = true -> has_deleg t = true
  | SRet => r = true -> has_deleg t = true
  end.

Lemma deleg_sound p : forall ch,
  deleg_post (deleg p) (fst (fst (run p true ch))) (snd (run p true ch)).
Proof.
  induction p as [| e | a IHa b IHb | lhs h IHh l IHl | a IHa b IHb | q IHq | q IHq | n |]; intros ch; simpl.
  - discriminate.
  - intros H. unfold has_deleg. simpl. rewrite H. reflexivity.
  - specialize (IHa ch).
    destruct (deleg a) as [[na ba] ra]. destruct (deleg b) as [[nb bb] rb] eqn:Db.
    destruct (run a true ch) as [[ta ch1] sa] eqn:Ra. simpl in IHa.
    destruct sa.
    + specialize (IHb ch1). destruct (run b true ch1) as [[tb ch2] sb] eqn:Rb. simpl in *.
      destruct sb; intros H; rewrite has_deleg_app.
      * apply orb_true_iff in H. destruct H as [H | H]; [rewrite (IHa H) | rewrite (IHb H), orb_true_r]; reflexivity.
      * apply andb_true_iff in H. destruct H as [_ H].
        apply orb_true_iff in H. destruct H as [H | H]; [rewrite (IHa H) | rewrite (IHb H), orb_true_r]; reflexivity.
      * apply andb_true_iff in H. destruct H as [_ H].
        apply orb_true_iff in H. destruct H as [H | H]; [rewrite (IHa H) | rewrite (IHb H), orb_true_r]; reflexivity.
    + simpl in *. intros H. apply andb_true_iff in H. apply IHa. apply H.
    + simpl in *. intros H. apply andb_true_iff in H. apply IHa. apply H.
  - apply IHh.
  - destruct (deleg a) as [[na ba] ra]. destruct (deleg b) as [[nb bb] rb].
    destruct (pop ch) as [c ch1]. destruct c.
    + specialize (IHa ch1). destruct (run a true ch1) as [[ta ch2] sa]. simpl in *.
      destruct sa; intros H; apply andb_true_iff in H; apply IHa; apply H.
    + specialize (IHb ch1). destruct (run b true ch1) as [[tb ch2] sb]. simpl in *.
      destruct sb; intros H; apply andb_true_iff in H; apply IHb; apply H.
  - specialize (IHq ch). destruct (deleg q) as [[n b] r].
    destruct (run q true ch) as [[t ch1] s]. simpl in *.
    intros H. apply andb_true_iff in H. destruct H as [H Hr]. apply andb_true_iff in H. destruct H as [Hn Hb].
    destruct s; auto.
  - specialize (IHq ch). destruct (deleg q) as [[n b] r].
    destruct (run q true ch) as [[t ch1] s]. simpl in *.
    destruct s as [| k |]; simpl.
    + intros H. apply andb_true_iff in H. apply IHq. apply H.
    + destruct k; simpl.
      * intros H. apply andb_true_iff in H. apply IHq. apply H.
      * exact IHq.
    + exact IHq.
  - discriminate.
  - discriminate.
Qed.

Lemma delegates_hi_sound p ch : delegates_hi p = true -> has_deleg (trace p true ch) = true.
Proof.
  unfold delegates_hi, trace. intros H. pose proof (deleg_sound p ch) as D.
  destruct (deleg p) as [[n b] r]. apply andb_true_iff in H. destruct H as [H Hr].
  apply andb_true_iff in H. destruct H as [Hn Hb]. subst.
  unfold deleg_post in D. destruct (snd (run p true ch)); apply D; reflexivity.
Qed.

(* the literal ordering statement, proved from the path-sensitive one is not possible in general
   (they are independent); both are computed over the generated table *)
Definition table_ok : bool := forallb row_ok c10_table.

Lemma table_ok_true : table_ok = true.
Proof. vm_compute. reflexivity. Qed.

Lemma gen_wrappers_ok : wrappers_ok gen_wrappers = true.
Proof. vm_compute. reflexivity. Qed.

(* the rows the model needs exist and have the expected kind of content: a cache read on the
   cached path (so that the static checks are not vacuous) *)
Definition reads_cache_lo (p : c10_prog) : bool := existsb is_access (flatten p).

Lemma table_not_vacuous :
  forallb (fun n => reads_cache_lo (find_row n))
    ["CachedCheckResolver.ResolveCheck"; "v2.Resolver.isCached"; "v2.Resolver.ResolveUnionEdges";
     "v2.Resolver.ResolveRecursive";
     "CachedDatastore.Read"; "CachedDatastore.ReadUsersetTuples"; "CachedDatastore.ReadStartingWithUser";
     "CachedTupleReader.Read"; "CachedTupleReader.ReadUsersetTuples"; "CachedTupleReader.ReadStartingWithUser";
     "IteratorDatastore.Read"; "IteratorDatastore.ReadUsersetTuples"; "IteratorDatastore.ReadStartingWithUser";
     "CheckQuery.Execute"; "Server.v2Check"; "Server.BatchCheck"; "ListObjectsQuery.Execute"]%string = true.
Proof. vm_compute. reflexivity. Qed.

(* for every row of the table and every resolution of the other conditionals, the execution of a
   HIGHER_CONSISTENCY request performs no cache read, no cache delete, no controller call *)
Lemma table_hi_no_access : forall r ch, In r c10_table -> clean bad_hi (trace (c10_body r) true ch) = true.
Proof.
  intros r ch Hin. apply safe_hi_sound.
  pose proof table_ok_true as T. unfold table_ok in T. rewrite forallb_forall in T.
  specialize (T r Hin). unfold row_ok in T.
  apply andb_true_iff in T. destruct T as [T _]. apply andb_true_iff in T. apply T.
Qed.

(* every datastore read call site of the engines and commands forwards the request's preference *)
Lemma reads_forward_consistency_gen : forallb read_ok c10_reads = true.
Proof. vm_compute. reflexivity. Qed.

(* the table is not empty where it matters: the read sites of both engines (the recursive ones
   included), of ListObjects (reverse expansion, pipeline) and of ListUsers are in it *)
Lemma reads_not_vacuous :
  forallb (fun fm => has_read (fst fm) (snd fm))
    [("Resolver.resolveRecursiveTTU", "Read"); ("Resolver.resolveRecursiveUserset", "ReadUsersetTuples");
     ("Resolver.ttu", "Read"); ("Resolver.specificType", "ReadUserTuple");
     ("Resolver.specificTypeAndRelation", "ReadUsersetTuples"); ("Resolver.specificTypeWildcard", "ReadUsersetTuples");
     ("Recursive.buildTupleMapperForID", "Read"); ("Recursive.buildTupleMapperForID", "ReadUsersetTuples");
     ("bottomUp.specificType", "ReadStartingWithUser");
     ("LocalChecker.checkTTU", "Read"); ("LocalChecker.checkDirectUserTuple", "ReadUserTuple");
     ("LocalChecker.checkPublicAssignable", "ReadUsersetTuples");
     ("buildRecursiveMapper", "Read"); ("buildRecursiveMapper", "ReadUsersetTuples");
     ("IteratorReadUsersetTuples", "ReadUsersetTuples"); ("IteratorReadStartingFromUser", "ReadStartingWithUser");
     ("ValidatingStore.createIterator", "ReadStartingWithUser"); ("ListObjectsQuery.Execute", "WithStoreConsistency");
     ("ReverseExpandQuery.readTuplesAndExecute", "ReadStartingWithUser");
     ("ReverseExpandQuery.buildFilteredIterator", "ReadStartingWithUser");
     ("listUsersQuery.expandDirect", "Read"); ("listUsersQuery.expandTTU", "Read")]%string = true.
Proof. vm_compute. reflexivity. Qed.

(* ================================================================================================ *)
(* 2. the machine                                                                                    *)

Definition has_set (t : list c10_ev) : bool := existsb (fun e => is_ev e CacheSet) t.

Lemma nowrite_no_set t : clean bad_hi_w t = true -> has_set t = false /\ clean bad_hi t = true.
Proof.
  induction t as [| e t IH]; simpl; intros H; [split; reflexivity |].
  apply andb_true_iff in H. destruct H as [He Ht]. destruct (IH Ht) as [A B].
  unfold bad_hi_w in He. apply negb_true_iff in He. apply orb_false_iff in He. destruct He as [He1 He2].
  split.
  - unfold has_set in *. simpl. rewrite He2. exact A.
  - unfold clean in *. simpl. rewrite He1. exact B.
Qed.

Section LayerHi.
  Variable V : Type.
  Variable get : cstate -> option V.
  Variable set : V -> cstate -> cstate.
  Variable del : cstate -> cstate.
  Variable dlg : cstate -> V * cstate.
  Variable v0 : V.
  Variable R : cstate -> cstate -> Prop.
  Hypothesis R_refl : forall st, R st st.
  Hypothesis R_trans : forall a b c, R a b -> R b c -> R a c.
  Hypothesis R_chs : forall st ch, R st (set_chs st ch).
  Hypothesis dlg_val : forall st, fst (dlg st) = v0.
  Hypothesis dlg_R : forall st, R st (snd (dlg st)).

  Lemma apply_trace_hi : forall t,
    clean bad_hi t = true ->
    (has_set t = true -> forall st, R st (set v0 st)) ->
    forall cur st,
      (cur = None \/ cur = Some v0) ->
      R st (snd (apply_trace V get set del dlg t cur st)) /\
      (fst (apply_trace V get set del dlg t cur st) = Some v0 \/
       (fst (apply_trace V get set del dlg t cur st) = None /\ has_deleg t = false)).
  Proof.
    induction t as [| e t IH]; intros Hc Hs cur st Hcur; simpl.
    - split; [apply R_refl |]. destruct Hcur as [-> | ->]; [right; split; reflexivity | left; reflexivity].
    - unfold clean in Hc. simpl in Hc. apply andb_true_iff in Hc. destruct Hc as [He Ht].
      destruct e; simpl in He; try discriminate.
      + (* CacheSet *)
        assert (Hs' : has_set t = true -> forall st, R st (set v0 st)).
        { intros H. apply Hs. unfold has_set. simpl. reflexivity. }
        destruct Hcur as [-> | ->].
        * apply (IH Ht Hs' None st). left; reflexivity.
        * destruct (IH Ht Hs' (Some v0) (set v0 st)) as [A B]; [right; reflexivity |].
          split; [| exact B].
          eapply R_trans; [| exact A]. apply Hs. unfold has_set. simpl. reflexivity.
      + (* Delegate *)
        assert (Hs' : has_set t = true -> forall st, R st (set v0 st)).
        { intros H. apply Hs. unfold has_set in *. simpl. exact H. }
        pose proof (dlg_val st) as Dv. pose proof (dlg_R st) as Dr.
        destruct (dlg st) as [v st1]. simpl in Dv, Dr. subst v.
        destruct (IH Ht Hs' (Some v0) st1) as [A B]; [right; reflexivity |].
        split; [eapply R_trans; eauto |].
        destruct B as [B | [B _]]; [left; exact B |].
        (* a trace that starts from Some v0 never ends with None *)
        exfalso. clear - B Ht Hs' IH.
        revert B. generalize st1. clear st1.
        assert (G : forall t cur st, cur <> None -> fst (apply_trace V get set del dlg t cur st) <> None).
        { clear. induction t as [| e t IHt]; intros cur st Hn; simpl; [exact Hn |].
          destruct e; try (apply IHt; exact Hn).
          - apply IHt. destruct (get st); [discriminate | exact Hn].
          - destruct (dlg st) as [v st']. apply IHt. discriminate. }
        intros st1 B. apply (G t (Some v0) st1); [discriminate | exact B].
  Qed.

  Lemma layer_hi p dflt st :
    safe_hi p = true -> delegates_hi p = true ->
    (nowrite_hi p = true \/ forall st, R st (set v0 st)) ->
    fst (layer V get set del dlg p true dflt st) = v0 /\
    R st (snd (layer V get set del dlg p true dflt st)).
  Proof.
    intros Hsafe Hdel Hset. unfold layer.
    pose proof (safe_hi_sound p (chs st) Hsafe) as Hc.
    pose proof (delegates_hi_sound p (chs st) Hdel) as Hd.
    assert (Hs : has_set (trace p true (chs st)) = true -> forall st, R st (set v0 st)).
    { destruct Hset as [Hn | Hr]; [| intros _; exact Hr].
      pose proof (nowrite_hi_sound p (chs st) Hn) as Hw. apply nowrite_no_set in Hw.
      destruct Hw as [Hw _]. rewrite Hw. discriminate. }
    unfold trace in *.
    destruct (run p true (chs st)) as [[t ch'] s]. simpl in *.
    destruct (apply_trace_hi t Hc Hs None (set_chs st ch')) as [A B]; [left; reflexivity |].
    destruct (apply_trace V get set del dlg t None (set_chs st ch')) as [r st']. simpl in *.
    split.
    - destruct B as [-> | [_ B]]; [reflexivity | rewrite Hd in B; discriminate].
    - eapply R_trans; [apply R_chs | exact A].
  Qed.
End LayerHi.

Definition same_caches (a b : cstate) : Prop := qc a = qc b /\ ic a = ic b /\ sh a = sh b.

Lemma same_refl a : same_caches a a.
Proof. repeat split. Qed.
Lemma same_trans a b c : same_caches a b -> same_caches b c -> same_caches a c.
Proof. intros [A1 [A2 A3]] [B1 [B2 B3]]. repeat split; congruence. Qed.
Lemma same_chs a ch : same_caches a (set_chs a ch).
Proof. repeat split. Qed.

Lemma wrappers_ok_iter w : wrappers_ok w = true ->
  forall k, (k = 0 \/ k = 1 \/ k = 2)%N ->
    (nowrite_hi (w_iter w k) = true /\ delegates_hi (w_iter w k) = true) /\
    (nowrite_hi (w_iter2 w k) = true /\ delegates_hi (w_iter2 w k) = true) /\
    (nowrite_hi (w_shared w k) = true /\ delegates_hi (w_shared w k) = true).
Proof.
  unfold wrappers_ok, kinds. intros H k Hk.
  repeat (apply andb_true_iff in H; destruct H as [H ?]).
  simpl in *.
  repeat match goal with Hx : _ && _ = true |- _ => apply andb_true_iff in Hx; destruct Hx end.
  destruct Hk as [-> | [-> | ->]]; repeat split; assumption.
Qed.

Lemma wrappers_ok_query w : wrappers_ok w = true ->
  safe_hi (w_query w) = true /\ delegates_hi (w_query w) = true /\
  safe_hi (w_edge w) = true /\ delegates_hi (w_edge w) = true.
Proof.
  unfold wrappers_ok. intros H.
  repeat (apply andb_true_iff in H; destruct H as [H ?]).
  repeat split; assumption.
Qed.

Lemma nowrite_safe p : nowrite_hi p = true -> safe_hi p = true.
Proof.
  unfold nowrite_hi, safe_hi.
  assert (G : forall p, fst (flow bad_hi_w p) = true -> fst (flow bad_hi p) = true /\ snd (flow bad_hi p) = snd (flow bad_hi_w p)).
  { clear p. induction p as [| e | a IHa b IHb | lhs h IHh l IHl | a IHa b IHb | q IHq | q IHq | n |]; simpl; intros H;
      try (split; reflexivity).
    - split; [| reflexivity]. unfold bad_hi_w in H. apply negb_true_iff in H. apply orb_false_iff in H.
      destruct H as [H _]. rewrite H. reflexivity.
    - destruct (flow bad_hi_w a) as [oa na] eqn:Fa. destruct (flow bad_hi a) as [oa' na'] eqn:Fa'.
      destruct (flow bad_hi_w b) as [ob nb] eqn:Fb. destruct (flow bad_hi b) as [ob' nb'] eqn:Fb'.
      simpl in *. destruct na.
      + simpl in H. apply andb_true_iff in H. destruct H as [Ha Hb].
        destruct (IHa Ha) as [A1 A2]. destruct (IHb Hb) as [B1 B2]. subst. simpl. split; reflexivity.
      + simpl in H. destruct (IHa H) as [A1 A2]. subst. simpl. split; reflexivity.
    - apply IHh. exact H.
    - destruct (flow bad_hi_w a) as [oa na] eqn:Fa. destruct (flow bad_hi a) as [oa' na'] eqn:Fa'.
      destruct (flow bad_hi_w b) as [ob nb] eqn:Fb. destruct (flow bad_hi b) as [ob' nb'] eqn:Fb'.
      simpl in *. apply andb_true_iff in H. destruct H as [Ha Hb].
      destruct (IHa Ha) as [A1 A2]. destruct (IHb Hb) as [B1 B2]. subst. simpl. split; reflexivity.
    - split; [apply IHq; exact H | reflexivity].
    - split; [apply IHq; exact H | reflexivity]. }
  intros H. apply G. exact H.
Qed.

Section MachineProofs.
  Variable S : Type.
  Variable db : S -> rkey -> rval.
  Variable reads_of : N -> list rkey.
  Variable subs_of : N -> list rval -> list N.
  Variable combine : N -> list rval -> list qval -> qval.
  Variable w : wrappers.
  Hypothesis Wok : wrappers_ok w = true.
  (* read kinds are 0, 1, 2 (Read, ReadUsersetTuples, ReadStartingWithUser) *)
  Hypothesis kinds_ok : forall q k, In k (reads_of q) -> (fst k = 0 \/ fst k = 1 \/ fst k = 2)%N.

  Notation spec := (spec S db reads_of subs_of combine).
  Notation resolve := (resolve S db reads_of subs_of combine w).

  (* ---- the read layers: shared iterator, iterator cache ---- *)
  Lemma read_iter_hi l s k st : (fst k = 0 \/ fst k = 1 \/ fst k = 2)%N ->
    fst (read_iter S db w l true s k st) = db s k /\ same_caches st (snd (read_iter S db w l true s k st)).
  Proof.
    intros Hk. unfold read_iter.
    destruct (wrappers_ok_iter w Wok (fst k) Hk) as [[I1 I2] [[J1 J2] _]].
    destruct (l_iter l); [| split; [reflexivity | apply same_refl]].
    destruct (l_v2 l).
    - apply layer_hi; try assumption; try (intros; apply same_refl); try apply same_trans; try apply same_chs.
      + reflexivity.
      + apply nowrite_safe; assumption.
      + left; assumption.
    - apply layer_hi; try assumption; try (intros; apply same_refl); try apply same_trans; try apply same_chs.
      + reflexivity.
      + apply nowrite_safe; assumption.
      + left; assumption.
  Qed.

  Lemma read_top_hi l s k st : (fst k = 0 \/ fst k = 1 \/ fst k = 2)%N ->
    fst (read_top S db w l true s k st) = db s k /\ same_caches st (snd (read_top S db w l true s k st)).
  Proof.
    intros Hk. unfold read_top.
    destruct (wrappers_ok_iter w Wok (fst k) Hk) as [_ [_ [K1 K2]]].
    destruct (l_shared l && negb (l_v2 l)); [| apply read_iter_hi; exact Hk].
    apply layer_hi; try assumption; try (intros; apply same_refl); try apply same_trans; try apply same_chs.
    - intros st0. apply read_iter_hi; exact Hk.
    - intros st0. apply read_iter_hi; exact Hk.
    - apply nowrite_safe; assumption.
    - left; assumption.
  Qed.

  Lemma read_all_hi l s ks : (forall k, In k ks -> (fst k = 0 \/ fst k = 1 \/ fst k = 2)%N) ->
    forall st, fst (read_all S db w l true s ks st) = map (db s) ks /\
               same_caches st (snd (read_all S db w l true s ks st)).
  Proof.
    unfold read_all.
    induction ks as [| k ks IH]; intros Hk st; simpl.
    - split; [reflexivity | apply same_refl].
    - destruct (read_top_hi l s k st (Hk k (or_introl eq_refl))) as [A B].
      destruct (read_top S db w l true s k st) as [v st1]. simpl in *.
      destruct (IH (fun k' H => Hk k' (or_intror H)) st1) as [C D].
      destruct (map_st (read_top S db w l true s) ks st1) as [vs st2]. simpl in *.
      split; [congruence | eapply same_trans; eauto].
  Qed.

  (* ---- the query layer and the engine ---- *)
  (* what a HIGHER_CONSISTENCY request may do to the caches: nothing to the iterator cache and the
     shared iterators; every entry it adds to the query cache is the answer for the store state *)
  Definition hi_effect (fuel : nat) (s : S) (a b : cstate) : Prop :=
    ic a = ic b /\ sh a = sh b /\ qc_fresh S db reads_of subs_of combine fuel s (qc a) (qc b).

  Lemma hi_effect_refl fuel s a : hi_effect fuel s a a.
  Proof. repeat split. intros k v H. left; exact H. Qed.

  Lemma hi_effect_trans fuel s a b c : hi_effect fuel s a b -> hi_effect fuel s b c -> hi_effect fuel s a c.
  Proof.
    intros [A1 [A2 A3]] [B1 [B2 B3]]. repeat split; try congruence.
    intros k v H. destruct (B3 k v H) as [H1 | H1]; [apply A3; exact H1 | right; exact H1].
  Qed.

  Lemma hi_effect_chs fuel s a ch : hi_effect fuel s a (set_chs a ch).
  Proof. repeat split. intros k v H. left; exact H. Qed.

  Lemma hi_effect_mono f1 f2 s a b : (f1 <= f2)%nat -> hi_effect f1 s a b -> hi_effect f2 s a b.
  Proof.
    intros Hle [A1 [A2 A3]]. repeat split; try assumption.
    intros k v H. destruct (A3 k v H) as [H1 | [f [Hf Hv]]]; [left; exact H1 |].
    right. exists f. split; [lia | exact Hv].
  Qed.

  Lemma same_hi_effect fuel s a b : same_caches a b -> hi_effect fuel s a b.
  Proof.
    intros [A1 [A2 A3]]. repeat split; try assumption.
    intros k v H. left. rewrite A1. exact H.
  Qed.

  Lemma query_layer_hi fuel l s q dlg st :
    (forall st0, fst (dlg st0) = spec fuel s q) ->
    (forall st0, hi_effect fuel s st0 (snd (dlg st0))) ->
    fst (query_layer w l true q dlg st) = spec fuel s q /\
    hi_effect fuel s st (snd (query_layer w l true q dlg st)).
  Proof.
    intros Dv Dr. unfold query_layer.
    destruct (wrappers_ok_query w Wok) as [Q1 [Q2 [E1 E2]]].
    destruct (l_query l); [| split; [apply Dv | apply Dr]].
    assert (Hset : forall st0, hi_effect fuel s st0 (qset q (spec fuel s q) st0)).
    { intros st0. repeat split. intros k v H. simpl in H.
      destruct H as [H | H]; [| left; exact H].
      inversion H; subst. right. exists fuel. split; [lia | reflexivity]. }
    destruct (l_v2 l).
    - apply layer_hi; try assumption.
      + apply hi_effect_refl. + apply hi_effect_trans. + apply hi_effect_chs.
      + right; exact Hset.
    - apply layer_hi; try assumption.
      + apply hi_effect_refl. + apply hi_effect_trans. + apply hi_effect_chs.
      + right; exact Hset.
  Qed.

  Lemma go_hi f l s
        (IH : forall q st, fst (resolve f l true s q st) = spec f s q /\
                           hi_effect f s st (snd (resolve f l true s q st))) :
    forall qs st,
      fst (map_st (resolve f l true s) qs st) = map (spec f s) qs /\
      hi_effect f s st (snd (map_st (resolve f l true s) qs st)).
  Proof.
    induction qs as [| x qs IHq]; intros st; simpl.
    - split; [reflexivity | apply hi_effect_refl].
    - destruct (IH x st) as [A B].
      destruct (resolve f l true s x st) as [v st1]. simpl in *.
      destruct (IHq st1) as [C D].
      destruct (map_st (resolve f l true s) qs st1) as [vs st2].
      simpl in *. split; [congruence | eapply hi_effect_trans; eauto].
  Qed.

  (* the body of one sub-problem (reads, then dispatched sub-problems, then combine) *)
  Lemma body_hi f l s q
        (IH : forall q st, fst (resolve f l true s q st) = spec f s q /\
                           hi_effect f s st (snd (resolve f l true s q st))) :
    forall ltop st0,
      let r := (let (rs, st1) := read_all S db w ltop true s (reads_of q) st0 in
                let (vs, st2) := map_st (resolve f l true s) (subs_of q rs) st1 in
                (combine q rs vs, st2)) in
      fst r = spec (Datatypes.S f) s q /\ hi_effect (Datatypes.S f) s st0 (snd r).
  Proof.
    intros ltop st0.
    destruct (read_all_hi ltop s (reads_of q) (kinds_ok q) st0) as [A B].
    destruct (read_all S db w ltop true s (reads_of q) st0) as [rs st1]. simpl in A, B. subst rs.
    destruct (go_hi f l s IH (subs_of q (map (db s) (reads_of q))) st1) as [C D].
    destruct (map_st (resolve f l true s) (subs_of q (map (db s) (reads_of q))) st1) as [vs st2].
    simpl in *. subst vs. split; [reflexivity |].
    eapply hi_effect_trans; [apply same_hi_effect; exact B |].
    eapply hi_effect_mono; [| exact D]. lia.
  Qed.

  (* bypass of every layer: for EVERY cache state and every resolution of the data-dependent
     conditionals, a HIGHER_CONSISTENCY sub-problem evaluates to the cache-free answer, leaves the
     iterator cache and the shared iterators alone and adds only fresh answers to the query cache *)
  Theorem resolve_hi : forall fuel l s q st,
    fst (resolve fuel l true s q st) = spec fuel s q /\
    hi_effect fuel s st (snd (resolve fuel l true s q st)).
  Proof.
    induction fuel as [| f IH]; intros l s q st.
    - simpl. split; [reflexivity | apply hi_effect_refl].
    - change (resolve (Datatypes.S f) l true s q st) with
        (query_layer w l true q (fun st0 =>
          let (rs, st1) := read_all S db w l true s (reads_of q) st0 in
          let (vs, st2) := map_st (resolve f l true s) (subs_of q rs) st1 in
          (combine q rs vs, st2)) st).
      apply query_layer_hi.
      + intros st0. apply (body_hi f l s q (IH l s) l st0).
      + intros st0. apply (body_hi f l s q (IH l s) l st0).
  Qed.

  Theorem resolve_list_hi : forall fuel ltop lsub s q st,
    fst (resolve_list S db reads_of subs_of combine w fuel ltop lsub true s q st) = spec fuel s q /\
    hi_effect fuel s st (snd (resolve_list S db reads_of subs_of combine w fuel ltop lsub true s q st)).
  Proof.
    intros [| f] ltop lsub s q st.
    - simpl. split; [reflexivity | apply hi_effect_refl].
    - unfold resolve_list.
      apply (body_hi f lsub s q (fun q st => resolve_hi f lsub s q st) ltop st).
  Qed.

  Theorem request_hi : forall c a fuel s q st,
    fst (request S db reads_of subs_of combine w c a fuel true s q st) = spec fuel s q /\
    hi_effect fuel s st (snd (request S db reads_of subs_of combine w c a fuel true s q st)).
  Proof.
    intros c a fuel s q st. destruct a; simpl.
    - apply resolve_hi.
    - apply resolve_hi.
    - apply resolve_list_hi.
    - split; [reflexivity | apply hi_effect_refl].
  Qed.

  (* every history, every configuration, every initial cache content *)
  Theorem hist_hi : forall c fuel h s st hi q s' v,
    In (hi, q, s', v) (run_hist S db reads_of subs_of combine w c fuel h s st) ->
    hi = true -> v = spec fuel s' q.
  Proof.
    induction h as [| o h IH]; intros s st hi q s' v Hin Hhi; simpl in Hin; [contradiction |].
    destruct o as [s1 | a hi1 q1].
    - eapply IH; eauto.
    - destruct (request S db reads_of subs_of combine w c a fuel hi1 s q1 st) as [v1 st1] eqn:Rq.
      simpl in Hin. destruct Hin as [Heq | Hin].
      + inversion Heq; subst. pose proof (request_hi c a fuel s' q st) as [A _].
        rewrite Rq in A. simpl in A. exact A.
      + eapply IH; eauto.
  Qed.
End MachineProofs.

(* ================================================================================================ *)
(* 3. the replay model                                                                               *)

Lemma predict_hi c st r : rq_hi r = true -> rq_fault r = false -> predict c st r = PExact (rq_ref r).
Proof. intros H F. unfold predict, predict0. rewrite H, F. reflexivity. Qed.

Lemma predict_uncached c st r : caches_on c (rq_api r) = false -> rq_fault r = false -> predict c st r = PExact (rq_ref r).
Proof. intros H F. unfold predict, predict0. rewrite H, F. destruct (rq_hi r); reflexivity. Qed.

Lemma predict_fault c st r : rq_hi r = true \/ caches_on c (rq_api r) = false -> rq_fault r = true ->
  predict c st r = PExactOrError (rq_ref r).
Proof.
  intros H F. unfold predict. rewrite F. destruct H as [H | H]; rewrite H; [reflexivity |].
  destruct (rq_hi r); reflexivity.
Qed.

(* every history of writes and requests: a HIGHER_CONSISTENCY request (and every request that passes
   through no cache: ListUsers, or all flags off) is predicted to return the reference answer; when
   the datastore was made to fail during the request, the reference answer or an error -- never
   another decision (in particular not a cached one) *)
Theorem replay_hi_exact : forall c h st r p,
  In (r, p) (predictions c st h) ->
  rq_hi r = true \/ caches_on c (rq_api r) = false ->
  p = if rq_fault r then PExactOrError (rq_ref r) else PExact (rq_ref r).
Proof.
  induction h as [| o h IH]; intros st r p Hin Hr; simpl in Hin; [contradiction |].
  destruct o as [| r1].
  - eapply IH; eauto.
  - destruct Hin as [Heq | Hin].
    + inversion Heq; subst. destruct (rq_fault r) eqn:F.
      * apply predict_fault; assumption.
      * destruct Hr as [Hr | Hr]; [apply predict_hi | apply predict_uncached]; assumption.
    + eapply IH; eauto.
Qed.

(* the verdict of the replay on such a request is 0 exactly when the observed answer is the reference
   (under a fault: the reference or an error) *)
Lemma replay_verdict_hi c st r h :
  rq_hi r = true -> rq_fault r = false ->
  hd 0%N (replay c st (RReq r :: h)) = (if N.eqb (rq_ref r) (rq_obs r) then 0 else 2)%N.
Proof.
  intros H F. simpl. rewrite (predict_hi c st r H F). simpl. rewrite H. simpl.
  destruct (N.eqb (rq_ref r) (rq_obs r)); reflexivity.
Qed.

Lemma replay_verdict_hi_fault c st r h :
  rq_hi r = true -> rq_fault r = true ->
  hd 0%N (replay c st (RReq r :: h)) = (if N.eqb (rq_ref r) (rq_obs r) || is_error (rq_obs r) then 0 else 2)%N.
Proof.
  intros H F. simpl. rewrite (predict_fault c st r (or_introl H) F). simpl. rewrite H. simpl.
  destruct (N.eqb (rq_ref r) (rq_obs r) || is_error (rq_obs r)); reflexivity.
Qed.

(* a HIGHER_CONSISTENCY Check refreshes the top-level entry of the default engine's query cache: the
   next cached request for the same key is predicted to return what the HIGHER request returned *)
Lemma replay_hi_refreshes c st r r' :
  rq_hi r = true -> top_tracked c r = true -> storable (rq_obs r) = true ->
  rq_hi r' = false -> top_tracked c r' = true -> r_ctrl c = false -> rq_key r' = rq_key r ->
  rq_fault r' = false ->
  predict c (rstep c st (RReq r)) r' = PExact (rq_obs r).
Proof.
  intros H1 H2 H3 H4 H5 H6 H7 H8. unfold predict, predict0, rstep. rewrite H8. rewrite H1, H2, H3, H4, H5, H6. simpl.
  assert (Hc : caches_on c (rq_api r') = true).
  { unfold top_tracked in H5. apply andb_true_iff in H5. destruct H5 as [H5 _].
    apply andb_true_iff in H5. destruct H5 as [Hck Hq]. unfold caches_on. rewrite Hck, Hq. reflexivity. }
  rewrite Hc. simpl. rewrite H7, N.eqb_refl. reflexivity.
Qed.

(* ================================================================================================ *)
(* 4. the statements of Props/C10.v, instantiated with the skeletons generated from the Go source    *)

Section Final.
  Variable S : Type.
  Variable db : S -> rkey -> rval.
  Variable reads_of : N -> list rkey.
  Variable subs_of : N -> list rval -> list N.
  Variable combine : N -> list rval -> list qval -> qval.
  Hypothesis kinds_ok : forall q k, In k (reads_of q) -> (fst k = 0 \/ fst k = 1 \/ fst k = 2)%N.

  Lemma higher_consistency_fresh_gen : forall c fuel h s st hi q s' v,
    In (hi, q, s', v) (run_hist S db reads_of subs_of combine gen_wrappers c fuel h s st) ->
    hi = true -> v = spec S db reads_of subs_of combine fuel s' q.
  Proof. apply hist_hi; [exact gen_wrappers_ok | exact kinds_ok]. Qed.

  Lemma higher_consistency_does_not_poison_gen : forall c a fuel s q st,
    let st' := snd (request S db reads_of subs_of combine gen_wrappers c a fuel true s q st) in
    ic st' = ic st /\ sh st' = sh st /\
    forall k v, In (k, v) (qc st') ->
      In (k, v) (qc st) \/ exists f, (f <= fuel)%nat /\ v = spec S db reads_of subs_of combine f s k.
  Proof.
    intros c a fuel s q st st'.
    destruct (request_hi S db reads_of subs_of combine gen_wrappers gen_wrappers_ok kinds_ok c a fuel s q st) as [_ [A [B C]]].
    subst st'. repeat split; [symmetry; exact A | symmetry; exact B | exact C].
  Qed.
End Final.

Lemma bypass_dominates_gen :
  forallb row_ok c10_table = true /\
  forall r ch, In r c10_table ->
    forallb (fun e => negb (bad_hi e)) (trace (c10_body r) true ch) = true.
Proof. split; [exact table_ok_true | exact table_hi_no_access]. Qed.

(* ---- non-vacuity: a concrete engine, a stale cache, all flags on ---- *)
(* store = the list of object ids user u is related to; query q = "is u related to q": one read, no
   sub-problem *)
Definition ex_db (s : list N) (k : rkey) : rval := if existsb (N.eqb (snd k)) s then [1%N] else [].
Definition ex_reads (q : N) : list rkey := [(0%N, q)].
Definition ex_subs (_ : N) (_ : list rval) : list N := [].
Definition ex_combine (_ : N) (rs : list rval) (_ : list qval) : qval :=
  Some (existsb (fun r : rval => match r with [] => false | _ => true end) rs).
Definition ex_cfg : config := mkCfg true true true true true false.
(* the cache still says "allowed" for object 5 (and holds its tuple) although the tuple was deleted *)
Definition ex_stale : cstate := mkC [(5%N, Some true)] [((0%N, 5%N), [1%N])] [] [true; true; true; true; true; true].

Lemma ex_kinds : forall q k, In k (ex_reads q) -> (fst k = 0 \/ fst k = 1 \/ fst k = 2)%N.
Proof. intros q k [H | []]. subst. left; reflexivity. Qed.

Lemma ex_cached_request_is_stale :
  fst (request (list N) ex_db ex_reads ex_subs ex_combine gen_wrappers ex_cfg ACheck 3 false [] 5%N ex_stale) = Some true.
Proof. vm_compute. reflexivity. Qed.

Lemma ex_higher_request_is_fresh :
  fst (request (list N) ex_db ex_reads ex_subs ex_combine gen_wrappers ex_cfg ACheck 3 true [] 5%N ex_stale) = Some false /\
  spec (list N) ex_db ex_reads ex_subs ex_combine 3 [] 5%N = Some false.
Proof. vm_compute. split; reflexivity. Qed.

(* and (when the delegate reports neither an error nor a cycle: the remaining conditionals resolved
   to false) it refreshes the query cache entry, leaving the iterator cache alone *)
Lemma ex_higher_request_refreshes :
  let st' := snd (request (list N) ex_db ex_reads ex_subs ex_combine gen_wrappers ex_cfg ACheck 3 true [] 5%N (set_chs ex_stale [])) in
  qlook (qc st') 5%N = Some (Some false) /\ ic st' = ic ex_stale.
Proof. vm_compute. split; reflexivity. Qed.

(* replay model: the three kinds of prediction occur *)
Definition ex_rcfg : rcfg := mkR true true false false false false.
Definition ex_hist : list rop :=
  [RReq (mkReq 0 false 7 1 1 [] false);      (* cached Check: allowed, stored *)
   RWrite;                          (* the tuple is deleted *)
   RReq (mkReq 0 false 7 0 1 [] false);      (* cached Check: top-level hit, stale `allowed` is what the code returns *)
   RReq (mkReq 0 false 8 0 1 [] false);      (* another cached Check after the write: sub-caches may be stale *)
   RReq (mkReq 0 true 7 0 0 [] false);       (* HIGHER_CONSISTENCY: must be the reference answer; refreshes *)
   RReq (mkReq 0 false 7 0 0 [] false)].     (* cached Check after the refresh: the refreshed entry *)

Lemma ex_replay :
  map snd (predictions ex_rcfg rs0 ex_hist) = [PExact 1; PExact 1; PAnyAnswer; PExact 0; PExact 0]%N /\
  replay ex_rcfg rs0 ex_hist = [0; 0; 0; 0; 0]%N /\
  replay ex_rcfg rs0 [RReq (mkReq 0 false 7 1 1 [] false); RWrite; RReq (mkReq 0 true 7 0 1 [] false)] = [0; 2]%N /\
  (* HIGHER_CONSISTENCY under an injected datastore fault: an error (code 5) is fine, the current
     answer is fine, the old cached decision is a violation *)
  replay ex_rcfg rs0 [RReq (mkReq 0 false 7 1 1 [] false); RWrite; RReq (mkReq 0 true 7 0 5 [] true);
                      RReq (mkReq 0 true 7 0 0 [] true); RReq (mkReq 0 true 7 0 1 [] true)] = [0; 0; 0; 2]%N.
Proof. vm_compute. repeat split; reflexivity. Qed.
