(* Executable model of the ADMISSION step of the shared-iterator layer
   (pkg/storage/storagewrappers/sharediterator/shared_iterator_datastore.go: the LoadOrStore of a
   storageItem, storageItem.unwrap with its sync.Once, and the CompareAndDelete on error).
   Definitions only.

   A request that finds no item for its key stores a new one and becomes its CREATOR: the item's
   producer (the read on the layer below) runs once, under the creator's context.  A request that
   finds an item JOINS it: it waits for the same Once and receives the SAME result.  In the code
   that exists the result includes the creator's context error (the bounded reader below returns
   ctx.Err() of the context it was called with), so a joiner whose own context is alive is told
   "context canceled" (finding shared_admission_cancel_leak). *)
From OFGA Require Export Cache.CachedIter.
Open Scope N_scope.

Inductive ares := AOk | AErr (e : errk).

Record aitem := mkAI {
  ai_result : option ares;     (* None: the producer has not run yet *)
  ai_from_ctx : bool;          (* the stored error is the creator's context error *)
  ai_dserr : bool              (* the stored error is the datastore's *) }.

Record areq := mkAR { ar_item : nat; ar_joiner : bool }.

Record astate := mkAS {
  as_items : list aitem;             (* every item ever created; requests keep their pointer *)
  as_map : list (N * nat);           (* the sync.Map: key |-> item *)
  as_reqs : list (N * areq) }.

Definition ainit : astate := mkAS [] [] [].

Inductive aop :=
| AArrive (r : N) (k : N)                                   (* LoadOrStore *)
| AProduce (k : N) (cerr : option errk) (oe : option errk)  (* the creator's once.Do runs the producer:
                                                               cerr = the creator's context is dead,
                                                               oe = the datastore fails *)
| AReturn (r : N) (live : bool).                            (* request r comes back from unwrap; live = its
                                                               own context is alive *)

Inductive aout :=
| ANone
| ABlocked
| ARes (res : ares) (own_live : bool) (joiner : bool) (from_ctx : bool) (dserr : bool).

Definition astep (st : astate) (o : aop) : astate * aout :=
  match o with
  | AArrive r k =>
      match alist_get k (as_map st) with
      | Some id => (mkAS (as_items st) (as_map st) (alist_set r (mkAR id true) (as_reqs st)), ANone)
      | None =>
          let id := length (as_items st) in
          (mkAS (as_items st ++ [mkAI None false false]) (alist_set k id (as_map st))
                (alist_set r (mkAR id false) (as_reqs st)), ANone)
      end
  | AProduce k cerr oe =>
      match alist_get k (as_map st) with
      | Some id =>
          match nth_error (as_items st) id with
          | Some (mkAI None _ _) =>
              let it := match cerr, oe with
                        | Some e, _ => mkAI (Some (AErr e)) true false
                        | None, Some e => mkAI (Some (AErr e)) false true
                        | None, None => mkAI (Some AOk) false false
                        end in
              (mkAS (upd_nth id it (as_items st)) (as_map st) (as_reqs st), ANone)
          | _ => (st, ANone)
          end
      | None => (st, ANone)
      end
  | AReturn r live =>
      match alist_get r (as_reqs st) with
      | Some rq =>
          match nth_error (as_items st) (ar_item rq) with
          | Some (mkAI (Some x) fc de) =>
              (* the creator's own context is dead whenever the stored error is its context error *)
              let own := if ar_joiner rq then live else live && negb fc in
              let st' := match x with
                         | AErr _ =>
                             if ar_joiner rq then st   (* CompareAndDelete(key, newStorageItem): not the stored value *)
                             else mkAS (as_items st)
                                       (filter (fun kv => negb (Nat.eqb (snd kv) (ar_item rq))) (as_map st))
                                       (as_reqs st)
                         | AOk => st
                         end in
              (st', ARes x own (ar_joiner rq) fc de)
          | _ => (st, ABlocked)
          end
      | None => (st, ABlocked)
      end
  end.

Fixpoint arun (st : astate) (h : list aop) : list aout :=
  match h with
  | [] => []
  | o :: h' => let '(st1, x) := astep st o in x :: arun st1 h'
  end.

(* what C09 asks of the admission step: a request whose own context is alive, over a datastore that
   does not fail, gets its iterator *)
Definition aout_ok (x : aout) : bool :=
  match x with
  | ARes res true _ _ false => match res with AOk => true | AErr _ => false end
  | _ => true
  end.

(* the trigger of the finding: a live joiner is handed the creator's context error *)
Definition aout_leak (x : aout) : bool :=
  match x with ARes (AErr _) true true true _ => true | _ => false end.

(* no producer runs under a dead context *)
Definition no_dead_producer (h : list aop) : bool :=
  forallb (fun o => match o with AProduce _ (Some _) _ => false | _ => true end) h.
