(* Proofs about the iterator-cache model (C09). *)
From OFGA Require Import Cache.CachedIter.
From Coq Require Import Lia.
Open Scope N_scope.

(* ========================================================================================== *)
(* 1. Field elision and reconstruction                                                         *)

Lemma is_nil_true b : is_nil b = true -> b = [].
Proof. destruct b; simpl; congruence. Qed.

Lemma fill_elide kf v : key_agrees kf v = true -> fill_field kf (elide_field kf v) = v.
Proof.
  unfold key_agrees, fill_field, elide_field. intro H.
  destruct (is_nil kf) eqn:E; simpl in *.
  - reflexivity.
  - apply beqb_eq in H. exact H.
Qed.

Lemma split_build o t id :
  mem c_colon o = true -> split_object o = (t, id) -> build_object t id = o.
Proof.
  unfold split_object, build_object. intros Hm H.
  destruct (cut c_colon o) as [[a b]|] eqn:E.
  - inversion H; subst. apply cut_some in E. destruct E as [-> _]. reflexivity.
  - apply cut_none in E. congruence.
Qed.

Lemma mem_mid c (a b : bytes) : mem c (a ++ c :: b) = true.
Proof. rewrite mem_app. simpl mem. rewrite N.eqb_refl. simpl. apply orb_true_r. Qed.

Lemma user_parts_rt u t id r :
  user_rt_ok u = true -> to_user_parts u = (t, id, r) -> from_user_parts t id r = u.
Proof.
  unfold user_rt_ok, to_user_parts, from_user_parts, split_object_relation, split_object.
  intros Hok H.
  destruct (cut_last c_hash u) as [[o r0]|] eqn:E1.
  - apply cut_last_some in E1. destruct E1 as [Hu Hr0].
    destruct (cut c_colon o) as [[t0 id0]|] eqn:E2.
    + inversion H; subst t0 id0 r0. clear H.
      apply cut_some in E2. destruct E2 as [Ho Ht].
      assert (Hh : mem c_hash u = true).
      { rewrite Hu. apply mem_mid. }
      assert (Hc : mem c_colon o = true).
      { rewrite Ho. apply mem_mid. }
      rewrite Hh, Hc in Hok. simpl in Hok. apply andb_true_iff in Hok as [Hr Ht'].
      destruct r as [|r1 r']; [discriminate|]. destruct t as [|t1 t']; [discriminate|].
      rewrite Hu, Ho. rewrite <- !app_assoc. reflexivity.
    + inversion H; subst t id r0. clear H.
      assert (Hh : mem c_hash u = true).
      { rewrite Hu. apply mem_mid. }
      rewrite Hh in Hok. simpl in Hok. apply andb_true_iff in Hok as [Hr _].
      destruct r as [|r1 r']; [discriminate|]. simpl. rewrite Hu. reflexivity.
  - destruct (cut c_colon u) as [[t0 id0]|] eqn:E2.
    + inversion H; subst t0 id0 r. clear H.
      apply cut_some in E2. destruct E2 as [Ho Ht].
      assert (Hc : mem c_colon u = true).
      { rewrite Ho. apply mem_mid. }
      rewrite Hc in Hok. simpl in Hok. apply andb_true_iff in Hok as [_ Ht'].
      destruct t as [|t1 t']; [discriminate|].
      rewrite Ho. rewrite app_nil_r. rewrite <- app_assoc. reflexivity.
    + inversion H; subst. simpl. apply app_nil_r.
Qed.

Lemma cond_ctx_id cname cctx :
  negb (is_nil cname) || is_nil cctx = true -> cond_ctx cname cctx = cctx.
Proof.
  unfold cond_ctx. destruct (is_nil cname) eqn:E; simpl; [|reflexivity].
  intro H. apply is_nil_true in H. congruence.
Qed.

Lemma elide_reconstruct_id_lemma k t :
  consistent k t = true -> reconstruct k (elide k t) = t.
Proof.
  unfold consistent, elide, reconstruct.
  destruct (split_object (t_obj t)) as [ot oid] eqn:Eo.
  destruct (to_user_parts (t_user t)) as [[ut uid] ur] eqn:Eu.
  intro H.
  apply andb_true_iff in H as [H Hcond]. apply andb_true_iff in H as [H Hrt].
  apply andb_true_iff in H as [H Hut]. apply andb_true_iff in H as [H Hrel].
  apply andb_true_iff in H as [H Hoid]. apply andb_true_iff in H as [Hcol Hot].
  simpl. rewrite !fill_elide by assumption.
  rewrite (split_build _ _ _ Hcol Eo).
  rewrite (user_parts_rt _ _ _ _ Hrt Eu).
  rewrite cond_ctx_id by assumption.
  destruct t; reflexivity.
Qed.

Lemma minimal_reconstruct_id_lemma k t :
  consistent2 k t = true -> reconstruct2 k (minimal t) = strip_ts t.
Proof.
  unfold consistent2, reconstruct2, minimal, strip_ts, extract_object_id, split_object.
  destruct (cut c_colon (t_obj t)) as [[a b]|] eqn:E; intro H;
    apply andb_true_iff in H as [H Hcond]; apply andb_true_iff in H as [H Hrel];
    apply andb_true_iff in H as [Hcol Hot].
  - simpl. apply cut_some in E. destruct E as [Ho _].
    apply beqb_eq in Hot. apply beqb_eq in Hrel.
    rewrite cond_ctx_id by assumption. rewrite Hot, Hrel, <- Ho. reflexivity.
  - apply cut_none in E. congruence.
Qed.

Lemma map_reconstruct_elide k l :
  forallb (consistent k) l = true -> map (reconstruct k) (map (elide k) l) = l.
Proof.
  induction l as [|t l IH]; simpl; intro H; [reflexivity|].
  apply andb_true_iff in H as [H1 H2]. rewrite elide_reconstruct_id_lemma, IH by assumption. reflexivity.
Qed.

Lemma map_reconstruct2_minimal k l :
  forallb (consistent2 k) l = true -> map (reconstruct2 k) (map minimal l) = map strip_ts l.
Proof.
  induction l as [|t l IH]; simpl; intro H; [reflexivity|].
  apply andb_true_iff in H as [H1 H2]. rewrite minimal_reconstruct_id_lemma, IH by assumption. reflexivity.
Qed.

(* ========================================================================================== *)
(* 2. Association lists, upd_nth, firstn                                                       *)

Lemma alist_get_del_same {A} k (l : list (N * A)) : alist_get k (alist_del k l) = None.
Proof.
  induction l as [|[k' v] l IH]; simpl; [reflexivity|].
  destruct (N.eqb k' k) eqn:E; [exact IH|]. simpl. rewrite E. exact IH.
Qed.

Lemma alist_get_del_other {A} k k' (l : list (N * A)) :
  k' <> k -> alist_get k (alist_del k' l) = alist_get k l.
Proof.
  intro Hne. induction l as [|[k0 v] l IH]; simpl; [reflexivity|].
  destruct (N.eqb k0 k') eqn:E.
  - apply N.eqb_eq in E. subst k0. rewrite IH.
    destruct (N.eqb k' k) eqn:E2; [apply N.eqb_eq in E2; congruence|reflexivity].
  - simpl. rewrite IH. reflexivity.
Qed.

Lemma alist_get_del_some {A} k k' (l : list (N * A)) v :
  alist_get k (alist_del k' l) = Some v -> alist_get k l = Some v.
Proof.
  destruct (N.eq_dec k' k) as [->|Hne].
  - rewrite alist_get_del_same. discriminate.
  - rewrite alist_get_del_other by assumption. auto.
Qed.

Lemma alist_get_set {A} k k' (v : A) l :
  alist_get k (alist_set k' v l) = if N.eqb k' k then Some v else alist_get k l.
Proof.
  unfold alist_set. simpl. destruct (N.eqb k' k) eqn:E; [reflexivity|].
  apply alist_get_del_other. intro; subst. rewrite N.eqb_refl in E. discriminate.
Qed.

Lemma Forall_upd_nth {A} (P : A -> Prop) n x l :
  Forall P l -> P x -> Forall P (upd_nth n x l).
Proof.
  revert n; induction l as [|y l IH]; intros n Hl Hx; destruct n; simpl; try constructor;
    inversion Hl; subst; auto.
Qed.

Lemma Forall_nth_error {A} (P : A -> Prop) l n x :
  Forall P l -> nth_error l n = Some x -> P x.
Proof.
  intros Hl Hn. apply nth_error_In in Hn. rewrite Forall_forall in Hl. auto.
Qed.

Lemma nth_error_upd_same {A} n (x y : A) l :
  nth_error l n = Some y -> nth_error (upd_nth n x l) n = Some x.
Proof.
  revert n; induction l as [|z l IH]; intros [|n]; simpl; intro H; try discriminate; auto.
Qed.

Lemma nth_error_upd_other {A} n m (x : A) l :
  n <> m -> nth_error (upd_nth n x l) m = nth_error l m.
Proof.
  revert n m; induction l as [|z l IH]; intros [|n] [|m] H; simpl; try reflexivity; try congruence.
  apply IH. congruence.
Qed.

Lemma upd_nth_none {A} n (x : A) l : nth_error l n = None -> upd_nth n x l = l.
Proof.
  revert n; induction l as [|z l IH]; intros [|n]; simpl; intro H; try reflexivity; try discriminate.
  rewrite IH by assumption. reflexivity.
Qed.

Lemma firstn_snoc {A} (l : list A) n t :
  nth_error l n = Some t -> firstn (S n) l = firstn n l ++ [t].
Proof.
  revert n; induction l as [|x l IH]; intros [|n]; simpl; intro H; try discriminate.
  - inversion H; reflexivity.
  - rewrite <- IH by assumption. reflexivity.
Qed.

Lemma nth_error_none_len {A} (l : list A) n :
  nth_error l n = None -> (n <= length l)%nat -> n = length l.
Proof. intros H1 H2. apply nth_error_None in H1. lia. Qed.

Lemma firstn_length_self {A} (l : list A) n : (n <= length l)%nat -> length (firstn n l) = n.
Proof. intro H. rewrite firstn_length. lia. Qed.

(* ========================================================================================== *)
(* 3. The inner iterator                                                                       *)

Definition inner_good (fullk : list tuple) (inn : inner) : Prop :=
  in_items inn = fullk /\ in_lossy inn = false /\ (in_pos inn <= length fullk)%nat.

Lemma inner_call_spec fullk b c inn inn' r :
  inner_good fullk inn -> inner_call b c inn = (inn', r) ->
  inner_good fullk inn' /\ in_stopped inn' = in_stopped inn /\
  match r with
  | RItem t => nth_error fullk (in_pos inn) = Some t /\
               in_pos inn' = (if b then S (in_pos inn) else in_pos inn) /\ in_stopped inn = false
  | RDone => in_pos inn' = in_pos inn /\ (in_stopped inn = false -> in_pos inn = length fullk)
  | RErr _ => in_pos inn' = in_pos inn
  end.
Proof.
  intros (Hi & Hl & Hp) H. subst fullk. unfold inner_call in H.
  destruct (ctx_err c) as [e|].
  { inversion H; subst. unfold inner_good. auto. }
  destruct (in_stopped inn) eqn:Es.
  { inversion H; subst. unfold inner_good. repeat split; auto. discriminate. }
  assert (Hgen : forall sc, 
    match nth_error (in_items inn) (in_pos inn) with
    | Some t => (in_with inn (if b then S (in_pos inn) else in_pos inn) sc, RItem t)
    | None => (in_with inn (in_pos inn) sc, RDone)
    end = (inn', r) ->
    inner_good (in_items inn) inn' /\ in_stopped inn' = false /\
    match r with
    | RItem t => nth_error (in_items inn) (in_pos inn) = Some t /\
                 in_pos inn' = (if b then S (in_pos inn) else in_pos inn) /\ false = false
    | RDone => in_pos inn' = in_pos inn /\ (false = false -> in_pos inn = length (in_items inn))
    | RErr _ => in_pos inn' = in_pos inn
    end).
  { intros sc H0. destruct (nth_error (in_items inn) (in_pos inn)) as [t|] eqn:En; inversion H0; subst; clear H0.
    - assert (in_pos inn < length (in_items inn))%nat by (apply nth_error_Some; congruence).
      unfold inner_good; simpl. repeat split; auto. destruct b; lia.
    - unfold inner_good; simpl. repeat split; auto. intros _.
      apply nth_error_none_len; assumption. }
  destruct (in_script inn) as [|[e|] sc] eqn:Esc.
  - simpl in H. apply Hgen with (sc := []).
    destruct (nth_error (in_items inn) (in_pos inn)); exact H.
  - rewrite Hl in H. simpl in H. inversion H; subst; clear H.
    unfold inner_good; simpl. auto.
  - simpl in H. apply Hgen with (sc := sc).
    destruct (nth_error (in_items inn) (in_pos inn)); exact H.
Qed.

Lemma inner_good_stop fullk inn : inner_good fullk inn -> inner_good fullk (in_stop inn).
Proof. unfold inner_good. simpl. auto. Qed.

(* ========================================================================================== *)
(* 4. The world, the invariant                                                                 *)

(* An unchanged store: the answer to a query is a function of its cache key (injectivity of the
   key functions is property C24), and so are the key fields the iterator derives from the query. *)
Record world := mkW { w_full : N -> list tuple; w_kf : variant -> N -> keyf }.

Definition consistent_v (v : variant) : keyf -> tuple -> bool :=
  match v with V1 => consistent | V2 => consistent2 end.
Definition norm_v (v : variant) : tuple -> tuple :=
  match v with V1 => fun t => t | V2 => strip_ts end.

(* every read of the history is answered by the unchanged store through a contract-abiding inner
   iterator (errors do not consume elements), and the store only returns tuples that match the
   query *)
Definition q_ok (W : world) (q : qdesc) : Prop :=
  q_items q = w_full W (q_key q) /\ q_lossy q = false /\
  (bypass q = false ->
   kf_of q = w_kf W (q_var q) (q_key q) /\
   forallb (consistent_v (q_var q) (kf_of q)) (q_items q) = true).

Definition op_ok (W : world) (o : op) : Prop :=
  match o with OOpen q => q_ok W q | _ => True end.

Definition entry_good (W : world) (k : N) (e : centry) : Prop :=
  match e with
  | CE1 recs _ => recs = map (elide (w_kf W V1 k)) (w_full W k)
  | CE2 ms _ => ms = map minimal (w_full W k)
  end.

Definition buf_good (m : miter) (fullk : list tuple) : Prop :=
  match mi_buf m with
  | None => True
  | Some b =>
      let pre := firstn (in_pos (mi_inner m)) fullk in
      match mi_phase m with
      | PFin => True
      | PFg | PBgInit => b = pre
      | _ => match mi_var m with
             | V1 => mi_recs m = map (elide (mi_kf m)) pre
             | V2 => b = pre
             end
      end
  end.

Definition miss_good (W : world) (m : miter) : Prop :=
  let fullk := w_full W (mi_key m) in
  inner_good fullk (mi_inner m) /\
  mi_kf m = w_kf W (mi_var m) (mi_key m) /\
  (mi_closing m = false <-> mi_phase m = PFg) /\
  (mi_phase m <> PFin -> in_stopped (mi_inner m) = false) /\
  (mi_closing m = false -> mi_out m = firstn (in_pos (mi_inner m)) fullk) /\
  mi_out m = firstn (length (mi_out m)) fullk /\
  buf_good m fullk.

Definition hit_good (W : world) (h : hiter) : Prop :=
  hi_items h = map (norm_v (hi_var h)) (w_full W (hi_key h)) /\
  (hi_pos h <= length (hi_items h))%nat /\
  hi_out h = firstn (hi_pos h) (hi_items h).

Definition byp_good (W : world) (k : N) (inn : inner) (o : list tuple) : Prop :=
  let fullk := w_full W k in
  inner_good fullk inn /\
  (in_stopped inn = false -> o = firstn (in_pos inn) fullk) /\
  o = firstn (length o) fullk.

Definition iter_good (W : world) (it : iter) : Prop :=
  match it with
  | IMiss m => miss_good W m
  | IHit h => hit_good W h
  | IBypass k inn o => byp_good W k inn o
  | IDead => True
  end.

Definition cache_good (W : world) (c : list (N * centry)) : Prop :=
  forall k e, alist_get k c = Some e -> entry_good W k e.

Definition writes_good (W : world) (ws : list (N * centry * nat)) : Prop :=
  forall k e mx, In (k, e, mx) ws -> entry_good W k e.

Definition Inv (W : world) (st : state) : Prop :=
  cache_good W (st_cache st) /\ writes_good W (st_writes st) /\ Forall (iter_good W) (st_iters st).

(* what the consumer observes, against the uncached fault-free answer [fullk] *)
Definition res_spec (fullk : list tuple) (nm : tuple -> tuple) (is_next : bool)
           (before after : list tuple) (r : res) : Prop :=
  match r with
  | RErr _ => after = before
  | RDone => after = before /\ map nm before = map nm fullk
  | RItem t => nth_error (map nm fullk) (length before) = Some (nm t) /\
               after = (if is_next then before ++ [t] else before)
  end.

Lemma cache_good_del W c k : cache_good W c -> cache_good W (alist_del k c).
Proof. intros H k' e He. apply alist_get_del_some in He. auto. Qed.

Lemma cache_good_set W c k e : cache_good W c -> entry_good W k e -> cache_good W (alist_set k e c).
Proof.
  intros H He k' e' H'. rewrite alist_get_set in H'.
  destruct (N.eqb k k') eqn:E.
  - apply N.eqb_eq in E. inversion H'; subst. exact He.
  - auto.
Qed.

Lemma find_in_cache_good W v c inval k mk found c' :
  cache_good W c -> find_in_cache v c inval k mk = (found, c') ->
  cache_good W c' /\
  match found with Some e => entry_good W k e /\ entry_is v e = true /\ c' = c | None => True end.
Proof.
  intros Hc H. unfold find_in_cache in H.
  destruct (alist_get k c) as [e|] eqn:Eg.
  - destruct (entry_is v e) eqn:Ev.
    + destruct (is_invalid_at inval (entry_ts e) mk); inversion H; subst.
      * split; [apply cache_good_del; assumption|exact I].
      * split; [assumption|]. repeat split; auto.
    + inversion H; subst. auto.
  - inversion H; subst. auto.
Qed.

Lemma map_id' {A} (l : list A) : map (fun t => t) l = l.
Proof. apply map_id. Qed.

Lemma firstn_full {A} (l : list A) n : n = length l -> firstn n l = l.
Proof. intros ->. apply firstn_all. Qed.

(* ------------------------------------------------------------------------------------------ *)
(* foreground operations of a miss iterator *)

Lemma miss_good_intro W m :
  inner_good (w_full W (mi_key m)) (mi_inner m) ->
  mi_kf m = w_kf W (mi_var m) (mi_key m) ->
  (mi_closing m = false <-> mi_phase m = PFg) ->
  (mi_phase m <> PFin -> in_stopped (mi_inner m) = false) ->
  (mi_closing m = false -> mi_out m = firstn (in_pos (mi_inner m)) (w_full W (mi_key m))) ->
  mi_out m = firstn (length (mi_out m)) (w_full W (mi_key m)) ->
  buf_good m (w_full W (mi_key m)) ->
  miss_good W m.
Proof. unfold miss_good. tauto. Qed.

Lemma miss_next_good W m c m' r :
  miss_good W m -> miss_next m c = (m', r) ->
  miss_good W m' /\ mi_key m' = mi_key m /\ mi_var m' = mi_var m /\ mi_closing m' = mi_closing m /\
  (mi_closing m = false ->
   res_spec (w_full W (mi_key m)) (fun t => t) true (mi_out m) (mi_out m') r).
Proof.
  intros Hg H. unfold miss_next in H.
  destruct (mi_closing m) eqn:Ecl.
  { inversion H; subst. split; [exact Hg|]. split; [reflexivity|]. split; [reflexivity|].
    split; [assumption|]. discriminate. }
  destruct m as [v k mk kf mx inn buf recs cl ini ph o]. simpl in *. subst cl.
  destruct Hg as (Hin & Hkf & Hcl & Hst & Hout & Hpre & Hbuf). simpl in *.
  assert (Hph : ph = PFg) by (apply Hcl; reflexivity). subst ph.
  assert (Hns : in_stopped inn = false) by (apply Hst; discriminate).
  specialize (Hout eq_refl).
  destruct (inner_call true c inn) as [inn' r0] eqn:Ec.
  destruct (inner_call_spec _ _ _ _ _ _ Hin Ec) as (Hin' & Hs' & Hr).
  rewrite Hns in Hs'.
  destruct r0 as [t| |e]; inversion H; subst m' r; clear H; simpl.
  - destruct Hr as (Hn & Hp & _).
    assert (Hlt : (in_pos inn < length (w_full W k))%nat) by (apply nth_error_Some; congruence).
    assert (Ho' : firstn (in_pos inn) (w_full W k) ++ [t] = firstn (in_pos inn') (w_full W k)).
    { rewrite Hp. symmetry. apply firstn_snoc. exact Hn. }
    split; [apply miss_good_intro; simpl|].
    + exact Hin'.
    + exact Hkf.
    + exact Hcl.
    + intros _. exact Hs'.
    + intros _. rewrite Hout. exact Ho'.
    + rewrite Hout, Ho'. rewrite firstn_length_self; [reflexivity|].
      destruct Hin' as (_ & _ & Hle). exact Hle.
    + unfold buf_good in *; simpl in *. destruct buf as [b|]; simpl; [|exact I].
      destruct (over_max v mx (length (b ++ [t]))); [exact I|]. rewrite Hbuf. exact Ho'.
    + split; [reflexivity|]. split; [reflexivity|]. split; [reflexivity|].
      intros _. unfold res_spec. rewrite map_id'. split; [|reflexivity].
      rewrite Hout. rewrite firstn_length_self by lia. exact Hn.
  - destruct Hr as (Hp & Hd).
    split; [apply miss_good_intro; simpl|].
    + exact Hin'.
    + exact Hkf.
    + exact Hcl.
    + intros _. exact Hs'.
    + intros _. rewrite Hp. exact Hout.
    + exact Hpre.
    + unfold buf_good in *; simpl in *. rewrite Hp. exact Hbuf.
    + split; [reflexivity|]. split; [reflexivity|]. split; [reflexivity|].
      intros _. unfold res_spec. split; [reflexivity|]. f_equal.
      rewrite Hout. apply firstn_full. apply Hd. exact Hns.
  - assert (Hgoal : forall b',
       (match b' with None => True | Some b => Some b = buf end) ->
       miss_good W (mkMI v k mk kf mx inn' b' recs false ini PFg o)).
    { intros b' Hb'. apply miss_good_intro; simpl.
      - exact Hin'.
      - exact Hkf.
      - exact Hcl.
      - intros _. exact Hs'.
      - intros _. rewrite Hr. exact Hout.
      - exact Hpre.
      - unfold buf_good in *; simpl in *. destruct b' as [b|]; [|exact I].
        rewrite <- Hb' in Hbuf. rewrite Hr. exact Hbuf. }
    destruct (is_cancel e); simpl.
    + split; [apply Hgoal; simpl; destruct buf; simpl; auto|].
      split; [reflexivity|]. split; [reflexivity|]. split; [reflexivity|]. intros _. reflexivity.
    + split; [apply Hgoal; exact I|].
      split; [reflexivity|]. split; [reflexivity|]. split; [reflexivity|]. intros _. reflexivity.
Qed.

Lemma miss_head_good W m c m' r :
  miss_good W m -> miss_head m c = (m', r) ->
  miss_good W m' /\ mi_key m' = mi_key m /\ mi_var m' = mi_var m /\ mi_closing m' = mi_closing m /\
  mi_out m' = mi_out m /\
  (mi_closing m = false ->
   res_spec (w_full W (mi_key m)) (fun t => t) false (mi_out m) (mi_out m') r).
Proof.
  intros Hg H. unfold miss_head in H.
  destruct (mi_closing m) eqn:Ecl.
  { inversion H; subst. split; [exact Hg|]. split; [reflexivity|]. split; [reflexivity|].
    split; [assumption|]. split; [reflexivity|]. discriminate. }
  destruct m as [v k mk kf mx inn buf recs cl ini ph o]. simpl in *. subst cl.
  destruct Hg as (Hin & Hkf & Hcl & Hst & Hout & Hpre & Hbuf). simpl in *.
  assert (Hph : ph = PFg) by (apply Hcl; reflexivity). subst ph.
  assert (Hns : in_stopped inn = false) by (apply Hst; discriminate).
  specialize (Hout eq_refl).
  destruct (inner_call false c inn) as [inn' r0] eqn:Ec.
  destruct (inner_call_spec _ _ _ _ _ _ Hin Ec) as (Hin' & Hs' & Hr).
  rewrite Hns in Hs'. inversion H; subst m' r; clear H; simpl.
  assert (Hp : in_pos inn' = in_pos inn).
  { destruct r0 as [t| |e]; [destruct Hr as (_ & Hp & _)|destruct Hr as (Hp & _)|]; assumption. }
  split; [apply miss_good_intro; simpl|].
  - exact Hin'.
  - exact Hkf.
  - exact Hcl.
  - intros _. exact Hs'.
  - intros _. rewrite Hp. exact Hout.
  - exact Hpre.
  - unfold buf_good in *; simpl in *. rewrite Hp. exact Hbuf.
  - split; [reflexivity|]. split; [reflexivity|]. split; [reflexivity|]. split; [reflexivity|].
    intros _. destruct r0 as [t| |e]; unfold res_spec.
    + destruct Hr as (Hn & _ & _). rewrite map_id'. split; [|reflexivity].
      assert (Hlt : (in_pos inn < length (w_full W k))%nat) by (apply nth_error_Some; congruence).
      rewrite Hout. rewrite firstn_length_self by lia. exact Hn.
    + destruct Hr as (_ & Hd). split; [reflexivity|]. f_equal.
      rewrite Hout. apply firstn_full. apply Hd. exact Hns.
    + reflexivity.
Qed.

Lemma miss_good_bg W v k mk kf mx inn b recs ini ph o :
  inner_good (w_full W k) inn -> kf = w_kf W v k -> ph <> PFg ->
  (ph <> PFin -> in_stopped inn = false) ->
  o = firstn (length o) (w_full W k) ->
  buf_good (mkMI v k mk kf mx inn b recs true ini ph o) (w_full W k) ->
  miss_good W (mkMI v k mk kf mx inn b recs true ini ph o).
Proof.
  intros H1 H2 H3 H4 H5 H6. apply miss_good_intro; simpl; auto.
  - split; [discriminate|]. intro; contradiction.
  - discriminate.
Qed.

Lemma miss_good_fin W v k mk kf mx inn b recs ini o :
  inner_good (w_full W k) inn -> kf = w_kf W v k ->
  o = firstn (length o) (w_full W k) ->
  miss_good W (mkMI v k mk kf mx inn b recs true ini PFin o).
Proof.
  intros H1 H2 H3. apply miss_good_bg; auto.
  - discriminate.
  - intro H; contradiction H; reflexivity.
  - unfold buf_good; simpl. destruct b; exact I.
Qed.

Lemma miss_stop_good W srv m :
  miss_good W m ->
  miss_good W (miss_stop srv m) /\ mi_out (miss_stop srv m) = mi_out m /\
  mi_key (miss_stop srv m) = mi_key m /\ mi_var (miss_stop srv m) = mi_var m.
Proof.
  intro Hg. unfold miss_stop.
  destruct (mi_closing m) eqn:Ecl; [auto|].
  destruct m as [v k mk kf mx inn buf recs cl ini ph o]. simpl in *. subst cl.
  destruct Hg as (Hin & Hkf & Hcl & Hst & Hout & Hpre & Hbuf). simpl in *.
  assert (Hph : ph = PFg) by (apply Hcl; reflexivity). subst ph.
  assert (Hns : in_stopped inn = false) by (apply Hst; discriminate).
  match goal with |- context [if ?c then _ else _] => destruct c end; simpl.
  - split; [|auto]. apply miss_good_fin; auto; try (apply inner_good_stop; assumption).
  - split; [|auto]. apply miss_good_bg; auto; try discriminate.
Qed.

Lemma strip_ts_idem t : strip_ts (strip_ts t) = strip_ts t.
Proof. reflexivity. Qed.

Lemma norm_v_idem v t : norm_v v (norm_v v t) = norm_v v t.
Proof. destruct v; reflexivity. Qed.

Lemma hit_call_good W b h c h' r :
  hit_good W h -> hit_call b h c = (h', r) ->
  hit_good W h' /\ hi_key h' = hi_key h /\ hi_var h' = hi_var h /\ hi_stopped h' = hi_stopped h /\
  (hi_stopped h = false ->
   res_spec (w_full W (hi_key h)) (norm_v (hi_var h)) b (hi_out h) (hi_out h') r).
Proof.
  intros (Hit & Hpos & Hout) H. unfold hit_call in H.
  destruct (ctx_err c) as [e|].
  { inversion H; subst. repeat split; auto. }
  destruct (hi_stopped h) eqn:Est.
  { inversion H; subst. repeat split; auto. discriminate. }
  destruct (nth_error (hi_items h) (hi_pos h)) as [t|] eqn:En.
  - assert (Hlt : (hi_pos h < length (hi_items h))%nat) by (apply nth_error_Some; congruence).
    assert (Hnm : norm_v (hi_var h) t = t).
    { rewrite Hit in En. rewrite nth_error_map in En.
      destruct (nth_error (w_full W (hi_key h)) (hi_pos h)); simpl in En; [|discriminate].
      inversion En. apply norm_v_idem. }
    assert (Hspec : nth_error (map (norm_v (hi_var h)) (w_full W (hi_key h))) (length (hi_out h))
                    = Some (norm_v (hi_var h) t)).
    { rewrite Hnm, <- Hit, Hout. rewrite firstn_length_self by lia. exact En. }
    destruct b; inversion H; subst h' r; clear H; simpl.
    + split; [|repeat split; auto].
      unfold hit_good; simpl. split; [exact Hit|]. split; [lia|].
      rewrite Hout. symmetry. apply firstn_snoc. exact En.
    + split; [|repeat split; auto]. unfold hit_good. auto.
  - inversion H; subst h' r; clear H.
    split; [unfold hit_good; auto|].
    split; [reflexivity|]. split; [reflexivity|]. split; [assumption|].
    intros _. unfold res_spec. split; [reflexivity|]. rewrite Hout, <- Hit.
    assert (hi_pos h = length (hi_items h)) by (apply nth_error_none_len; assumption).
    rewrite firstn_full by assumption.
    rewrite Hit, map_map. apply map_ext. intro a. apply norm_v_idem.
Qed.

Lemma byp_call_good W b k inn o c inn' r :
  byp_good W k inn o -> inner_call b c inn = (inn', r) ->
  let o' := if b then (match r with RItem t => o ++ [t] | _ => o end) else o in
  byp_good W k inn' o' /\ in_stopped inn' = in_stopped inn /\
  (in_stopped inn = false -> res_spec (w_full W k) (fun t => t) b o o' r).
Proof.
  intros (Hin & Hout & Hpre) Ec.
  destruct (inner_call_spec _ _ _ _ _ _ Hin Ec) as (Hin' & Hs' & Hr).
  destruct r as [t| |e]; simpl.
  - destruct Hr as (Hn & Hp & Hns). specialize (Hout Hns).
    assert (Hlt : (in_pos inn < length (w_full W k))%nat) by (apply nth_error_Some; congruence).
    destruct b.
    + split; [|split; [exact Hs'|]].
      * unfold byp_good. split; [exact Hin'|].
        assert (Ho' : o ++ [t] = firstn (in_pos inn') (w_full W k)).
        { rewrite Hp, Hout. symmetry. apply firstn_snoc. exact Hn. }
        split; [intros _; exact Ho'|].
        rewrite Ho'. rewrite firstn_length_self; [reflexivity|]. destruct Hin' as (_ & _ & Hle). exact Hle.
      * intros _. unfold res_spec. rewrite map_id'. split; [|reflexivity].
        rewrite Hout. rewrite firstn_length_self by lia. exact Hn.
    + split; [|split; [exact Hs'|]].
      * unfold byp_good. split; [exact Hin'|]. split; [|exact Hpre]. intros _. rewrite Hp. exact Hout.
      * intros _. unfold res_spec. rewrite map_id'. split; [|reflexivity].
        rewrite Hout. rewrite firstn_length_self by lia. exact Hn.
  - destruct Hr as (Hp & Hd).
    assert (Hb : byp_good W k inn' o).
    { unfold byp_good. split; [exact Hin'|]. split; [|exact Hpre].
      intro Hs. rewrite Hp. apply Hout. congruence. }
    destruct b; (split; [exact Hb|split; [exact Hs'|]]); intro Hns; unfold res_spec;
      (split; [reflexivity|]); f_equal; rewrite (Hout Hns); apply firstn_full; apply Hd; exact Hns.
  - assert (Hb : byp_good W k inn' o).
    { unfold byp_good. split; [exact Hin'|]. split; [|exact Hpre].
      intro Hs. rewrite Hr. apply Hout. congruence. }
    destruct b; (split; [exact Hb|split; [exact Hs'|]]); intros _; reflexivity.
Qed.

(* ------------------------------------------------------------------------------------------ *)
(* state plumbing *)

Lemma Inv_set_iter W st i it : Inv W st -> iter_good W it -> Inv W (set_iter st i it).
Proof.
  intros (Hc & Hw & Hi) Hit. unfold Inv; simpl. repeat split; auto. apply Forall_upd_nth; assumption.
Qed.

Lemma Inv_push_iter W st it : Inv W st -> iter_good W it -> Inv W (push_iter st it).
Proof.
  intros (Hc & Hw & Hi) Hit. unfold Inv; simpl. repeat split; auto.
  apply Forall_app. split; [assumption|]. constructor; [assumption|constructor].
Qed.

Lemma Inv_set_cache W st c : Inv W st -> cache_good W c -> Inv W (set_cache st c).
Proof. intros (Hc & Hw & Hi) H. unfold Inv; simpl. auto. Qed.

Lemma Inv_set_sf W st sf : Inv W st -> Inv W (set_sf st sf).
Proof. intros (Hc & Hw & Hi). unfold Inv; simpl. auto. Qed.

Lemma Inv_release_sf W st k i : Inv W st -> Inv W (release_sf st k i).
Proof.
  intro H. unfold release_sf. destruct (alist_get k (st_sf st)); [|assumption].
  destruct (Nat.eqb n i); [apply Inv_set_sf|]; assumption.
Qed.

Lemma release_sf_iters st k i : st_iters (release_sf st k i) = st_iters st.
Proof.
  unfold release_sf. destruct (alist_get k (st_sf st)); [|reflexivity].
  destruct (Nat.eqb n i); reflexivity.
Qed.

Lemma Inv_write_cache W st k e mx : Inv W st -> entry_good W k e -> Inv W (write_cache st k e mx).
Proof.
  intros (Hc & Hw & Hi) He. unfold Inv; simpl. repeat split; auto.
  - apply cache_good_set; assumption.
  - intros k' e' mx' Hin. apply in_app_or in Hin as [Hin|Hin]; [eauto|].
    simpl in Hin. destruct Hin as [Hin|[]]. inversion Hin; subst. exact He.
Qed.

Lemma Inv_tick W st : Inv W st -> Inv W (tick st).
Proof. intros (Hc & Hw & Hi). unfold Inv; simpl. auto. Qed.

Lemma Inv_iter W st i it : Inv W st -> nth_error (st_iters st) i = Some it -> iter_good W it.
Proof. intros (_ & _ & Hi) Hn. eapply Forall_nth_error; eassumption. Qed.

(* ------------------------------------------------------------------------------------------ *)
(* background goroutine *)

Definition same_but_buf (m m' : miter) : Prop :=
  mi_var m' = mi_var m /\ mi_key m' = mi_key m /\ mi_markers m' = mi_markers m /\
  mi_kf m' = mi_kf m /\ mi_max m' = mi_max m /\ mi_inner m' = mi_inner m /\
  mi_closing m' = mi_closing m /\ mi_init m' = mi_init m /\ mi_phase m' = mi_phase m /\
  mi_out m' = mi_out m.

Lemma add_to_buffer_spec m t :
  let m' := fst (add_to_buffer m t) in
  same_but_buf m m' /\
  (mi_buf m' = None \/ (mi_buf m' = mi_buf m /\ mi_recs m' = mi_recs m ++ [elide (mi_kf m) t])).
Proof.
  unfold add_to_buffer, same_but_buf. destruct (mi_buf m) eqn:Eb; simpl.
  - destruct (mi_max m <=? length (mi_recs m ++ [elide (mi_kf m) t]))%nat; simpl.
    + repeat split; auto.
    + repeat split; auto.
  - repeat split; auto.
Qed.

Lemma fold_add_spec l : forall m,
  let m' := fold_left (fun mm t => fst (add_to_buffer mm t)) l m in
  same_but_buf m m' /\
  (mi_buf m' = None \/ (mi_buf m' = mi_buf m /\ mi_recs m' = mi_recs m ++ map (elide (mi_kf m)) l)).
Proof.
  induction l as [|t l IH]; intro m; simpl.
  - split; [unfold same_but_buf; repeat split; auto|]. right. rewrite app_nil_r. auto.
  - destruct (add_to_buffer_spec m t) as (Hs & Hb). simpl in Hs, Hb.
    destruct (IH (fst (add_to_buffer m t))) as (Hs' & Hb'). simpl in Hs', Hb'.
    split.
    + unfold same_but_buf in *. intuition congruence.
    + destruct Hb' as [Hn|(Hb1 & Hr1)]; [left; exact Hn|].
      destruct Hb as [Hn|(Hb2 & Hr2)]; [left; congruence|].
      right. split; [congruence|]. rewrite Hr1, Hr2.
      destruct Hs as (_ & _ & _ & Hkf & _). rewrite Hkf. rewrite <- app_assoc. reflexivity.
Qed.

(* flush only ever writes the whole answer *)
Lemma flush_good W st m st1 m2 :
  Inv W st -> miss_good W m -> mi_closing m = true ->
  (mi_phase m = PBgHead \/ mi_phase m = PBgLoop) ->
  in_pos (mi_inner m) = length (w_full W (mi_key m)) ->
  flush st m = (st1, m2) ->
  Inv W st1 /\ st_iters st1 = st_iters st /\ st_sf st1 = st_sf st /\ miss_good W (mi_finish m2) /\
  mi_key m2 = mi_key m /\ mi_out m2 = mi_out m /\ mi_var m2 = mi_var m /\ mi_closing m2 = true.
Proof.
  intros HI Hg Hcl Hph Hpos H.
  destruct m as [v k mk kf mx inn buf recs cl ini ph o]. simpl in *. subst cl.
  destruct Hg as (Hin & Hkf & _ & Hst & _ & Hpre & Hbuf). simpl in *.
  assert (Hfin : forall b' r', miss_good W (mi_finish (mkMI v k mk kf mx inn b' r' true ini ph o))).
  { intros b' r'. unfold mi_finish; simpl. apply miss_good_fin; auto; try (apply inner_good_stop; assumption). }
  unfold flush in H; simpl in H.
  assert (Hrest : forall st' b' r', Inv W st' -> st_iters st' = st_iters st -> st_sf st' = st_sf st ->
     Inv W st' /\ st_iters st' = st_iters st /\ st_sf st' = st_sf st /\
     miss_good W (mi_finish (mkMI v k mk kf mx inn b' r' true ini ph o)) /\
     k = k /\ o = o /\ v = v /\ true = true).
  { intros st' b' r' H1 H2 H3. split; [exact H1|]. split; [exact H2|]. split; [exact H3|].
    split; [apply Hfin|]. auto. }
  destruct v; destruct buf as [b|].
  - destruct (st_srv st); inversion H; subst st1 m2; clear H; simpl.
    + apply Hrest; auto.
    + apply (Hrest (write_cache st k (CE1 recs ini) mx)); try reflexivity.
      apply Inv_write_cache; [assumption|]. simpl.
      unfold buf_good in Hbuf; simpl in Hbuf.
      rewrite Hpos, firstn_all in Hbuf.
      destruct Hph as [-> | ->]; simpl in Hbuf; rewrite Hbuf, Hkf; reflexivity.
  - inversion H; subst st1 m2. apply Hrest; auto.
  - destruct b as [|t b]; inversion H; subst st1 m2; clear H; simpl.
    + apply Hrest; auto.
    + apply (Hrest (write_cache st k (CE2 (map minimal (t :: b)) ini) mx)); try reflexivity.
      apply Inv_write_cache; [assumption|]. simpl.
      unfold buf_good in Hbuf; simpl in Hbuf.
      rewrite Hpos, firstn_all in Hbuf.
      destruct Hph as [-> | ->]; simpl in Hbuf; rewrite <- Hbuf; reflexivity.
  - inversion H; subst st1 m2. apply Hrest; auto.
Qed.

Lemma upd_nth_same {A} n (x : A) l : nth_error l n = Some x -> upd_nth n x l = l.
Proof.
  revert n; induction l as [|y l IH]; intros [|n]; simpl; intro H; try discriminate.
  - inversion H; reflexivity.
  - rewrite IH by assumption. reflexivity.
Qed.

(* what a step may do to the iterator list: replace iterator i by a miss iterator that the consumer
   cannot tell from the old one *)
Definition bg_frame (st st' : state) (i : nat) (m : miter) : Prop :=
  exists m', st_iters st' = upd_nth i (IMiss m') (st_iters st) /\
             mi_out m' = mi_out m /\ mi_key m' = mi_key m /\ mi_closing m' = mi_closing m /\
             mi_var m' = mi_var m.

Lemma bg_frame_refl st i m : nth_error (st_iters st) i = Some (IMiss m) -> bg_frame st st i m.
Proof. intro H. exists m. rewrite upd_nth_same by assumption. auto. Qed.

Ltac frame_with m' := exists m'; simpl; rewrite ?release_sf_iters; auto.

Lemma bg_step_inv W st i m :
  Inv W st -> nth_error (st_iters st) i = Some (IMiss m) ->
  Inv W (fst (bg_step st i m)) /\ bg_frame st (fst (bg_step st i m)) i m.
Proof.
  intros HI Hn.
  assert (Hg : miss_good W m) by (apply (Inv_iter _ _ _ _ HI Hn)).
  destruct m as [v k mk kf mx inn buf recs cl ini ph o].
  pose proof Hg as Hg0.
  destruct Hg as (Hin & Hkf & Hcl & Hst & _ & Hpre & Hbuf). simpl in *.
  assert (Hfin : forall inn' b' r', inner_good (w_full W k) inn' ->
            iter_good W (IMiss (mi_finish (mkMI v k mk kf mx inn' b' r' true ini ph o)))).
  { intros inn' b' r' Hi'. unfold mi_finish; simpl. apply miss_good_fin; auto; try (apply inner_good_stop; assumption). }
  unfold bg_step; simpl.
  destruct ph; simpl.
  - (* PFg *) split; [assumption|apply bg_frame_refl; assumption].
  - (* PBgInit *)
    assert (Ec : cl = true) by (destruct cl; [reflexivity|]; destruct Hcl as [Hcl _]; discriminate (Hcl eq_refl)).
    subst cl.
    assert (Hns : in_stopped inn = false) by (apply Hst; discriminate).
    destruct v.
    + destruct (find_in_cache V1 (st_cache st) (st_inval st) k mk) as [found c'] eqn:Ef.
      destruct HI as (Hc & Hw & Hi).
      destruct (find_in_cache_good _ _ _ _ _ _ _ _ Hc Ef) as (Hc' & _).
      assert (HI1 : Inv W (set_cache st c')) by (unfold Inv; simpl; auto).
      destruct found as [e|].
      * simpl. split; [apply Inv_set_iter; [assumption|apply Hfin; assumption]|].
        frame_with (mi_finish (mkMI V1 k mk kf mx inn None recs true ini PBgInit o)).
      * destruct (is_invalid_at (st_inval st) ini mk); simpl.
        -- split; [apply Inv_set_iter; [assumption|apply Hfin; assumption]|].
           frame_with (mi_finish (mkMI V1 k mk kf mx inn None recs true ini PBgInit o)).
        -- unfold mi_set_recs; simpl.
           set (m0 := mkMI V1 k mk kf mx inn buf [] true ini PBgInit o).
           destruct (fold_add_spec (match buf with Some b => b | None => [] end) m0) as (Hs & Hb).
           simpl in Hs, Hb.
           set (m1 := fold_left (fun mm t => fst (add_to_buffer mm t))
                                (match buf with Some b => b | None => [] end) m0) in *.
           destruct Hs as (Hv & Hk & Hmk & Hkf1 & Hmx & Hinn & Hcl1 & Hini & Hph & Ho).
           destruct m1 as [v1 k1 mk1 kf1 mx1 inn1 buf1 recs1 cl1 ini1 ph1 o1]. simpl in *.
           subst v1 k1 mk1 kf1 mx1 inn1 cl1 ini1 ph1 o1.
           split.
           ++ apply Inv_set_iter; [assumption|]. simpl. apply miss_good_bg; auto; try discriminate.
              unfold buf_good; simpl. destruct buf1 as [b1|]; [|exact I].
              destruct Hb as [Hb|(Hb1 & Hr1)]; [discriminate|].
              unfold buf_good in Hbuf; simpl in Hbuf. rewrite <- Hb1 in Hbuf. simpl in Hbuf.
              rewrite Hr1. rewrite <- Hb1. simpl. rewrite Hbuf. reflexivity.
           ++ frame_with (mkMI V1 k mk kf mx inn buf1 recs1 true ini PBgHead o).
    + assert (Hhead : Inv W (set_iter st i (IMiss (mkMI V2 k mk kf mx inn buf recs true ini PBgHead o))) /\
                      bg_frame st (set_iter st i (IMiss (mkMI V2 k mk kf mx inn buf recs true ini PBgHead o))) i
                               (mkMI V2 k mk kf mx inn buf recs true ini PBgInit o)).
      { split.
        - apply Inv_set_iter; [assumption|]. simpl. apply miss_good_bg; auto; try discriminate.
        - frame_with (mkMI V2 k mk kf mx inn buf recs true ini PBgHead o). }
      destruct (alist_get k (st_cache st)) as [[r0 t0|m0 t0]|]; simpl; try exact Hhead.
      split; [apply Inv_set_iter; [assumption|apply Hfin; assumption]|].
      frame_with (mi_finish (mkMI V2 k mk kf mx inn None recs true ini PBgInit o)).
  - (* PBgHead *)
    assert (Ec : cl = true) by (destruct cl; [reflexivity|]; destruct Hcl as [Hcl _]; discriminate (Hcl eq_refl)).
    subst cl.
    assert (Hns : in_stopped inn = false) by (apply Hst; discriminate).
    set (mm := mkMI v k mk kf mx inn buf recs true ini PBgHead o) in *.
    destruct (inner_call false (bg_ctx st mm) inn) as [inn' r] eqn:Ecall.
    destruct (inner_call_spec _ _ _ _ _ _ Hin Ecall) as (Hin' & Hs' & Hr).
    rewrite Hns in Hs'.
    assert (Hp : in_pos inn' = in_pos inn).
    { destruct r as [t| |e]; [destruct Hr as (_ & Hp & _)|destruct Hr as (Hp & _)|]; assumption. }
    assert (Hg1 : forall ph', ph' = PBgHead \/ ph' = PBgLoop \/ (exists ow, ph' = PBgWait ow) ->
              miss_good W (mkMI v k mk kf mx inn' buf recs true ini ph' o)).
    { intros ph' Hph'. apply miss_good_bg; auto.
      - destruct Hph' as [->|[->|(ow & ->)]]; discriminate.
      - unfold buf_good in *; simpl in *. rewrite Hp.
        destruct Hph' as [->|[->|(ow & ->)]]; exact Hbuf. }
    assert (Hother : Inv W (fst (match alist_get k (st_sf st) with
              | Some owner => (set_iter st i (IMiss (mi_set_phase (mi_set_inner mm inn') (PBgWait owner))), OBgRes (Some r) false)
              | None => (set_iter (set_sf st ((k, i) :: st_sf st)) i (IMiss (mi_set_phase (mi_set_inner mm inn') PBgLoop)), OBgRes (Some r) false)
              end)) /\
            bg_frame st (fst (match alist_get k (st_sf st) with
              | Some owner => (set_iter st i (IMiss (mi_set_phase (mi_set_inner mm inn') (PBgWait owner))), OBgRes (Some r) false)
              | None => (set_iter (set_sf st ((k, i) :: st_sf st)) i (IMiss (mi_set_phase (mi_set_inner mm inn') PBgLoop)), OBgRes (Some r) false)
              end)) i mm).
    { destruct (alist_get k (st_sf st)) as [ow|]; simpl.
      - split; [apply Inv_set_iter; [assumption|]; apply Hg1; right; right; eexists; reflexivity|].
        frame_with (mkMI v k mk kf mx inn' buf recs true ini (PBgWait ow) o).
      - split; [apply Inv_set_iter; [apply Inv_set_sf; assumption|]; apply Hg1; auto|].
        frame_with (mkMI v k mk kf mx inn' buf recs true ini PBgLoop o). }
    destruct r as [t| |e]; try exact Hother.
    destruct Hr as (_ & Hd). specialize (Hd Hns).
    destruct (flush st (mi_set_inner mm inn')) as [st1 m2] eqn:Efl.
    destruct (flush_good W st _ st1 m2 HI (Hg1 PBgHead (or_introl eq_refl)) eq_refl (or_introl eq_refl)
                         ltac:(simpl; rewrite Hp; exact Hd) Efl)
      as (HI1 & Hit1 & _ & Hg2 & Hk2 & Ho2 & Hv2 & Hc2).
    simpl. split; [apply Inv_set_iter; assumption|].
    exists (mi_finish m2). simpl. rewrite Hit1. simpl in *. auto.
  - (* PBgWait *)
    destruct (alist_get k (st_sf st)) as [ow|]; simpl.
    + destruct (Nat.eqb ow owner); simpl.
      * split; [assumption|apply bg_frame_refl; assumption].
      * assert (Ec : cl = true) by (destruct cl; [reflexivity|]; destruct Hcl as [Hcl _]; discriminate (Hcl eq_refl)).
        subst cl. split; [apply Inv_set_iter; [assumption|apply Hfin; assumption]|].
        frame_with (mi_finish (mkMI v k mk kf mx inn buf recs true ini (PBgWait owner) o)).
    + assert (Ec : cl = true) by (destruct cl; [reflexivity|]; destruct Hcl as [Hcl _]; discriminate (Hcl eq_refl)).
      subst cl. split; [apply Inv_set_iter; [assumption|apply Hfin; assumption]|].
      frame_with (mi_finish (mkMI v k mk kf mx inn buf recs true ini (PBgWait owner) o)).
  - (* PBgLoop *)
    assert (Ec : cl = true) by (destruct cl; [reflexivity|]; destruct Hcl as [Hcl _]; discriminate (Hcl eq_refl)).
    subst cl.
    assert (Hns : in_stopped inn = false) by (apply Hst; discriminate).
    set (mm := mkMI v k mk kf mx inn buf recs true ini PBgLoop o) in *.
    destruct (inner_call true (bg_ctx st mm) inn) as [inn' r] eqn:Ecall.
    destruct (inner_call_spec _ _ _ _ _ _ Hin Ecall) as (Hin' & Hs' & Hr).
    rewrite Hns in Hs'.
    destruct r as [t| |e].
    + (* item *)
      destruct Hr as (Hnth & Hp & _).
      assert (Hsn : firstn (in_pos inn') (w_full W k) = firstn (in_pos inn) (w_full W k) ++ [t]).
      { rewrite Hp. apply firstn_snoc. exact Hnth. }
      destruct v.
      * unfold add_to_buffer; simpl. destruct buf as [b|]; simpl.
        -- destruct (mx <=? length (recs ++ [elide kf t]))%nat; simpl.
           ++ split.
              ** apply Inv_set_iter; [assumption|]. simpl. apply miss_good_bg; auto; try discriminate.
                 unfold buf_good; simpl. exact I.
              ** frame_with (mkMI V1 k mk kf mx inn' None [] true ini PBgLoop o).
           ++ split.
              ** apply Inv_set_iter; [assumption|]. simpl. apply miss_good_bg; auto; try discriminate.
                 unfold buf_good in *; simpl in *. rewrite Hsn, map_app, Hbuf. reflexivity.
              ** frame_with (mkMI V1 k mk kf mx inn' (Some b) (recs ++ [elide kf t]) true ini PBgLoop o).
        -- split; [apply Inv_set_iter; [apply Inv_release_sf; assumption|apply Hfin; assumption]|].
           frame_with (mi_finish (mkMI V1 k mk kf mx inn' None recs true ini PBgLoop o)).
      * destruct buf as [b|]; simpl.
        -- destruct (mx <? length (b ++ [t]))%nat; simpl.
           ++ split; [apply Inv_set_iter; [apply Inv_release_sf; assumption|apply Hfin; assumption]|].
              frame_with (mi_finish (mkMI V2 k mk kf mx inn' None recs true ini PBgLoop o)).
           ++ split.
              ** apply Inv_set_iter; [assumption|]. simpl. apply miss_good_bg; auto; try discriminate.
                 unfold buf_good in *; simpl in *. rewrite Hsn, Hbuf. reflexivity.
              ** frame_with (mkMI V2 k mk kf mx inn' (Some (b ++ [t])) recs true ini PBgLoop o).
        -- split; [apply Inv_set_iter; [apply Inv_release_sf; assumption|apply Hfin; assumption]|].
           frame_with (mi_finish (mkMI V2 k mk kf mx inn' None recs true ini PBgLoop o)).
    + (* done *)
      destruct Hr as (Hp & Hd). specialize (Hd Hns).
      assert (Hg1 : miss_good W (mi_set_inner mm inn')).
      { unfold mm; simpl. apply miss_good_bg; auto; try discriminate.
        unfold buf_good in *; simpl in *. rewrite Hp. exact Hbuf. }
      destruct (flush st (mi_set_inner mm inn')) as [st1 m2] eqn:Efl.
      destruct (flush_good W st _ st1 m2 HI Hg1 eq_refl (or_intror eq_refl)
                           ltac:(simpl; rewrite Hp; exact Hd) Efl)
        as (HI1 & Hit1 & _ & Hg2 & Hk2 & Ho2 & Hv2 & Hc2).
      simpl. split; [apply Inv_set_iter; [apply Inv_release_sf; assumption|assumption]|].
      exists (mi_finish m2). simpl. rewrite release_sf_iters, Hit1. simpl in *. auto.
    + (* error *)
      split.
      * apply Inv_set_iter; [apply Inv_release_sf; assumption|].
        destruct v; simpl; apply Hfin; assumption.
      * destruct v.
        -- frame_with (mi_finish (mkMI V1 k mk kf mx inn' buf recs true ini PBgLoop o)).
        -- frame_with (mi_finish (mkMI V2 k mk kf mx inn' None recs true ini PBgLoop o)).
  - (* PFin *) split; [assumption|apply bg_frame_refl; assumption].
Qed.
