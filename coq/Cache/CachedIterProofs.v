(* Proofs about the iterator-cache model (C09). *)
From OFGA Require Import Cache.CachedIter.
From Coq Require Import Lia.
Open Scope N_scope.

(* ========================================================================================== *)
(* 1. Field elision and reconstruction                                                         *)

Lemma is_nil_true b : is_nil b = true -> b = [].
Proof. destruct b; simpl; congruence. Qed.

Lemma fill_elide kf v : key_agrees kf v = true -> fill_field kf (elide_field kf v) = v.
Proof.
  unfold key_agrees, fill_field, elide_field. intro H.
  destruct (is_nil kf) eqn:E; simpl in *.
  - reflexivity.
  - apply beqb_eq in H. exact H.
Qed.

Lemma split_build o t id :
  mem c_colon o = true -> split_object o = (t, id) -> build_object t id = o.
Proof.
  unfold split_object, build_object. intros Hm H.
  destruct (cut c_colon o) as [[a b]|] eqn:E.
  - inversion H; subst. apply cut_some in E. destruct E as [-> _]. reflexivity.
  - apply cut_none in E. congruence.
Qed.

Lemma mem_mid c (a b : bytes) : mem c (a ++ c :: b) = true.
Proof. rewrite mem_app. simpl mem. rewrite N.eqb_refl. simpl. apply orb_true_r. Qed.

Lemma user_parts_rt u t id r :
  user_rt_ok u = true -> to_user_parts u = (t, id, r) -> from_user_parts t id r = u.
Proof.
  unfold user_rt_ok, to_user_parts, from_user_parts, split_object_relation, split_object.
  intros Hok H.
  destruct (cut_last c_hash u) as [[o r0]|] eqn:E1.
  - apply cut_last_some in E1. destruct E1 as [Hu Hr0].
    destruct (cut c_colon o) as [[t0 id0]|] eqn:E2.
    + inversion H; subst t0 id0 r0. clear H.
      apply cut_some in E2. destruct E2 as [Ho Ht].
      assert (Hh : mem c_hash u = true).
      { rewrite Hu. apply mem_mid. }
      assert (Hc : mem c_colon o = true).
      { rewrite Ho. apply mem_mid. }
      rewrite Hh, Hc in Hok. simpl in Hok. apply andb_true_iff in Hok as [Hr Ht'].
      destruct r as [|r1 r']; [discriminate|]. destruct t as [|t1 t']; [discriminate|].
      rewrite Hu, Ho. rewrite <- !app_assoc. reflexivity.
    + inversion H; subst t id r0. clear H.
      assert (Hh : mem c_hash u = true).
      { rewrite Hu. apply mem_mid. }
      rewrite Hh in Hok. simpl in Hok. apply andb_true_iff in Hok as [Hr _].
      destruct r as [|r1 r']; [discriminate|]. simpl. rewrite Hu. reflexivity.
  - destruct (cut c_colon u) as [[t0 id0]|] eqn:E2.
    + inversion H; subst t0 id0 r. clear H.
      apply cut_some in E2. destruct E2 as [Ho Ht].
      assert (Hc : mem c_colon u = true).
      { rewrite Ho. apply mem_mid. }
      rewrite Hc in Hok. simpl in Hok. apply andb_true_iff in Hok as [_ Ht'].
      destruct t as [|t1 t']; [discriminate|].
      rewrite Ho. rewrite app_nil_r. rewrite <- app_assoc. reflexivity.
    + inversion H; subst. simpl. apply app_nil_r.
Qed.

Lemma cond_ctx_id cname cctx :
  negb (is_nil cname) || is_nil cctx = true -> cond_ctx cname cctx = cctx.
Proof.
  unfold cond_ctx. destruct (is_nil cname) eqn:E; simpl; [|reflexivity].
  intro H. apply is_nil_true in H. congruence.
Qed.

Lemma elide_reconstruct_id_lemma k t :
  consistent k t = true -> reconstruct k (elide k t) = t.
Proof.
  unfold consistent, elide, reconstruct.
  destruct (split_object (t_obj t)) as [ot oid] eqn:Eo.
  destruct (to_user_parts (t_user t)) as [[ut uid] ur] eqn:Eu.
  intro H.
  apply andb_true_iff in H as [H Hcond]. apply andb_true_iff in H as [H Hrt].
  apply andb_true_iff in H as [H Hut]. apply andb_true_iff in H as [H Hrel].
  apply andb_true_iff in H as [H Hoid]. apply andb_true_iff in H as [Hcol Hot].
  simpl. rewrite !fill_elide by assumption.
  rewrite (split_build _ _ _ Hcol Eo).
  rewrite (user_parts_rt _ _ _ _ Hrt Eu).
  rewrite cond_ctx_id by assumption.
  destruct t; reflexivity.
Qed.

Lemma minimal_reconstruct_id_lemma k t :
  consistent2 k t = true -> reconstruct2 k (minimal t) = strip_ts t.
Proof.
  unfold consistent2, reconstruct2, minimal, strip_ts, extract_object_id, split_object.
  destruct (cut c_colon (t_obj t)) as [[a b]|] eqn:E; intro H;
    apply andb_true_iff in H as [H Hcond]; apply andb_true_iff in H as [H Hrel];
    apply andb_true_iff in H as [Hcol Hot].
  - simpl. apply cut_some in E. destruct E as [Ho _].
    apply beqb_eq in Hot. apply beqb_eq in Hrel.
    rewrite cond_ctx_id by assumption. rewrite Hot, Hrel, <- Ho. reflexivity.
  - apply cut_none in E. congruence.
Qed.

Lemma map_reconstruct_elide k l :
  forallb (consistent k) l = true -> map (reconstruct k) (map (elide k) l) = l.
Proof.
  induction l as [|t l IH]; simpl; intro H; [reflexivity|].
  apply andb_true_iff in H as [H1 H2]. rewrite elide_reconstruct_id_lemma, IH by assumption. reflexivity.
Qed.

Lemma map_reconstruct2_minimal k l :
  forallb (consistent2 k) l = true -> map (reconstruct2 k) (map minimal l) = map strip_ts l.
Proof.
  induction l as [|t l IH]; simpl; intro H; [reflexivity|].
  apply andb_true_iff in H as [H1 H2]. rewrite minimal_reconstruct_id_lemma, IH by assumption. reflexivity.
Qed.

(* ========================================================================================== *)
(* 2. Association lists, upd_nth, firstn                                                       *)

Lemma alist_get_del_same {A} k (l : list (N * A)) : alist_get k (alist_del k l) = None.
Proof.
  induction l as [|[k' v] l IH]; simpl; [reflexivity|].
  destruct (N.eqb k' k) eqn:E; [exact IH|]. simpl. rewrite E. exact IH.
Qed.

Lemma alist_get_del_other {A} k k' (l : list (N * A)) :
  k' <> k -> alist_get k (alist_del k' l) = alist_get k l.
Proof.
  intro Hne. induction l as [|[k0 v] l IH]; simpl; [reflexivity|].
  destruct (N.eqb k0 k') eqn:E.
  - apply N.eqb_eq in E. subst k0. rewrite IH.
    destruct (N.eqb k' k) eqn:E2; [apply N.eqb_eq in E2; congruence|reflexivity].
  - simpl. rewrite IH. reflexivity.
Qed.

Lemma alist_get_del_some {A} k k' (l : list (N * A)) v :
  alist_get k (alist_del k' l) = Some v -> alist_get k l = Some v.
Proof.
  destruct (N.eq_dec k' k) as [->|Hne].
  - rewrite alist_get_del_same. discriminate.
  - rewrite alist_get_del_other by assumption. auto.
Qed.

Lemma alist_get_set {A} k k' (v : A) l :
  alist_get k (alist_set k' v l) = if N.eqb k' k then Some v else alist_get k l.
Proof.
  unfold alist_set. simpl. destruct (N.eqb k' k) eqn:E; [reflexivity|].
  apply alist_get_del_other. intro; subst. rewrite N.eqb_refl in E. discriminate.
Qed.

Lemma Forall_upd_nth {A} (P : A -> Prop) n x l :
  Forall P l -> P x -> Forall P (upd_nth n x l).
Proof.
  revert n; induction l as [|y l IH]; intros n Hl Hx; destruct n; simpl; try constructor;
    inversion Hl; subst; auto.
Qed.

Lemma Forall_nth_error {A} (P : A -> Prop) l n x :
  Forall P l -> nth_error l n = Some x -> P x.
Proof.
  intros Hl Hn. apply nth_error_In in Hn. rewrite Forall_forall in Hl. auto.
Qed.

Lemma nth_error_upd_same {A} n (x y : A) l :
  nth_error l n = Some y -> nth_error (upd_nth n x l) n = Some x.
Proof.
  revert n; induction l as [|z l IH]; intros [|n]; simpl; intro H; try discriminate; auto.
Qed.

Lemma nth_error_upd_other {A} n m (x : A) l :
  n <> m -> nth_error (upd_nth n x l) m = nth_error l m.
Proof.
  revert n m; induction l as [|z l IH]; intros [|n] [|m] H; simpl; try reflexivity; try congruence.
  apply IH. congruence.
Qed.

Lemma upd_nth_none {A} n (x : A) l : nth_error l n = None -> upd_nth n x l = l.
Proof.
  revert n; induction l as [|z l IH]; intros [|n]; simpl; intro H; try reflexivity; try discriminate.
  rewrite IH by assumption. reflexivity.
Qed.

Lemma firstn_snoc {A} (l : list A) n t :
  nth_error l n = Some t -> firstn (S n) l = firstn n l ++ [t].
Proof.
  revert n; induction l as [|x l IH]; intros [|n]; simpl; intro H; try discriminate.
  - inversion H; reflexivity.
  - rewrite <- IH by assumption. reflexivity.
Qed.

Lemma nth_error_none_len {A} (l : list A) n :
  nth_error l n = None -> (n <= length l)%nat -> n = length l.
Proof. intros H1 H2. apply nth_error_None in H1. lia. Qed.

Lemma firstn_length_self {A} (l : list A) n : (n <= length l)%nat -> length (firstn n l) = n.
Proof. intro H. rewrite firstn_length. lia. Qed.

(* ========================================================================================== *)
(* 3. The inner iterator                                                                       *)

Definition inner_good (fullk : list tuple) (inn : inner) : Prop :=
  in_items inn = fullk /\ in_lossy inn = false /\ (in_pos inn <= length fullk)%nat.

Lemma inner_call_spec fullk b c inn inn' r :
  inner_good fullk inn -> inner_call b c inn = (inn', r) ->
  inner_good fullk inn' /\ in_stopped inn' = in_stopped inn /\
  match r with
  | RItem t => nth_error fullk (in_pos inn) = Some t /\
               in_pos inn' = (if b then S (in_pos inn) else in_pos inn) /\ in_stopped inn = false
  | RDone => in_pos inn' = in_pos inn /\ (in_stopped inn = false -> in_pos inn = length fullk)
  | RErr _ => in_pos inn' = in_pos inn
  end.
Proof.
  intros (Hi & Hl & Hp) H. subst fullk. unfold inner_call in H.
  destruct (ctx_err c) as [e|].
  { inversion H; subst. unfold inner_good. auto. }
  destruct (in_stopped inn) eqn:Es.
  { inversion H; subst. unfold inner_good. repeat split; auto. discriminate. }
  assert (Hgen : forall sc, 
    match nth_error (in_items inn) (in_pos inn) with
    | Some t => (in_with inn (if b then S (in_pos inn) else in_pos inn) sc, RItem t)
    | None => (in_with inn (in_pos inn) sc, RDone)
    end = (inn', r) ->
    inner_good (in_items inn) inn' /\ in_stopped inn' = false /\
    match r with
    | RItem t => nth_error (in_items inn) (in_pos inn) = Some t /\
                 in_pos inn' = (if b then S (in_pos inn) else in_pos inn) /\ false = false
    | RDone => in_pos inn' = in_pos inn /\ (false = false -> in_pos inn = length (in_items inn))
    | RErr _ => in_pos inn' = in_pos inn
    end).
  { intros sc H0. destruct (nth_error (in_items inn) (in_pos inn)) as [t|] eqn:En; inversion H0; subst; clear H0.
    - assert (in_pos inn < length (in_items inn))%nat by (apply nth_error_Some; congruence).
      unfold inner_good; simpl. repeat split; auto. destruct b; lia.
    - unfold inner_good; simpl. repeat split; auto. intros _.
      apply nth_error_none_len; assumption. }
  destruct (in_script inn) as [|[|e|f] sc] eqn:Esc.
  - simpl in H. apply Hgen with (sc := []).
    destruct (nth_error (in_items inn) (in_pos inn)); exact H.
  - simpl in H. apply Hgen with (sc := sc).
    destruct (nth_error (in_items inn) (in_pos inn)); exact H.
  - rewrite Hl in H. simpl in H. inversion H; subst; clear H.
    unfold inner_good; simpl. auto.
  - simpl in H. apply Hgen with (sc := sc).
    destruct (nth_error (in_items inn) (in_pos inn)); exact H.
Qed.

Lemma inner_good_stop fullk inn : inner_good fullk inn -> inner_good fullk (in_stop inn).
Proof. unfold inner_good. simpl. auto. Qed.

(* ========================================================================================== *)
(* 4. The world, the invariant                                                                 *)

(* An unchanged store: the answer to a query is a function of its cache key (injectivity of the
   key functions is property C24), and so are the key fields the iterator derives from the query. *)
Record world := mkW { w_full : N -> list tuple; w_kf : variant -> N -> keyf }.

Definition consistent_v (v : variant) : keyf -> tuple -> bool :=
  match v with V1 => consistent | V2 => consistent2 end.
Definition norm_v (v : variant) : tuple -> tuple :=
  match v with V1 => fun t => t | V2 => strip_ts end.

(* every read of the history is answered by the unchanged store through a contract-abiding inner
   iterator (errors do not consume elements), and the store only returns tuples that match the
   query *)
Definition q_ok (W : world) (q : qdesc) : Prop :=
  q_items q = w_full W (q_key q) /\ q_lossy q = false /\
  (bypass q = false ->
   kf_of q = w_kf W (q_var q) (q_key q) /\
   forallb (consistent_v (q_var q) (kf_of q)) (q_items q) = true).

Definition op_ok (W : world) (o : op) : Prop :=
  match o with OOpen q => q_ok W q | _ => True end.

Definition entry_good (W : world) (k : N) (e : centry) : Prop :=
  match e with
  | CE1 recs _ => recs = map (elide (w_kf W V1 k)) (w_full W k)
  | CE2 ms _ => ms = map minimal (w_full W k)
  end.

Definition buf_good (m : miter) (fullk : list tuple) : Prop :=
  match mi_buf m with
  | None => True
  | Some b =>
      let pre := firstn (in_pos (mi_inner m)) fullk in
      match mi_phase m with
      | PFin => True
      | PFg | PBgInit => b = pre
      | _ => match mi_var m with
             | V1 => mi_recs m = map (elide (mi_kf m)) pre
             | V2 => b = pre
             end
      end
  end.

Definition miss_good (W : world) (m : miter) : Prop :=
  let fullk := w_full W (mi_key m) in
  inner_good fullk (mi_inner m) /\
  mi_kf m = w_kf W (mi_var m) (mi_key m) /\
  (mi_closing m = false <-> mi_phase m = PFg) /\
  (mi_phase m <> PFin -> in_stopped (mi_inner m) = false) /\
  (mi_closing m = false -> mi_out m = firstn (in_pos (mi_inner m)) fullk) /\
  mi_out m = firstn (length (mi_out m)) fullk /\
  buf_good m fullk.

Definition hit_good (W : world) (h : hiter) : Prop :=
  hi_items h = map (norm_v (hi_var h)) (w_full W (hi_key h)) /\
  (hi_pos h <= length (hi_items h))%nat /\
  hi_out h = firstn (hi_pos h) (hi_items h).

Definition byp_good (W : world) (k : N) (inn : inner) (o : list tuple) : Prop :=
  let fullk := w_full W k in
  inner_good fullk inn /\
  (in_stopped inn = false -> o = firstn (in_pos inn) fullk) /\
  o = firstn (length o) fullk.

Definition iter_good (W : world) (it : iter) : Prop :=
  match it with
  | IMiss m => miss_good W m
  | IHit h => hit_good W h
  | IBypass k inn o => byp_good W k inn o
  | IDead => True
  end.

Definition cache_good (W : world) (c : list (N * centry)) : Prop :=
  forall k e, alist_get k c = Some e -> entry_good W k e.

Definition writes_good (W : world) (ws : list (N * centry * nat)) : Prop :=
  forall k e mx, In (k, e, mx) ws -> entry_good W k e.

Definition Inv (W : world) (st : state) : Prop :=
  cache_good W (st_cache st) /\ writes_good W (st_writes st) /\ Forall (iter_good W) (st_iters st).

(* what the consumer observes, against the uncached fault-free answer [fullk] *)
Definition res_spec (fullk : list tuple) (nm : tuple -> tuple) (is_next : bool)
           (before after : list tuple) (r : res) : Prop :=
  match r with
  | RErr _ => after = before
  | RDone => after = before /\ map nm before = map nm fullk
  | RItem t => nth_error (map nm fullk) (length before) = Some (nm t) /\
               after = (if is_next then before ++ [t] else before)
  end.

Lemma cache_good_del W c k : cache_good W c -> cache_good W (alist_del k c).
Proof. intros H k' e He. apply alist_get_del_some in He. auto. Qed.

Lemma cache_good_set W c k e : cache_good W c -> entry_good W k e -> cache_good W (alist_set k e c).
Proof.
  intros H He k' e' H'. rewrite alist_get_set in H'.
  destruct (N.eqb k k') eqn:E.
  - apply N.eqb_eq in E. inversion H'; subst. exact He.
  - auto.
Qed.

Lemma find_in_cache_good W v c inval k mk found c' :
  cache_good W c -> find_in_cache v c inval k mk = (found, c') ->
  cache_good W c' /\
  match found with Some e => entry_good W k e /\ entry_is v e = true /\ c' = c | None => True end.
Proof.
  intros Hc H. unfold find_in_cache in H.
  destruct (alist_get k c) as [e|] eqn:Eg.
  - destruct (entry_is v e) eqn:Ev.
    + destruct (is_invalid_at inval (entry_ts e) mk); inversion H; subst.
      * split; [apply cache_good_del; assumption|exact I].
      * split; [assumption|]. repeat split; auto.
    + inversion H; subst. auto.
  - inversion H; subst. auto.
Qed.

Lemma map_id' {A} (l : list A) : map (fun t => t) l = l.
Proof. apply map_id. Qed.

Lemma firstn_full {A} (l : list A) n : n = length l -> firstn n l = l.
Proof. intros ->. apply firstn_all. Qed.

(* ------------------------------------------------------------------------------------------ *)
(* foreground operations of a miss iterator *)

Lemma miss_good_intro W m :
  inner_good (w_full W (mi_key m)) (mi_inner m) ->
  mi_kf m = w_kf W (mi_var m) (mi_key m) ->
  (mi_closing m = false <-> mi_phase m = PFg) ->
  (mi_phase m <> PFin -> in_stopped (mi_inner m) = false) ->
  (mi_closing m = false -> mi_out m = firstn (in_pos (mi_inner m)) (w_full W (mi_key m))) ->
  mi_out m = firstn (length (mi_out m)) (w_full W (mi_key m)) ->
  buf_good m (w_full W (mi_key m)) ->
  miss_good W m.
Proof. unfold miss_good. tauto. Qed.

Lemma miss_next_good W m c m' r :
  miss_good W m -> miss_next m c = (m', r) ->
  miss_good W m' /\ mi_key m' = mi_key m /\ mi_var m' = mi_var m /\ mi_closing m' = mi_closing m /\
  (mi_closing m = false ->
   res_spec (w_full W (mi_key m)) (fun t => t) true (mi_out m) (mi_out m') r).
Proof.
  intros Hg H. unfold miss_next in H.
  destruct (mi_closing m) eqn:Ecl.
  { inversion H; subst. split; [exact Hg|]. split; [reflexivity|]. split; [reflexivity|].
    split; [assumption|]. discriminate. }
  destruct m as [v k mk kf mx inn buf recs cl ini ph o]. simpl in *. subst cl.
  destruct Hg as (Hin & Hkf & Hcl & Hst & Hout & Hpre & Hbuf). simpl in *.
  assert (Hph : ph = PFg) by (apply Hcl; reflexivity). subst ph.
  assert (Hns : in_stopped inn = false) by (apply Hst; discriminate).
  specialize (Hout eq_refl).
  destruct (inner_call true c inn) as [inn' r0] eqn:Ec.
  destruct (inner_call_spec _ _ _ _ _ _ Hin Ec) as (Hin' & Hs' & Hr).
  rewrite Hns in Hs'.
  destruct r0 as [t| |e]; inversion H; subst m' r; clear H; simpl.
  - destruct Hr as (Hn & Hp & _).
    assert (Hlt : (in_pos inn < length (w_full W k))%nat) by (apply nth_error_Some; congruence).
    assert (Ho' : firstn (in_pos inn) (w_full W k) ++ [t] = firstn (in_pos inn') (w_full W k)).
    { rewrite Hp. symmetry. apply firstn_snoc. exact Hn. }
    split; [apply miss_good_intro; simpl|].
    + exact Hin'.
    + exact Hkf.
    + exact Hcl.
    + intros _. exact Hs'.
    + intros _. rewrite Hout. exact Ho'.
    + rewrite Hout, Ho'. rewrite firstn_length_self; [reflexivity|].
      destruct Hin' as (_ & _ & Hle). exact Hle.
    + unfold buf_good in *; simpl in *. destruct buf as [b|]; simpl; [|exact I].
      destruct (over_max v mx (length (b ++ [t]))); [exact I|]. rewrite Hbuf. exact Ho'.
    + split; [reflexivity|]. split; [reflexivity|]. split; [reflexivity|].
      intros _. unfold res_spec. rewrite map_id'. split; [|reflexivity].
      rewrite Hout. rewrite firstn_length_self by lia. exact Hn.
  - destruct Hr as (Hp & Hd).
    split; [apply miss_good_intro; simpl|].
    + exact Hin'.
    + exact Hkf.
    + exact Hcl.
    + intros _. exact Hs'.
    + intros _. rewrite Hp. exact Hout.
    + exact Hpre.
    + unfold buf_good in *; simpl in *. rewrite Hp. exact Hbuf.
    + split; [reflexivity|]. split; [reflexivity|]. split; [reflexivity|].
      intros _. unfold res_spec. split; [reflexivity|]. f_equal.
      rewrite Hout. apply firstn_full. apply Hd. exact Hns.
  - assert (Hgoal : forall b',
       (match b' with None => True | Some b => Some b = buf end) ->
       miss_good W (mkMI v k mk kf mx inn' b' recs false ini PFg o)).
    { intros b' Hb'. apply miss_good_intro; simpl.
      - exact Hin'.
      - exact Hkf.
      - exact Hcl.
      - intros _. exact Hs'.
      - intros _. rewrite Hr. exact Hout.
      - exact Hpre.
      - unfold buf_good in *; simpl in *. destruct b' as [b|]; [|exact I].
        rewrite <- Hb' in Hbuf. rewrite Hr. exact Hbuf. }
    destruct (is_cancel e); simpl.
    + split; [apply Hgoal; simpl; destruct buf; simpl; auto|].
      split; [reflexivity|]. split; [reflexivity|]. split; [reflexivity|]. intros _. reflexivity.
    + split; [apply Hgoal; exact I|].
      split; [reflexivity|]. split; [reflexivity|]. split; [reflexivity|]. intros _. reflexivity.
Qed.

Lemma miss_head_good W m c m' r :
  miss_good W m -> miss_head m c = (m', r) ->
  miss_good W m' /\ mi_key m' = mi_key m /\ mi_var m' = mi_var m /\ mi_closing m' = mi_closing m /\
  mi_out m' = mi_out m /\
  (mi_closing m = false ->
   res_spec (w_full W (mi_key m)) (fun t => t) false (mi_out m) (mi_out m') r).
Proof.
  intros Hg H. unfold miss_head in H.
  destruct (mi_closing m) eqn:Ecl.
  { inversion H; subst. split; [exact Hg|]. split; [reflexivity|]. split; [reflexivity|].
    split; [assumption|]. split; [reflexivity|]. discriminate. }
  destruct m as [v k mk kf mx inn buf recs cl ini ph o]. simpl in *. subst cl.
  destruct Hg as (Hin & Hkf & Hcl & Hst & Hout & Hpre & Hbuf). simpl in *.
  assert (Hph : ph = PFg) by (apply Hcl; reflexivity). subst ph.
  assert (Hns : in_stopped inn = false) by (apply Hst; discriminate).
  specialize (Hout eq_refl).
  destruct (inner_call false c inn) as [inn' r0] eqn:Ec.
  destruct (inner_call_spec _ _ _ _ _ _ Hin Ec) as (Hin' & Hs' & Hr).
  rewrite Hns in Hs'. inversion H; subst m' r; clear H; simpl.
  assert (Hp : in_pos inn' = in_pos inn).
  { destruct r0 as [t| |e]; [destruct Hr as (_ & Hp & _)|destruct Hr as (Hp & _)|]; assumption. }
  split; [apply miss_good_intro; simpl|].
  - exact Hin'.
  - exact Hkf.
  - exact Hcl.
  - intros _. exact Hs'.
  - intros _. rewrite Hp. exact Hout.
  - exact Hpre.
  - unfold buf_good in *; simpl in *. rewrite Hp. exact Hbuf.
  - split; [reflexivity|]. split; [reflexivity|]. split; [reflexivity|]. split; [reflexivity|].
    intros _. destruct r0 as [t| |e]; unfold res_spec.
    + destruct Hr as (Hn & _ & _). rewrite map_id'. split; [|reflexivity].
      assert (Hlt : (in_pos inn < length (w_full W k))%nat) by (apply nth_error_Some; congruence).
      rewrite Hout. rewrite firstn_length_self by lia. exact Hn.
    + destruct Hr as (_ & Hd). split; [reflexivity|]. f_equal.
      rewrite Hout. apply firstn_full. apply Hd. exact Hns.
    + reflexivity.
Qed.

Lemma miss_good_bg W v k mk kf mx inn b recs ini ph o :
  inner_good (w_full W k) inn -> kf = w_kf W v k -> ph <> PFg ->
  (ph <> PFin -> in_stopped inn = false) ->
  o = firstn (length o) (w_full W k) ->
  buf_good (mkMI v k mk kf mx inn b recs true ini ph o) (w_full W k) ->
  miss_good W (mkMI v k mk kf mx inn b recs true ini ph o).
Proof.
  intros H1 H2 H3 H4 H5 H6. apply miss_good_intro; simpl; auto.
  - split; [discriminate|]. intro; contradiction.
  - discriminate.
Qed.

Lemma miss_good_fin W v k mk kf mx inn b recs ini o :
  inner_good (w_full W k) inn -> kf = w_kf W v k ->
  o = firstn (length o) (w_full W k) ->
  miss_good W (mkMI v k mk kf mx inn b recs true ini PFin o).
Proof.
  intros H1 H2 H3. apply miss_good_bg; auto.
  - discriminate.
  - intro H; contradiction H; reflexivity.
  - unfold buf_good; simpl. destruct b; exact I.
Qed.

Lemma miss_stop_good W srv m :
  miss_good W m ->
  miss_good W (miss_stop srv m) /\ mi_out (miss_stop srv m) = mi_out m /\
  mi_key (miss_stop srv m) = mi_key m /\ mi_var (miss_stop srv m) = mi_var m.
Proof.
  intro Hg. unfold miss_stop.
  destruct (mi_closing m) eqn:Ecl; [auto|].
  destruct m as [v k mk kf mx inn buf recs cl ini ph o]. simpl in *. subst cl.
  destruct Hg as (Hin & Hkf & Hcl & Hst & Hout & Hpre & Hbuf). simpl in *.
  assert (Hph : ph = PFg) by (apply Hcl; reflexivity). subst ph.
  assert (Hns : in_stopped inn = false) by (apply Hst; discriminate).
  match goal with |- context [if ?c then _ else _] => destruct c end; simpl.
  - split; [|auto]. apply miss_good_fin; auto; try (apply inner_good_stop; assumption).
  - split; [|auto]. apply miss_good_bg; auto; try discriminate.
Qed.

Lemma strip_ts_idem t : strip_ts (strip_ts t) = strip_ts t.
Proof. reflexivity. Qed.

Lemma norm_v_idem v t : norm_v v (norm_v v t) = norm_v v t.
Proof. destruct v; reflexivity. Qed.

Lemma hit_call_good W b h c h' r :
  hit_good W h -> hit_call b h c = (h', r) ->
  hit_good W h' /\ hi_key h' = hi_key h /\ hi_var h' = hi_var h /\ hi_stopped h' = hi_stopped h /\
  (hi_stopped h = false ->
   res_spec (w_full W (hi_key h)) (norm_v (hi_var h)) b (hi_out h) (hi_out h') r).
Proof.
  intros (Hit & Hpos & Hout) H. unfold hit_call in H.
  destruct (ctx_err c) as [e|].
  { inversion H; subst. repeat split; auto. }
  destruct (hi_stopped h) eqn:Est.
  { inversion H; subst. repeat split; auto. discriminate. }
  destruct (nth_error (hi_items h) (hi_pos h)) as [t|] eqn:En.
  - assert (Hlt : (hi_pos h < length (hi_items h))%nat) by (apply nth_error_Some; congruence).
    assert (Hnm : norm_v (hi_var h) t = t).
    { rewrite Hit in En. rewrite nth_error_map in En.
      destruct (nth_error (w_full W (hi_key h)) (hi_pos h)); simpl in En; [|discriminate].
      inversion En. apply norm_v_idem. }
    assert (Hspec : nth_error (map (norm_v (hi_var h)) (w_full W (hi_key h))) (length (hi_out h))
                    = Some (norm_v (hi_var h) t)).
    { rewrite Hnm, <- Hit, Hout. rewrite firstn_length_self by lia. exact En. }
    destruct b; inversion H; subst h' r; clear H; simpl.
    + split; [|repeat split; auto].
      unfold hit_good; simpl. split; [exact Hit|]. split; [lia|].
      rewrite Hout. symmetry. apply firstn_snoc. exact En.
    + split; [|repeat split; auto]. unfold hit_good. auto.
  - inversion H; subst h' r; clear H.
    split; [unfold hit_good; auto|].
    split; [reflexivity|]. split; [reflexivity|]. split; [assumption|].
    intros _. unfold res_spec. split; [reflexivity|]. rewrite Hout, <- Hit.
    assert (hi_pos h = length (hi_items h)) by (apply nth_error_none_len; assumption).
    rewrite firstn_full by assumption.
    rewrite Hit, map_map. apply map_ext. intro a. apply norm_v_idem.
Qed.

Lemma byp_call_good W b k inn o c inn' r :
  byp_good W k inn o -> inner_call b c inn = (inn', r) ->
  let o' := if b then (match r with RItem t => o ++ [t] | _ => o end) else o in
  byp_good W k inn' o' /\ in_stopped inn' = in_stopped inn /\
  (in_stopped inn = false -> res_spec (w_full W k) (fun t => t) b o o' r).
Proof.
  intros (Hin & Hout & Hpre) Ec.
  destruct (inner_call_spec _ _ _ _ _ _ Hin Ec) as (Hin' & Hs' & Hr).
  destruct r as [t| |e]; simpl.
  - destruct Hr as (Hn & Hp & Hns). specialize (Hout Hns).
    assert (Hlt : (in_pos inn < length (w_full W k))%nat) by (apply nth_error_Some; congruence).
    destruct b.
    + split; [|split; [exact Hs'|]].
      * unfold byp_good. split; [exact Hin'|].
        assert (Ho' : o ++ [t] = firstn (in_pos inn') (w_full W k)).
        { rewrite Hp, Hout. symmetry. apply firstn_snoc. exact Hn. }
        split; [intros _; exact Ho'|].
        rewrite Ho'. rewrite firstn_length_self; [reflexivity|]. destruct Hin' as (_ & _ & Hle). exact Hle.
      * intros _. unfold res_spec. rewrite map_id'. split; [|reflexivity].
        rewrite Hout. rewrite firstn_length_self by lia. exact Hn.
    + split; [|split; [exact Hs'|]].
      * unfold byp_good. split; [exact Hin'|]. split; [|exact Hpre]. intros _. rewrite Hp. exact Hout.
      * intros _. unfold res_spec. rewrite map_id'. split; [|reflexivity].
        rewrite Hout. rewrite firstn_length_self by lia. exact Hn.
  - destruct Hr as (Hp & Hd).
    assert (Hb : byp_good W k inn' o).
    { unfold byp_good. split; [exact Hin'|]. split; [|exact Hpre].
      intro Hs. rewrite Hp. apply Hout. congruence. }
    destruct b; (split; [exact Hb|split; [exact Hs'|]]); intro Hns; unfold res_spec;
      (split; [reflexivity|]); f_equal; rewrite (Hout Hns); apply firstn_full; apply Hd; exact Hns.
  - assert (Hb : byp_good W k inn' o).
    { unfold byp_good. split; [exact Hin'|]. split; [|exact Hpre].
      intro Hs. rewrite Hr. apply Hout. congruence. }
    destruct b; (split; [exact Hb|split; [exact Hs'|]]); intros _; reflexivity.
Qed.

(* ------------------------------------------------------------------------------------------ *)
(* state plumbing *)

Lemma Inv_set_iter W st i it : Inv W st -> iter_good W it -> Inv W (set_iter st i it).
Proof.
  intros (Hc & Hw & Hi) Hit. unfold Inv; simpl. repeat split; auto. apply Forall_upd_nth; assumption.
Qed.

Lemma Inv_push_iter W st it : Inv W st -> iter_good W it -> Inv W (push_iter st it).
Proof.
  intros (Hc & Hw & Hi) Hit. unfold Inv; simpl. repeat split; auto.
  apply Forall_app. split; [assumption|]. constructor; [assumption|constructor].
Qed.

Lemma Inv_set_cache W st c : Inv W st -> cache_good W c -> Inv W (set_cache st c).
Proof. intros (Hc & Hw & Hi) H. unfold Inv; simpl. auto. Qed.

Lemma Inv_set_sf W st sf : Inv W st -> Inv W (set_sf st sf).
Proof. intros (Hc & Hw & Hi). unfold Inv; simpl. auto. Qed.

Lemma Inv_release_sf W st k i : Inv W st -> Inv W (release_sf st k i).
Proof.
  intro H. unfold release_sf. destruct (alist_get k (st_sf st)); [|assumption].
  destruct (Nat.eqb n i); [apply Inv_set_sf|]; assumption.
Qed.

Lemma release_sf_iters st k i : st_iters (release_sf st k i) = st_iters st.
Proof.
  unfold release_sf. destruct (alist_get k (st_sf st)); [|reflexivity].
  destruct (Nat.eqb n i); reflexivity.
Qed.

Lemma Inv_write_cache W st k e mx : Inv W st -> entry_good W k e -> Inv W (write_cache st k e mx).
Proof.
  intros (Hc & Hw & Hi) He. unfold Inv; simpl. repeat split; auto.
  - apply cache_good_set; assumption.
  - intros k' e' mx' Hin. apply in_app_or in Hin as [Hin|Hin]; [eauto|].
    simpl in Hin. destruct Hin as [Hin|[]]. inversion Hin; subst. exact He.
Qed.

Lemma Inv_apply_fx W st f : Inv W st -> Inv W (apply_fx st f).
Proof. intros (Hc & Hw & Hi). destruct f as [[e|]|]; unfold Inv; simpl; auto. Qed.

Lemma apply_fx_iters st f : st_iters (apply_fx st f) = st_iters st.
Proof. destruct f as [[e|]|]; reflexivity. Qed.

Lemma Inv_tick W st : Inv W st -> Inv W (tick st).
Proof. intros (Hc & Hw & Hi). unfold Inv; simpl. auto. Qed.

Lemma Inv_iter W st i it : Inv W st -> nth_error (st_iters st) i = Some it -> iter_good W it.
Proof. intros (_ & _ & Hi) Hn. eapply Forall_nth_error; eassumption. Qed.

(* ------------------------------------------------------------------------------------------ *)
(* background goroutine *)

Definition same_but_buf (m m' : miter) : Prop :=
  mi_var m' = mi_var m /\ mi_key m' = mi_key m /\ mi_markers m' = mi_markers m /\
  mi_kf m' = mi_kf m /\ mi_max m' = mi_max m /\ mi_inner m' = mi_inner m /\
  mi_closing m' = mi_closing m /\ mi_init m' = mi_init m /\ mi_phase m' = mi_phase m /\
  mi_out m' = mi_out m.

Lemma add_to_buffer_spec m t :
  let m' := fst (add_to_buffer m t) in
  same_but_buf m m' /\
  (mi_buf m' = None \/ (mi_buf m' = mi_buf m /\ mi_recs m' = mi_recs m ++ [elide (mi_kf m) t])).
Proof.
  unfold add_to_buffer, same_but_buf. destruct (mi_buf m) eqn:Eb; simpl.
  - destruct (mi_max m <=? length (mi_recs m ++ [elide (mi_kf m) t]))%nat; simpl.
    + repeat split; auto.
    + repeat split; auto.
  - repeat split; auto.
Qed.

Lemma fold_add_spec l : forall m,
  let m' := fold_left (fun mm t => fst (add_to_buffer mm t)) l m in
  same_but_buf m m' /\
  (mi_buf m' = None \/ (mi_buf m' = mi_buf m /\ mi_recs m' = mi_recs m ++ map (elide (mi_kf m)) l)).
Proof.
  induction l as [|t l IH]; intro m; simpl.
  - split; [unfold same_but_buf; repeat split; auto|]. right. rewrite app_nil_r. auto.
  - destruct (add_to_buffer_spec m t) as (Hs & Hb). simpl in Hs, Hb.
    destruct (IH (fst (add_to_buffer m t))) as (Hs' & Hb'). simpl in Hs', Hb'.
    split.
    + unfold same_but_buf in *. intuition congruence.
    + destruct Hb' as [Hn|(Hb1 & Hr1)]; [left; exact Hn|].
      destruct Hb as [Hn|(Hb2 & Hr2)]; [left; congruence|].
      right. split; [congruence|]. rewrite Hr1, Hr2.
      destruct Hs as (_ & _ & _ & Hkf & _). rewrite Hkf. rewrite <- app_assoc. reflexivity.
Qed.

(* flush only ever writes the whole answer *)
Lemma flush_good W st m st1 m2 :
  Inv W st -> miss_good W m -> mi_closing m = true ->
  (mi_phase m = PBgHead \/ mi_phase m = PBgLoop) ->
  in_pos (mi_inner m) = length (w_full W (mi_key m)) ->
  flush st m = (st1, m2) ->
  Inv W st1 /\ st_iters st1 = st_iters st /\ st_sf st1 = st_sf st /\ miss_good W (mi_finish m2) /\
  mi_key m2 = mi_key m /\ mi_out m2 = mi_out m /\ mi_var m2 = mi_var m /\ mi_closing m2 = true.
Proof.
  intros HI Hg Hcl Hph Hpos H.
  destruct m as [v k mk kf mx inn buf recs cl ini ph o]. simpl in *. subst cl.
  destruct Hg as (Hin & Hkf & _ & Hst & _ & Hpre & Hbuf). simpl in *.
  assert (Hfin : forall b' r', miss_good W (mi_finish (mkMI v k mk kf mx inn b' r' true ini ph o))).
  { intros b' r'. unfold mi_finish; simpl. apply miss_good_fin; auto; try (apply inner_good_stop; assumption). }
  unfold flush in H; simpl in H.
  assert (Hrest : forall st' b' r', Inv W st' -> st_iters st' = st_iters st -> st_sf st' = st_sf st ->
     Inv W st' /\ st_iters st' = st_iters st /\ st_sf st' = st_sf st /\
     miss_good W (mi_finish (mkMI v k mk kf mx inn b' r' true ini ph o)) /\
     k = k /\ o = o /\ v = v /\ true = true).
  { intros st' b' r' H1 H2 H3. split; [exact H1|]. split; [exact H2|]. split; [exact H3|].
    split; [apply Hfin|]. auto. }
  destruct v; destruct buf as [b|].
  - destruct (st_srv st); inversion H; subst st1 m2; clear H; simpl.
    + apply Hrest; auto.
    + apply (Hrest (write_cache st k (CE1 recs ini) mx)); try reflexivity.
      apply Inv_write_cache; [assumption|]. simpl.
      unfold buf_good in Hbuf; simpl in Hbuf.
      rewrite Hpos, firstn_all in Hbuf.
      destruct Hph as [-> | ->]; simpl in Hbuf; rewrite Hbuf, Hkf; reflexivity.
  - inversion H; subst st1 m2. apply Hrest; auto.
  - destruct b as [|t b]; inversion H; subst st1 m2; clear H; simpl.
    + apply Hrest; auto.
    + apply (Hrest (write_cache st k (CE2 (map minimal (t :: b)) ini) mx)); try reflexivity.
      apply Inv_write_cache; [assumption|]. simpl.
      unfold buf_good in Hbuf; simpl in Hbuf.
      rewrite Hpos, firstn_all in Hbuf.
      destruct Hph as [-> | ->]; simpl in Hbuf; rewrite <- Hbuf; reflexivity.
  - inversion H; subst st1 m2. apply Hrest; auto.
Qed.

Lemma upd_nth_same {A} n (x : A) l : nth_error l n = Some x -> upd_nth n x l = l.
Proof.
  revert n; induction l as [|y l IH]; intros [|n]; simpl; intro H; try discriminate.
  - inversion H; reflexivity.
  - rewrite IH by assumption. reflexivity.
Qed.

(* what a step may do to the iterator list: replace iterator i by a miss iterator that the consumer
   cannot tell from the old one *)
Definition bg_frame (st st' : state) (i : nat) (m : miter) : Prop :=
  exists m', st_iters st' = upd_nth i (IMiss m') (st_iters st) /\
             mi_out m' = mi_out m /\ mi_key m' = mi_key m /\ mi_closing m' = mi_closing m /\
             mi_var m' = mi_var m.

Lemma bg_frame_refl st i m : nth_error (st_iters st) i = Some (IMiss m) -> bg_frame st st i m.
Proof. intro H. exists m. rewrite upd_nth_same by assumption. auto. Qed.

Ltac frame_with m' := exists m'; simpl; rewrite ?release_sf_iters; auto.

Lemma bg_step_inv W st c i m :
  Inv W st -> nth_error (st_iters st) i = Some (IMiss m) ->
  Inv W (fst (bg_step st c i m)) /\ bg_frame st (fst (bg_step st c i m)) i m.
Proof.
  intros HI Hn.
  assert (Hg : miss_good W m) by (apply (Inv_iter _ _ _ _ HI Hn)).
  destruct m as [v k mk kf mx inn buf recs cl ini ph o].
  pose proof Hg as Hg0.
  destruct Hg as (Hin & Hkf & Hcl & Hst & _ & Hpre & Hbuf). simpl in *.
  assert (Hfin : forall inn' b' r', inner_good (w_full W k) inn' ->
            iter_good W (IMiss (mi_finish (mkMI v k mk kf mx inn' b' r' true ini ph o)))).
  { intros inn' b' r' Hi'. unfold mi_finish; simpl. apply miss_good_fin; auto; try (apply inner_good_stop; assumption). }
  unfold bg_step; simpl.
  destruct ph; simpl.
  - (* PFg *) split; [assumption|apply bg_frame_refl; assumption].
  - (* PBgInit *)
    assert (Ec : cl = true) by (destruct cl; [reflexivity|]; destruct Hcl as [Hcl _]; discriminate (Hcl eq_refl)).
    subst cl.
    assert (Hns : in_stopped inn = false) by (apply Hst; discriminate).
    destruct v.
    + destruct (find_in_cache V1 (st_cache st) (st_inval st) k mk) as [found c'] eqn:Ef.
      destruct HI as (Hc & Hw & Hi).
      destruct (find_in_cache_good _ _ _ _ _ _ _ _ Hc Ef) as (Hc' & _).
      assert (HI1 : Inv W (set_cache st c')) by (unfold Inv; simpl; auto).
      destruct found as [e|].
      * simpl. split; [apply Inv_set_iter; [assumption|apply Hfin; assumption]|].
        frame_with (mi_finish (mkMI V1 k mk kf mx inn None recs true ini PBgInit o)).
      * destruct (is_invalid_at (st_inval st) ini mk); simpl.
        -- split; [apply Inv_set_iter; [assumption|apply Hfin; assumption]|].
           frame_with (mi_finish (mkMI V1 k mk kf mx inn None recs true ini PBgInit o)).
        -- unfold mi_set_recs; simpl.
           set (m0 := mkMI V1 k mk kf mx inn buf [] true ini PBgInit o).
           destruct (fold_add_spec (match buf with Some b => b | None => [] end) m0) as (Hs & Hb).
           simpl in Hs, Hb.
           set (m1 := fold_left (fun mm t => fst (add_to_buffer mm t))
                                (match buf with Some b => b | None => [] end) m0) in *.
           destruct Hs as (Hv & Hk & Hmk & Hkf1 & Hmx & Hinn & Hcl1 & Hini & Hph & Ho).
           destruct m1 as [v1 k1 mk1 kf1 mx1 inn1 buf1 recs1 cl1 ini1 ph1 o1]. simpl in *.
           subst v1 k1 mk1 kf1 mx1 inn1 cl1 ini1 ph1 o1.
           split.
           ++ apply Inv_set_iter; [assumption|]. simpl. apply miss_good_bg; auto; try discriminate.
              unfold buf_good; simpl. destruct buf1 as [b1|]; [|exact I].
              destruct Hb as [Hb|(Hb1 & Hr1)]; [discriminate|].
              unfold buf_good in Hbuf; simpl in Hbuf. rewrite <- Hb1 in Hbuf. simpl in Hbuf.
              rewrite Hr1. rewrite <- Hb1. simpl. rewrite Hbuf. reflexivity.
           ++ frame_with (mkMI V1 k mk kf mx inn buf1 recs1 true ini PBgHead o).
    + assert (Hhead : Inv W (set_iter st i (IMiss (mkMI V2 k mk kf mx inn buf recs true ini PBgHead o))) /\
                      bg_frame st (set_iter st i (IMiss (mkMI V2 k mk kf mx inn buf recs true ini PBgHead o))) i
                               (mkMI V2 k mk kf mx inn buf recs true ini PBgInit o)).
      { split.
        - apply Inv_set_iter; [assumption|]. simpl. apply miss_good_bg; auto; try discriminate.
        - frame_with (mkMI V2 k mk kf mx inn buf recs true ini PBgHead o). }
      destruct (alist_get k (st_cache st)) as [[r0 t0|m0 t0]|]; simpl; try exact Hhead.
      split; [apply Inv_set_iter; [assumption|apply Hfin; assumption]|].
      frame_with (mi_finish (mkMI V2 k mk kf mx inn None recs true ini PBgInit o)).
  - (* PBgHead *)
    assert (Ec : cl = true) by (destruct cl; [reflexivity|]; destruct Hcl as [Hcl _]; discriminate (Hcl eq_refl)).
    subst cl.
    assert (Hns : in_stopped inn = false) by (apply Hst; discriminate).
    set (mm := mkMI v k mk kf mx inn buf recs true ini PBgHead o) in *.
    destruct (inner_call false c inn) as [inn' r] eqn:Ecall.
    destruct (inner_call_spec _ _ _ _ _ _ Hin Ecall) as (Hin' & Hs' & Hr).
    rewrite Hns in Hs'.
    assert (Hp : in_pos inn' = in_pos inn).
    { destruct r as [t| |e]; [destruct Hr as (_ & Hp & _)|destruct Hr as (Hp & _)|]; assumption. }
    assert (Hg1 : forall ph', ph' = PBgHead \/ ph' = PBgSf ->
              miss_good W (mkMI v k mk kf mx inn' buf recs true ini ph' o)).
    { intros ph' Hph'. apply miss_good_bg; auto.
      - destruct Hph' as [->| ->]; discriminate.
      - unfold buf_good in *; simpl in *. rewrite Hp.
        destruct Hph' as [->| ->]; exact Hbuf. }
    assert (Hother : Inv W (set_iter st i (IMiss (mi_set_phase (mi_set_inner mm inn') PBgSf))) /\
                     bg_frame st (set_iter st i (IMiss (mi_set_phase (mi_set_inner mm inn') PBgSf))) i mm).
    { split; [apply Inv_set_iter; [assumption|]; apply Hg1; right; reflexivity|].
      frame_with (mkMI v k mk kf mx inn' buf recs true ini PBgSf o). }
    destruct r as [t| |e]; try exact Hother.
    destruct Hr as (_ & Hd). specialize (Hd Hns).
    destruct (flush st (mi_set_inner mm inn')) as [st1 m2] eqn:Efl.
    destruct (flush_good W st _ st1 m2 HI (Hg1 PBgHead (or_introl eq_refl)) eq_refl (or_introl eq_refl)
                         ltac:(simpl; rewrite Hp; exact Hd) Efl)
      as (HI1 & Hit1 & _ & Hg2 & Hk2 & Ho2 & Hv2 & Hc2).
    simpl. split; [apply Inv_set_iter; assumption|].
    exists (mi_finish m2). simpl. rewrite Hit1. simpl in *. auto.
  - (* PBgSf *)
    assert (Ec : cl = true) by (destruct cl; [reflexivity|]; destruct Hcl as [Hcl _]; discriminate (Hcl eq_refl)).
    subst cl.
    assert (Hns : in_stopped inn = false) by (apply Hst; discriminate).
    assert (Hg1 : forall ph', ph' = PBgLoop \/ (exists ow, ph' = PBgWait ow) ->
              miss_good W (mkMI v k mk kf mx inn buf recs true ini ph' o)).
    { intros ph' Hph'. apply miss_good_bg; auto.
      - destruct Hph' as [->|(ow & ->)]; discriminate.
      - unfold buf_good in *; simpl in *.
        destruct Hph' as [->|(ow & ->)]; exact Hbuf. }
    destruct (alist_get k (st_sf st)) as [ow|]; simpl.
    + split; [apply Inv_set_iter; [assumption|]; apply Hg1; right; eexists; reflexivity|].
      frame_with (mkMI v k mk kf mx inn buf recs true ini (PBgWait ow) o).
    + split; [apply Inv_set_iter; [apply Inv_set_sf; assumption|]; apply Hg1; auto|].
      frame_with (mkMI v k mk kf mx inn buf recs true ini PBgLoop o).
  - (* PBgWait *)
    destruct (alist_get k (st_sf st)) as [ow|]; simpl.
    + destruct (Nat.eqb ow owner); simpl.
      * split; [assumption|apply bg_frame_refl; assumption].
      * assert (Ec : cl = true) by (destruct cl; [reflexivity|]; destruct Hcl as [Hcl _]; discriminate (Hcl eq_refl)).
        subst cl. split; [apply Inv_set_iter; [assumption|apply Hfin; assumption]|].
        frame_with (mi_finish (mkMI v k mk kf mx inn buf recs true ini (PBgWait owner) o)).
    + assert (Ec : cl = true) by (destruct cl; [reflexivity|]; destruct Hcl as [Hcl _]; discriminate (Hcl eq_refl)).
      subst cl. split; [apply Inv_set_iter; [assumption|apply Hfin; assumption]|].
      frame_with (mi_finish (mkMI v k mk kf mx inn buf recs true ini (PBgWait owner) o)).
  - (* PBgLoop *)
    assert (Ec : cl = true) by (destruct cl; [reflexivity|]; destruct Hcl as [Hcl _]; discriminate (Hcl eq_refl)).
    subst cl.
    assert (Hns : in_stopped inn = false) by (apply Hst; discriminate).
    set (mm := mkMI v k mk kf mx inn buf recs true ini PBgLoop o) in *.
    destruct (inner_call true c inn) as [inn' r] eqn:Ecall.
    destruct (inner_call_spec _ _ _ _ _ _ Hin Ecall) as (Hin' & Hs' & Hr).
    rewrite Hns in Hs'.
    destruct r as [t| |e].
    + (* item *)
      destruct Hr as (Hnth & Hp & _).
      assert (Hsn : firstn (in_pos inn') (w_full W k) = firstn (in_pos inn) (w_full W k) ++ [t]).
      { rewrite Hp. apply firstn_snoc. exact Hnth. }
      destruct v.
      * unfold add_to_buffer; simpl. destruct buf as [b|]; simpl.
        -- destruct (mx <=? length (recs ++ [elide kf t]))%nat; simpl.
           ++ split.
              ** apply Inv_set_iter; [assumption|]. simpl. apply miss_good_bg; auto; try discriminate.
                 unfold buf_good; simpl. exact I.
              ** frame_with (mkMI V1 k mk kf mx inn' None [] true ini PBgLoop o).
           ++ split.
              ** apply Inv_set_iter; [assumption|]. simpl. apply miss_good_bg; auto; try discriminate.
                 unfold buf_good in *; simpl in *. rewrite Hsn, map_app, Hbuf. reflexivity.
              ** frame_with (mkMI V1 k mk kf mx inn' (Some b) (recs ++ [elide kf t]) true ini PBgLoop o).
        -- split; [apply Inv_set_iter; [apply Inv_release_sf; assumption|apply Hfin; assumption]|].
           frame_with (mi_finish (mkMI V1 k mk kf mx inn' None recs true ini PBgLoop o)).
      * destruct buf as [b|]; simpl.
        -- destruct (mx <? length (b ++ [t]))%nat; simpl.
           ++ split; [apply Inv_set_iter; [apply Inv_release_sf; assumption|apply Hfin; assumption]|].
              frame_with (mi_finish (mkMI V2 k mk kf mx inn' None recs true ini PBgLoop o)).
           ++ split.
              ** apply Inv_set_iter; [assumption|]. simpl. apply miss_good_bg; auto; try discriminate.
                 unfold buf_good in *; simpl in *. rewrite Hsn, Hbuf. reflexivity.
              ** frame_with (mkMI V2 k mk kf mx inn' (Some (b ++ [t])) recs true ini PBgLoop o).
        -- split; [apply Inv_set_iter; [apply Inv_release_sf; assumption|apply Hfin; assumption]|].
           frame_with (mi_finish (mkMI V2 k mk kf mx inn' None recs true ini PBgLoop o)).
    + (* done *)
      destruct Hr as (Hp & Hd). specialize (Hd Hns).
      assert (Hg1 : miss_good W (mi_set_inner mm inn')).
      { unfold mm; simpl. apply miss_good_bg; auto; try discriminate.
        unfold buf_good in *; simpl in *. rewrite Hp. exact Hbuf. }
      destruct (flush st (mi_set_inner mm inn')) as [st1 m2] eqn:Efl.
      destruct (flush_good W st _ st1 m2 HI Hg1 eq_refl (or_intror eq_refl)
                           ltac:(simpl; rewrite Hp; exact Hd) Efl)
        as (HI1 & Hit1 & _ & Hg2 & Hk2 & Ho2 & Hv2 & Hc2).
      simpl. split; [apply Inv_set_iter; [apply Inv_release_sf; assumption|assumption]|].
      exists (mi_finish m2). simpl. rewrite release_sf_iters, Hit1. simpl in *. auto.
    + (* error *)
      split.
      * apply Inv_set_iter; [apply Inv_release_sf; assumption|].
        destruct v; simpl; apply Hfin; assumption.
      * destruct v.
        -- frame_with (mi_finish (mkMI V1 k mk kf mx inn' buf recs true ini PBgLoop o)).
        -- frame_with (mi_finish (mkMI V2 k mk kf mx inn' None recs true ini PBgLoop o)).
  - (* PFin *) split; [assumption|apply bg_frame_refl; assumption].
Qed.

Lemma bg_timeout_inv W st i m :
  Inv W st -> nth_error (st_iters st) i = Some (IMiss m) ->
  Inv W (fst (bg_timeout st i m)) /\ bg_frame st (fst (bg_timeout st i m)) i m.
Proof.
  intros HI Hn.
  assert (Hg : miss_good W m) by (apply (Inv_iter _ _ _ _ HI Hn)).
  destruct m as [v k mk kf mx inn buf recs cl ini ph o].
  destruct Hg as (Hin & Hkf & Hcl & Hst & _ & Hpre & Hbuf). simpl in *.
  unfold bg_timeout; simpl.
  assert (Hrefl : Inv W st /\ bg_frame st st i (mkMI v k mk kf mx inn buf recs cl ini ph o))
    by (split; [assumption|apply bg_frame_refl; assumption]).
  destruct v; [exact Hrefl|].
  destruct ph; try exact Hrefl;
    (assert (Ec : cl = true) by (destruct cl; [reflexivity|]; destruct Hcl as [Hcl _]; discriminate (Hcl eq_refl)));
    subst cl; simpl.
  - split.
    + apply Inv_set_iter; [assumption|]. simpl. apply miss_good_fin; auto; try (apply inner_good_stop; assumption).
    + frame_with (mi_finish (mkMI V2 k mk kf mx inn None recs true ini PBgHead o)).
  - split.
    + apply Inv_set_iter; [assumption|]. simpl. apply miss_good_fin; auto; try (apply inner_good_stop; assumption).
    + frame_with (mi_finish (mkMI V2 k mk kf mx inn None recs true ini PBgSf o)).
  - split.
    + apply Inv_set_iter; [apply Inv_release_sf; assumption|]. simpl.
      apply miss_good_fin; auto; try (apply inner_good_stop; assumption).
    + frame_with (mi_finish (mkMI V2 k mk kf mx inn None recs true ini PBgLoop o)).
Qed.

Lemma do_open_inv W st q :
  Inv W st -> q_ok W q ->
  Inv W (fst (do_open st q)) /\
  exists it, st_iters (fst (do_open st q)) = st_iters st ++ [it].
Proof.
  intros HI (Hitems & Hlossy & Hnb). unfold do_open.
  assert (Hinner : inner_good (w_full W (q_key q)) (mk_inner q)).
  { unfold inner_good, mk_inner; simpl. repeat split; auto. lia. }
  destruct (bypass q) eqn:Eb.
  - destruct (q_openerr q); simpl.
    + split; [apply Inv_push_iter; [assumption|exact I]|eexists; reflexivity].
    + split; [|eexists; reflexivity]. apply Inv_push_iter; [assumption|].
      simpl. unfold byp_good. split; [exact Hinner|]. split; reflexivity.
  - destruct (Hnb eq_refl) as (Hkf & Hcons).
    destruct (find_in_cache (q_var q) (st_cache st) (st_inval st) (q_key q) (q_markers q)) as [found c'] eqn:Ef.
    destruct HI as (Hc & Hw & Hi).
    destruct (find_in_cache_good _ _ _ _ _ _ _ _ Hc Ef) as (Hc' & Hfound).
    assert (HI1 : Inv W (set_cache st c')) by (unfold Inv; simpl; auto).
    destruct found as [e|].
    + simpl. split; [|eexists; reflexivity]. apply Inv_push_iter; [assumption|].
      destruct Hfound as (Heg & His & _).
      simpl. unfold hit_good; simpl. split; [|split; [lia|reflexivity]].
      destruct (q_var q) eqn:Ev; destruct e as [recs ts|ms ts]; simpl in His; try discriminate; simpl in *.
      * rewrite Heg, <- Hkf, <- Hitems. rewrite map_reconstruct_elide by assumption. symmetry. apply map_id.
      * rewrite Heg, <- Hitems. apply map_reconstruct2_minimal. assumption.
    + destruct (q_openerr q); simpl.
      * split; [apply Inv_push_iter; [assumption|exact I]|eexists; reflexivity].
      * split; [|eexists; reflexivity]. apply Inv_push_iter; [assumption|].
        simpl. apply miss_good_intro; simpl; auto.
        -- split; reflexivity.
        -- unfold buf_good; simpl. reflexivity.
Qed.

(* ========================================================================================== *)
(* 5. One step: invariant, consumer-visible specification, integrity of the ghost "handed out"  *)

Definition is_next_op (o : op) : bool := match o with ONext _ _ => true | _ => false end.

(* Next / Head on an iterator the consumer has not stopped: the result is an error (nothing
   moves), or the next element of the uncached answer, or Done exactly when everything has been
   handed out. *)
Definition step_spec (W : world) (st : state) (o : op) : Prop :=
  match o with
  | ONext i _ | OHead i _ =>
      forall it k, nth_error (st_iters st) i = Some it -> it_live it = true -> it_key it = Some k ->
        exists r it', snd (step st o) = ORes r /\
                      nth_error (st_iters (fst (step st o))) i = Some it' /\
                      res_spec (w_full W k) (it_norm it) (is_next_op o) (it_out it) (it_out it') r
  | _ => True
  end.

Definition extra_of (o : op) (x : out) (j : nat) : list tuple :=
  match o, x with
  | ONext i _, ORes (RItem t) => if Nat.eqb i j then [t] else []
  | _, _ => []
  end.

(* the ghost field is exactly the list of tuples that Next returned on that iterator; keys never
   change *)
Definition out_frame (st : state) (o : op) : Prop :=
  forall j it, nth_error (st_iters st) j = Some it ->
    exists it', nth_error (st_iters (fst (step st o))) j = Some it' /\
                it_key it' = it_key it /\ it_var it' = it_var it /\
                it_out it' = it_out it ++ extra_of o (snd (step st o)) j.

Lemma frame_upd (l : list iter) i it it' extra :
  nth_error l i = Some it -> it_key it' = it_key it -> it_var it' = it_var it ->
  it_out it' = it_out it ++ extra ->
  forall j itj, nth_error l j = Some itj ->
    exists itj', nth_error (upd_nth i it' l) j = Some itj' /\ it_key itj' = it_key itj /\
                 it_var itj' = it_var itj /\
                 it_out itj' = it_out itj ++ (if Nat.eqb i j then extra else []).
Proof.
  intros Hn Hk Hv Ho j itj Hj. destruct (Nat.eqb i j) eqn:E.
  - apply Nat.eqb_eq in E. subst j. rewrite Hn in Hj. inversion Hj; subst itj.
    exists it'. split; [eapply nth_error_upd_same; eassumption|auto].
  - apply Nat.eqb_neq in E. exists itj. rewrite nth_error_upd_other by assumption.
    rewrite app_nil_r. auto.
Qed.

Lemma frame_same (l : list iter) :
  forall j itj, nth_error l j = Some itj ->
    exists itj', nth_error l j = Some itj' /\ it_key itj' = it_key itj /\ it_var itj' = it_var itj /\
                 it_out itj' = it_out itj ++ [].
Proof. intros j itj Hj. exists itj. rewrite app_nil_r. auto. Qed.

Lemma miss_next_out m c :
  mi_out (fst (miss_next m c)) = mi_out m ++ (match snd (miss_next m c) with RItem t => [t] | _ => [] end).
Proof.
  unfold miss_next. destruct (mi_closing m); simpl; [symmetry; apply app_nil_r|].
  destruct (inner_call true c (mi_inner m)) as [inn r]. destruct r as [t| |e]; simpl.
  - reflexivity.
  - symmetry; apply app_nil_r.
  - destruct (is_cancel e); simpl; symmetry; apply app_nil_r.
Qed.

Lemma hit_call_out b h c :
  hi_out (fst (hit_call b h c)) =
  hi_out h ++ (if b then match snd (hit_call b h c) with RItem t => [t] | _ => [] end else []).
Proof.
  unfold hit_call. destruct (ctx_err c); simpl; [destruct b; symmetry; apply app_nil_r|].
  destruct (hi_stopped h); simpl; [destruct b; symmetry; apply app_nil_r|].
  destruct (nth_error (hi_items h) (hi_pos h)); simpl; destruct b; simpl;
    try reflexivity; symmetry; apply app_nil_r.
Qed.

Lemma bg_frame_out_frame st st' i m o x :
  nth_error (st_iters st) i = Some (IMiss m) -> bg_frame st st' i m ->
  (forall j, extra_of o x j = []) ->
  forall j it, nth_error (st_iters st) j = Some it ->
    exists it', nth_error (st_iters st') j = Some it' /\ it_key it' = it_key it /\
                it_var it' = it_var it /\ it_out it' = it_out it ++ extra_of o x j.
Proof.
  intros Hn (m' & Hit & Ho & Hk & Hc & Hv) Hex j it Hj. rewrite Hex, Hit.
  destruct (frame_upd (st_iters st) i (IMiss m) (IMiss m') [] Hn) with (j := j) (itj := it)
    as (it' & H1 & H2 & H3 & H4); simpl; try congruence.
  - rewrite app_nil_r. assumption.
  - exists it'. destruct (Nat.eqb i j); auto.
Qed.

Lemma step_all W st o :
  Inv W st -> op_ok W o ->
  Inv W (fst (step st o)) /\ step_spec W st o /\ out_frame st o.
Proof.
  intros HI0 Hop.
  assert (HI : Inv W (tick st)) by (apply Inv_tick; assumption).
  destruct o as [q|i c|i c|i|i|i|mk ts|k|]; unfold step_spec, out_frame, step.
  - (* open *)
    destruct (do_open_inv W (tick st) q HI Hop) as (H1 & it & H2).
    split; [exact H1|]. split; [exact I|].
    intros j itj Hj. exists itj. rewrite H2. simpl st_iters in *.
    rewrite nth_error_app1 by (apply nth_error_Some; congruence).
    unfold extra_of. rewrite app_nil_r. auto.
  - (* next *)
    simpl st_iters. destruct (nth_error (st_iters st) i) as [[m|h|k inn o|]|] eqn:En.
    + destruct (miss_next m c) as [m' r] eqn:Em.
      assert (Hg : miss_good W m) by (apply (Inv_iter _ _ _ _ HI0 En)).
      destruct (miss_next_good _ _ _ _ _ Hg Em) as (Hg' & Hk & Hv & Hc & Hs).
      pose proof (miss_next_out m c) as Hout. rewrite Em in Hout. simpl in Hout.
      simpl. rewrite apply_fx_iters.
      split; [apply Inv_set_iter; [apply Inv_apply_fx|]; assumption|]. split.
      * intros it k0 Hit Hlive Hkey. inversion Hit; subst it. simpl in *.
        inversion Hkey; subst k0.
        exists r, (IMiss m'). split; [reflexivity|]. split; [eapply nth_error_upd_same; eassumption|].
        apply Hs. destruct (mi_closing m); [discriminate|reflexivity].
      * intros j itj Hj.
        destruct (frame_upd (st_iters st) i (IMiss m) (IMiss m')
                            (match r with RItem t => [t] | _ => [] end) En) with (j := j) (itj := itj)
          as (it' & H1 & H2 & H3 & H4); simpl; auto; try congruence.
        exists it'. split; [exact H1|]. split; [exact H2|]. split; [exact H3|].
        rewrite H4. unfold extra_of. destruct r; destruct (Nat.eqb i j); reflexivity.
    + destruct (hit_call true h c) as [h' r] eqn:Eh.
      assert (Hg : hit_good W h) by (apply (Inv_iter _ _ _ _ HI0 En)).
      destruct (hit_call_good _ _ _ _ _ _ Hg Eh) as (Hg' & Hk & Hv & Hc & Hs).
      pose proof (hit_call_out true h c) as Hout. rewrite Eh in Hout. simpl in Hout.
      simpl. split; [apply Inv_set_iter; assumption|]. split.
      * intros it k0 Hit Hlive Hkey. inversion Hit; subst it. simpl in *.
        inversion Hkey; subst k0.
        exists r, (IHit h'). split; [reflexivity|]. split; [eapply nth_error_upd_same; eassumption|].
        assert (Hst : hi_stopped h = false) by (destruct (hi_stopped h); [discriminate|reflexivity]).
        specialize (Hs Hst). destruct (hi_var h); exact Hs.
      * intros j itj Hj.
        destruct (frame_upd (st_iters st) i (IHit h) (IHit h')
                            (match r with RItem t => [t] | _ => [] end) En) with (j := j) (itj := itj)
          as (it' & H1 & H2 & H3 & H4); simpl; auto; try congruence.
        exists it'. split; [exact H1|]. split; [exact H2|]. split; [exact H3|].
        rewrite H4. unfold extra_of. destruct r; destruct (Nat.eqb i j); reflexivity.
    + destruct (inner_call true c inn) as [inn' r] eqn:Ei.
      assert (Hg : byp_good W k inn o) by (apply (Inv_iter _ _ _ _ HI0 En)).
      destruct (byp_call_good _ _ _ _ _ _ _ _ Hg Ei) as (Hg' & Hst' & Hs). simpl in Hg', Hs.
      simpl. rewrite apply_fx_iters.
      split; [apply Inv_set_iter; [apply Inv_apply_fx|]; assumption|]. split.
      * intros it k0 Hit Hlive Hkey. inversion Hit; subst it. simpl in *.
        inversion Hkey; subst k0.
        exists r, (IBypass k inn' (match r with RItem t => o ++ [t] | _ => o end)).
        split; [reflexivity|]. split; [eapply nth_error_upd_same; eassumption|].
        apply Hs. destruct (in_stopped inn); [discriminate|reflexivity].
      * intros j itj Hj.
        destruct (frame_upd (st_iters st) i (IBypass k inn o)
                            (IBypass k inn' (match r with RItem t => o ++ [t] | _ => o end))
                            (match r with RItem t => [t] | _ => [] end) En) with (j := j) (itj := itj)
          as (it' & H1 & H2 & H3 & H4); simpl; auto.
        { destruct r; simpl; try reflexivity; symmetry; apply app_nil_r. }
        exists it'. split; [exact H1|]. split; [exact H2|]. split; [exact H3|].
        rewrite H4. unfold extra_of. destruct r; destruct (Nat.eqb i j); reflexivity.
    + simpl. split; [exact HI|]. split.
      * intros it k0 Hit Hlive. inversion Hit; subst it. discriminate.
      * intros j itj Hj. unfold extra_of. apply frame_same. exact Hj.
    + simpl. split; [exact HI|]. split.
      * intros it k0 Hit. discriminate.
      * intros j itj Hj. unfold extra_of. apply frame_same. exact Hj.
  - (* head *)
    simpl st_iters. destruct (nth_error (st_iters st) i) as [[m|h|k inn o|]|] eqn:En.
    + destruct (miss_head m c) as [m' r] eqn:Em.
      assert (Hg : miss_good W m) by (apply (Inv_iter _ _ _ _ HI0 En)).
      destruct (miss_head_good _ _ _ _ _ Hg Em) as (Hg' & Hk & Hv & Hc & Ho & Hs).
      simpl. rewrite apply_fx_iters.
      split; [apply Inv_set_iter; [apply Inv_apply_fx|]; assumption|]. split.
      * intros it k0 Hit Hlive Hkey. inversion Hit; subst it. simpl in *.
        inversion Hkey; subst k0.
        exists r, (IMiss m'). split; [reflexivity|]. split; [eapply nth_error_upd_same; eassumption|].
        apply Hs. destruct (mi_closing m); [discriminate|reflexivity].
      * intros j itj Hj.
        destruct (frame_upd (st_iters st) i (IMiss m) (IMiss m') [] En) with (j := j) (itj := itj)
          as (it' & H1 & H2 & H3 & H4); simpl; auto; try congruence.
        { rewrite app_nil_r. exact Ho. }
        exists it'. split; [exact H1|]. split; [exact H2|]. split; [exact H3|].
        rewrite H4. unfold extra_of. destruct (Nat.eqb i j); reflexivity.
    + destruct (hit_call false h c) as [h' r] eqn:Eh.
      assert (Hg : hit_good W h) by (apply (Inv_iter _ _ _ _ HI0 En)).
      destruct (hit_call_good _ _ _ _ _ _ Hg Eh) as (Hg' & Hk & Hv & Hc & Hs).
      pose proof (hit_call_out false h c) as Hout. rewrite Eh in Hout. simpl in Hout.
      simpl. split; [apply Inv_set_iter; assumption|]. split.
      * intros it k0 Hit Hlive Hkey. inversion Hit; subst it. simpl in *.
        inversion Hkey; subst k0.
        exists r, (IHit h'). split; [reflexivity|]. split; [eapply nth_error_upd_same; eassumption|].
        assert (Hst : hi_stopped h = false) by (destruct (hi_stopped h); [discriminate|reflexivity]).
        specialize (Hs Hst). destruct (hi_var h); exact Hs.
      * intros j itj Hj.
        destruct (frame_upd (st_iters st) i (IHit h) (IHit h') [] En) with (j := j) (itj := itj)
          as (it' & H1 & H2 & H3 & H4); simpl; auto; try congruence.
        exists it'. split; [exact H1|]. split; [exact H2|]. split; [exact H3|].
        rewrite H4. unfold extra_of. destruct (Nat.eqb i j); reflexivity.
    + destruct (inner_call false c inn) as [inn' r] eqn:Ei.
      assert (Hg : byp_good W k inn o) by (apply (Inv_iter _ _ _ _ HI0 En)).
      destruct (byp_call_good _ _ _ _ _ _ _ _ Hg Ei) as (Hg' & Hst' & Hs). simpl in Hg', Hs.
      simpl. rewrite apply_fx_iters.
      split; [apply Inv_set_iter; [apply Inv_apply_fx|]; assumption|]. split.
      * intros it k0 Hit Hlive Hkey. inversion Hit; subst it. simpl in *.
        inversion Hkey; subst k0.
        exists r, (IBypass k inn' o).
        split; [reflexivity|]. split; [eapply nth_error_upd_same; eassumption|].
        apply Hs. destruct (in_stopped inn); [discriminate|reflexivity].
      * intros j itj Hj.
        destruct (frame_upd (st_iters st) i (IBypass k inn o) (IBypass k inn' o) [] En)
          with (j := j) (itj := itj) as (it' & H1 & H2 & H3 & H4); simpl; auto.
        { symmetry; apply app_nil_r. }
        exists it'. split; [exact H1|]. split; [exact H2|]. split; [exact H3|].
        rewrite H4. unfold extra_of. destruct (Nat.eqb i j); reflexivity.
    + simpl. split; [exact HI|]. split.
      * intros it k0 Hit Hlive. inversion Hit; subst it. discriminate.
      * intros j itj Hj. unfold extra_of. apply frame_same. exact Hj.
    + simpl. split; [exact HI|]. split.
      * intros it k0 Hit. discriminate.
      * intros j itj Hj. unfold extra_of. apply frame_same. exact Hj.
  - (* stop *)
    simpl st_iters. destruct (nth_error (st_iters st) i) as [[m|h|k inn o|]|] eqn:En; simpl.
    + assert (Hg : miss_good W m) by (apply (Inv_iter _ _ _ _ HI0 En)).
      destruct (miss_stop_good W (st_srv st) m Hg) as (Hg' & Ho & Hk & Hv).
      split; [apply Inv_set_iter; assumption|]. split; [exact I|].
      intros j itj Hj.
      destruct (frame_upd (st_iters st) i (IMiss m) (IMiss (miss_stop (st_srv st) m)) [] En)
        with (j := j) (itj := itj) as (it' & H1 & H2 & H3 & H4); simpl; auto; try congruence.
      { rewrite app_nil_r. exact Ho. }
      exists it'. split; [exact H1|]. split; [exact H2|]. split; [exact H3|].
      rewrite H4. destruct (Nat.eqb i j); reflexivity.
    + assert (Hg : hit_good W h) by (apply (Inv_iter _ _ _ _ HI0 En)).
      split; [apply Inv_set_iter; [assumption|exact Hg]|]. split; [exact I|].
      intros j itj Hj.
      destruct (frame_upd (st_iters st) i (IHit h) (IHit (hit_stop h)) [] En)
        with (j := j) (itj := itj) as (it' & H1 & H2 & H3 & H4); simpl; auto.
      { symmetry; apply app_nil_r. }
      exists it'. split; [exact H1|]. split; [exact H2|]. split; [exact H3|].
      rewrite H4. destruct (Nat.eqb i j); reflexivity.
    + assert (Hg : byp_good W k inn o) by (apply (Inv_iter _ _ _ _ HI0 En)).
      split.
      * apply Inv_set_iter; [assumption|]. simpl. destruct Hg as (H1 & H2 & H3).
        unfold byp_good. split; [apply inner_good_stop; assumption|]. split; [discriminate|exact H3].
      * split; [exact I|]. intros j itj Hj.
        destruct (frame_upd (st_iters st) i (IBypass k inn o) (IBypass k (in_stop inn) o) [] En)
          with (j := j) (itj := itj) as (it' & H1 & H2 & H3 & H4); simpl; auto.
        { symmetry; apply app_nil_r. }
        exists it'. split; [exact H1|]. split; [exact H2|]. split; [exact H3|].
        rewrite H4. destruct (Nat.eqb i j); reflexivity.
    + split; [exact HI|]. split; [exact I|]. intros j itj Hj. apply frame_same. exact Hj.
    + split; [exact HI|]. split; [exact I|]. intros j itj Hj. apply frame_same. exact Hj.
  - (* bg *)
    simpl st_iters. destruct (nth_error (st_iters st) i) as [[m|h|k inn o|]|] eqn:En;
      try (simpl; split; [exact HI|]; split; [exact I|]; intros j itj Hj; apply frame_same; exact Hj).
    set (cc := bg_ctx (tick st) m).
    set (st1 := apply_fx (tick st) (bg_fx m cc)).
    assert (HI1 : Inv W st1) by (apply Inv_apply_fx; exact HI).
    assert (En1 : nth_error (st_iters st1) i = Some (IMiss m)) by (unfold st1; rewrite apply_fx_iters; exact En).
    destruct (bg_step_inv W st1 cc i m HI1 En1) as (H1 & H2).
    split; [exact H1|]. split; [exact I|].
    intros j it Hj.
    apply (bg_frame_out_frame st1 _ i m (OBg i) (snd (bg_step st1 cc i m))); auto.
    unfold st1; rewrite apply_fx_iters; exact Hj.
  - (* bg timeout *)
    simpl st_iters. destruct (nth_error (st_iters st) i) as [[m|h|k inn o|]|] eqn:En;
      try (simpl; split; [exact HI|]; split; [exact I|]; intros j itj Hj; apply frame_same; exact Hj).
    destruct (bg_timeout_inv W (tick st) i m HI En) as (H1 & H2).
    split; [exact H1|]. split; [exact I|].
    apply (bg_frame_out_frame (tick st) _ i m); auto.
  - (* inval *)
    simpl. split; [|split; [exact I|intros j itj Hj; apply frame_same; exact Hj]].
    destruct HI as (Hc & Hw & Hi). unfold Inv; simpl. auto.
  - (* evict *)
    simpl. split; [|split; [exact I|intros j itj Hj; apply frame_same; exact Hj]].
    apply Inv_set_cache; [assumption|]. apply cache_good_del. destruct HI as (Hc & _). exact Hc.
  - (* cancel server *)
    simpl. split; [|split; [exact I|intros j itj Hj; apply frame_same; exact Hj]].
    destruct HI as (Hc & Hw & Hi). unfold Inv; simpl. auto.
Qed.

(* ========================================================================================== *)
(* 6. Histories                                                                                *)

Fixpoint hist_ok (W : world) (st : state) (h : list op) : Prop :=
  match h with
  | [] => True
  | o :: h' => step_spec W st o /\ out_frame st o /\ hist_ok W (fst (step st o)) h'
  end.

Lemma Inv_init W : Inv W init_state.
Proof.
  unfold Inv, init_state; simpl. repeat split.
  - intros k e H. discriminate.
  - intros k e mx [].
  - constructor.
Qed.

Lemma run_cons st o h : fst (run st (o :: h)) = fst (run (fst (step st o)) h).
Proof. simpl. destruct (step st o) as [st1 x]. simpl. destruct (run st1 h). reflexivity. Qed.

Lemma run_inv W h : forall st, Inv W st -> Forall (op_ok W) h -> Inv W (fst (run st h)).
Proof.
  induction h as [|o h IH]; intros st HI Hh; [exact HI|].
  inversion Hh as [|o' h' Ho Hh']; subst. rewrite run_cons. apply IH; [|assumption].
  apply (step_all W st o HI Ho).
Qed.

Lemma hist_ok_inv W h : forall st, Inv W st -> Forall (op_ok W) h -> hist_ok W st h.
Proof.
  induction h as [|o h IH]; intros st HI Hh; [exact I|].
  inversion Hh as [|o' h' Ho Hh']; subst. destruct (step_all W st o HI Ho) as (Hs1 & Hs2 & Hs3).
  simpl. auto.
Qed.

Lemma iter_cache_transparent_lemma W h :
  Forall (op_ok W) h -> hist_ok W init_state h.
Proof. intro H. apply hist_ok_inv; [apply Inv_init|assumption]. Qed.

Lemma flush_complete_lemma W h :
  Forall (op_ok W) h ->
  forall k e mx, In (k, e, mx) (st_writes (fst (run init_state h))) ->
  match e with
  | CE1 recs _ => recs = map (elide (w_kf W V1 k)) (w_full W k)
  | CE2 ms _ => ms = map minimal (w_full W k)
  end.
Proof.
  intros Hh k e mx Hin.
  destruct (run_inv W h init_state (Inv_init W) Hh) as (_ & Hw & _).
  exact (Hw k e mx Hin).
Qed.

(* whatever is in the cache at any time is a whole answer too (entries are only ever created by
   flush) *)
Lemma cache_complete_lemma W h :
  Forall (op_ok W) h ->
  forall k e, alist_get k (st_cache (fst (run init_state h))) = Some e ->
  match e with
  | CE1 recs _ => recs = map (elide (w_kf W V1 k)) (w_full W k)
  | CE2 ms _ => ms = map minimal (w_full W k)
  end.
Proof.
  intros Hh k e Hin.
  destruct (run_inv W h init_state (Inv_init W) Hh) as (Hc & _ & _).
  exact (Hc k e Hin).
Qed.

Lemma firstn_map {A B} (f : A -> B) n l : firstn n (map f l) = map f (firstn n l).
Proof. revert n; induction l as [|x l IH]; intros [|n]; simpl; try reflexivity. rewrite IH. reflexivity. Qed.

(* at every moment, what an iterator has handed out is a prefix of the uncached answer *)
Lemma handed_prefix_lemma W h :
  Forall (op_ok W) h ->
  forall i it k, nth_error (st_iters (fst (run init_state h))) i = Some it -> it_key it = Some k ->
  map (it_norm it) (it_out it) = firstn (length (it_out it)) (map (it_norm it) (w_full W k)).
Proof.
  intros Hh i it k Hn Hk.
  pose proof (Inv_iter W _ i it (run_inv W h init_state (Inv_init W) Hh) Hn) as Hg.
  destruct it as [m|hh|k0 inn o|]; simpl in *; inversion Hk; subst.
  - destruct Hg as (_ & _ & _ & _ & _ & Hpre & _). rewrite !map_id'. exact Hpre.
  - destruct Hg as (Hit & Hpos & Hout).
    assert (Hlen : length (hi_out hh) = hi_pos hh) by (rewrite Hout; apply firstn_length_self; assumption).
    rewrite Hlen.
    assert (Hitems : map (norm_v (hi_var hh)) (hi_items hh) = hi_items hh).
    { rewrite Hit, map_map. apply map_ext. intro a. apply norm_v_idem. }
    assert (Hgoal : map (norm_v (hi_var hh)) (hi_out hh)
                    = firstn (hi_pos hh) (map (norm_v (hi_var hh)) (w_full W (hi_key hh)))).
    { rewrite Hout, <- firstn_map, Hitems, Hit. reflexivity. }
    destruct (hi_var hh); exact Hgoal.
  - destruct Hg as (_ & _ & Hpre). rewrite !map_id'. exact Hpre.
Qed.

(* ------------------------------------------------------------------------------------------ *)
(* a hit replays exactly the stored read *)

Fixpoint hit_drain (h : hiter) (n : nat) : list res :=
  match n with
  | O => []
  | S n' => let '(h', r) := hit_call true h CLive in r :: hit_drain h' n'
  end.

Lemma hit_drain_spec n : forall h,
  hi_stopped h = false -> (hi_pos h <= length (hi_items h))%nat ->
  n = (length (hi_items h) - hi_pos h)%nat ->
  hit_drain h (S n) = map RItem (skipn (hi_pos h) (hi_items h)) ++ [RDone].
Proof.
  induction n as [|n IH]; intros h Hs Hp Hn.
  - assert (Hpos : hi_pos h = length (hi_items h)) by lia.
    simpl. unfold hit_call. simpl. rewrite Hs.
    assert (Hnone : nth_error (hi_items h) (hi_pos h) = None) by (apply nth_error_None; lia).
    rewrite Hnone. rewrite Hpos, skipn_all. reflexivity.
  - assert (Hlt : (hi_pos h < length (hi_items h))%nat) by lia.
    destruct (nth_error (hi_items h) (hi_pos h)) as [t|] eqn:En;
      [|apply nth_error_None in En; lia].
    change (hit_drain h (S (S n))) with
      (let '(h', r) := hit_call true h CLive in r :: hit_drain h' (S n)).
    unfold hit_call at 1. simpl ctx_err. cbv iota. rewrite Hs, En.
    rewrite IH; simpl; auto; try lia.
    assert (Hsk : skipn (hi_pos h) (hi_items h) = t :: skipn (S (hi_pos h)) (hi_items h)).
    { clear -En. revert En. generalize (hi_pos h) as p. generalize (hi_items h) as l.
      induction l as [|x l IHl]; intros [|p] En; simpl in *; try discriminate.
      - inversion En; reflexivity.
      - apply IHl. exact En. }
    rewrite Hsk. reflexivity.
Qed.

Lemma cache_hit_eq_read_lemma st q e c' :
  bypass q = false ->
  find_in_cache (q_var q) (st_cache st) (st_inval st) (q_key q) (q_markers q) = (Some e, c') ->
  snd (step st (OOpen q)) = OOpened true false /\
  exists h, st_iters (fst (step st (OOpen q))) = st_iters st ++ [IHit h] /\
            hi_items h = decode (kf_of q) e /\
            hit_drain h (S (length (hi_items h))) = map RItem (decode (kf_of q) e) ++ [RDone].
Proof.
  intros Hb Hf. unfold step, do_open. rewrite Hb. simpl st_cache. simpl st_inval. rewrite Hf. simpl.
  split; [reflexivity|].
  set (hh := mkHI (q_var q) (q_key q) (decode (kf_of q) e) 0 false []).
  exists hh. split; [reflexivity|]. split; [reflexivity|].
  apply (hit_drain_spec (length (hi_items hh)) hh); simpl; auto; lia.
Qed.

(* ========================================================================================== *)
(* 7. Results at or above the size limit are not cached (no hypothesis on the history at all)   *)

Definition size_ok (e : centry) (mx : nat) : Prop :=
  match e with
  | CE1 recs _ => recs = [] \/ (length recs < mx)%nat
  | CE2 ms _ => (1 <= length ms <= mx)%nat
  end.

Definition miss_size (m : miter) : Prop :=
  match mi_buf m with
  | None => True
  | Some b =>
      match mi_var m with
      | V1 => (b = [] \/ (length b < mi_max m)%nat) /\
              (mi_recs m = [] \/ (length (mi_recs m) < mi_max m)%nat)
      | V2 => (length b <= mi_max m)%nat
      end
  end.

Definition iter_size (it : iter) : Prop := match it with IMiss m => miss_size m | _ => True end.

Definition SInv (st : state) : Prop :=
  (forall k e mx, In (k, e, mx) (st_writes st) -> size_ok e mx) /\ Forall iter_size (st_iters st).

Ltac sz := unfold miss_size in *; simpl in *; try exact I; try tauto; try lia.

Lemma SInv_set_iter st i it : SInv st -> iter_size it -> SInv (set_iter st i it).
Proof. intros (Hw & Hi) H. split; simpl; [exact Hw|apply Forall_upd_nth; assumption]. Qed.

Lemma SInv_release st k i : SInv st -> SInv (release_sf st k i).
Proof.
  intro H. unfold release_sf. destruct (alist_get k (st_sf st)); [|assumption].
  destruct (Nat.eqb n i); exact H.
Qed.

Lemma SInv_apply_fx st f : SInv st -> SInv (apply_fx st f).
Proof. intros (Hw & Hi). destruct f as [[e|]|]; split; assumption. Qed.

Lemma miss_size_none v k mk kf mx inn recs cl ini ph o :
  miss_size (mkMI v k mk kf mx inn None recs cl ini ph o).
Proof. sz. Qed.

Lemma flush_size st m st1 m2 :
  SInv st -> miss_size m -> flush st m = (st1, m2) ->
  SInv st1 /\ st_iters st1 = st_iters st /\ miss_size (mi_finish m2).
Proof.
  intros (Hw & Hi) Hm H.
  destruct m as [v k mk kf mx inn buf recs cl ini ph o]. unfold flush in H; simpl in H.
  destruct v; destruct buf as [b|].
  - destruct (st_srv st); inversion H; subst; clear H; simpl.
    + split; [split; assumption|]. split; [reflexivity|]. sz.
    + split; [|split; [reflexivity|sz]]. split; simpl; [|assumption].
      intros k' e' mx' Hin. apply in_app_or in Hin as [Hin|Hin]; [eauto|].
      destruct Hin as [Hin|[]]. inversion Hin; subst. simpl. sz.
  - inversion H; subst. split; [split; assumption|]. split; [reflexivity|sz].
  - destruct b as [|t b]; inversion H; subst; clear H; simpl.
    + split; [split; assumption|]. split; [reflexivity|]. sz.
    + split; [|split; [reflexivity|sz]]. split; simpl; [|assumption].
      intros k' e' mx' Hin. apply in_app_or in Hin as [Hin|Hin]; [eauto|].
      destruct Hin as [Hin|[]]. inversion Hin; subst. simpl. rewrite map_length. sz.
  - inversion H; subst. split; [split; assumption|]. split; [reflexivity|sz].
Qed.

Lemma bg_step_size st c i m :
  SInv st -> nth_error (st_iters st) i = Some (IMiss m) -> SInv (fst (bg_step st c i m)).
Proof.
  intros HS Hn.
  assert (Hm : miss_size m).
  { destruct HS as (_ & Hi). apply (Forall_nth_error _ _ _ _ Hi Hn). }
  destruct m as [v k mk kf mx inn buf recs cl ini ph o].
  unfold bg_step; simpl. destruct ph; simpl; try exact HS.
  - destruct v.
    + destruct (find_in_cache V1 (st_cache st) (st_inval st) k mk) as [found c'].
      assert (HS1 : SInv (set_cache st c')) by exact HS.
      destruct found; simpl; [apply SInv_set_iter; [assumption|sz]|].
      destruct (is_invalid_at (st_inval st) ini mk); simpl; [apply SInv_set_iter; [assumption|sz]|].
      unfold mi_set_recs; simpl.
      set (m0 := mkMI V1 k mk kf mx inn buf [] cl ini PBgInit o).
      destruct (fold_add_spec (match buf with Some b => b | None => [] end) m0) as (Hs & Hb).
      simpl in Hs, Hb.
      set (m1 := fold_left (fun mm t => fst (add_to_buffer mm t))
                           (match buf with Some b => b | None => [] end) m0) in *.
      destruct Hs as (Hv & Hk & Hmk & Hkf1 & Hmx & Hinn & Hcl1 & Hini & Hph & Ho).
      destruct m1 as [v1 k1 mk1 kf1 mx1 inn1 buf1 recs1 cl1 ini1 ph1 o1]. simpl in *.
      subst v1 k1 mk1 kf1 mx1 inn1 cl1 ini1 ph1 o1.
      apply SInv_set_iter; [assumption|]. simpl.
      destruct buf1 as [b1|]; [|sz].
      destruct Hb as [Hb|(Hb1 & Hr1)]; [discriminate|]. subst buf. 
      unfold miss_size in *; simpl in *. rewrite Hr1, map_length.
      destruct Hm as (Hm1 & _). split; [exact Hm1|].
      destruct Hm1 as [->|Hlt]; [left; reflexivity|right; exact Hlt].
    + destruct (alist_get k (st_cache st)) as [[r0 t0|m0 t0]|]; simpl;
        apply SInv_set_iter; try assumption; sz.
  - set (mm := mkMI v k mk kf mx inn buf recs cl ini PBgHead o) in *.
    destruct (inner_call false c inn) as [inn' r].
    destruct r as [t| |e].
    + simpl; apply SInv_set_iter; try assumption; sz.
    + destruct (flush st (mi_set_inner mm inn')) as [st1 m2] eqn:Efl.
      assert (Hm' : miss_size (mi_set_inner mm inn')) by exact Hm.
      destruct (flush_size st _ st1 m2 HS Hm' Efl) as (H1 & H2 & H3).
      simpl. apply SInv_set_iter; assumption.
    + simpl; apply SInv_set_iter; try assumption; sz.
  - destruct (alist_get k (st_sf st)); simpl; apply SInv_set_iter; try assumption; exact Hm.
  - destruct (alist_get k (st_sf st)) as [ow|]; simpl.
    + destruct (Nat.eqb ow owner); simpl; [exact HS|]. apply SInv_set_iter; [assumption|exact Hm].
    + apply SInv_set_iter; [assumption|exact Hm].
  - set (mm := mkMI v k mk kf mx inn buf recs cl ini PBgLoop o) in *.
    destruct (inner_call true c inn) as [inn' r].
    destruct r as [t| |e].
    + destruct v.
      * unfold add_to_buffer; simpl. destruct buf as [b|]; simpl.
        -- destruct (mx <=? length (recs ++ [elide kf t]))%nat eqn:Ele; simpl.
           ++ apply SInv_set_iter; [assumption|sz].
           ++ apply SInv_set_iter; [assumption|]. apply Nat.leb_gt in Ele.
              unfold miss_size in *; simpl in *. destruct Hm as (Hm1 & _). split; [exact Hm1|right; exact Ele].
        -- apply SInv_set_iter; [apply SInv_release; assumption|sz].
      * destruct buf as [b|]; simpl.
        -- destruct (mx <? length (b ++ [t]))%nat eqn:Elt; simpl.
           ++ apply SInv_set_iter; [apply SInv_release; assumption|sz].
           ++ apply SInv_set_iter; [assumption|]. apply Nat.ltb_ge in Elt. sz.
        -- apply SInv_set_iter; [apply SInv_release; assumption|sz].
    + destruct (flush st (mi_set_inner mm inn')) as [st1 m2] eqn:Efl.
      assert (Hm' : miss_size (mi_set_inner mm inn')) by exact Hm.
      destruct (flush_size st _ st1 m2 HS Hm' Efl) as (H1 & H2 & H3).
      simpl. apply SInv_set_iter; [apply SInv_release; assumption|assumption].
    + apply SInv_set_iter; [apply SInv_release; assumption|]. destruct v; simpl; [exact Hm|sz].
Qed.

Lemma step_size st o : SInv st -> SInv (fst (step st o)).
Proof.
  intro HS0.
  assert (HS : SInv (tick st)) by exact HS0.
  assert (Hget : forall i m, nth_error (st_iters st) i = Some (IMiss m) -> miss_size m).
  { intros i m Hn. destruct HS0 as (_ & Hi). apply (Forall_nth_error _ _ _ _ Hi Hn). }
  destruct o as [q|i c|i c|i|i|i|mk ts|k|]; unfold step.
  - unfold do_open. destruct HS as (Hw & Hi).
    assert (Hpush : forall c it, iter_size it ->
               SInv (push_iter (set_cache (tick st) c) it)).
    { intros c0 it Hit. split; simpl; [exact Hw|]. apply Forall_app. split; [exact Hi|].
      constructor; [exact Hit|constructor]. }
    destruct (bypass q).
    + destruct (q_openerr q); simpl; apply (Hpush (st_cache st)); exact I.
    + destruct (find_in_cache (q_var q) (st_cache (tick st)) (st_inval (tick st)) (q_key q) (q_markers q))
        as [found c'].
      destruct found; simpl; [apply Hpush; exact I|].
      destruct (q_openerr q); simpl; apply Hpush; [exact I|].
      simpl. unfold miss_size; simpl. destruct (q_var q); [split; left; reflexivity|lia].
  - simpl st_iters. destruct (nth_error (st_iters st) i) as [[m|h|k inn o|]|] eqn:En; simpl; try exact HS.
    + destruct (miss_next m c) as [m' r] eqn:Em. simpl. apply SInv_set_iter; [apply SInv_apply_fx; assumption|].
      specialize (Hget _ _ En). simpl.
      destruct m as [v k mk kf mx inn buf recs cl ini ph o]. unfold miss_next in Em; simpl in Em.
      destruct cl; [inversion Em; subst; exact Hget|].
      destruct (inner_call true c inn) as [inn' r0]. destruct r0 as [t| |e]; inversion Em; subst; clear Em.
      * unfold buf_push. destruct buf as [b|]; simpl; [|sz].
        destruct (over_max v mx (length (b ++ [t]))) eqn:Eo; [sz|].
        unfold over_max in Eo. destruct v.
        -- apply Nat.leb_gt in Eo. sz.
        -- apply Nat.ltb_ge in Eo. sz.
      * exact Hget.
      * destruct (is_cancel e); simpl; [exact Hget|sz].
    + destruct (hit_call true h c). simpl. apply SInv_set_iter; [assumption|exact I].
    + destruct (inner_call true c inn). simpl. apply SInv_set_iter; [apply SInv_apply_fx; assumption|exact I].
  - simpl st_iters. destruct (nth_error (st_iters st) i) as [[m|h|k inn o|]|] eqn:En; simpl; try exact HS.
    + destruct (miss_head m c) as [m' r] eqn:Em. simpl. apply SInv_set_iter; [apply SInv_apply_fx; assumption|].
      specialize (Hget _ _ En). simpl.
      destruct m as [v k mk kf mx inn buf recs cl ini ph o]. unfold miss_head in Em; simpl in Em.
      destruct cl; [inversion Em; subst; exact Hget|].
      destruct (inner_call false c inn) as [inn' r0]. inversion Em; subst. exact Hget.
    + destruct (hit_call false h c). simpl. apply SInv_set_iter; [assumption|exact I].
    + destruct (inner_call false c inn). simpl. apply SInv_set_iter; [apply SInv_apply_fx; assumption|exact I].
  - simpl st_iters. destruct (nth_error (st_iters st) i) as [[m|h|k inn o|]|] eqn:En; simpl; try exact HS;
      try (apply SInv_set_iter; [assumption|exact I]).
    apply SInv_set_iter; [assumption|]. specialize (Hget _ _ En). simpl.
    destruct m as [v k mk kf mx inn buf recs cl ini ph o]. unfold miss_stop; simpl.
    destruct cl; [exact Hget|].
    match goal with |- context [if ?c then _ else _] => destruct c end; exact Hget.
  - simpl st_iters. destruct (nth_error (st_iters st) i) as [[m|h|k inn o|]|] eqn:En; simpl; try exact HS.
    apply bg_step_size; [apply SInv_apply_fx; exact HS|rewrite apply_fx_iters; exact En].
  - simpl st_iters. destruct (nth_error (st_iters st) i) as [[m|h|k inn o|]|] eqn:En; simpl; try exact HS.
    specialize (Hget _ _ En).
    destruct m as [v k mk kf mx inn buf recs cl ini ph o]. unfold bg_timeout; simpl.
    destruct v; [exact HS|]. destruct ph; try exact HS; simpl.
    + apply SInv_set_iter; [assumption|sz].
    + apply SInv_set_iter; [assumption|sz].
    + apply SInv_set_iter; [apply SInv_release; assumption|sz].
  - exact HS.
  - exact HS.
  - exact HS.
Qed.

Lemma SInv_init : SInv init_state.
Proof. split; simpl; [intros k e mx []|constructor]. Qed.

Lemma run_size h : forall st, SInv st -> SInv (fst (run st h)).
Proof.
  induction h as [|o h IH]; intros st HS; [exact HS|].
  rewrite run_cons. apply IH. apply step_size. exact HS.
Qed.

Lemma max_size_not_cached_lemma h :
  forall k e mx, In (k, e, mx) (st_writes (fst (run init_state h))) ->
  match e with
  | CE1 recs _ => recs = [] \/ (length recs < mx)%nat
  | CE2 ms _ => (1 <= length ms <= mx)%nat
  end.
Proof.
  intros k e mx Hin. destruct (run_size h init_state SInv_init) as (Hw & _).
  exact (Hw k e mx Hin).
Qed.

(* ========================================================================================== *)
(* 7b. An element taken from the inner iterator by a successful step is always returned AND       *)
(*     buffered, whatever happened to the caller's context while the step was in progress        *)
(*     (the code looks at the inner error only, never at ctx.Err() after a successful step).      *)

Lemma next_success_is_buffered_lemma m c inn t :
  mi_closing m = false -> inner_call true c (mi_inner m) = (inn, RItem t) ->
  snd (miss_next m c) = RItem t /\
  mi_buf (fst (miss_next m c)) = buf_push (mi_var m) (mi_max m) (mi_buf m) t /\
  mi_out (fst (miss_next m c)) = mi_out m ++ [t].
Proof.
  intros Hcl Hc. unfold miss_next. rewrite Hcl, Hc. simpl. auto.
Qed.

(* ========================================================================================== *)
(* 8. Concrete worlds used by the non-vacuity examples of Props/C09.v                           *)

Definition ex_ta : tuple := mkT [100;58;49] [114] [117;58;97] [] [] 5.            (* d:1#r@u:a *)
Definition ex_tb : tuple := mkT [100;58;49] [114] [117;58;98] [99;49] [120] 6.    (* d:1#r@u:b, condition c1 *)
Definition ex_tc : tuple := mkT [100;58;49] [114] [103;58;120;35;109] [] [] 7.    (* d:1#r@g:x#m *)
Definition ex_full : list tuple := [ex_ta; ex_tb; ex_tc].

Definition ex_q (v : variant) (script : list sev) (lossy : bool) : qdesc :=
  mkQ v KRut false [100;58;49] [114] [] 7 [100;101] 10 ex_full script lossy None.

Definition ex_world : world :=
  mkW (fun _ => ex_full) (fun v _ => kf_of (ex_q v [] false)).

(* read one tuple, get a cancellation, stop; the goroutine meets an unrelated error at Head, drains,
   flushes; then a second read is served from the cache *)
Definition ex_history (v : variant) : list op :=
  [OOpen (ex_q v [SPass; SFail ECancel; SFail EOther] false);
   ONext 0 CLive; ONext 0 CLive; ONext 0 CCancelled; OStop 0;
   OBg 0; OBg 0; OBg 0; OBg 0; OBg 0; OBg 0;
   OOpen (ex_q v [] false);
   ONext 1 CLive; ONext 1 CLive; OHead 1 CLive; ONext 1 CLive; ONext 1 CLive].

(* the consumer's context is cancelled WHILE the second inner Next is in progress (the call still
   returns its tuple); the consumer then sees the cancellation, stops; the drain completes *)
Definition ex_fx_history (v : variant) : list op :=
  [OOpen (ex_q v [SPass; SFx (FxReq ECancel)] false);
   ONext 0 CLive; ONext 0 CLive; ONext 0 CCancelled; OStop 0;
   OBg 0; OBg 0; OBg 0; OBg 0; OBg 0;
   OOpen (ex_q v [] false);
   ONext 1 CLive; ONext 1 CLive; ONext 1 CLive; ONext 1 CLive].

(* the same with an inner iterator that drops the element it was about to return when it reports
   the cancellation *)
Definition ex_lossy_history : list op :=
  [OOpen (ex_q V1 [SPass; SFail ECancel] true);
   ONext 0 CLive; ONext 0 CLive; OStop 0; OBg 0; OBg 0; OBg 0; OBg 0; OBg 0].

Lemma ex_history_ok v : Forall (op_ok ex_world) (ex_history v).
Proof.
  unfold ex_history.
  repeat (apply Forall_cons; [try exact I; (split; [reflexivity|split; [reflexivity|]]; intros _; destruct v; split; reflexivity)|]).
  apply Forall_nil.
Qed.

Lemma flush_needs_inner_contract_lemma :
  exists h k recs ts mx,
    In (k, CE1 recs ts, mx) (st_writes (fst (run init_state h))) /\
    (forall o, In o h -> match o with OOpen q => q_items q = w_full ex_world (q_key q) | _ => True end) /\
    recs <> map (elide (w_kf ex_world V1 k)) (w_full ex_world k).
Proof.
  exists ex_lossy_history. vm_compute. do 4 eexists. split; [left; reflexivity|].
  split.
  - intros o Ho. repeat (destruct Ho as [<-|Ho]; [try exact I; reflexivity|]). destruct Ho.
  - discriminate.
Qed.
