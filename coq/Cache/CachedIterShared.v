(* Executable model of the REFERENCE COUNTING of a shared iterator
   (pkg/storage/storagewrappers/sharediterator/shared_iterator_datastore.go: newSharedIterator,
   clone, Stop).  Definitions only.

   The storage item holds the BASE iterator (refs starts at 1; the admission / idle timers stop
   it).  Every clone adds one reference.  Stop is idempotent per instance: "if !s.stopped" guards
   the decrement, so an instance releases its reference exactly once however often it is stopped;
   the underlying iterator is stopped when the count reaches 0.  clone() of a stopped base returns
   nil (the caller then reads the layer below directly). *)
From OFGA Require Export Cache.CachedIter.
From Coq Require Export ZArith.
Open Scope Z_scope.

Record shst := mkSh {
  sh_refs : Z;
  sh_base_stopped : bool;
  sh_clones : list bool;        (* stopped flag of every clone handed out *)
  sh_inner_stopped : bool }.

Definition sh_init : shst := mkSh 1 false [] false.

Inductive shop := SClone | SStop (j : nat) | SStopBase.

(* "if s.refs.Add(-1) == 0 { s.ir.Stop() }" *)
Definition sh_release (refs : Z) (inner : bool) : Z * bool :=
  let r := refs - 1 in (r, inner || (r =? 0)).

Definition sh_step (st : shst) (o : shop) : shst * bool :=
  match o with
  | SClone =>
      if sh_base_stopped st then (st, false)
      else (mkSh (sh_refs st + 1) false (sh_clones st ++ [false]) (sh_inner_stopped st), true)
  | SStop j =>
      match nth_error (sh_clones st) j with
      | Some false =>
          let '(r, i) := sh_release (sh_refs st) (sh_inner_stopped st) in
          (mkSh r (sh_base_stopped st) (upd_nth j true (sh_clones st)) i, true)
      | _ => (st, true)     (* already stopped: nothing is released *)
      end
  | SStopBase =>
      if sh_base_stopped st then (st, true)
      else let '(r, i) := sh_release (sh_refs st) (sh_inner_stopped st) in
           (mkSh r true (sh_clones st) i, true)
  end.

Fixpoint sh_run (st : shst) (h : list shop) : shst :=
  match h with [] => st | o :: h' => sh_run (fst (sh_step st o)) h' end.

Definition sh_live (st : shst) : nat :=
  (if sh_base_stopped st then 0 else 1)%nat + length (filter negb (sh_clones st)).

(* the mirror image of a Stop whose decrement is not guarded by the stopped flag *)
Definition sh_step_unguarded (st : shst) (o : shop) : shst * bool :=
  match o with
  | SStop j =>
      match nth_error (sh_clones st) j with
      | Some _ =>
          let '(r, i) := sh_release (sh_refs st) (sh_inner_stopped st) in
          (mkSh r (sh_base_stopped st) (upd_nth j true (sh_clones st)) i, true)
      | None => (st, true)
      end
  | _ => sh_step st o
  end.
