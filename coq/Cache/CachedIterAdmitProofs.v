(* Proofs about the admission model (C09, finding shared_admission_cancel_leak). *)
From OFGA Require Import Cache.CachedIter Cache.CachedIterProofs Cache.CachedIterAdmit.
From Coq Require Import Lia.
Open Scope N_scope.

(* every stored result that is not a datastore error is Ok, as long as no producer ran under a dead
   context *)
Definition item_clean (it : aitem) : Prop :=
  ai_from_ctx it = false /\
  (forall x, ai_result it = Some x -> ai_dserr it = false -> x = AOk).

Definition AInv (st : astate) : Prop := Forall item_clean (as_items st).

Lemma AInv_init : AInv ainit.
Proof. constructor. Qed.

Lemma astep_inv st o :
  AInv st -> (match o with AProduce _ (Some _) _ => False | _ => True end) ->
  AInv (fst (astep st o)) /\ aout_ok (snd (astep st o)) = true.
Proof.
  intros HI Hop. destruct o as [r k|k cerr oe|r live]; simpl.
  - destruct (alist_get k (as_map st)); simpl; split; auto.
    unfold AInv; simpl. apply Forall_app. split; [exact HI|].
    constructor; [|constructor]. split; [reflexivity|]. simpl. discriminate.
  - destruct (alist_get k (as_map st)) as [id|]; [|split; auto].
    destruct (nth_error (as_items st) id) as [[res fc de]|] eqn:En; [|split; auto].
    destruct res; [split; auto|].
    destruct cerr as [e|]; [contradiction|].
    split; [|reflexivity]. unfold AInv; simpl. apply Forall_upd_nth; [exact HI|].
    destruct oe as [e|]; split; simpl; auto; try discriminate.
    intros x Hx _. inversion Hx. reflexivity.
  - destruct (alist_get r (as_reqs st)) as [rq|]; [|split; auto].
    destruct (nth_error (as_items st) (ar_item rq)) as [[res fc de]|] eqn:En; [|split; auto].
    destruct res as [x|]; [|split; auto].
    assert (Hc : item_clean (mkAI (Some x) fc de)) by (eapply Forall_nth_error; eassumption).
    destruct Hc as (Hfc & Hres). simpl in Hfc, Hres. subst fc.
    split.
    + destruct x; [exact HI|]. destruct (ar_joiner rq); exact HI.
    + destruct de.
      * simpl. destruct (ar_joiner rq); destruct live; destruct x; reflexivity.
      * rewrite (Hres x eq_refl eq_refl). simpl.
        destruct (ar_joiner rq); destruct live; reflexivity.
Qed.

Lemma admission_isolated_partial_lemma h :
  no_dead_producer h = true -> forallb aout_ok (arun ainit h) = true.
Proof.
  assert (Hgen : forall h st, AInv st -> no_dead_producer h = true -> forallb aout_ok (arun st h) = true).
  { clear h. induction h as [|o h IH]; intros st HI Hh; [reflexivity|].
    simpl in Hh. apply andb_true_iff in Hh as [Ho Hh].
    assert (Hop : match o with AProduce _ (Some _) _ => False | _ => True end).
    { destruct o as [r k|k [e|] oe|r live]; try exact I. discriminate. }
    destruct (astep_inv st o HI Hop) as (HI' & Hok).
    simpl. destruct (astep st o) as [st1 x]. simpl in *. rewrite Hok. simpl. apply IH; assumption. }
  intro Hh. apply Hgen; [apply AInv_init|assumption].
Qed.

(* two requests for one key; the first one's context is cancelled while its read is in flight; the
   second one, whose context is alive, is told "cancelled" *)
Definition ex_admit_history : list aop :=
  [AArrive 0 7; AArrive 1 7; AProduce 7 (Some ECancel) None; AReturn 0 false; AReturn 1 true].

Lemma admission_isolated_refuted_lemma :
  exists h, forallb aout_ok (arun ainit h) = false /\ existsb aout_leak (arun ainit h) = true.
Proof. exists ex_admit_history. vm_compute. split; reflexivity. Qed.
