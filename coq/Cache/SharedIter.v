(* Executable model of pkg/storage/storagewrappers/sharediterator/shared_iterator_datastore.go (C23).
   Model only; proofs are in SharedIterProofs.v.

   Layer 1 ([sys]): ONE shared iterator = the state shared by all clones (underlying iterator
   behind the iteratorReader, the items fetched so far, the sticky error, the reference count)
   plus one (head, stopped) pair per clone and the stopped flag of the original instance that
   the storageItem keeps (the one the admission / idle timers stop).  One [shop] is one method
   call; method calls on different clones are atomic with respect to each other because the
   shared part is only changed by fetchMore, which runs under [await] one at a time and
   publishes the new state with one atomic store.

   Layer 2 ([ds]): IteratorDatastore.Read / ReadStartingWithUser / ReadUsersetTuples: the map from
   cache keys to storage items, the counter and the limit, the bypass paths, the expiry of the
   items (both timers end in iter.Stop(); cleanup()). *)
From Coq Require Import List NArith ZArith Bool.
From OFGA Require Export Cache.IterAdapters.
Import ListNotations.
Open Scope N_scope.

Record shared := mkShared { sh_inner : src; sh_buf : list N; sh_err : option N; sh_refs : Z }.
Record clone := mkClone { cl_head : nat; cl_stopped : bool }.
Record sys := mkSys { sy_sh : shared; sy_orig_stopped : bool; sy_clones : list clone }.

(* newSharedIterator: refs = 1 (the original instance) *)
Definition sys_init (l : list ev) : sys := mkSys (mkShared (src_of l) [] None 1%Z) false [].

Section Shared.
  (* bufferSize (100 in the code) *)
  Variable bufsz : nat.

  (* iteratorReader.Read into a buffer of n slots: items read, error *)
  Fixpoint read_n (n : nat) (s : src) : list N * option N * src :=
    match n with
    | O => ([], None, s)
    | S k =>
      let (r, s1) := src_next s in
      match r with
      | R (Some x) None => let '(xs, e, s2) := read_n k s1 in (x :: xs, e, s2)
      | R _ (Some e) => ([], Some e, s1)
      | R None None => ([], None, s1)
      end
    end.

  Definition fetch_more (sh : shared) : shared :=
    let '(xs, e, s1) := read_n bufsz (sh_inner sh) in
    mkShared s1 (sh_buf sh ++ xs) (match e with Some _ => e | None => sh_err sh end) (sh_refs sh).

  (* fetchAndWait: fetch until the clone's head is inside the buffer or an error is known *)
  Fixpoint fetch_and_wait (fuel : nat) (head : nat) (sh : shared) : option shared :=
    if (Nat.ltb head (length (sh_buf sh))) || (match sh_err sh with Some _ => true | None => false end)
    then Some sh
    else match fuel with
         | O => None
         | S k => fetch_and_wait k head (fetch_more sh)
         end.
  Definition fetch_fuel (sh : shared) : nat := S (length (evs (sh_inner sh))).

  (* currentLocked *)
  Definition current (cancelled : bool) (c : clone) (sh : shared) : res * shared :=
    if cancelled then (RErr ECancel, sh) else
    if cl_stopped c then (RDone, sh) else
    match fetch_and_wait (fetch_fuel sh) (cl_head c) sh with
    | None => (RErr EOutOfFuel, sh)
    | Some sh1 =>
      match nth_error (sh_buf sh1) (cl_head c) with
      | Some x => (ROk x, sh1)
      | None => (match sh_err sh1 with Some e => RErr e | None => RDone end, sh1)
      end
    end.

  Definition clone_next (cancelled : bool) (c : clone) (sh : shared) : res * clone * shared :=
    let (r, sh1) := current cancelled c sh in
    match r with
    | R (Some _) None => (r, mkClone (S (cl_head c)) (cl_stopped c), sh1)
    | _ => (r, c, sh1)
    end.

  (* Stop of one instance: (new stopped flag, shared) *)
  Definition release (stopped : bool) (sh : shared) : shared :=
    if stopped then sh else
    let refs := (sh_refs sh - 1)%Z in
    mkShared (if (refs =? 0)%Z then src_stop (sh_inner sh) else sh_inner sh) (sh_buf sh) (sh_err sh) refs.

  Inductive shop :=
  | ShNext (c : nat) (cancelled : bool) | ShHead (c : nat) (cancelled : bool)
  | ShStop (c : nat) | ShClone | ShExpire.

  Fixpoint set_nth {A} (n : nat) (l : list A) (a : A) : list A :=
    match l, n with
    | [], _ => []
    | _ :: r, O => a :: r
    | b :: r, S k => b :: set_nth k r a
    end.

  (* a call on a clone index that does not exist is ignored (result RNil) *)
  Definition sys_step (o : shop) (st : sys) : res * sys :=
    match o with
    | ShNext i cancelled =>
      match nth_error (sy_clones st) i with
      | None => (RNil, st)
      | Some c =>
        let '(r, c1, sh1) := clone_next cancelled c (sy_sh st) in
        (r, mkSys sh1 (sy_orig_stopped st) (set_nth i (sy_clones st) c1))
      end
    | ShHead i cancelled =>
      match nth_error (sy_clones st) i with
      | None => (RNil, st)
      | Some c => let (r, sh1) := current cancelled c (sy_sh st) in
                  (r, mkSys sh1 (sy_orig_stopped st) (sy_clones st))
      end
    | ShStop i =>
      match nth_error (sy_clones st) i with
      | None => (RNil, st)
      | Some c =>
        (RNil, mkSys (release (cl_stopped c) (sy_sh st)) (sy_orig_stopped st)
                     (set_nth i (sy_clones st) (mkClone (cl_head c) true)))
      end
    | ShClone =>
      (* clone() of the original instance: nil when it is stopped *)
      if sy_orig_stopped st then (RNil, st) else
      let sh := sy_sh st in
      (R (Some (N.of_nat (length (sy_clones st)))) None,
       mkSys (mkShared (sh_inner sh) (sh_buf sh) (sh_err sh) (sh_refs sh + 1)%Z) false
             (sy_clones st ++ [mkClone O false]))
    | ShExpire =>
      (RNil, mkSys (release (sy_orig_stopped st) (sy_sh st)) true (sy_clones st))
    end.

  Fixpoint sys_run (ops : list shop) (st : sys) : list res * sys :=
    match ops with
    | [] => ([], st)
    | o :: r => let (x, s1) := sys_step o st in let (xs, s2) := sys_run r s1 in (x :: xs, s2)
    end.

  (* ---- layer 2 ---- *)

  Inductive handle := HShared (inst : nat) (cl : nat) | HBypass (b : nat).

  Record ds := mkDs {
    ds_map : list (N * nat);           (* cache key -> instance *)
    ds_inst : list sys;
    ds_ctr : Z;
    ds_limit : Z;
    ds_scripts : list (option (list ev));   (* what the inner reader will return: None = error *)
    ds_handles : list handle;
    ds_bypass : list src
  }.
  Definition ds_init (limit : Z) (scripts : list (option (list ev))) : ds :=
    mkDs [] [] 0%Z limit scripts [] [].

  Definition EOpen : N := 20.  (* the error class of a failing inner Read* *)

  Fixpoint lookup (k : N) (m : list (N * nat)) : option nat :=
    match m with
    | [] => None
    | (k1, v) :: r => if k1 =? k then Some v else lookup k r
    end.
  Definition remove_key (k : N) (m : list (N * nat)) : list (N * nat) :=
    filter (fun p => negb (fst p =? k)) m.

  Inductive dop :=
  | DOpen (key : N) (higher : bool)
  | DNext (h : nat) (cancelled : bool) | DHead (h : nat) (cancelled : bool) | DStop (h : nat)
  | DExpireAll.

  (* the inner reader is called: consumes one script *)
  Definition take_script (d : ds) : option (list ev) * list (option (list ev)) :=
    match ds_scripts d with
    | [] => (Some [], [])
    | s :: r => (s, r)
    end.

  (* results of DOpen: value 0 = new shared iterator, 1 = joined an existing one, 2 = bypass *)
  Definition open_bypass (d : ds) : res * ds :=
    let (s, rest) := take_script d in
    match s with
    | None => (RErr EOpen, mkDs (ds_map d) (ds_inst d) (ds_ctr d) (ds_limit d) rest (ds_handles d) (ds_bypass d))
    | Some l =>
      (R (Some 2) None,
       mkDs (ds_map d) (ds_inst d) (ds_ctr d) (ds_limit d) rest
            (ds_handles d ++ [HBypass (length (ds_bypass d))]) (ds_bypass d ++ [src_of l]))
    end.

  Definition inst_step (i : nat) (o : shop) (d : ds) : res * ds :=
    match nth_error (ds_inst d) i with
    | None => (RNil, d)
    | Some st =>
      let (r, st1) := sys_step o st in
      (r, mkDs (ds_map d) (set_nth i (ds_inst d) st1) (ds_ctr d) (ds_limit d) (ds_scripts d)
               (ds_handles d) (ds_bypass d))
    end.

  Definition ds_step (o : dop) (d : ds) : res * ds :=
    match o with
    | DOpen k higher =>
      if higher then open_bypass d else
      if (ds_limit d =? 0)%Z || (ds_limit d <=? ds_ctr d)%Z then open_bypass d else
      match lookup k (ds_map d) with
      | Some i =>
        match nth_error (ds_inst d) i with
        | None => (RErr EOutOfFuel, d)
        | Some st =>
          let (r, st1) := sys_step ShClone st in
          match r with
          | R (Some c) None =>
            (R (Some 1) None,
             mkDs (ds_map d) (set_nth i (ds_inst d) st1) (ds_ctr d) (ds_limit d) (ds_scripts d)
                  (ds_handles d ++ [HShared i (N.to_nat c)]) (ds_bypass d))
          | _ => open_bypass d   (* clone() returned nil *)
          end
        end
      | None =>
        (* LoadOrStore stores the new item: ctr + 1; the producer runs *)
        let (s, rest) := take_script d in
        match s with
        | None =>
          (* unwrap fails: the item is deleted again, the counter is NOT decremented *)
          (RErr EOpen, mkDs (ds_map d) (ds_inst d) (ds_ctr d + 1)%Z (ds_limit d) rest (ds_handles d) (ds_bypass d))
        | Some l =>
          let (_, st1) := sys_step ShClone (sys_init l) in
          let i := length (ds_inst d) in
          (R (Some 0) None,
           mkDs ((k, i) :: ds_map d) (ds_inst d ++ [st1]) (ds_ctr d + 1)%Z (ds_limit d) rest
                (ds_handles d ++ [HShared i O]) (ds_bypass d))
        end
      end
    | DNext h cancelled =>
      match nth_error (ds_handles d) h with
      | None => (RNil, d)
      | Some (HShared i c) => inst_step i (ShNext c cancelled) d
      | Some (HBypass b) =>
        match nth_error (ds_bypass d) b with
        | None => (RNil, d)
        | Some s =>
          if cancelled then (RErr ECancel, d) else
          let (r, s1) := src_next s in
          (r, mkDs (ds_map d) (ds_inst d) (ds_ctr d) (ds_limit d) (ds_scripts d) (ds_handles d)
                   (set_nth b (ds_bypass d) s1))
        end
      end
    | DHead h cancelled =>
      match nth_error (ds_handles d) h with
      | None => (RNil, d)
      | Some (HShared i c) => inst_step i (ShHead c cancelled) d
      | Some (HBypass b) =>
        match nth_error (ds_bypass d) b with
        | None => (RNil, d)
        | Some s => if cancelled then (RErr ECancel, d) else (src_head s, d)
        end
      end
    | DStop h =>
      match nth_error (ds_handles d) h with
      | None => (RNil, d)
      | Some (HShared i c) => inst_step i (ShStop c) d
      | Some (HBypass b) =>
        match nth_error (ds_bypass d) b with
        | None => (RNil, d)
        | Some s =>
          (RNil, mkDs (ds_map d) (ds_inst d) (ds_ctr d) (ds_limit d) (ds_scripts d) (ds_handles d)
                      (set_nth b (ds_bypass d) (src_stop s)))
        end
      end
    | DExpireAll =>
      (* every stored item: iter.Stop(); cleanup() (delete from the map, ctr - 1) *)
      let expire1 (insts : list sys) (p : N * nat) : list sys :=
        match nth_error insts (snd p) with
        | None => insts
        | Some st => set_nth (snd p) insts (snd (sys_step ShExpire st))
        end in
      (RNil, mkDs [] (fold_left expire1 (ds_map d) (ds_inst d))
                  (ds_ctr d - Z.of_nat (length (ds_map d)))%Z (ds_limit d) (ds_scripts d)
                  (ds_handles d) (ds_bypass d))
    end.

  Fixpoint ds_run (ops : list dop) (d : ds) : list res * ds :=
    match ops with
    | [] => ([], d)
    | o :: r => let (x, d1) := ds_step o d in let (xs, d2) := ds_run r d1 in (x :: xs, d2)
    end.

  (* the underlying iterators in the order the inner reader created them are the instances and
     the bypass iterators; the oracle reports (events left, stops) of each *)
  Definition ds_obs (d : ds) : list (N * N) * list (N * N) :=
    (map (fun st => src_obs (sh_inner (sy_sh st))) (ds_inst d), map src_obs (ds_bypass d)).
End Shared.

(* what every reader of a script must see: the items before the first error, then that error
   (or ErrIteratorDone) for ever *)
Fixpoint clean_prefix (l : list ev) : list N :=
  match l with
  | Item x :: r => x :: clean_prefix r
  | _ => []
  end.
Fixpoint term_err (l : list ev) : N :=
  match l with
  | [] => EDone
  | Item _ :: r => term_err r
  | Err e :: _ => e
  end.
Definition ideal (l : list ev) (j : nat) : res :=
  match nth_error (clean_prefix l) j with
  | Some x => ROk x
  | None => RErr (term_err l)
  end.
