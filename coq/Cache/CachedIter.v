(* Executable model of the iterator CACHING layers (C09):

     pkg/storage/storagewrappers/cached_datastore.go   CachedDatastore + cachedIterator     (variant V1)
     pkg/storage/storagewrappers/cached_iterators.go   cachedTupleIterator.buildTuple        (V1 hit path)
     pkg/storage/storagewrappers/cached_reader.go      CachedTupleReader                     (variant V2)
     pkg/storage/storagewrappers/iterator_cache.go     CachingIterator / LockFreeCachedIterator (V2)

   Definitions only; the proofs are in CachedIterProofs.v.

   The machine: a cache (key |-> entry with the timestamp of the query that produced it), the
   invalidation markers, the singleflight table, and a list of iterators.  An iterator is a MISS
   iterator (wraps an inner iterator, buffers what the consumer reads, and after Stop is drained by
   a background goroutine whose steps [OBg] may be interleaved arbitrarily with everything else), a
   HIT iterator (replays a cache entry), or a BYPASS (the raw inner iterator).

   The inner iterator is a list with a cursor and a SCRIPT: the n-th call (Next or Head) that
   reaches the script consumes its n-th entry; [SFail e] makes that call fail with e, [SPass] lets
   it through, [SFx f] lets it through AND has a side effect while the call is in progress: the
   context the consumer passed becomes cancelled / expires ([FxReq]), or the server context is
   cancelled ([FxSrv]) -- the call still returns its element with a nil error.  A call made with a cancelled / expired context fails with that context's
   error before anything else.  Errors never move the cursor, except when [in_lossy] is set (an
   inner iterator that DROPS the element it was about to return when it reports a cancellation:
   used only to show that the code's correctness depends on the inner contract).
   ErrIteratorDone is returned exactly when the cursor is at the end (or after Stop). *)
From OFGA Require Export Codec.TupleStr.
Open Scope N_scope.

(* ------------------------------------------------------------------------------------------ *)
(* Tuples, v1 records (storage.TupleRecord with elided fields), v2 minimal entries             *)

(* t_cctx: canonical serialisation of the condition context, [] for nil AND for the empty struct;
   t_ts: 0 for a nil timestamp and for the zero time. *)
Record tuple := mkT { t_obj : bytes; t_rel : bytes; t_user : bytes;
                      t_cname : bytes; t_cctx : bytes; t_ts : N }.

Record trec := mkR { r_otype : bytes; r_oid : bytes; r_rel : bytes;
                     r_utype : bytes; r_uid : bytes; r_urel : bytes;
                     r_cname : bytes; r_cctx : bytes; r_ts : N }.

Record mrec := mkM { m_oid : bytes; m_user : bytes; m_cname : bytes; m_cctx : bytes }.

(* the fields the iterator knows from the query (cachedIterator.objectType/objectID/relation/userType;
   CachingIterator.objectType/relation use k_otype and k_rel only) *)
Record keyf := mkKF { k_otype : bytes; k_oid : bytes; k_rel : bytes; k_utype : bytes }.

Definition is_nil (b : bytes) : bool := match b with [] => true | _ => false end.

(* addToBuffer: "if c.f != "" && c.f == record.f { record.f = "" }" *)
Definition elide_field (kf v : bytes) : bytes :=
  if negb (is_nil kf) && beqb kf v then [] else v.

Definition elide (k : keyf) (t : tuple) : trec :=
  let '(ot, oid) := split_object (t_obj t) in
  let '(ut, uid, ur) := to_user_parts (t_user t) in
  mkR (elide_field (k_otype k) ot) (elide_field (k_oid k) oid) (elide_field (k_rel k) (t_rel t))
      (elide_field (k_utype k) ut) uid ur (t_cname t) (t_cctx t) (t_ts t).

(* buildTuple: "if c.f != "" { f = c.f }" -- the key field wins whenever it is non-empty *)
Definition fill_field (kf v : bytes) : bytes := if is_nil kf then v else kf.

(* NewRelationshipCondition: name "" => no condition at all *)
Definition cond_ctx (cname cctx : bytes) : bytes := if is_nil cname then [] else cctx.

Definition reconstruct (k : keyf) (r : trec) : tuple :=
  mkT (build_object (fill_field (k_otype k) (r_otype r)) (fill_field (k_oid k) (r_oid r)))
      (fill_field (k_rel k) (r_rel r))
      (from_user_parts (fill_field (k_utype k) (r_utype r)) (r_uid r) (r_urel r))
      (r_cname r) (cond_ctx (r_cname r) (r_cctx r)) (r_ts r).

(* v2: extractObjectID / reconstruct (timestamp is not kept) *)
Definition extract_object_id (o : bytes) : bytes :=
  match cut c_colon o with Some (_, id) => id | None => o end.

Definition minimal (t : tuple) : mrec :=
  mkM (extract_object_id (t_obj t)) (t_user t) (t_cname t) (t_cctx t).

Definition reconstruct2 (k : keyf) (m : mrec) : tuple :=
  mkT (k_otype k ++ c_colon :: m_oid m) (k_rel k) (m_user m)
      (m_cname m) (cond_ctx (m_cname m) (m_cctx m)) 0.

Definition strip_ts (t : tuple) : tuple :=
  mkT (t_obj t) (t_rel t) (t_user t) (t_cname t) (t_cctx t) 0.

(* the user string survives ToUserParts / FromUserParts: a '#' is followed by a relation, and a ':'
   in the object part is preceded by a type *)
Definition user_rt_ok (u : bytes) : bool :=
  let '(o, r) := split_object_relation u in
  let '(t, _) := split_object o in
  (negb (mem c_hash u) || negb (is_nil r)) && (negb (mem c_colon o) || negb (is_nil t)).

Definition key_agrees (kf v : bytes) : bool := is_nil kf || beqb kf v.

(* a tuple that a correct datastore can return for a query with key fields k (v1) *)
Definition consistent (k : keyf) (t : tuple) : bool :=
  let '(ot, oid) := split_object (t_obj t) in
  let '(ut, _, _) := to_user_parts (t_user t) in
  mem c_colon (t_obj t) && key_agrees (k_otype k) ot && key_agrees (k_oid k) oid &&
  key_agrees (k_rel k) (t_rel t) && key_agrees (k_utype k) ut && user_rt_ok (t_user t) &&
  (negb (is_nil (t_cname t)) || is_nil (t_cctx t)).

(* v2: object type and relation are ALWAYS taken from the query *)
Definition consistent2 (k : keyf) (t : tuple) : bool :=
  let '(ot, _) := split_object (t_obj t) in
  mem c_colon (t_obj t) && beqb (k_otype k) ot && beqb (k_rel k) (t_rel t) &&
  (negb (is_nil (t_cname t)) || is_nil (t_cctx t)).

(* ------------------------------------------------------------------------------------------ *)
(* Errors, results, contexts, the inner iterator                                               *)

Inductive errk := ECancel | EDeadline | EOther.
Inductive res := RItem (t : tuple) | RDone | RErr (e : errk).
Inductive ctxs := CLive | CCancelled | CDeadline.

Definition ctx_err (c : ctxs) : option errk :=
  match c with CLive => None | CCancelled => Some ECancel | CDeadline => Some EDeadline end.

(* storage.IterIsDoneOrCancelled on a non-Done error *)
Definition is_cancel (e : errk) : bool := match e with EOther => false | _ => true end.

(* side effects of a successful inner step *)
Inductive fx := FxReq (e : errk) | FxSrv.
Inductive sev := SPass | SFail (e : errk) | SFx (f : fx).

Record inner := mkIn { in_items : list tuple; in_pos : nat; in_script : list sev;
                       in_lossy : bool; in_stopped : bool }.

Definition in_with (i : inner) (pos : nat) (sc : list sev) : inner :=
  mkIn (in_items i) pos sc (in_lossy i) (in_stopped i).

Definition in_stop (i : inner) : inner :=
  mkIn (in_items i) (in_pos i) (in_script i) (in_lossy i) true.

Definition inner_call (is_next : bool) (c : ctxs) (i : inner) : inner * res :=
  match ctx_err c with
  | Some e => (i, RErr e)
  | None =>
    if in_stopped i then (i, RDone) else
    match in_script i with
    | SFail e :: sc =>
        let lose := in_lossy i && is_next && is_cancel e && (in_pos i <? length (in_items i))%nat in
        (in_with i (if lose then S (in_pos i) else in_pos i) sc, RErr e)
    | sc0 =>
        let sc := tl sc0 in
        match nth_error (in_items i) (in_pos i) with
        | None => (in_with i (in_pos i) sc, RDone)
        | Some t => (in_with i (if is_next then S (in_pos i) else in_pos i) sc, RItem t)
        end
    end
  end.

(* the side effect of the call that [inner_call] is about to make (none if the call is refused at
   entry).  What the context looks like AFTER a successful step is of no consequence for the code
   as it is: cachedIterator.Next / CachingIterator.Next look at the inner error only. *)
Definition inner_fx (c : ctxs) (i : inner) : option fx :=
  match ctx_err c with
  | Some _ => None
  | None => if in_stopped i then None else
            match in_script i with SFx f :: _ => Some f | _ => None end
  end.

(* ------------------------------------------------------------------------------------------ *)
(* Association lists (cache, invalidation markers, singleflight table)                          *)

Fixpoint alist_get {A} (k : N) (l : list (N * A)) : option A :=
  match l with
  | [] => None
  | (k', v) :: l' => if N.eqb k' k then Some v else alist_get k l'
  end.

Fixpoint alist_del {A} (k : N) (l : list (N * A)) : list (N * A) :=
  match l with
  | [] => []
  | (k', v) :: l' => if N.eqb k' k then alist_del k l' else (k', v) :: alist_del k l'
  end.

Definition alist_set {A} (k : N) (v : A) (l : list (N * A)) : list (N * A) := (k, v) :: alist_del k l.

Fixpoint upd_nth {A} (n : nat) (x : A) (l : list A) : list A :=
  match l, n with
  | [], _ => []
  | _ :: l', O => x :: l'
  | y :: l', S n' => y :: upd_nth n' x l'
  end.

(* ------------------------------------------------------------------------------------------ *)
(* Cache entries, findInCache / isInvalidAt                                                     *)

Inductive variant := V1 | V2.

Inductive centry := CE1 (recs : list trec) (ts : N) | CE2 (ms : list mrec) (ts : N).

Definition entry_ts (e : centry) : N := match e with CE1 _ ts => ts | CE2 _ ts => ts end.
Definition entry_is (v : variant) (e : centry) : bool :=
  match v, e with V1, CE1 _ _ => true | V2, CE2 _ _ => true | _, _ => false end.
Definition entry_len (e : centry) : nat :=
  match e with CE1 r _ => length r | CE2 m _ => length m end.

(* isInvalidAt: "ts.Before(invalidEntry.LastModified)" for the store key and every entity key *)
Definition is_invalid_at (inval : list (N * N)) (ts : N) (markers : list N) : bool :=
  existsb (fun m => match alist_get m inval with Some its => N.ltb ts its | None => false end) markers.

(* findInCache / tryGetFromCache: a stale entry is deleted; an entry of the other engine's type is
   a miss and is left alone *)
Definition find_in_cache (v : variant) (cache : list (N * centry)) (inval : list (N * N))
           (key : N) (markers : list N) : option centry * list (N * centry) :=
  match alist_get key cache with
  | None => (None, cache)
  | Some e =>
      if entry_is v e then
        if is_invalid_at inval (entry_ts e) markers then (None, alist_del key cache)
        else (Some e, cache)
      else (None, cache)
  end.

Definition decode (k : keyf) (e : centry) : list tuple :=
  match e with
  | CE1 recs _ => map (reconstruct k) recs
  | CE2 ms _ => map (reconstruct2 k) ms
  end.

(* ------------------------------------------------------------------------------------------ *)
(* Queries                                                                                      *)

Inductive qkind := KRead | KRut | KRswu.

(* q_object: filter.Object (Read, ReadUsersetTuples) or filter.ObjectType (ReadStartingWithUser);
   q_users: the subject strings of filter.UserFilter ("object" or "object#relation");
   q_key / q_markers: the cache key and the invalidation keys (store key first), interned by the
   harness from the real key functions (their injectivity is property C24);
   q_items / q_script / q_lossy / q_openerr: the inner reader's behaviour for this call. *)
Record qdesc := mkQ {
  q_var : variant; q_kind : qkind; q_higher : bool;
  q_object : bytes; q_relation : bytes; q_users : list bytes;
  q_key : N; q_markers : list N; q_max : nat;
  q_items : list tuple; q_script : list sev; q_lossy : bool; q_openerr : option errk }.

(* newCachedIteratorByUserObjectType: the loop that finds the common user type *)
Fixpoint common_utype (acc : bytes) (users : list bytes) : bytes :=
  match users with
  | [] => acc
  | u :: us =>
      let ut := fst (split_object u) in
      if is_nil acc then common_utype ut us
      else if beqb acc ut then common_utype acc us
      else []
  end.

Definition kf_of (q : qdesc) : keyf :=
  match q_var q, q_kind q with
  | V1, KRswu => mkKF (q_object q) [] [] (common_utype [] (q_users q))
  | V1, _ => let '(ot, oid) := split_object (q_object q) in mkKF ot oid (q_relation q) []
  | V2, KRswu => mkKF (q_object q) [] (q_relation q) []
  | V2, _ => mkKF (fst (split_object (q_object q))) [] (q_relation q) []
  end.

(* which reads go straight to the inner reader *)
Definition bypass (q : qdesc) : bool :=
  q_higher q ||
  match q_var q, q_kind q with
  | V1, KRead => is_nil (q_relation q) || negb (is_valid_object (q_object q))
  | _, _ => false
  end.

(* ------------------------------------------------------------------------------------------ *)
(* Iterators and the machine state                                                              *)

Inductive phase :=
| PFg                      (* not stopped yet *)
| PBgInit                  (* goroutine spawned, nothing done yet *)
| PBgHead                  (* passed the "already cached / invalidated" checks, about to call Head *)
| PBgSf                    (* Head did not say Done: about to enter singleflight.Do *)
| PBgWait (owner : nat)    (* joined another iterator's singleflight call *)
| PBgLoop                  (* inside its own singleflight call, draining *)
| PFin.

Record miter := mkMI {
  mi_var : variant; mi_key : N; mi_markers : list N; mi_kf : keyf; mi_max : nat;
  mi_inner : inner;
  mi_buf : option (list tuple);      (* c.tuples; None = nil *)
  mi_recs : list trec;               (* c.records (v1 only) *)
  mi_closing : bool; mi_init : N; mi_phase : phase;
  mi_out : list tuple                (* ghost: what Next has handed to the consumer *) }.

Record hiter := mkHI {
  hi_var : variant; hi_key : N; hi_items : list tuple; hi_pos : nat; hi_stopped : bool;
  hi_out : list tuple (* ghost *) }.

Inductive iter :=
| IMiss (m : miter)
| IHit (h : hiter)
| IBypass (key : N) (i : inner) (out : list tuple)
| IDead.

(* st_writes is a ghost log of every cache.Set of an iterator entry: key, entry, writer's max *)
Record state := mkSt {
  st_clock : N; st_srv : bool (* server context cancelled *);
  st_cache : list (N * centry); st_inval : list (N * N); st_sf : list (N * nat);
  st_iters : list iter; st_writes : list (N * centry * nat) }.

Definition init_state : state := mkSt 1 false [] [] [] [] [].

Definition set_iter (st : state) (i : nat) (it : iter) : state :=
  mkSt (st_clock st) (st_srv st) (st_cache st) (st_inval st) (st_sf st)
       (upd_nth i it (st_iters st)) (st_writes st).
Definition push_iter (st : state) (it : iter) : state :=
  mkSt (st_clock st) (st_srv st) (st_cache st) (st_inval st) (st_sf st)
       (st_iters st ++ [it]) (st_writes st).
Definition set_cache (st : state) (c : list (N * centry)) : state :=
  mkSt (st_clock st) (st_srv st) c (st_inval st) (st_sf st) (st_iters st) (st_writes st).
Definition set_sf (st : state) (sf : list (N * nat)) : state :=
  mkSt (st_clock st) (st_srv st) (st_cache st) (st_inval st) sf (st_iters st) (st_writes st).
Definition write_cache (st : state) (k : N) (e : centry) (max : nat) : state :=
  mkSt (st_clock st) (st_srv st) (alist_set k e (st_cache st)) (st_inval st) (st_sf st)
       (st_iters st) (st_writes st ++ [(k, e, max)]).
Definition tick (st : state) : state :=
  mkSt (st_clock st + 1) (st_srv st) (st_cache st) (st_inval st) (st_sf st) (st_iters st) (st_writes st).

(* setters of miter *)
Definition mi_set_inner (m : miter) (i : inner) : miter :=
  mkMI (mi_var m) (mi_key m) (mi_markers m) (mi_kf m) (mi_max m) i (mi_buf m) (mi_recs m)
       (mi_closing m) (mi_init m) (mi_phase m) (mi_out m).
Definition mi_set_buf (m : miter) (b : option (list tuple)) : miter :=
  mkMI (mi_var m) (mi_key m) (mi_markers m) (mi_kf m) (mi_max m) (mi_inner m) b (mi_recs m)
       (mi_closing m) (mi_init m) (mi_phase m) (mi_out m).
Definition mi_set_recs (m : miter) (r : list trec) : miter :=
  mkMI (mi_var m) (mi_key m) (mi_markers m) (mi_kf m) (mi_max m) (mi_inner m) (mi_buf m) r
       (mi_closing m) (mi_init m) (mi_phase m) (mi_out m).
Definition mi_set_phase (m : miter) (p : phase) : miter :=
  mkMI (mi_var m) (mi_key m) (mi_markers m) (mi_kf m) (mi_max m) (mi_inner m) (mi_buf m) (mi_recs m)
       (mi_closing m) (mi_init m) p (mi_out m).
Definition mi_set_closing (m : miter) : miter :=
  mkMI (mi_var m) (mi_key m) (mi_markers m) (mi_kf m) (mi_max m) (mi_inner m) (mi_buf m) (mi_recs m)
       true (mi_init m) (mi_phase m) (mi_out m).
Definition mi_add_out (m : miter) (t : tuple) : miter :=
  mkMI (mi_var m) (mi_key m) (mi_markers m) (mi_kf m) (mi_max m) (mi_inner m) (mi_buf m) (mi_recs m)
       (mi_closing m) (mi_init m) (mi_phase m) (mi_out m ++ [t]).

(* ------------------------------------------------------------------------------------------ *)
(* Foreground operations of a miss iterator                                                     *)

(* v1 Next: "len(c.tuples) >= c.maxResultSize"; v2 Next: "len(c.tuples) > c.maxSize" *)
Definition over_max (v : variant) (max len : nat) : bool :=
  match v with V1 => (max <=? len)%nat | V2 => (max <? len)%nat end.

Definition buf_push (v : variant) (max : nat) (buf : option (list tuple)) (t : tuple)
  : option (list tuple) :=
  match buf with
  | None => None
  | Some b => let b' := b ++ [t] in if over_max v max (length b') then None else Some b'
  end.

Definition miss_next (m : miter) (c : ctxs) : miter * res :=
  if mi_closing m then (m, RDone) else
  let '(inn, r) := inner_call true c (mi_inner m) in
  let m1 := mi_set_inner m inn in
  match r with
  | RErr e => (if is_cancel e then m1 else mi_set_buf m1 None, r)
  | RDone => (m1, r)
  | RItem t => (mi_add_out (mi_set_buf m1 (buf_push (mi_var m) (mi_max m) (mi_buf m) t)) t, r)
  end.

Definition miss_head (m : miter) (c : ctxs) : miter * res :=
  if mi_closing m then (m, RDone) else
  let '(inn, r) := inner_call false c (mi_inner m) in (mi_set_inner m inn, r).

Definition mi_finish (m : miter) : miter :=
  mi_set_phase (mi_set_inner m (in_stop (mi_inner m))) PFin.

(* Stop: v1 "c.tuples == nil || c.ctx.Err() != nil" => just stop the inner iterator;
         v2 "c.tuples == nil" *)
Definition miss_stop (srv : bool) (m : miter) : miter :=
  if mi_closing m then m else
  let m1 := mi_set_closing m in
  let no_bg := match mi_buf m with
               | None => true
               | Some _ => match mi_var m with V1 => srv | V2 => false end
               end in
  if no_bg then mi_finish m1 else mi_set_phase m1 PBgInit.

(* ------------------------------------------------------------------------------------------ *)
(* Background goroutine                                                                         *)

(* v1 addToBuffer *)
Definition add_to_buffer (m : miter) (t : tuple) : miter * bool :=
  match mi_buf m with
  | None => (m, false)
  | Some _ =>
      let recs := mi_recs m ++ [elide (mi_kf m) t] in
      if (mi_max m <=? length recs)%nat then (mi_set_recs (mi_set_buf m None) [], true)
      else (mi_set_recs m recs, true)
  end.

(* flush; v1: "c.tuples == nil || c.ctx.Err() != nil" => no-op; v2: "len(c.tuples) == 0" => no-op *)
Definition flush (st : state) (m : miter) : state * miter :=
  match mi_var m, mi_buf m with
  | V1, Some _ =>
      if st_srv st then (st, m)
      else (write_cache st (mi_key m) (CE1 (mi_recs m) (mi_init m)) (mi_max m),
            mi_set_recs (mi_set_buf m None) [])
  | V2, Some (t :: b) =>
      (write_cache st (mi_key m) (CE2 (map minimal (t :: b)) (mi_init m)) (mi_max m),
       mi_set_buf m None)
  | _, _ => (st, m)
  end.

(* the context the goroutine uses: v1 the server context, v2 a fresh background context *)
Definition bg_ctx (st : state) (m : miter) : ctxs :=
  match mi_var m with V1 => if st_srv st then CCancelled else CLive | V2 => CLive end.

Inductive out :=
| OOpened (hit : bool) (byp : bool)
| OOpenErr (e : errk)
| ORes (r : res)
| OBgRes (inner_res : option res) (fin : bool)   (* what the inner call returned; goroutine ended *)
| ONone
| OBad.

Definition release_sf (st : state) (key : N) (i : nat) : state :=
  match alist_get key (st_sf st) with
  | Some o => if Nat.eqb o i then set_sf st (alist_del key (st_sf st)) else st
  | None => st
  end.

Definition set_srv (st : state) : state :=
  mkSt (st_clock st) true (st_cache st) (st_inval st) (st_sf st) (st_iters st) (st_writes st).

Definition apply_fx (st : state) (f : option fx) : state :=
  match f with Some FxSrv => set_srv st | _ => st end.

(* the side effect of the inner call a miss iterator is about to make in the foreground *)
Definition miss_fx (m : miter) (c : ctxs) : option fx :=
  if mi_closing m then None else inner_fx c (mi_inner m).

(* ... and in the background, with the goroutine's context c *)
Definition bg_fx (m : miter) (c : ctxs) : option fx :=
  match mi_phase m with
  | PBgHead | PBgLoop => inner_fx c (mi_inner m)
  | _ => None
  end.

(* c: the state of the goroutine's context when the step starts *)
Definition bg_step (st : state) (c : ctxs) (i : nat) (m : miter) : state * out :=
  match mi_phase m with
  | PBgInit =>
      match mi_var m with
      | V1 =>
          let '(found, cache') := find_in_cache V1 (st_cache st) (st_inval st) (mi_key m) (mi_markers m) in
          let st1 := set_cache st cache' in
          match found with
          | Some _ => (set_iter st1 i (IMiss (mi_finish (mi_set_buf m None))), OBgRes None true)
          | None =>
              if is_invalid_at (st_inval st) (mi_init m) (mi_markers m)
              then (set_iter st1 i (IMiss (mi_finish (mi_set_buf m None))), OBgRes None true)
              else
                let m1 := fold_left (fun mm t => fst (add_to_buffer mm t))
                                    (match mi_buf m with Some b => b | None => [] end)
                                    (mi_set_recs m []) in
                (set_iter st1 i (IMiss (mi_set_phase m1 PBgHead)), OBgRes None false)
          end
      | V2 =>
          match alist_get (mi_key m) (st_cache st) with
          | Some (CE2 _ _) => (set_iter st i (IMiss (mi_finish (mi_set_buf m None))), OBgRes None true)
          | _ => (set_iter st i (IMiss (mi_set_phase m PBgHead)), OBgRes None false)
          end
      end
  | PBgHead =>
      let '(inn, r) := inner_call false c (mi_inner m) in
      let m1 := mi_set_inner m inn in
      match r with
      | RDone =>
          let '(st1, m2) := flush st m1 in
          (set_iter st1 i (IMiss (mi_finish m2)), OBgRes (Some r) true)
      | _ => (set_iter st i (IMiss (mi_set_phase m1 PBgSf)), OBgRes (Some r) false)
      end
  | PBgSf =>
      (* sf.Do: join the call in flight for this key, or start one *)
      match alist_get (mi_key m) (st_sf st) with
      | Some owner => (set_iter st i (IMiss (mi_set_phase m (PBgWait owner))), OBgRes None false)
      | None =>
          (set_iter (set_sf st ((mi_key m, i) :: st_sf st)) i (IMiss (mi_set_phase m PBgLoop)),
           OBgRes None false)
      end
  | PBgLoop =>
      let '(inn, r) := inner_call true c (mi_inner m) in
      let m1 := mi_set_inner m inn in
      match r with
      | RDone =>
          let '(st1, m2) := flush st m1 in
          (set_iter (release_sf st1 (mi_key m) i) i (IMiss (mi_finish m2)), OBgRes (Some r) true)
      | RErr _ =>
          let m2 := match mi_var m with V1 => m1 | V2 => mi_set_buf m1 None end in
          (set_iter (release_sf st (mi_key m) i) i (IMiss (mi_finish m2)), OBgRes (Some r) true)
      | RItem t =>
          match mi_var m with
          | V1 =>
              let '(m2, ok) := add_to_buffer m1 t in
              if ok then (set_iter st i (IMiss m2), OBgRes (Some r) false)
              else (set_iter (release_sf st (mi_key m) i) i (IMiss (mi_finish m2)), OBgRes (Some r) true)
          | V2 =>
              match mi_buf m1 with
              | None => (set_iter (release_sf st (mi_key m) i) i (IMiss (mi_finish m1)), OBgRes (Some r) true)
              | Some b =>
                  let b' := b ++ [t] in
                  if (mi_max m <? length b')%nat
                  then (set_iter (release_sf st (mi_key m) i) i (IMiss (mi_finish (mi_set_buf m1 None))),
                        OBgRes (Some r) true)
                  else (set_iter st i (IMiss (mi_set_buf m1 (Some b'))), OBgRes (Some r) false)
              end
          end
      end
  | PBgWait owner =>
      match alist_get (mi_key m) (st_sf st) with
      | Some o => if Nat.eqb o owner then (st, ONone)
                  else (set_iter st i (IMiss (mi_finish m)), OBgRes None true)
      | None => (set_iter st i (IMiss (mi_finish m)), OBgRes None true)
      end
  | PFg | PFin => (st, ONone)
  end.

(* v2 only: the drain timeout fires ("drainCtx.Err() != nil" at the top of the loop) *)
Definition bg_timeout (st : state) (i : nat) (m : miter) : state * out :=
  match mi_var m, mi_phase m with
  | V2, PBgLoop =>
      (set_iter (release_sf st (mi_key m) i) i (IMiss (mi_finish (mi_set_buf m None))), OBgRes None true)
  | V2, PBgHead | V2, PBgSf =>
      (set_iter st i (IMiss (mi_finish (mi_set_buf m None))), OBgRes None true)
  | _, _ => (st, ONone)
  end.

(* ------------------------------------------------------------------------------------------ *)
(* Hit iterators (cachedTupleIterator over a StaticIterator; LockFreeCachedIterator)            *)

Definition hit_call (is_next : bool) (h : hiter) (c : ctxs) : hiter * res :=
  match ctx_err c with
  | Some e => (h, RErr e)
  | None =>
      if hi_stopped h then (h, RDone) else
      match nth_error (hi_items h) (hi_pos h) with
      | None => (h, RDone)
      | Some t =>
          (if is_next
           then mkHI (hi_var h) (hi_key h) (hi_items h) (S (hi_pos h)) (hi_stopped h) (hi_out h ++ [t])
           else h, RItem t)
      end
  end.

Definition hit_stop (h : hiter) : hiter :=
  mkHI (hi_var h) (hi_key h) (hi_items h) (hi_pos h) true (hi_out h).

(* ------------------------------------------------------------------------------------------ *)
(* Operations                                                                                   *)

Inductive op :=
| OOpen (q : qdesc)
| ONext (i : nat) (c : ctxs)
| OHead (i : nat) (c : ctxs)
| OStop (i : nat)
| OBg (i : nat)
| OBgTimeout (i : nat)
| OInval (marker : N) (ts : N)
| OEvict (key : N)
| OCancelServer.

Definition mk_inner (q : qdesc) : inner := mkIn (q_items q) 0 (q_script q) (q_lossy q) false.

Definition do_open (st : state) (q : qdesc) : state * out :=
  if bypass q then
    match q_openerr q with
    | Some e => (push_iter st IDead, OOpenErr e)
    | None => (push_iter st (IBypass (q_key q) (mk_inner q) []), OOpened false true)
    end
  else
    let '(found, cache') := find_in_cache (q_var q) (st_cache st) (st_inval st) (q_key q) (q_markers q) in
    let st1 := set_cache st cache' in
    match found with
    | Some e =>
        (push_iter st1 (IHit (mkHI (q_var q) (q_key q) (decode (kf_of q) e) 0 false [])), OOpened true false)
    | None =>
        match q_openerr q with
        | Some e => (push_iter st1 IDead, OOpenErr e)
        | None =>
            (push_iter st1 (IMiss (mkMI (q_var q) (q_key q) (q_markers q) (kf_of q) (q_max q) (mk_inner q)
                                        (Some []) [] false (st_clock st) PFg [])),
             OOpened false false)
        end
    end.

Definition step (st0 : state) (o : op) : state * out :=
  let st := tick st0 in
  match o with
  | OOpen q => do_open st q
  | ONext i c =>
      match nth_error (st_iters st) i with
      | Some (IMiss m) =>
          let '(m', r) := miss_next m c in (set_iter (apply_fx st (miss_fx m c)) i (IMiss m'), ORes r)
      | Some (IHit h) => let '(h', r) := hit_call true h c in (set_iter st i (IHit h'), ORes r)
      | Some (IBypass k inn o) =>
          let '(inn', r) := inner_call true c inn in
          (set_iter (apply_fx st (inner_fx c inn)) i
                    (IBypass k inn' (match r with RItem t => o ++ [t] | _ => o end)), ORes r)
      | _ => (st, OBad)
      end
  | OHead i c =>
      match nth_error (st_iters st) i with
      | Some (IMiss m) =>
          let '(m', r) := miss_head m c in (set_iter (apply_fx st (miss_fx m c)) i (IMiss m'), ORes r)
      | Some (IHit h) => let '(h', r) := hit_call false h c in (set_iter st i (IHit h'), ORes r)
      | Some (IBypass k inn o) =>
          let '(inn', r) := inner_call false c inn in
          (set_iter (apply_fx st (inner_fx c inn)) i (IBypass k inn' o), ORes r)
      | _ => (st, OBad)
      end
  | OStop i =>
      match nth_error (st_iters st) i with
      | Some (IMiss m) => (set_iter st i (IMiss (miss_stop (st_srv st) m)), ONone)
      | Some (IHit h) => (set_iter st i (IHit (hit_stop h)), ONone)
      | Some (IBypass k inn o) => (set_iter st i (IBypass k (in_stop inn) o), ONone)
      | _ => (st, OBad)
      end
  | OBg i =>
      match nth_error (st_iters st) i with
      | Some (IMiss m) =>
          let c := bg_ctx st m in bg_step (apply_fx st (bg_fx m c)) c i m
      | _ => (st, OBad)
      end
  | OBgTimeout i =>
      match nth_error (st_iters st) i with
      | Some (IMiss m) => bg_timeout st i m
      | _ => (st, OBad)
      end
  | OInval mk ts =>
      (mkSt (st_clock st) (st_srv st) (st_cache st) (alist_set mk ts (st_inval st)) (st_sf st)
            (st_iters st) (st_writes st), ONone)
  | OEvict k => (set_cache st (alist_del k (st_cache st)), ONone)
  | OCancelServer =>
      (mkSt (st_clock st) true (st_cache st) (st_inval st) (st_sf st) (st_iters st) (st_writes st), ONone)
  end.

Fixpoint run (st : state) (h : list op) : state * list out :=
  match h with
  | [] => (st, [])
  | o :: h' => let '(st1, x) := step st o in let '(st2, xs) := run st1 h' in (st2, x :: xs)
  end.

(* ------------------------------------------------------------------------------------------ *)
(* Abstraction used by the specification: what a consumer has been handed, and whether it       *)
(* still reads                                                                                  *)

Definition it_key (it : iter) : option N :=
  match it with
  | IMiss m => Some (mi_key m) | IHit h => Some (hi_key h) | IBypass k _ _ => Some k | IDead => None
  end.
Definition it_var (it : iter) : variant :=
  match it with IMiss m => mi_var m | IHit h => hi_var h | _ => V1 end.
Definition it_out (it : iter) : list tuple :=
  match it with IMiss m => mi_out m | IHit h => hi_out h | IBypass _ _ o => o | IDead => [] end.
Definition it_live (it : iter) : bool :=
  match it with
  | IMiss m => negb (mi_closing m) | IHit h => negb (hi_stopped h)
  | IBypass _ inn _ => negb (in_stopped inn) | IDead => false
  end.
(* a v2 HIT iterator returns tuples without timestamps; everything else returns them unchanged *)
Definition it_norm (it : iter) : tuple -> tuple :=
  match it with IHit h => match hi_var h with V2 => strip_ts | V1 => fun t => t end | _ => fun t => t end.
