(* Executable model of the iterator adapters (C23):
     pkg/storage/tuple_iterators.go   StaticIterator, combinedIterator, tupleKeyIterator,
                                      filteredTupleKeyIterator, ConditionsFilteredTupleKeyIterator,
                                      OrderedCombinedIterator
     pkg/storage/tuple_mappers.go     UsersetMapper / TTUMapper / ObjectIDMapper
     internal/iterator/*.go           Concat, Merge, NewFilteredIterator, Validate, SkipTo, Error,
                                      FromChannel, ToChannel, Stream / Streams /
                                      NextItemInSliceStreams, FanInIteratorChannels (scheduler form)
   Model only; proofs are in IterAdaptersProofs.v.

   Items are numbers (the driver uses an order-preserving injective encoding of the strings /
   tuples it feeds to the real code).  An inner iterator is a *script* [list ev]: the i-th call
   of Next consumes the i-th event, which is an item or an error; Head peeks at the next event
   without consuming it; after Stop every call answers ErrIteratorDone.  A result of a Go call
   (T, error) is [R v e]: [v = None] for the zero value, [e = None] for a nil error.  Error
   classes are numbers (see the constants below); scripted errors use codes >= 10.

   Loops of the Go code over an inner iterator are written as structural recursions over the
   events that are still visible ([live]): a stopped inner iterator shows no events. *)
From Coq Require Import List NArith Bool.
Import ListNotations.
Open Scope N_scope.

Inductive ev := Item (x : N) | Err (e : N).

Inductive res := R (v : option N) (e : option N).
Definition ROk (x : N) : res := R (Some x) None.
Definition RErr (e : N) : res := R None (Some e).
Definition RNil : res := R None None.

Definition EDone : N := 0.             (* storage.ErrIteratorDone *)
Definition ECancel : N := 1.           (* context.Canceled *)
Definition EDeadline : N := 2.         (* context.DeadlineExceeded *)
Definition EHeadUnsupported : N := 3.  (* "head() not supported on ..." *)
Definition ENotAscending : N := 4.     (* "iterator %d is not in ascending order" *)
Definition EInvalidTarget : N := 5.    (* "invalid target object" *)
Definition EMapper : N := 6.           (* MapUserset: "unexpected userset ... with no relation" *)
Definition EOutOfFuel : N := 98.       (* model artefact, never produced by the code *)
Definition RDone : res := RErr EDone.

Definition is_done (e : N) : bool := e =? EDone.
(* storage.IterIsDoneOrCancelled *)
Definition done_or_cancelled (e : N) : bool := e <=? EDeadline.

(* ---- the scripted inner iterator ---- *)

Record src := mkSrc { evs : list ev; sstopped : bool; nstops : N }.

Definition src_of (l : list ev) : src := mkSrc l false 0.
Definition live (s : src) : list ev := if sstopped s then [] else evs s.
Definition put (s : src) (l : list ev) : src := if sstopped s then s else mkSrc l false (nstops s).
Definition src_stop (s : src) : src := mkSrc (evs s) true (nstops s + 1).

Definition evs_next (l : list ev) : res * list ev :=
  match l with
  | [] => (RDone, [])
  | Item x :: r => (ROk x, r)
  | Err e :: r => (RErr e, r)
  end.
Definition evs_head (l : list ev) : res :=
  match l with
  | [] => RDone
  | Item x :: _ => ROk x
  | Err e :: _ => RErr e
  end.

Definition src_next (s : src) : res * src := let (r, l) := evs_next (live s) in (r, put s l).
Definition src_head (s : src) : res := evs_head (live s).

(* what the driver can observe of an inner iterator at the end: events left, number of Stop calls *)
Definition src_obs (s : src) : N * N := (N.of_nat (length (evs s)), nstops s).

(* ---- call patterns ---- *)

Inductive op := ONext | OHead | OStop.

Section Run.
  Variable St : Type.
  Variable nx hd : St -> res * St.
  Variable stp : St -> St.
  Definition step1 (o : op) (s : St) : res * St :=
    match o with ONext => nx s | OHead => hd s | OStop => (RNil, stp s) end.
  Fixpoint run (ops : list op) (s : St) : list res * St :=
    match ops with
    | [] => ([], s)
    | o :: r => let (x, s1) := step1 o s in let (xs, s2) := run r s1 in (x :: xs, s2)
    end.
  Fixpoint nexts (n : nat) (s : St) : list res :=
    match n with
    | O => []
    | S k => let (x, s1) := nx s in x :: nexts k s1
    end.
End Run.
Arguments run {St}.
Arguments nexts {St}.
Arguments step1 {St}.

(* ---- StaticIterator (pkg/storage) : items only; a cancelled context is the boolean ---- *)

Definition static_next (cancelled : bool) (l : list N) : res * list N :=
  if cancelled then (RErr ECancel, l) else
  match l with [] => (RDone, []) | x :: r => (ROk x, r) end.
Definition static_head (cancelled : bool) (l : list N) : res * list N :=
  if cancelled then (RErr ECancel, l) else
  match l with [] => (RDone, []) | x :: _ => (ROk x, l) end.
Definition static_stop (l : list N) : list N := [].

(* ops for the static iterator: 0 Next, 1 Head, 2 Stop, 3 Next(cancelled ctx), 4 Head(cancelled ctx) *)
Fixpoint static_run (ops : list N) (l : list N) : list res :=
  match ops with
  | [] => []
  | o :: r =>
    let '(x, l1) :=
      if o =? 0 then static_next false l else if o =? 1 then static_head false l
      else if o =? 2 then (RNil, static_stop l) else if o =? 3 then static_next true l
      else static_head true l in
    x :: static_run r l1
  end.

(* ---- iterator.Error ---- *)
Definition error_next (e : N) : res * N := (RErr e, e).

(* ---- iterator.Concat ---- *)

Record concat_st := mkConcat {
  c_cur : src; c_nxt : option src; c_done : bool; c_once : bool;
  c_old : option src   (* iter1 after the switch (stopped, no longer referenced by the code) *)
}.
Definition concat_init (a b : list ev) : concat_st := mkConcat (src_of a) (Some (src_of b)) false false None.

Definition concat_next (st : concat_st) : res * concat_st :=
  if c_done st then (RDone, st) else
  let (r, cur1) := src_next (c_cur st) in
  match r with
  | R v None => (R v None, mkConcat cur1 (c_nxt st) false (c_once st) (c_old st))
  | R _ (Some e) =>
    if is_done e then
      match c_nxt st with
      | None => (RDone, mkConcat cur1 None true (c_once st) (c_old st))
      | Some nx =>
        let (r2, nx1) := src_next nx in
        (r2, mkConcat nx1 None false (c_once st) (Some (src_stop cur1)))
      end
    else (RErr e, mkConcat cur1 (c_nxt st) true (c_once st) (c_old st))
  end.
Definition concat_head (st : concat_st) : res * concat_st := (RErr EHeadUnsupported, st).
Definition concat_stop (st : concat_st) : concat_st :=
  if c_once st then st else
  mkConcat (src_stop (c_cur st)) (option_map src_stop (c_nxt st)) true true (c_old st).
Definition concat_obs (st : concat_st) : list (N * N) :=
  match c_old st, c_nxt st with
  | Some o, _ => [src_obs o; src_obs (c_cur st)]
  | None, Some n => [src_obs (c_cur st); src_obs n]
  | None, None => [src_obs (c_cur st)]
  end.

(* ---- iterator.Merge (compareFn = order of the items) ---- *)

Record merge_st := mkMerge {
  m_1 : src; m_2 : src; m_c1 : option N; m_c2 : option N; m_h1 : bool; m_h2 : bool; m_init : bool
}.
Definition merge_init (a b : list ev) : merge_st := mkMerge (src_of a) (src_of b) None None false false false.

(* initialize: Some e = the error it returns *)
Definition merge_initialize (st : merge_st) : option N * merge_st :=
  if m_init st then (None, st) else
  let '(R v1 e1, s1) := src_next (m_1 st) in
  let stop1 := match e1 with Some e => negb (is_done e) | None => false end in
  if stop1 then (e1, mkMerge s1 (m_2 st) None None false false true) else
  let h1 := match e1 with Some _ => false | None => true end in
  let '(R v2 e2, s2) := src_next (m_2 st) in
  let stop2 := match e2 with Some e => negb (is_done e) | None => false end in
  if stop2 then (e2, mkMerge s1 s2 v1 None h1 false true) else
  let h2 := match e2 with Some _ => false | None => true end in
  (None, mkMerge s1 s2 v1 v2 h1 h2 true).

Definition merge_from1 (st : merge_st) : res * merge_st :=
  let val := m_c1 st in
  let '(R v e, s1) := src_next (m_1 st) in
  match e with
  | Some e0 =>
    if is_done e0 then (R val None, mkMerge s1 (m_2 st) (m_c1 st) (m_c2 st) false (m_h2 st) true)
    else (R val (Some e0), mkMerge s1 (m_2 st) (m_c1 st) (m_c2 st) (m_h1 st) (m_h2 st) true)
  | None => (R val None, mkMerge s1 (m_2 st) v (m_c2 st) (m_h1 st) (m_h2 st) true)
  end.
Definition merge_from2 (st : merge_st) : res * merge_st :=
  let val := m_c2 st in
  let '(R v e, s2) := src_next (m_2 st) in
  match e with
  | Some e0 =>
    if is_done e0 then (R val None, mkMerge (m_1 st) s2 (m_c1 st) (m_c2 st) (m_h1 st) false true)
    else (R val (Some e0), mkMerge (m_1 st) s2 (m_c1 st) (m_c2 st) (m_h1 st) (m_h2 st) true)
  | None => (R val None, mkMerge (m_1 st) s2 (m_c1 st) v (m_h1 st) (m_h2 st) true)
  end.

Definition optN (o : option N) : N := match o with Some x => x | None => 0 end.

Definition merge_next (st0 : merge_st) : res * merge_st :=
  let (ie, st) := merge_initialize st0 in
  match ie with
  | Some e => (RErr e, st)
  | None =>
    if negb (m_h1 st) && negb (m_h2 st) then (RDone, st)
    else if negb (m_h1 st) then merge_from2 st
    else if negb (m_h2 st) then merge_from1 st
    else match optN (m_c1 st) ?= optN (m_c2 st) with
         | Lt => merge_from1 st
         | Gt => merge_from2 st
         | Eq =>
           let val := m_c1 st in
           let '(R v1 e1, s1) := src_next (m_1 st) in
           let stop1 := match e1 with Some e => negb (is_done e) | None => false end in
           if stop1 then (R val e1, mkMerge s1 (m_2 st) (m_c1 st) (m_c2 st) true true true) else
           let h1 := match e1 with Some _ => false | None => true end in
           let c1 := match e1 with Some _ => m_c1 st | None => v1 end in
           let '(R v2 e2, s2) := src_next (m_2 st) in
           let stop2 := match e2 with Some e => negb (is_done e) | None => false end in
           if stop2 then (R val e2, mkMerge s1 s2 c1 (m_c2 st) h1 true true) else
           let h2 := match e2 with Some _ => false | None => true end in
           let c2 := match e2 with Some _ => m_c2 st | None => v2 end in
           (R val None, mkMerge s1 s2 c1 c2 h1 h2 true)
         end
  end.
Definition merge_head (st : merge_st) : res * merge_st := (RErr EHeadUnsupported, st).
Definition merge_stop (st : merge_st) : merge_st :=
  mkMerge (src_stop (m_1 st)) (src_stop (m_2 st)) (m_c1 st) (m_c2 st) (m_h1 st) (m_h2 st) (m_init st).
Definition merge_obs (st : merge_st) : list (N * N) := [src_obs (m_1 st); src_obs (m_2 st)].

(* ---- filters with a deferred error: iterator.NewFilteredIterator (no Head) and
        storage.ConditionsFilteredTupleKeyIterator (with Head) ---- *)

Inductive verdict := VPass | VReject | VErr (e : N).

(* filter.applyFilters: the first filter that does not pass decides *)
Fixpoint apply_filters (fs : list (N -> verdict)) (x : N) : verdict :=
  match fs with
  | [] => VPass
  | f :: r => match f x with VPass => apply_filters r x | v => v end
  end.

Record cf_st := mkCf { cf_src : src; cf_last : option N; cf_valid : bool; cf_once : bool }.
Definition cf_init (a : list ev) : cf_st := mkCf (src_of a) None false false.

Section CondFilter.
  Variable f : N -> verdict.

  (* Next: loop over the inner events; result, events left, lastError, onceValid *)
  Fixpoint cf_next_loop (l : list ev) (le : option N) (ov : bool) : res * list ev * option N * bool :=
    match l with
    | [] =>
      match le with
      | Some e => if ov then (RDone, [], le, ov) else (RErr e, [], None, ov)
      | None => (RDone, [], le, ov)
      end
    | Err e :: r => (RErr e, r, le, ov)
    | Item x :: r =>
      match f x with
      | VErr e => cf_next_loop r (Some e) ov
      | VReject => cf_next_loop r le ov
      | VPass => (ROk x, r, le, true)
      end
    end.

  (* Head: the deferred error is reported but NOT cleared; an inner error is not consumed *)
  Fixpoint cf_head_loop (l : list ev) (le : option N) (ov : bool) : res * list ev * option N * bool :=
    match l with
    | [] =>
      match le with
      | Some e => if ov then (RDone, [], le, ov) else (RErr e, [], le, ov)
      | None => (RDone, [], le, ov)
      end
    | Err e :: _ => (RErr e, l, le, ov)
    | Item x :: r =>
      match f x with
      | VErr e => cf_head_loop r (Some e) ov
      | VReject => cf_head_loop r le ov
      | VPass => (ROk x, l, le, true)
      end
    end.

  Definition cf_next (st : cf_st) : res * cf_st :=
    let '(r, l, le, ov) := cf_next_loop (live (cf_src st)) (cf_last st) (cf_valid st) in
    (r, mkCf (put (cf_src st) l) le ov (cf_once st)).
  Definition cf_head (st : cf_st) : res * cf_st :=
    let '(r, l, le, ov) := cf_head_loop (live (cf_src st)) (cf_last st) (cf_valid st) in
    (r, mkCf (put (cf_src st) l) le ov (cf_once st)).
End CondFilter.
(* the generic filter has no Head *)
Definition gf_head (st : cf_st) : res * cf_st := (RErr EHeadUnsupported, st).
Definition cf_stop (st : cf_st) : cf_st :=
  if cf_once st then st else mkCf (src_stop (cf_src st)) (cf_last st) (cf_valid st) true.
Definition cf_obs (st : cf_st) : list (N * N) := [src_obs (cf_src st)].

(* ---- one-inner adapters without extra state: (inner, once-flag) ---- *)

Record one_st := mkOne { o_src : src; o_once : bool }.
Definition one_init (a : list ev) : one_st := mkOne (src_of a) false.
Definition one_stop_once (st : one_st) : one_st :=
  if o_once st then st else mkOne (src_stop (o_src st)) true.
(* Stop without sync.Once: the inner Stop is called every time *)
Definition one_stop_always (st : one_st) : one_st := mkOne (src_stop (o_src st)) (o_once st).
Definition one_obs (st : one_st) : list (N * N) := [src_obs (o_src st)].

(* storage.filteredTupleKeyIterator *)
Section Filtered.
  Variable p : N -> bool.
  Fixpoint flt_next_loop (l : list ev) : res * list ev :=
    match l with
    | [] => (RDone, [])
    | Err e :: r => (RErr e, r)
    | Item x :: r => if p x then (ROk x, r) else flt_next_loop r
    end.
  Fixpoint flt_head_loop (l : list ev) : res * list ev :=
    match l with
    | [] => (RDone, [])
    | Err e :: _ => (RErr e, l)
    | Item x :: r => if p x then (ROk x, l) else flt_head_loop r
    end.
  Definition flt_next (st : one_st) : res * one_st :=
    let (r, l) := flt_next_loop (live (o_src st)) in (r, mkOne (put (o_src st) l) (o_once st)).
  Definition flt_head (st : one_st) : res * one_st :=
    let (r, l) := flt_head_loop (live (o_src st)) in (r, mkOne (put (o_src st) l) (o_once st)).
End Filtered.

(* iterator.Validate; validator = None is the nil validator *)
Section Validate.
  Variable vf : option (N -> verdict).
  Definition vverdict (x : N) : verdict := match vf with None => VPass | Some f => f x end.
  Fixpoint val_next_loop (l : list ev) : res * list ev :=
    match l with
    | [] => (RDone, [])
    | Err e :: r => (RErr e, r)
    | Item x :: r =>
      match vverdict x with
      | VPass => (ROk x, r)
      | VReject => val_next_loop r
      | VErr e => (RErr e, r)
      end
    end.
  Fixpoint val_head_loop (l : list ev) : res * list ev :=
    match l with
    | [] => (RDone, [])
    | Err e :: _ => (RErr e, l)
    | Item x :: r =>
      match vverdict x with
      | VPass => (ROk x, l)
      | VReject => val_head_loop r
      | VErr e => (RErr e, l)
      end
    end.
  Definition val_next (st : one_st) : res * one_st :=
    let (r, l) := val_next_loop (live (o_src st)) in (r, mkOne (put (o_src st) l) (o_once st)).
  Definition val_head (st : one_st) : res * one_st :=
    let (r, l) := val_head_loop (live (o_src st)) in (r, mkOne (put (o_src st) l) (o_once st)).
End Validate.

(* tupleKeyIterator and the three mappers: apply a (possibly failing) function to each item *)
Section Mapped.
  Variable g : N -> res.
  Definition map_res (r : res) : res :=
    match r with
    | R (Some x) None => g x
    | R _ (Some e) => RErr e
    | R None None => RNil
    end.
  Definition map_next (st : one_st) : res * one_st :=
    let (r, s) := src_next (o_src st) in (map_res r, mkOne s (o_once st)).
  Definition map_head (st : one_st) : res * one_st := (map_res (src_head (o_src st)), st).
End Mapped.

(* ---- iterator.SkipTo over a scripted iterator ---- *)
Fixpoint skip_to_loop (target : N) (l : list ev) : res * list ev :=
  match l with
  | [] => (RNil, [])
  | Err e :: _ => (if done_or_cancelled e then RNil else RErr e, l)
  | Item x :: r => if target <=? x then (RNil, l) else skip_to_loop target r
  end.
Definition skip_to (target : N) (s : src) : res * src :=
  let (r, l) := skip_to_loop target (live s) in (r, put s l).

(* ---- storage.combinedIterator ---- *)

Record comb_st := mkComb { cb_pending : list src; cb_fin : list src; cb_once : bool }.
Definition comb_init (ls : list (list ev)) : comb_st := mkComb (map src_of ls) [] false.

(* result, pending, finished (in the order they finished) *)
Fixpoint comb_next_loop (pend : list src) : res * list src * list src :=
  match pend with
  | [] => (RDone, [], [])
  | s :: rest =>
    let (r, s1) := src_next s in
    match r with
    | R _ (Some e) =>
      if is_done e then let '(r2, p2, f2) := comb_next_loop rest in (r2, p2, src_stop s1 :: f2)
      else (r, s1 :: rest, [])
    | _ => (r, s1 :: rest, [])
    end
  end.
Fixpoint comb_head_loop (pend : list src) : res * list src * list src :=
  match pend with
  | [] => (RDone, [], [])
  | s :: rest =>
    match src_head s with
    | R _ (Some e) as r =>
      if is_done e then let '(r2, p2, f2) := comb_head_loop rest in (r2, p2, src_stop s :: f2)
      else (r, s :: rest, [])
    | r => (r, s :: rest, [])
    end
  end.
Definition comb_next (st : comb_st) : res * comb_st :=
  let '(r, p, f) := comb_next_loop (cb_pending st) in (r, mkComb p (cb_fin st ++ f) (cb_once st)).
Definition comb_head (st : comb_st) : res * comb_st :=
  let '(r, p, f) := comb_head_loop (cb_pending st) in (r, mkComb p (cb_fin st ++ f) (cb_once st)).
Definition comb_stop (st : comb_st) : comb_st :=
  if cb_once st then st else mkComb (map src_stop (cb_pending st)) (cb_fin st) true.
(* finished iterators left the pending list front to back, so this is the original order *)
Definition comb_obs (st : comb_st) : list (N * N) := map src_obs (cb_fin st ++ cb_pending st).

(* ---- storage.OrderedCombinedIterator ---- *)

Record oc_st := mkOc {
  oc_pending : list (N * src);   (* original index, iterator; nil slots are removed eagerly *)
  oc_fin : list (N * src);
  oc_lastHead : option N;
  oc_lastYielded : option N;
  oc_once : bool
}.

Fixpoint index_from (i : N) (ls : list (list ev)) : list (N * src) :=
  match ls with [] => [] | l :: r => (i, src_of l) :: index_from (i + 1) r end.
Definition oc_init (ls : list (list ev)) : oc_st := mkOc (index_from 0 ls) [] None None false.

Section Ordered.
  Variable key : N -> N.   (* the mapper *)

  (* the "Discard duplicate values" loop: drop leading items whose key is ky *)
  Fixpoint skip_dups (ky : N) (l : list ev) : list ev :=
    match l with
    | Item x :: r => if key x =? ky then skip_dups ky r else l
    | _ => l
    end.

  Inductive prep := PDone (s : src) | PErr (e : N) (s : src) | PItem (x : N) (s : src).

  (* what head() does with one pending iterator *)
  Definition prep1 (ly : option N) (s : src) : prep :=
    match live s with
    | [] => PDone (src_stop s)
    | Err e :: _ => if is_done e then PDone (src_stop s) else PErr e s
    | Item x :: _ =>
      match ly with
      | None => PItem x s
      | Some y =>
        if key x <? key y then PErr ENotAscending s else
        let l1 := skip_dups (key y) (live s) in
        match l1 with
        | [] => PDone (src_stop (put s l1))
        | Err e :: _ => if is_done e then PDone (src_stop (put s l1)) else PErr e (put s l1)
        | Item x1 :: _ => PItem x1 (put s l1)
        end
      end
    end.

  Inductive scanres :=
  | SOk (kept : list (N * src)) (fin : list (N * src)) (best : option (nat * N))
  | SErr (e : N) (kept : list (N * src)) (fin : list (N * src)).

  (* the first iterator with the smallest key wins (strict comparison in the code) *)
  Definition better (x : N) (b : option (nat * N)) : option (nat * N) :=
    match b with
    | Some (j, kb) => if kb <? key x then Some (S j, kb) else Some (O, key x)
    | None => Some (O, key x)
    end.

  Fixpoint oc_scan (ly : option N) (pend : list (N * src)) : scanres :=
    match pend with
    | [] => SOk [] [] None
    | (i, s) :: rest =>
      match prep1 ly s with
      | PDone s1 =>
        match oc_scan ly rest with
        | SOk k f b => SOk k ((i, s1) :: f) b
        | SErr e k f => SErr e k ((i, s1) :: f)
        end
      | PErr e s1 => SErr e ((i, s1) :: rest) []
      | PItem x s1 =>
        match oc_scan ly rest with
        | SOk k f b => SOk ((i, s1) :: k) f (better x b)
        | SErr e k f => SErr e ((i, s1) :: k) f
        end
      end
    end.

  Fixpoint upd_nth {A} (n : nat) (l : list A) (g : A -> A) : list A :=
    match l, n with
    | [], _ => []
    | a :: r, O => g a :: r
    | a :: r, S k => a :: upd_nth k r g
    end.

  Definition oc_next (st : oc_st) : res * oc_st :=
    match oc_scan (oc_lastYielded st) (oc_pending st) with
    | SErr e k f => (RErr e, mkOc k (oc_fin st ++ f) (oc_lastHead st) (oc_lastYielded st) (oc_once st))
    | SOk k f None => (RDone, mkOc k (oc_fin st ++ f) (oc_lastHead st) (oc_lastYielded st) (oc_once st))
    | SOk k f (Some (j, _)) =>
      match nth_error k j with
      | None => (RErr EOutOfFuel, st)
      | Some (_, s) =>
        let (r, _) := src_next s in
        let k1 := upd_nth j k (fun p => (fst p, snd (src_next (snd p)))) in
        match r with
        | R (Some x) None => (r, mkOc k1 (oc_fin st ++ f) None (Some x) (oc_once st))
        | _ => (r, mkOc k1 (oc_fin st ++ f) None (oc_lastYielded st) (oc_once st))
        end
      end
    end.

  Definition oc_head (st : oc_st) : res * oc_st :=
    match oc_lastHead st with
    | Some h => (ROk h, st)
    | None =>
      match oc_scan (oc_lastYielded st) (oc_pending st) with
      | SErr e k f => (RErr e, mkOc k (oc_fin st ++ f) None (oc_lastYielded st) (oc_once st))
      | SOk k f None => (RDone, mkOc k (oc_fin st ++ f) None (oc_lastYielded st) (oc_once st))
      | SOk k f (Some (j, _)) =>
        match nth_error k j with
        | None => (RErr EOutOfFuel, st)
        | Some (_, s) =>
          match src_head s with
          | R v e => (R v e, mkOc k (oc_fin st ++ f) v (oc_lastYielded st) (oc_once st))
          end
        end
      end
    end.
End Ordered.
Definition oc_stop (st : oc_st) : oc_st :=
  if oc_once st then st else
  mkOc (map (fun p => (fst p, src_stop (snd p))) (oc_pending st)) (oc_fin st)
       (oc_lastHead st) (oc_lastYielded st) true.
(* (original index, events left, stops), to be sorted by the oracle *)
Definition oc_obs (st : oc_st) : list (N * (N * N)) :=
  map (fun p => (fst p, src_obs (snd p))) (oc_fin st ++ oc_pending st).

(* ---- channels of iterators: iterator.FromChannel, iterator.Stream(s), ToChannel ---- *)

Inductive msg := MIter (i : N) (s : src) | MErr (e : N) | MEmpty.

Definition stop_msgs (ms : list msg) : list (N * src) :=
  flat_map (fun m => match m with MIter i s => [(i, src_stop s)] | _ => [] end) ms.

(* FromChannel: the source channel is filled and closed before the first call *)
Record fc_st := mkFc { fc_msgs : list msg; fc_cur : option (N * src); fc_stopped : bool; fc_fin : list (N * src) }.
Definition fc_init (ms : list msg) : fc_st := mkFc ms None false [].

Fixpoint fc_loop (peek : bool) (fuel : nat) (st : fc_st) : res * fc_st :=
  match fuel with
  | O => (RErr EOutOfFuel, st)
  | S k =>
    match fc_cur st with
    | None =>
      match fc_msgs st with
      | [] => (RDone, st)
      | MErr e :: r => (RErr e, mkFc r None false (fc_fin st))
      | MIter i s :: r => fc_loop peek k (mkFc r (Some (i, s)) false (fc_fin st))
      | MEmpty :: r => fc_loop peek k (mkFc r None false (fc_fin st))
      end
    | Some (i, s) =>
      let '(r, s1) := if peek then (src_head s, s) else src_next s in
      match r with
      | R _ (Some e) =>
        if done_or_cancelled e
        then fc_loop peek k (mkFc (fc_msgs st) None false (fc_fin st ++ [(i, src_stop s1)]))
        else (RErr e, mkFc (fc_msgs st) (Some (i, s1)) false (fc_fin st))
      | _ => (r, mkFc (fc_msgs st) (Some (i, s1)) false (fc_fin st))
      end
    end
  end.
Definition fc_fuel (st : fc_st) : nat := 2 * length (fc_msgs st) + 3.
Definition fc_next (st : fc_st) : res * fc_st :=
  if fc_stopped st then (RDone, st) else fc_loop false (fc_fuel st) st.
Definition fc_head (st : fc_st) : res * fc_st :=
  if fc_stopped st then (RDone, st) else fc_loop true (fc_fuel st) st.
Definition fc_stop (st : fc_st) : fc_st :=
  if fc_stopped st then st else
  mkFc [] None true
       (fc_fin st ++ match fc_cur st with Some (i, s) => [(i, src_stop s)] | None => [] end
                  ++ stop_msgs (fc_msgs st)).
Definition fc_obs (st : fc_st) : list (N * (N * N)) :=
  map (fun p => (fst p, src_obs (snd p)))
      (fc_fin st ++ match fc_cur st with Some p => [p] | None => [] end
                 ++ flat_map (fun m => match m with MIter i s => [(i, s)] | _ => [] end) (fc_msgs st)).

(* ToChannel: everything the consumer receives until the channel is closed *)
Fixpoint to_channel (l : list ev) : list res :=
  match l with
  | [] => []
  | Item x :: r => ROk x :: to_channel r
  | Err e :: r => if done_or_cancelled e then [] else RErr e :: to_channel r
  end.

(* Stream / Streams *)
Record stream := mkStream {
  st_idx : N; st_buf : option (N * src); st_closed : bool; st_msgs : list msg; st_fin : list (N * src)
}.

Definition stream_call (peek : bool) (s : stream) : res * stream :=
  match st_buf s with
  | None => (RDone, s)
  | Some (i, b) =>
    let '(r, b1) := if peek then (src_head b, b) else src_next b in
    match r with
    | R _ (Some e) =>
      if done_or_cancelled e
      then (RErr e, mkStream (st_idx s) None (st_closed s) (st_msgs s) (st_fin s ++ [(i, src_stop b1)]))
      else (RErr e, mkStream (st_idx s) (Some (i, b1)) (st_closed s) (st_msgs s) (st_fin s))
    | _ => (r, mkStream (st_idx s) (Some (i, b1)) (st_closed s) (st_msgs s) (st_fin s))
    end
  end.
Definition stream_head := stream_call true.
Definition stream_next := stream_call false.
Definition stream_stop (s : stream) : stream :=
  mkStream (st_idx s) None (st_closed s) []
           (st_fin s ++ match st_buf s with Some (i, b) => [(i, src_stop b)] | None => [] end
                     ++ stop_msgs (st_msgs s)).

(* SkipToTargetObject after the validity test of the target; fuel = events in the buffer + 1 *)
Fixpoint stream_skip_loop (fuel : nat) (target : N) (s : stream) : res * stream :=
  match fuel with
  | O => (RErr EOutOfFuel, s)
  | S k =>
    let (r, s1) := stream_head s in
    match r with
    | R _ (Some e) => (if done_or_cancelled e then RNil else RErr e, s1)
    | R (Some x) None =>
      if target <=? x then (RNil, s1) else
      let (r2, s2) := stream_next s1 in
      match r2 with
      | R _ (Some e) => (if done_or_cancelled e then RNil else RErr e, s2)
      | _ => stream_skip_loop k target s2
      end
    | R None None => (RNil, s1)
    end
  end.
Definition buf_len (s : stream) : nat :=
  match st_buf s with Some (_, b) => length (evs b) | None => O end.
Definition stream_skip (valid_target : bool) (target : N) (s : stream) : res * stream :=
  if negb valid_target then (RErr EInvalidTarget, s) else
  match st_buf s with
  | None => (RNil, s)
  | Some _ => stream_skip_loop (S (buf_len s)) target s
  end.

(* Drain: (items, error); on an error the batch is dropped *)
Fixpoint stream_drain_loop (fuel : nat) (s : stream) (acc : list N) : list N * option N * stream :=
  match fuel with
  | O => ([], Some EOutOfFuel, s)
  | S k =>
    let (r, s1) := stream_next s in
    match r with
    | R _ (Some e) => if done_or_cancelled e then (rev acc, None, s1) else ([], Some e, s1)
    | R (Some x) None => stream_drain_loop k s1 (x :: acc)
    | R None None => stream_drain_loop k s1 acc
    end
  end.
Definition stream_drain (s : stream) : list N * option N * stream :=
  stream_drain_loop (S (S (buf_len s))) s [].

(* fetchSource *)
Definition stream_fetch (s : stream) : option N * stream :=
  match st_buf s with
  | Some _ => (None, s)
  | None =>
    if st_closed s then (None, s) else
    match st_msgs s with
    | [] => (None, mkStream (st_idx s) None true [] (st_fin s))
    | MErr e :: r => (Some e, mkStream (st_idx s) None false r (st_fin s))
    | MIter i b :: r => (None, mkStream (st_idx s) (Some (i, b)) false r (st_fin s))
    | MEmpty :: r => (None, mkStream (st_idx s) None false r (st_fin s))
    end
  end.
Definition stream_is_done (s : stream) : bool :=
  st_closed s && match st_buf s with None => true | Some _ => false end.

(* Streams.CleanDone: (error, active streams, streams removed from the list) *)
Fixpoint clean_fetch (ss : list stream) : option N * list stream :=
  match ss with
  | [] => (None, [])
  | s :: r =>
    let (e, s1) := stream_fetch s in
    match e with
    | Some _ => (e, s1 :: r)
    | None => let (e2, r2) := clean_fetch r in (e2, s1 :: r2)
    end
  end.
Definition clean_done (ss : list stream) : option N * list stream * list stream :=
  let (e, ss1) := clean_fetch ss in
  match e with
  | Some _ => (e, ss1, [])
  | None => (None, filter (fun s => negb (stream_is_done s)) ss1, filter stream_is_done ss1)
  end.

(* NextItemInSliceStreams *)
Fixpoint next_in_slice (ss : list stream) (idxs : list nat) (last : res) : res * list stream :=
  match idxs with
  | [] => (last, ss)
  | i :: r =>
    match nth_error ss i with
    | None => (RErr EOutOfFuel, ss)
    | Some s =>
      let (x, s1) := stream_next s in
      let ss1 := upd_nth i ss (fun _ => s1) in
      match x with
      | R _ (Some e) => (RErr e, ss1)
      | _ => next_in_slice ss1 r x
      end
    end
  end.

Inductive sop :=
| SClean | SHead (p : nat) | SNext (p : nat) | SSkip (p : nat) (valid : bool) (target : N)
| SDrain (p : nat) | SSlice (ps : list nat) | SStop (p : nat) | SStopAll.

(* observable of one op: a result, plus for Drain the batch and for CleanDone the active indices *)
Record sobs := mkSobs { so_res : res; so_list : list N }.

Record streams_st := mkStreams { ss_active : list stream; ss_gone : list stream }.

Definition on_stream (p : nat) (st : streams_st) (g : stream -> res * stream) : sobs * streams_st :=
  match nth_error (ss_active st) p with
  | None => (mkSobs RNil [], st)
  | Some s => let (r, s1) := g s in
              (mkSobs r [], mkStreams (upd_nth p (ss_active st) (fun _ => s1)) (ss_gone st))
  end.

Definition streams_step (o : sop) (st : streams_st) : sobs * streams_st :=
  match o with
  | SClean =>
    let '(e, act, gone) := clean_done (ss_active st) in
    (mkSobs (R None e) (match e with Some _ => [] | None => map st_idx act end),
     mkStreams act (ss_gone st ++ gone))
  | SHead p => on_stream p st stream_head
  | SNext p => on_stream p st stream_next
  | SSkip p v t => on_stream p st (stream_skip v t)
  | SDrain p =>
    match nth_error (ss_active st) p with
    | None => (mkSobs RNil [], st)
    | Some s => let '(items, e, s1) := stream_drain s in
                (mkSobs (R None e) items, mkStreams (upd_nth p (ss_active st) (fun _ => s1)) (ss_gone st))
    end
  | SSlice ps =>
    (* the driver only issues the call when every index is inside the slice *)
    if forallb (fun p => Nat.ltb p (length (ss_active st))) ps then
      let (r, ss1) := next_in_slice (ss_active st) ps (R None None) in
      (mkSobs r [], mkStreams ss1 (ss_gone st))
    else (mkSobs RNil [], st)
  | SStop p => on_stream p st (fun s => (RNil, stream_stop s))
  | SStopAll => (mkSobs RNil [], mkStreams (map stream_stop (ss_active st)) (ss_gone st))
  end.

Fixpoint streams_run (ops : list sop) (st : streams_st) : list sobs * streams_st :=
  match ops with
  | [] => ([], st)
  | o :: r => let (x, s1) := streams_step o st in let (xs, s2) := streams_run r s1 in (x :: xs, s2)
  end.

Definition stream_inner_obs (s : stream) : list (N * (N * N)) :=
  map (fun p => (fst p, src_obs (snd p)))
      (st_fin s ++ match st_buf s with Some p => [p] | None => [] end
                ++ flat_map (fun m => match m with MIter i b => [(i, b)] | _ => [] end) (st_msgs s)).
Definition streams_obs (st : streams_st) : list (N * (N * N)) :=
  flat_map stream_inner_obs (ss_active st ++ ss_gone st).

(* ---- FanInIteratorChannels, as a scheduler-driven interleaving ---- *)

(* one scheduling decision: take the next message of channel i (ignored when that channel is
   empty); when the schedule ends, the remaining messages are flushed channel by channel *)
Fixpoint take_nth {A} (i : nat) (chans : list (list A)) : option (A * list (list A)) :=
  match chans, i with
  | [], _ => None
  | c :: r, O => match c with [] => None | a :: c1 => Some (a, c1 :: r) end
  | c :: r, S k => match take_nth k r with Some (a, r1) => Some (a, c :: r1) | None => None end
  end.
Fixpoint fan_in_sched {A} (chans : list (list A)) (sched : list nat) : list A :=
  match sched with
  | [] => concat chans
  | i :: r =>
    match take_nth i chans with
    | Some (a, chans1) => a :: fan_in_sched chans1 r
    | None => fan_in_sched chans r
    end
  end.

(* checker used on the implementation's output (messages are tagged: channel, position) *)
Fixpoint take_first (eqb : N * N -> N * N -> bool) (a : N * N) (chans : list (list (N * N)))
  : option (list (list (N * N))) :=
  match chans with
  | [] => None
  | c :: r =>
    match c with
    | b :: c1 => if eqb a b then Some (c1 :: r)
                 else match take_first eqb a r with Some r1 => Some (c :: r1) | None => None end
    | [] => match take_first eqb a r with Some r1 => Some (c :: r1) | None => None end
    end
  end.
Definition pair_eqb (a b : N * N) : bool := (fst a =? fst b) && (snd a =? snd b).
Fixpoint is_interleaving (chans : list (list (N * N))) (out : list (N * N)) : bool :=
  match out with
  | [] => forallb (fun c => match c with [] => true | _ => false end) chans
  | a :: r =>
    match take_first pair_eqb a chans with
    | Some chans1 => is_interleaving chans1 r
    | None => false
    end
  end.
