(* Proofs about Cache/IterAdapters.v (C23).  For every adapter: a complete characterisation of
   its Next-only behaviour on ALL scripts (items and errors) as a whole-list function, the
   specification it meets on error-free inputs, the position at which inner errors surface,
   Head/Next coherence, idempotence of Head and Stop. *)
From Coq Require Import List NArith Bool Arith Lia Permutation Sorted.
From OFGA Require Import Cache.IterAdapters.
Import ListNotations.
Open Scope N_scope.

(* ---------------------------------------------------------------------------------------- *)
(* "the iterator yields [out] and then ErrIteratorDone for ever" *)

Fixpoint pad (n : nat) (out : list res) : list res :=
  match n with
  | O => []
  | S k => match out with [] => RDone :: pad k [] | x :: r => x :: pad k r end
  end.

Definition drains_to {St} (nx : St -> res * St) (st : St) (out : list res) : Prop :=
  forall n, nexts nx n st = pad n out.

Lemma pad_nil_repeat : forall n, pad n [] = repeat RDone n.
Proof. induction n as [|n IH]; simpl; [reflexivity | now rewrite IH]. Qed.

Lemma drains_step : forall St (nx : St -> res * St) st x st1 out,
  nx st = (x, st1) -> drains_to nx st1 out -> drains_to nx st (x :: out).
Proof.
  intros St nx st x st1 out Hs Hd n. destruct n as [|n]; simpl; [reflexivity|].
  rewrite Hs. now rewrite Hd.
Qed.

Lemma drains_done : forall St (nx : St -> res * St) st,
  nx st = (RDone, st) -> drains_to nx st [].
Proof.
  intros St nx st Hs n. induction n as [|n IH]; simpl; [reflexivity|]. rewrite Hs. now rewrite IH.
Qed.

Lemma drains_done_step : forall St (nx : St -> res * St) st st1,
  nx st = (RDone, st1) -> drains_to nx st1 [] -> drains_to nx st [].
Proof.
  intros St nx st st1 Hs Hd n. destruct n as [|n]; simpl; [reflexivity|]. rewrite Hs. now rewrite Hd.
Qed.

(* the complete prefix: a full drain needs at most length out + 1 calls to see the end *)
Lemma pad_app_exact : forall out, pad (length out) out = out.
Proof. induction out as [|x r IH]; simpl; [reflexivity | now rewrite IH]. Qed.

Definition is_item (e : ev) : bool := match e with Item _ => true | Err _ => false end.
Definition clean (l : list ev) : bool := forallb is_item l.
Fixpoint items (l : list ev) : list N :=
  match l with [] => [] | Item x :: r => x :: items r | Err _ :: r => items r end.
(* scripts in which no error event carries the class of ErrIteratorDone itself *)
Definition wf_ev (e : ev) : bool := match e with Item _ => true | Err c => negb (is_done c) end.
Definition wf (l : list ev) : bool := forallb wf_ev l.
Definition ev_res (e : ev) : res := match e with Item x => ROk x | Err c => RErr c end.

Lemma items_map_Item : forall xs, items (map Item xs) = xs.
Proof. induction xs as [|x r IH]; simpl; [reflexivity | now rewrite IH]. Qed.
Lemma clean_map_Item : forall xs, clean (map Item xs) = true.
Proof. induction xs as [|x r IH]; simpl; [reflexivity | exact IH]. Qed.
Lemma clean_is_map : forall l, clean l = true -> l = map Item (items l).
Proof.
  induction l as [|e r IH]; simpl; intro H; [reflexivity|].
  destruct e as [x|c]; simpl in H; [|discriminate]. simpl. now rewrite <- IH.
Qed.
Lemma clean_wf : forall l, clean l = true -> wf l = true.
Proof.
  induction l as [|e r IH]; simpl; intro H; [reflexivity|].
  destruct e; simpl in *; [auto | discriminate].
Qed.

(* ---------------------------------------------------------------------------------------- *)
(* the scripted inner iterator *)

Definition open_src (l : list ev) (k : N) : src := mkSrc l false k.

Lemma src_head_next : forall s, src_head s = fst (src_next s).
Proof.
  intro s. unfold src_head, src_next. destruct (live s) as [|[x|e] r]; reflexivity.
Qed.

Lemma live_stop : forall s, live (src_stop s) = [].
Proof. reflexivity. Qed.
Lemma put_stop : forall s l, put (src_stop s) l = src_stop s.
Proof. reflexivity. Qed.
Lemma src_next_stopped : forall s, src_next (src_stop s) = (RDone, src_stop s).
Proof. reflexivity. Qed.
Lemma src_head_stopped : forall s, src_head (src_stop s) = RDone.
Proof. reflexivity. Qed.

(* Stop is idempotent up to the counter of Stop calls *)
Lemma src_stop_stop : forall s,
  evs (src_stop (src_stop s)) = evs (src_stop s) /\ sstopped (src_stop (src_stop s)) = sstopped (src_stop s).
Proof. intro s. split; reflexivity. Qed.

(* ---------------------------------------------------------------------------------------- *)
(* StaticIterator *)

Lemma static_drains : forall l, drains_to (static_next false) l (map ROk l).
Proof.
  induction l as [|x r IH].
  - apply drains_done. reflexivity.
  - simpl. eapply drains_step; [reflexivity | exact IH].
Qed.

Lemma static_head_next : forall l, fst (static_head false l) = fst (static_next false l).
Proof. destruct l; reflexivity. Qed.
Lemma static_head_idem : forall l, static_head false (snd (static_head false l)) = static_head false l.
Proof. destruct l; reflexivity. Qed.
Lemma static_stopped : forall l, drains_to (static_next false) (static_stop l) [].
Proof. intro l. apply drains_done. reflexivity. Qed.
Lemma static_cancelled : forall l, static_next true l = (RErr ECancel, l) /\ static_head true l = (RErr ECancel, l).
Proof. intro l. split; reflexivity. Qed.

(* ---------------------------------------------------------------------------------------- *)
(* Concat *)

Fixpoint upto_err (l : list ev) : list res :=
  match l with
  | [] => []
  | Item x :: r => ROk x :: upto_err r
  | Err e :: _ => [RErr e]
  end.
(* an error at the very first position of the second iterator does not end the iteration *)
Definition concat_out2 (b : list ev) : list res :=
  match b with
  | Err e :: r => RErr e :: upto_err r
  | _ => upto_err b
  end.
Fixpoint concat_out (a b : list ev) : list res :=
  match a with
  | [] => concat_out2 b
  | Item x :: r => ROk x :: concat_out r b
  | Err e :: _ => [RErr e]
  end.

Lemma concat_done_drains : forall st, c_done st = true -> drains_to concat_next st [].
Proof. intros st H. apply drains_done. unfold concat_next. now rewrite H. Qed.

Lemma concat_second_drains : forall b k once old,
  wf b = true ->
  drains_to concat_next (mkConcat (open_src b k) None false once old) (upto_err b).
Proof.
  induction b as [|e r IH]; intros k once old Hwf.
  - eapply drains_done_step; [reflexivity|]. apply concat_done_drains. reflexivity.
  - simpl in Hwf. apply andb_true_iff in Hwf. destruct Hwf as [He Hr]. destruct e as [x|c].
    + simpl. eapply drains_step; [reflexivity|]. apply IH. exact Hr.
    + simpl. simpl in He. eapply drains_step.
      * unfold concat_next. simpl. rewrite (negb_true_iff _) in He. rewrite He. reflexivity.
      * apply concat_done_drains. reflexivity.
Qed.

Theorem concat_drains : forall a b,
  wf a = true -> wf b = true ->
  drains_to concat_next (concat_init a b) (concat_out a b).
Proof.
  intros a b Ha Hb. unfold concat_init.
  assert (G : forall a k once old, wf a = true ->
            drains_to concat_next (mkConcat (open_src a k) (Some (src_of b)) false once old) (concat_out a b)).
  { clear a Ha. induction a as [|e r IH]; intros k once old Ha.
    - simpl. destruct b as [|eb rb].
      + simpl. eapply drains_done_step; [reflexivity|].
        eapply drains_done_step; [reflexivity|]. apply concat_done_drains. reflexivity.
      + simpl in Hb. apply andb_true_iff in Hb. destruct Hb as [Heb Hrb]. destruct eb as [x|c].
        * simpl. eapply drains_step; [reflexivity|]. apply (concat_second_drains rb). exact Hrb.
        * simpl. eapply drains_step; [reflexivity|]. apply (concat_second_drains rb). exact Hrb.
    - simpl in Ha. apply andb_true_iff in Ha. destruct Ha as [He Hr]. destruct e as [x|c].
      + simpl. eapply drains_step; [reflexivity|]. apply IH. exact Hr.
      + simpl. simpl in He. eapply drains_step.
        * unfold concat_next. simpl. rewrite (negb_true_iff _) in He. rewrite He. reflexivity.
        * apply concat_done_drains. reflexivity. }
  apply (G a 0 false None Ha).
Qed.

Lemma upto_err_clean : forall l, clean l = true -> upto_err l = map ROk (items l).
Proof.
  induction l as [|e r IH]; simpl; intro H; [reflexivity|].
  destruct e; simpl in H; [|discriminate]. simpl. now rewrite IH.
Qed.

Lemma concat_out_clean : forall a b, clean a = true -> clean b = true ->
  concat_out a b = map ROk (items a ++ items b).
Proof.
  induction a as [|e r IH]; intros b Ha Hb.
  - simpl. destruct b as [|[x|c] rb]; simpl in *; try reflexivity; try discriminate.
    now rewrite upto_err_clean.
  - destruct e; simpl in Ha; [|discriminate]. simpl. now rewrite IH.
Qed.

(* concat_spec: error-free iterators are concatenated *)
Theorem concat_spec : forall xs ys,
  drains_to concat_next (concat_init (map Item xs) (map Item ys)) (map ROk (xs ++ ys)).
Proof.
  intros xs ys.
  pose proof (concat_drains (map Item xs) (map Item ys)
                (clean_wf _ (clean_map_Item xs)) (clean_wf _ (clean_map_Item ys))) as H.
  rewrite concat_out_clean in H by apply clean_map_Item.
  now rewrite !items_map_Item in H.
Qed.

(* an error of the first iterator surfaces after exactly the items before it and ends the iteration *)
Theorem concat_error_position_first : forall xs e r b,
  concat_out (map Item xs ++ Err e :: r) b = map ROk xs ++ [RErr e].
Proof. induction xs as [|x t IH]; intros; simpl; [reflexivity | now rewrite IH]. Qed.
Theorem concat_error_position_second : forall xs ys e r, ys <> [] ->
  concat_out (map Item xs) (map Item ys ++ Err e :: r) = map ROk xs ++ map ROk ys ++ [RErr e].
Proof.
  induction xs as [|x t IH]; intros ys e r Hy; simpl.
  - destruct ys as [|y ys']; [contradiction|]. simpl. f_equal.
    clear. induction ys' as [|z t IH]; simpl; [reflexivity | now rewrite IH].
  - now rewrite IH.
Qed.

Lemma concat_head_unsupported : forall st, concat_head st = (RErr EHeadUnsupported, st).
Proof. reflexivity. Qed.
Lemma concat_stop_idem : forall st, concat_stop (concat_stop st) = concat_stop st.
Proof. intro st. unfold concat_stop. destruct (c_once st) eqn:E; simpl; [now rewrite E | reflexivity]. Qed.

(* after Stop, Next answers ErrIteratorDone: for every state in which "stopped once" implies "done" *)
Definition concat_ok (st : concat_st) : Prop := c_once st = true -> c_done st = true.
Lemma concat_ok_init : forall a b, concat_ok (concat_init a b).
Proof. intros a b H. discriminate. Qed.
Lemma concat_ok_step : forall o st, concat_ok st -> concat_ok (snd (step1 concat_next concat_head concat_stop o st)).
Proof.
  intros o st Hok. destruct o; simpl.
  - unfold concat_next. destruct (c_done st) eqn:Ed; [exact Hok|].
    assert (Hn : c_once st = false).
    { unfold concat_ok in Hok. destruct (c_once st); [specialize (Hok eq_refl); congruence | reflexivity]. }
    destruct (src_next (c_cur st)) as [[v [e|]] cur1]; simpl.
    + destruct (is_done e); [destruct (c_nxt st) as [nx|]; [destruct (src_next nx)|]|];
        intro H; simpl in *; congruence.
    + intro H; simpl in *; congruence.
  - exact Hok.
  - unfold concat_stop. destruct (c_once st) eqn:E; [exact Hok | intro; reflexivity].
Qed.
Lemma concat_ok_run : forall ops st, concat_ok st ->
  concat_ok (snd (run concat_next concat_head concat_stop ops st)).
Proof.
  induction ops as [|o r IH]; intros st Hok; simpl; [exact Hok|].
  pose proof (concat_ok_step o st Hok) as H1.
  destruct (step1 concat_next concat_head concat_stop o st) as [x s1]. simpl in H1.
  specialize (IH s1 H1). destruct (run concat_next concat_head concat_stop r s1). exact IH.
Qed.
Theorem concat_stop_then_done : forall a b ops,
  drains_to concat_next (concat_stop (snd (run concat_next concat_head concat_stop ops (concat_init a b)))) [].
Proof.
  intros a b ops. pose proof (concat_ok_run ops _ (concat_ok_init a b)) as Hok.
  set (st := snd (run concat_next concat_head concat_stop ops (concat_init a b))) in *.
  apply concat_done_drains. unfold concat_stop. destruct (c_once st) eqn:E; [apply Hok; exact E | reflexivity].
Qed.

(* ---------------------------------------------------------------------------------------- *)
(* Merge *)

(* the list algorithm: smaller head first, equal heads are emitted once and both advance *)
Fixpoint merge_lists (a : list N) : list N -> list N :=
  fix aux (b : list N) : list N :=
    match a, b with
    | [], _ => b
    | _, [] => a
    | x :: a', y :: b' =>
      match x ?= y with
      | Lt => x :: merge_lists a' b
      | Gt => y :: aux b'
      | Eq => x :: merge_lists a' b'
      end
    end.

Lemma merge_lists_nil_r : forall a, merge_lists a [] = a.
Proof. destruct a; reflexivity. Qed.
Lemma merge_lists_nil_l : forall b, merge_lists [] b = b.
Proof. destruct b; reflexivity. Qed.
Lemma merge_lists_cons : forall x a y b,
  merge_lists (x :: a) (y :: b) =
  match x ?= y with
  | Lt => x :: merge_lists a (y :: b)
  | Gt => y :: merge_lists (x :: a) b
  | Eq => x :: merge_lists a b
  end.
Proof. reflexivity. Qed.

Lemma drains_same_step : forall St (nx : St -> res * St) st0 st1 out,
  nx st0 = nx st1 -> drains_to nx st1 out -> drains_to nx st0 out.
Proof.
  intros St nx st0 st1 out H Hd n. specialize (Hd n). destruct n as [|n]; simpl in *; [exact Hd|].
  rewrite H. exact Hd.
Qed.

(* an initialised merge state over error-free remainders: the pending lists are
   (current value :: rest of the iterator) on each side *)
Definition side (h : bool) (c : option N) (l : list N) (A : list N) : Prop :=
  (h = true /\ exists x, c = Some x /\ A = x :: l) \/ (h = false /\ l = [] /\ A = []).

Ltac side_has := left; split; [reflexivity|]; eexists; split; reflexivity.
Ltac side_none := right; repeat split; reflexivity.

Lemma merge_state_drains : forall m A B,
  (length A + length B <= m)%nat ->
  forall l1 l2 k1 k2 c1 c2 h1 h2,
  side h1 c1 l1 A -> side h2 c2 l2 B ->
  drains_to merge_next
    (mkMerge (open_src (map Item l1) k1) (open_src (map Item l2) k2) c1 c2 h1 h2 true)
    (map ROk (merge_lists A B)).
Proof.
  induction m as [|m IH]; intros A B Hm l1 l2 k1 k2 c1 c2 h1 h2 S1 S2.
  - destruct A; destruct B; simpl in Hm; try lia.
    destruct S1 as [[_ [x [_ Hx]]]|[Hh1 [Hl1 _]]]; [discriminate|].
    destruct S2 as [[_ [y [_ Hy]]]|[Hh2 [Hl2 _]]]; [discriminate|].
    subst. apply drains_done. reflexivity.
  - destruct S1 as [[Hh1 [x [Hc1 HA]]]|[Hh1 [Hl1 HA]]];
    destruct S2 as [[Hh2 [y [Hc2 HB]]]|[Hh2 [Hl2 HB]]]; subst.
    + (* both sides have a value *)
      rewrite merge_lists_cons. destruct (x ?= y) eqn:E.
      * (* equal: both advance *)
        destruct l1 as [|x1 l1']; destruct l2 as [|y1 l2']; simpl;
          (eapply drains_step; [unfold merge_next; simpl; rewrite E; reflexivity|]).
        -- apply (IH [] [] ltac:(simpl in *; lia) [] []); [side_none | side_none].
        -- apply (IH [] (y1 :: l2') ltac:(simpl in *; lia) [] l2'); [side_none | side_has].
        -- apply (IH (x1 :: l1') [] ltac:(simpl in *; lia) l1' []); [side_has | side_none].
        -- apply (IH (x1 :: l1') (y1 :: l2') ltac:(simpl in *; lia) l1' l2'); [side_has | side_has].
      * destruct l1 as [|x1 l1']; simpl;
          (eapply drains_step; [unfold merge_next; simpl; rewrite E; reflexivity|]).
        -- apply (IH [] (y :: l2) ltac:(simpl in *; lia) [] l2); [side_none | side_has].
        -- apply (IH (x1 :: l1') (y :: l2) ltac:(simpl in *; lia) l1' l2); [side_has | side_has].
      * destruct l2 as [|y1 l2']; simpl;
          (eapply drains_step; [unfold merge_next; simpl; rewrite E; reflexivity|]).
        -- apply (IH (x :: l1) [] ltac:(simpl in *; lia) l1 []); [side_has | side_none].
        -- apply (IH (x :: l1) (y1 :: l2') ltac:(simpl in *; lia) l1 l2'); [side_has | side_has].
    + (* only side 1 *)
      rewrite merge_lists_nil_r.
      destruct l1 as [|x1 l1']; simpl; (eapply drains_step; [reflexivity|]).
      * apply (IH [] [] ltac:(simpl in *; lia) [] []); [side_none | side_none].
      * replace (ROk x1 :: map ROk l1') with (map ROk (merge_lists (x1 :: l1') [])) by reflexivity.
        apply (IH (x1 :: l1') [] ltac:(simpl in *; lia) l1' []); [side_has | side_none].
    + (* only side 2 *)
      rewrite merge_lists_nil_l.
      destruct l2 as [|y1 l2']; simpl; (eapply drains_step; [reflexivity|]).
      * apply (IH [] [] ltac:(simpl in *; lia) [] []); [side_none | side_none].
      * replace (ROk y1 :: map ROk l2') with (map ROk (merge_lists [] (y1 :: l2'))) by reflexivity.
        apply (IH [] (y1 :: l2') ltac:(simpl in *; lia) [] l2'); [side_none | side_has].
    + apply drains_done. reflexivity.
Qed.

(* merge_spec: on error-free inputs the merged iterator yields merge_lists *)
Theorem merge_clean_spec : forall la lb,
  drains_to merge_next (merge_init (map Item la) (map Item lb)) (map ROk (merge_lists la lb)).
Proof.
  intros la lb.
  set (h1 := match la with [] => false | _ => true end).
  set (h2 := match lb with [] => false | _ => true end).
  set (st1 := mkMerge (open_src (map Item (tl la)) 0) (open_src (map Item (tl lb)) 0)
                      (hd_error la) (hd_error lb) h1 h2 true).
  apply (drains_same_step _ merge_next _ st1).
  - unfold merge_next at 1. destruct la as [|x la']; destruct lb as [|y lb']; reflexivity.
  - apply (merge_state_drains (length la + length lb) la lb (le_n _)).
    + destruct la as [|x la']; [right; repeat split; reflexivity
                               | left; split; [reflexivity|]; eexists; split; reflexivity].
    + destruct lb as [|y lb']; [right; repeat split; reflexivity
                               | left; split; [reflexivity|]; eexists; split; reflexivity].
Qed.

(* properties of the list algorithm *)

Definition sortedN (l : list N) : Prop := StronglySorted N.le l.

Lemma merge_lists_In : forall a b x, In x (merge_lists a b) -> In x a \/ In x b.
Proof.
  induction a as [|p a IHa]; intros b x H.
  - rewrite merge_lists_nil_l in H. now right.
  - induction b as [|q b IHb].
    + rewrite merge_lists_nil_r in H. now left.
    + rewrite merge_lists_cons in H. destruct (p ?= q) eqn:E; simpl in H; destruct H as [H|H].
      * left; left; exact H.
      * apply IHa in H. destruct H; [left; right; assumption | right; right; assumption].
      * left; left; exact H.
      * apply IHa in H. destruct H; [left; right; assumption | right; assumption].
      * right; left; exact H.
      * apply IHb in H. destruct H; [left; assumption | right; right; assumption].
Qed.

Theorem merge_lists_sorted : forall a b, sortedN a -> sortedN b -> sortedN (merge_lists a b).
Proof.
  induction a as [|p a IHa]; intros b Ha Hb.
  - now rewrite merge_lists_nil_l.
  - induction b as [|q b IHb].
    + now rewrite merge_lists_nil_r.
    + rewrite merge_lists_cons. inversion Ha as [|? ? Ha' Hpa]; subst. inversion Hb as [|? ? Hb' Hqb]; subst.
      destruct (p ?= q) eqn:E.
      * apply N.compare_eq in E. subst q. constructor; [apply IHa; assumption|].
        apply Forall_forall. intros z Hz. apply merge_lists_In in Hz. rewrite Forall_forall in Hpa, Hqb.
        destruct Hz; auto.
      * rewrite N.compare_lt_iff in E. constructor; [apply IHa; assumption|].
        apply Forall_forall. intros z Hz. apply merge_lists_In in Hz. rewrite Forall_forall in Hpa, Hqb.
        destruct Hz as [Hz|[Hz|Hz]]; [auto | subst; lia | specialize (Hqb z Hz); lia].
      * rewrite N.compare_gt_iff in E. constructor; [apply IHb; assumption|].
        apply Forall_forall. intros z Hz. apply merge_lists_In in Hz. rewrite Forall_forall in Hpa, Hqb.
        destruct Hz as [[Hz|Hz]|Hz]; [subst; lia | specialize (Hpa z Hz); lia | auto].
Qed.

Lemma count_sorted_lt : forall x y l, sortedN (y :: l) -> x < y -> count_occ N.eq_dec (y :: l) x = 0%nat.
Proof.
  intros x y l Hs Hlt. inversion Hs as [|? ? _ Hall]; subst. rewrite Forall_forall in Hall.
  apply count_occ_not_In. intros [H|H]; [lia | specialize (Hall x H); lia].
Qed.

(* every value occurs max(multiplicity in a, multiplicity in b) times *)
Theorem merge_lists_count : forall a b x, sortedN a -> sortedN b ->
  count_occ N.eq_dec (merge_lists a b) x = Nat.max (count_occ N.eq_dec a x) (count_occ N.eq_dec b x).
Proof.
  induction a as [|p a IHa]; intros b x Ha Hb.
  - rewrite merge_lists_nil_l. reflexivity.
  - induction b as [|q b IHb].
    + rewrite merge_lists_nil_r. now rewrite Nat.max_0_r.
    + rewrite merge_lists_cons.
      pose proof Ha as Ha0. pose proof Hb as Hb0.
      inversion Ha as [|? ? Ha' Hpa]; subst. inversion Hb as [|? ? Hb' Hqb]; subst.
      destruct (p ?= q) eqn:E.
      * apply N.compare_eq in E. subst q.
        destruct (N.eq_dec p x) as [Hpx|Hpx].
        -- subst x. rewrite !(count_occ_cons_eq N.eq_dec _ (eq_refl p)).
           rewrite (IHa b p Ha' Hb'). now rewrite Nat.succ_max_distr.
        -- rewrite !(count_occ_cons_neq N.eq_dec _ Hpx). apply IHa; assumption.
      * rewrite N.compare_lt_iff in E.
        destruct (N.eq_dec p x) as [Hpx|Hpx].
        -- subst x. rewrite !(count_occ_cons_eq N.eq_dec _ (eq_refl p)).
           rewrite (IHa (q :: b) p Ha' Hb0). rewrite (count_sorted_lt p q b Hb0 E).
           now rewrite !Nat.max_0_r.
        -- rewrite !(count_occ_cons_neq N.eq_dec _ Hpx). apply IHa; assumption.
      * rewrite N.compare_gt_iff in E.
        destruct (N.eq_dec q x) as [Hqx|Hqx].
        -- subst x. rewrite !(count_occ_cons_eq N.eq_dec _ (eq_refl q)).
           rewrite (IHb Hb'). rewrite (count_sorted_lt q p a Ha0 E). reflexivity.
        -- rewrite !(count_occ_cons_neq N.eq_dec _ Hqx). apply IHb; assumption.
Qed.

(* merge_sorted_perm: inputs without a common value are only rearranged *)
Theorem merge_lists_perm : forall a b, (forall x, In x a -> ~ In x b) -> Permutation (merge_lists a b) (a ++ b).
Proof.
  induction a as [|p a IHa]; intros b Hd.
  - rewrite merge_lists_nil_l. apply Permutation_refl.
  - induction b as [|q b IHb].
    + rewrite merge_lists_nil_r, app_nil_r. apply Permutation_refl.
    + rewrite merge_lists_cons. destruct (p ?= q) eqn:E.
      * apply N.compare_eq in E. subst q. exfalso. apply (Hd p); now left.
      * simpl. apply perm_skip. apply IHa. intros x Hx. apply Hd. now right.
      * apply Permutation_cons_app. apply IHb.
        intros x Hx Hb. apply (Hd x Hx). now right.
Qed.

Theorem merge_sorted_perm : forall la lb,
  sortedN la -> sortedN lb -> (forall x, In x la -> ~ In x lb) ->
  exists out, drains_to merge_next (merge_init (map Item la) (map Item lb)) (map ROk out)
              /\ sortedN out /\ Permutation out (la ++ lb).
Proof.
  intros la lb Ha Hb Hd. exists (merge_lists la lb). split; [apply merge_clean_spec|].
  split; [now apply merge_lists_sorted | now apply merge_lists_perm].
Qed.

Theorem merge_sorted_spec : forall la lb, sortedN la -> sortedN lb ->
  exists out, drains_to merge_next (merge_init (map Item la) (map Item lb)) (map ROk out)
              /\ sortedN out
              /\ forall x, count_occ N.eq_dec out x = Nat.max (count_occ N.eq_dec la x) (count_occ N.eq_dec lb x).
Proof.
  intros la lb Ha Hb. exists (merge_lists la lb). split; [apply merge_clean_spec|].
  split; [now apply merge_lists_sorted | intro x; now apply merge_lists_count].
Qed.

(* no scripted error is ever swallowed by Merge: every call reports exactly the (non-done)
   errors it consumed from its inputs *)
Definition res_err (r : res) : nat :=
  match r with R _ (Some e) => if is_done e then O else 1%nat | _ => O end.
Fixpoint nerr (l : list ev) : nat :=
  match l with
  | [] => O
  | Item _ :: r => nerr r
  | Err c :: r => ((if is_done c then O else 1) + nerr r)%nat
  end.

Lemma src_next_errs : forall s,
  nerr (live s) = (nerr (live (snd (src_next s))) + res_err (fst (src_next s)))%nat.
Proof.
  intro s. unfold src_next, live, put. destruct (sstopped s) eqn:Es; simpl.
  - rewrite Es. reflexivity.
  - destruct (evs s) as [|[x|c] r]; simpl; try lia.
Qed.

Definition merge_errs (st : merge_st) : nat := (nerr (live (m_1 st)) + nerr (live (m_2 st)))%nat.

Lemma merge_initialize_errs : forall st,
  merge_errs st = (merge_errs (snd (merge_initialize st))
                   + match fst (merge_initialize st) with Some e => res_err (RErr e) | None => O end)%nat.
Proof.
  intro st. unfold merge_initialize, merge_errs. destruct (m_init st); [simpl; lia|].
  pose proof (src_next_errs (m_1 st)) as H1. destruct (src_next (m_1 st)) as [[v1 e1] s1]. simpl in H1.
  pose proof (src_next_errs (m_2 st)) as H2.
  destruct e1 as [e|]; [destruct (is_done e) eqn:Ed|]; simpl; try (rewrite Ed in *; simpl; lia).
  - destruct (src_next (m_2 st)) as [[v2 e2] s2]. simpl in H2.
    destruct e2 as [e'|]; [destruct (is_done e') eqn:Ed'|]; simpl; try rewrite Ed' in *; simpl; lia.
  - destruct (src_next (m_2 st)) as [[v2 e2] s2]. simpl in H2.
    destruct e2 as [e'|]; [destruct (is_done e') eqn:Ed'|]; simpl; try rewrite Ed' in *; simpl; lia.
Qed.

Lemma merge_from1_errs : forall st,
  merge_errs st = (merge_errs (snd (merge_from1 st)) + res_err (fst (merge_from1 st)))%nat.
Proof.
  intro st. unfold merge_from1, merge_errs.
  pose proof (src_next_errs (m_1 st)) as H1. destruct (src_next (m_1 st)) as [[v1 e1] s1]. simpl in H1.
  destruct e1 as [e|]; [destruct (is_done e) eqn:Ed|]; simpl; try rewrite Ed in *; simpl; lia.
Qed.
Lemma merge_from2_errs : forall st,
  merge_errs st = (merge_errs (snd (merge_from2 st)) + res_err (fst (merge_from2 st)))%nat.
Proof.
  intro st. unfold merge_from2, merge_errs.
  pose proof (src_next_errs (m_2 st)) as H2. destruct (src_next (m_2 st)) as [[v2 e2] s2]. simpl in H2.
  destruct e2 as [e|]; [destruct (is_done e) eqn:Ed|]; simpl; try rewrite Ed in *; simpl; lia.
Qed.

Theorem merge_next_errs : forall st,
  merge_errs st = (merge_errs (snd (merge_next st)) + res_err (fst (merge_next st)))%nat.
Proof.
  intro st0. unfold merge_next.
  pose proof (merge_initialize_errs st0) as Hi. destruct (merge_initialize st0) as [ie st]. simpl in Hi.
  destruct ie as [e|]; [simpl in *; lia|]. rewrite Hi. rewrite Nat.add_0_r. clear Hi st0.
  destruct (negb (m_h1 st) && negb (m_h2 st)); [simpl; lia|].
  destruct (negb (m_h1 st)); [apply merge_from2_errs|].
  destruct (negb (m_h2 st)); [apply merge_from1_errs|].
  destruct (optN (m_c1 st) ?= optN (m_c2 st)); [|apply merge_from1_errs|apply merge_from2_errs].
  unfold merge_errs.
  pose proof (src_next_errs (m_1 st)) as H1. destruct (src_next (m_1 st)) as [[v1 e1] s1]. simpl in H1.
  pose proof (src_next_errs (m_2 st)) as H2.
  destruct e1 as [e|]; [destruct (is_done e) eqn:Ed|]; simpl; try (rewrite Ed in *; simpl; lia).
  - destruct (src_next (m_2 st)) as [[v2 e2] s2]. simpl in H2.
    destruct e2 as [e'|]; [destruct (is_done e') eqn:Ed'|]; simpl; try rewrite Ed' in *; simpl; lia.
  - destruct (src_next (m_2 st)) as [[v2 e2] s2]. simpl in H2.
    destruct e2 as [e'|]; [destruct (is_done e') eqn:Ed'|]; simpl; try rewrite Ed' in *; simpl; lia.
Qed.

(* over a whole sequence of calls: errors reported = errors consumed *)
Fixpoint final {St} (nx : St -> res * St) (n : nat) (st : St) : St :=
  match n with O => st | S k => final nx k (snd (nx st)) end.
Theorem merge_error_conservation : forall n st,
  merge_errs st = (merge_errs (final merge_next n st)
                   + fold_right (fun r acc => (res_err r + acc)%nat) O (nexts merge_next n st))%nat.
Proof.
  induction n as [|n IH]; intro st; simpl; [lia|].
  pose proof (merge_next_errs st) as H. destruct (merge_next st) as [r st1]. simpl in *.
  rewrite (IH st1) in H. lia.
Qed.

Lemma merge_head_unsupported : forall st, merge_head st = (RErr EHeadUnsupported, st).
Proof. reflexivity. Qed.

(* the documented contract "after Stop, Next returns ErrIteratorDone" does NOT hold for Merge:
   the prefetched values are still handed out (finding merge_yields_after_stop) *)
Definition merge_stop_then_done_statement : Prop :=
  forall a b ops,
    drains_to merge_next (merge_stop (snd (run merge_next merge_head merge_stop ops (merge_init a b)))) [].
Theorem merge_stop_then_done_refuted : ~ merge_stop_then_done_statement.
Proof.
  intro H. specialize (H [Item 1; Item 2] [Item 3] [ONext] 1%nat). vm_compute in H. discriminate.
Qed.
(* what does hold: once the prefetched values are out, it is done, and nothing is read from the inputs *)
Ltac mstop_step :=
  unfold merge_next, merge_initialize; simpl;
  repeat match goal with
         | H : m_init _ = _ |- _ => rewrite H
         | H : m_h1 _ = _ |- _ => rewrite H
         | H : m_h2 _ = _ |- _ => rewrite H
         | H : (optN _ ?= optN _) = _ |- _ => rewrite H
         end; simpl;
  repeat match goal with
         | H : m_h1 _ = _ |- _ => rewrite H
         | H : m_h2 _ = _ |- _ => rewrite H
         | H : (optN _ ?= optN _) = _ |- _ => rewrite H
         end; simpl;
  repeat match goal with
         | H : (optN _ ?= optN _) = _ |- _ => rewrite H
         end; reflexivity.
Theorem merge_stop_partial : forall st,
  m_init st = true ->
  exists out, drains_to merge_next (merge_stop st) out /\ (length out <= 2)%nat
              /\ live (m_1 (merge_stop st)) = [] /\ live (m_2 (merge_stop st)) = [].
Proof.
  intros st Hi. unfold merge_stop.
  destruct (m_h1 st) eqn:E1; destruct (m_h2 st) eqn:E2.
  - destruct (optN (m_c1 st) ?= optN (m_c2 st)) eqn:Ec.
    + exists [R (m_c1 st) None]. split; [|split; [simpl; lia | split; reflexivity]].
      eapply drains_step; [mstop_step|].
      apply drains_done. reflexivity.
    + exists [R (m_c1 st) None; R (m_c2 st) None]. split; [|split; [simpl; lia | split; reflexivity]].
      eapply drains_step; [mstop_step|].
      eapply drains_step; [reflexivity|]. apply drains_done. reflexivity.
    + exists [R (m_c2 st) None; R (m_c1 st) None]. split; [|split; [simpl; lia | split; reflexivity]].
      eapply drains_step; [mstop_step|].
      eapply drains_step; [reflexivity|]. apply drains_done. reflexivity.
  - exists [R (m_c1 st) None]. split; [|split; [simpl; lia | split; reflexivity]].
    eapply drains_step; [mstop_step|].
    apply drains_done. reflexivity.
  - exists [R (m_c2 st) None]. split; [|split; [simpl; lia | split; reflexivity]].
    eapply drains_step; [mstop_step|].
    apply drains_done. reflexivity.
  - exists []. split; [|split; [simpl; lia | split; reflexivity]].
    apply drains_done. mstop_step.
Qed.

(* ---------------------------------------------------------------------------------------- *)
(* filters with a deferred error: NewFilteredIterator / ConditionsFilteredTupleKeyIterator *)

Lemma live_put : forall s l, live (put s l) = if sstopped s then [] else l.
Proof. intros s l. unfold live, put. destruct (sstopped s) eqn:E; simpl; [now rewrite E | reflexivity]. Qed.
Lemma put_put : forall s l, put (put s l) l = put s l.
Proof. intros s l. unfold put. destruct (sstopped s) eqn:E; simpl; [now rewrite E | reflexivity]. Qed.
Lemma put_live : forall s, put s (live s) = s.
Proof. intro s. unfold put, live. destruct s as [l b k]. simpl. destruct b; reflexivity. Qed.

Section CondFilterProofs.
  Variable f : N -> verdict.

  Fixpoint cf_out (l : list ev) (le : option N) (ov : bool) : list res :=
    match l with
    | [] => match le with Some e => if ov then [] else [RErr e] | None => [] end
    | Err e :: r => RErr e :: cf_out r le ov
    | Item x :: r =>
      match f x with
      | VErr e => cf_out r (Some e) ov
      | VReject => cf_out r le ov
      | VPass => ROk x :: cf_out r le true
      end
    end.

  Theorem cf_drains : forall l le ov k once,
    drains_to (cf_next f) (mkCf (open_src l k) le ov once) (cf_out l le ov).
  Proof.
    induction l as [|e r IH]; intros le ov k once.
    - simpl. destruct le as [c|].
      + destruct ov.
        * apply drains_done. reflexivity.
        * eapply drains_step; [reflexivity|]. apply drains_done. reflexivity.
      + apply drains_done. reflexivity.
    - destruct e as [x|c].
      + simpl. destruct (f x) eqn:Ef.
        * eapply drains_step; [unfold cf_next; simpl; rewrite Ef; reflexivity|]. apply IH.
        * eapply drains_same_step; [|apply (IH le ov k once)]. unfold cf_next; simpl; rewrite Ef; reflexivity.
        * eapply drains_same_step; [|apply (IH (Some e) ov k once)]. unfold cf_next; simpl; rewrite Ef; reflexivity.
      + simpl. eapply drains_step; [reflexivity|]. apply IH.
  Qed.

  Definition passes (x : N) : bool := match f x with VPass => true | _ => false end.
  Definition last_err (xs : list N) (le : option N) : option N :=
    fold_left (fun acc x => match f x with VErr e => Some e | _ => acc end) xs le.

  Lemma last_err_cons : forall x r le,
    last_err (x :: r) le = last_err r (match f x with VErr e => Some e | _ => le end).
  Proof. reflexivity. Qed.

  Lemma cf_out_clean : forall xs le ov,
    cf_out (map Item xs) le ov =
    map ROk (filter passes xs)
    ++ (if ov || existsb passes xs then []
        else match last_err xs le with Some e => [RErr e] | None => [] end).
  Proof.
    induction xs as [|x r IH]; intros le ov.
    - simpl. rewrite orb_false_r. destruct le; destruct ov; reflexivity.
    - rewrite last_err_cons. cbn [map cf_out filter existsb].
      assert (Hp : passes x = match f x with VPass => true | _ => false end) by reflexivity.
      rewrite Hp. destruct (f x) eqn:Ef.
      + rewrite IH. simpl. now rewrite orb_true_r.
      + rewrite IH. reflexivity.
      + rewrite IH. reflexivity.
  Qed.

  (* cond_filter_spec: the CODED behaviour on an error-free inner iterator.
     The items that pass are yielded in order.  Condition-evaluation errors are swallowed:
     ALL of them when at least one item passes (or passed before: onceValid); all but the LAST
     one otherwise, which is reported once, after the last item, instead of ErrIteratorDone. *)
  Theorem cond_filter_spec : forall xs k once,
    drains_to (cf_next f) (mkCf (open_src (map Item xs) k) None false once)
      (map ROk (filter passes xs)
       ++ (if existsb passes xs then []
           else match last_err xs None with Some e => [RErr e] | None => [] end)).
  Proof.
    intros xs k once. pose proof (cf_out_clean xs None false) as H. simpl in H. rewrite <- H.
    apply cf_drains.
  Qed.

  Corollary cond_filter_swallows_all : forall xs, existsb passes xs = true ->
    cf_out (map Item xs) None false = map ROk (filter passes xs).
  Proof. intros xs H. rewrite cf_out_clean, H. simpl. now rewrite app_nil_r. Qed.
  Corollary cond_filter_reports_last : forall xs, existsb passes xs = false ->
    cf_out (map Item xs) None false = match last_err xs None with Some e => [RErr e] | None => [] end.
  Proof.
    intros xs H. rewrite cf_out_clean, H. simpl.
    assert (Hf : filter passes xs = []).
    { clear -H. induction xs as [|x r IH]; simpl in *; [reflexivity|].
      apply orb_false_iff in H. destruct H as [H1 H2]. rewrite H1. auto. }
    now rewrite Hf.
  Qed.

  (* an error of the inner iterator is never swallowed and surfaces at its position *)
  Theorem cf_error_position : forall xs e r le ov,
    cf_out (map Item xs ++ Err e :: r) le ov =
    map ROk (filter passes xs) ++ RErr e :: cf_out r (last_err xs le) (ov || existsb passes xs).
  Proof.
    induction xs as [|x t IH]; intros e r le ov.
    - simpl. now rewrite orb_false_r.
    - rewrite last_err_cons. cbn [map app cf_out filter existsb].
      assert (Hp : passes x = match f x with VPass => true | _ => false end) by reflexivity.
      rewrite Hp. destruct (f x) eqn:Ef.
      + rewrite IH. simpl. now rewrite orb_true_r.
      + rewrite IH. reflexivity.
      + rewrite IH. reflexivity.
  Qed.

  Lemma cf_head_loop_props : forall l le ov,
    let '(r, l1, le1, ov1) := cf_head_loop f l le ov in
    cf_head_loop f l1 le1 ov1 = (r, l1, le1, ov1)
    /\ fst (fst (fst (cf_next_loop f l1 le1 ov1))) = r
    /\ (l = [] -> l1 = []).
  Proof.
    induction l as [|e t IH]; intros le ov; simpl.
    - destruct le as [c|]; [destruct ov|]; simpl; auto.
    - destruct e as [x|c]; simpl.
      + destruct (f x) eqn:Ef.
        * simpl. rewrite Ef. repeat split; auto; try (intro Hnil; discriminate Hnil).
        * specialize (IH le ov). destruct (cf_head_loop f t le ov) as [[[r l1] le1] ov1].
          destruct IH as [H1 [H2 _]]. repeat split; auto; try (intro Hnil; discriminate Hnil).
        * specialize (IH (Some e) ov). destruct (cf_head_loop f t (Some e) ov) as [[[r l1] le1] ov1].
          destruct IH as [H1 [H2 _]]. repeat split; auto; try (intro Hnil; discriminate Hnil).
      + repeat split; auto; try (intro Hnil; discriminate Hnil).
  Qed.

  Lemma cf_head_live : forall st,
    live (cf_src (snd (cf_head f st))) =
    snd (fst (fst (cf_head_loop f (live (cf_src st)) (cf_last st) (cf_valid st)))).
  Proof.
    intro st. unfold cf_head.
    pose proof (cf_head_loop_props (live (cf_src st)) (cf_last st) (cf_valid st)) as P.
    destruct (cf_head_loop f (live (cf_src st)) (cf_last st) (cf_valid st)) as [[[r l1] le1] ov1].
    destruct P as [_ [_ P3]]. simpl. rewrite live_put. unfold live in *.
    destruct (sstopped (cf_src st)); [symmetry; now apply P3 | reflexivity].
  Qed.

  (* Head is idempotent, and the following Next returns what Head showed *)
  Theorem cf_head_idem : forall st, cf_head f (snd (cf_head f st)) = cf_head f st.
  Proof.
    intro st. pose proof (cf_head_live st) as HL. unfold cf_head at 1. rewrite HL. unfold cf_head.
    pose proof (cf_head_loop_props (live (cf_src st)) (cf_last st) (cf_valid st)) as P.
    destruct (cf_head_loop f (live (cf_src st)) (cf_last st) (cf_valid st)) as [[[r l1] le1] ov1].
    destruct P as [P1 _]. simpl. rewrite P1. now rewrite put_put.
  Qed.
  Theorem cf_head_next_coherent : forall st, fst (cf_next f (snd (cf_head f st))) = fst (cf_head f st).
  Proof.
    intro st. pose proof (cf_head_live st) as HL. unfold cf_next. rewrite HL. unfold cf_head.
    pose proof (cf_head_loop_props (live (cf_src st)) (cf_last st) (cf_valid st)) as P.
    destruct (cf_head_loop f (live (cf_src st)) (cf_last st) (cf_valid st)) as [[[r l1] le1] ov1].
    destruct P as [_ [P2 _]]. simpl in *.
    destruct (cf_next_loop f l1 le1 ov1) as [[[r2 l2] le2] ov2]. simpl in *. exact P2.
  Qed.

  (* after Stop: the inner iterator is not read any more; the only thing Next can still
     return before ErrIteratorDone is the pending deferred error *)
  Theorem cf_stop_then : forall st, cf_once st = false ->
    drains_to (cf_next f) (cf_stop st)
      (match cf_last st with Some e => if cf_valid st then [] else [RErr e] | None => [] end).
  Proof.
    intros st Ho. unfold cf_stop. rewrite Ho.
    destruct (cf_last st) as [e|] eqn:El; [destruct (cf_valid st) eqn:Ev|].
    - apply drains_done. unfold cf_next. simpl. reflexivity.
    - eapply drains_step; [unfold cf_next; simpl; reflexivity|]. apply drains_done. reflexivity.
    - apply drains_done. unfold cf_next. simpl. reflexivity.
  Qed.
End CondFilterProofs.

Lemma gf_head_unsupported : forall st, gf_head st = (RErr EHeadUnsupported, st).
Proof. reflexivity. Qed.
Lemma cf_stop_idem : forall st, cf_stop (cf_stop st) = cf_stop st.
Proof. intro st. unfold cf_stop. destruct (cf_once st) eqn:E; simpl; [now rewrite E | reflexivity]. Qed.

(* several filters: the first one that does not pass decides *)
Lemma apply_filters_pass : forall fs x,
  apply_filters fs x = VPass <-> Forall (fun g => g x = VPass) fs.
Proof.
  induction fs as [|g r IH]; intro x; simpl.
  - split; [constructor | reflexivity].
  - destruct (g x) eqn:Eg.
    + rewrite IH. split; [intro H; constructor; assumption | intro H; inversion H; assumption].
    + split; [discriminate | intro H; inversion H; congruence].
    + split; [discriminate | intro H; inversion H; congruence].
Qed.

(* ---------------------------------------------------------------------------------------- *)
(* filteredTupleKeyIterator *)

Section FilteredProofs.
  Variable p : N -> bool.

  Fixpoint flt_out (l : list ev) : list res :=
    match l with
    | [] => []
    | Err e :: r => RErr e :: flt_out r
    | Item x :: r => if p x then ROk x :: flt_out r else flt_out r
    end.

  Theorem flt_drains : forall l k once, drains_to (flt_next p) (mkOne (open_src l k) once) (flt_out l).
  Proof.
    induction l as [|e r IH]; intros k once.
    - apply drains_done. reflexivity.
    - destruct e as [x|c]; simpl.
      + destruct (p x) eqn:Ep.
        * eapply drains_step; [unfold flt_next; simpl; rewrite Ep; reflexivity|]. apply IH.
        * eapply drains_same_step; [|apply (IH k once)]. unfold flt_next; simpl; rewrite Ep; reflexivity.
      + eapply drains_step; [reflexivity|]. apply IH.
  Qed.

  Lemma flt_out_clean : forall xs, flt_out (map Item xs) = map ROk (filter p xs).
  Proof. induction xs as [|x r IH]; simpl; [reflexivity|]. destruct (p x); simpl; now rewrite IH. Qed.

  (* filter_spec *)
  Theorem filter_spec : forall xs k once,
    drains_to (flt_next p) (mkOne (open_src (map Item xs) k) once) (map ROk (filter p xs)).
  Proof. intros. rewrite <- flt_out_clean. apply flt_drains. Qed.

  Theorem flt_error_position : forall xs e r,
    flt_out (map Item xs ++ Err e :: r) = map ROk (filter p xs) ++ RErr e :: flt_out r.
  Proof. induction xs as [|x t IH]; intros; simpl; [reflexivity|]. destruct (p x); simpl; now rewrite IH. Qed.

  Lemma flt_head_loop_props : forall l,
    let '(r, l1) := flt_head_loop p l in
    flt_head_loop p l1 = (r, l1) /\ fst (flt_next_loop p l1) = r /\ (l = [] -> l1 = []).
  Proof.
    induction l as [|e t IH]; simpl.
    - auto.
    - destruct e as [x|c]; simpl.
      + destruct (p x) eqn:Ep.
        * simpl. rewrite Ep. repeat split; auto; try (intro Hnil; discriminate Hnil).
        * destruct (flt_head_loop p t) as [r l1]. destruct IH as [H1 [H2 _]].
          repeat split; auto; try (intro Hnil; discriminate Hnil).
      + repeat split; auto; try (intro Hnil; discriminate Hnil).
  Qed.

  Lemma flt_head_live : forall st,
    live (o_src (snd (flt_head p st))) = snd (flt_head_loop p (live (o_src st))).
  Proof.
    intro st. unfold flt_head. pose proof (flt_head_loop_props (live (o_src st))) as P.
    destruct (flt_head_loop p (live (o_src st))) as [r l1]. destruct P as [_ [_ P3]]. simpl.
    rewrite live_put. unfold live in *. destruct (sstopped (o_src st)); [symmetry; now apply P3 | reflexivity].
  Qed.
  Theorem flt_head_idem : forall st, flt_head p (snd (flt_head p st)) = flt_head p st.
  Proof.
    intro st. pose proof (flt_head_live st) as HL. unfold flt_head at 1. rewrite HL. unfold flt_head.
    pose proof (flt_head_loop_props (live (o_src st))) as P.
    destruct (flt_head_loop p (live (o_src st))) as [r l1]. destruct P as [P1 _]. simpl. rewrite P1.
    now rewrite put_put.
  Qed.
  Theorem flt_head_next_coherent : forall st, fst (flt_next p (snd (flt_head p st))) = fst (flt_head p st).
  Proof.
    intro st. pose proof (flt_head_live st) as HL. unfold flt_next. rewrite HL. unfold flt_head.
    pose proof (flt_head_loop_props (live (o_src st))) as P.
    destruct (flt_head_loop p (live (o_src st))) as [r l1]. destruct P as [_ [P2 _]]. simpl in *.
    destruct (flt_next_loop p l1) as [r2 l2]. simpl in *. exact P2.
  Qed.
End FilteredProofs.

(* ---------------------------------------------------------------------------------------- *)
(* Validate *)

Section ValidateProofs.
  Variable vf : option (N -> verdict).

  Fixpoint val_out (l : list ev) : list res :=
    match l with
    | [] => []
    | Err e :: r => RErr e :: val_out r
    | Item x :: r =>
      match vverdict vf x with
      | VPass => ROk x :: val_out r
      | VReject => val_out r
      | VErr e => RErr e :: val_out r
      end
    end.

  Theorem val_drains : forall l k once, drains_to (val_next vf) (mkOne (open_src l k) once) (val_out l).
  Proof.
    induction l as [|e r IH]; intros k once.
    - apply drains_done. reflexivity.
    - destruct e as [x|c]; simpl.
      + destruct (vverdict vf x) eqn:Ev.
        * eapply drains_step; [unfold val_next; simpl; rewrite Ev; reflexivity|]. apply IH.
        * eapply drains_same_step; [|apply (IH k once)]. unfold val_next; simpl; rewrite Ev; reflexivity.
        * eapply drains_step; [unfold val_next; simpl; rewrite Ev; reflexivity|]. apply IH.
      + eapply drains_step; [reflexivity|]. apply IH.
  Qed.

  (* validate_spec: valid items pass, invalid ones are skipped, a failing validation is reported
     at the position of its item and consumes it *)
  Definition val_item (x : N) : list res :=
    match vverdict vf x with VPass => [ROk x] | VReject => [] | VErr e => [RErr e] end.
  Lemma val_out_clean : forall xs, val_out (map Item xs) = flat_map val_item xs.
  Proof.
    induction xs as [|x r IH]; simpl; [reflexivity|]. unfold val_item at 1.
    destruct (vverdict vf x); simpl; now rewrite IH.
  Qed.
  Theorem validate_spec : forall xs k once,
    drains_to (val_next vf) (mkOne (open_src (map Item xs) k) once) (flat_map val_item xs).
  Proof. intros. rewrite <- val_out_clean. apply val_drains. Qed.

  Theorem val_error_position : forall xs e r,
    val_out (map Item xs ++ Err e :: r) = flat_map val_item xs ++ RErr e :: val_out r.
  Proof.
    induction xs as [|x t IH]; intros; simpl; [reflexivity|]. unfold val_item at 1.
    destruct (vverdict vf x); simpl; now rewrite IH.
  Qed.

  Lemma val_head_loop_props : forall l,
    let '(r, l1) := val_head_loop vf l in
    val_head_loop vf l1 = (r, l1) /\ fst (val_next_loop vf l1) = r /\ (l = [] -> l1 = []).
  Proof.
    induction l as [|e t IH]; simpl.
    - auto.
    - destruct e as [x|c]; simpl.
      + destruct (vverdict vf x) eqn:Ev.
        * simpl. rewrite Ev. repeat split; auto; try (intro Hnil; discriminate Hnil).
        * destruct (val_head_loop vf t) as [r l1]. destruct IH as [H1 [H2 _]].
          repeat split; auto; try (intro Hnil; discriminate Hnil).
        * simpl. rewrite Ev. repeat split; auto; try (intro Hnil; discriminate Hnil).
      + repeat split; auto; try (intro Hnil; discriminate Hnil).
  Qed.
  Lemma val_head_live : forall st,
    live (o_src (snd (val_head vf st))) = snd (val_head_loop vf (live (o_src st))).
  Proof.
    intro st. unfold val_head. pose proof (val_head_loop_props (live (o_src st))) as P.
    destruct (val_head_loop vf (live (o_src st))) as [r l1]. destruct P as [_ [_ P3]]. simpl.
    rewrite live_put. unfold live in *. destruct (sstopped (o_src st)); [symmetry; now apply P3 | reflexivity].
  Qed.
  Theorem val_head_idem : forall st, val_head vf (snd (val_head vf st)) = val_head vf st.
  Proof.
    intro st. pose proof (val_head_live st) as HL. unfold val_head at 1. rewrite HL. unfold val_head.
    pose proof (val_head_loop_props (live (o_src st))) as P.
    destruct (val_head_loop vf (live (o_src st))) as [r l1]. destruct P as [P1 _]. simpl. rewrite P1.
    now rewrite put_put.
  Qed.
  Theorem val_head_next_coherent : forall st, fst (val_next vf (snd (val_head vf st))) = fst (val_head vf st).
  Proof.
    intro st. pose proof (val_head_live st) as HL. unfold val_next. rewrite HL. unfold val_head.
    pose proof (val_head_loop_props (live (o_src st))) as P.
    destruct (val_head_loop vf (live (o_src st))) as [r l1]. destruct P as [_ [P2 _]]. simpl in *.
    destruct (val_next_loop vf l1) as [r2 l2]. simpl in *. exact P2.
  Qed.
End ValidateProofs.

(* one-inner adapters after Stop: the inner iterator shows no events any more *)
Lemma one_stop_once_idem : forall st, one_stop_once (one_stop_once st) = one_stop_once st.
Proof. intro st. unfold one_stop_once. destruct (o_once st) eqn:E; simpl; [now rewrite E | reflexivity]. Qed.
Theorem flt_stop_then_done : forall p st, o_once st = false -> drains_to (flt_next p) (one_stop_once st) [].
Proof. intros p st H. unfold one_stop_once. rewrite H. apply drains_done. reflexivity. Qed.
Theorem val_stop_then_done : forall vf st, drains_to (val_next vf) (one_stop_always st) [].
Proof. intros vf st. apply drains_done. reflexivity. Qed.

(* ---------------------------------------------------------------------------------------- *)
(* tupleKeyIterator and the mappers *)

Section MappedProofs.
  Variable g : N -> res.
  Definition map_ev (e : ev) : res := match e with Item x => g x | Err c => RErr c end.

  Theorem map_drains : forall l k once, wf l = true ->
    drains_to (map_next g) (mkOne (open_src l k) once) (map map_ev l).
  Proof.
    induction l as [|e r IH]; intros k once Hwf.
    - apply drains_done. reflexivity.
    - simpl in Hwf. apply andb_true_iff in Hwf. destruct Hwf as [He Hr].
      destruct e as [x|c]; simpl; (eapply drains_step; [reflexivity|]); apply IH; exact Hr.
  Qed.
  Theorem mapper_spec : forall xs k once,
    drains_to (map_next g) (mkOne (open_src (map Item xs) k) once) (map g xs).
  Proof.
    intros xs k once. pose proof (map_drains (map Item xs) k once (clean_wf _ (clean_map_Item xs))) as H.
    now rewrite map_map in H.
  Qed.
  Theorem map_head_next_coherent : forall st, fst (map_head g st) = fst (map_next g st).
  Proof.
    intro st. unfold map_head, map_next. rewrite src_head_next. destruct (src_next (o_src st)). reflexivity.
  Qed.
  Theorem map_head_idem : forall st, map_head g (snd (map_head g st)) = map_head g st.
  Proof. reflexivity. Qed.
  Theorem map_stop_then_done : forall st, o_once st = false -> drains_to (map_next g) (one_stop_once st) [].
  Proof. intros st H. unfold one_stop_once. rewrite H. apply drains_done. reflexivity. Qed.
End MappedProofs.

(* ---------------------------------------------------------------------------------------- *)
(* SkipTo *)

(* skip_to_spec: exactly the leading items below the target are dropped; the iterator is left at
   the first item >= target, at an error, or at its end; the only errors reported are those
   that are neither "done" nor a cancellation *)
Theorem skip_to_spec : forall target l,
  exists dropped,
    l = map Item dropped ++ snd (skip_to_loop target l)
    /\ Forall (fun x => x < target) dropped
    /\ match snd (skip_to_loop target l) with
       | [] => fst (skip_to_loop target l) = RNil
       | Item x :: _ => target <= x /\ fst (skip_to_loop target l) = RNil
       | Err e :: _ => fst (skip_to_loop target l) = if done_or_cancelled e then RNil else RErr e
       end.
Proof.
  intros target l. induction l as [|e r IH].
  - exists []. simpl. auto.
  - destruct e as [x|c]; simpl.
    + destruct (target <=? x) eqn:E.
      * exists []. simpl. repeat split; auto. now apply N.leb_le.
      * destruct IH as [d [H1 [H2 H3]]]. exists (x :: d). simpl. repeat split.
        -- now rewrite <- H1.
        -- constructor; [now apply N.leb_gt | exact H2].
        -- exact H3.
    + exists []. simpl. auto.
Qed.

Lemma filter_all_true : forall (q : N -> bool) l, (forall y, In y l -> q y = true) -> filter q l = l.
Proof.
  induction l as [|y t IH]; intro H; simpl; [reflexivity|].
  rewrite (H y (or_introl eq_refl)). f_equal. apply IH. intros z Hz. apply H. now right.
Qed.

Corollary skip_to_sorted : forall target xs, sortedN xs ->
  snd (skip_to_loop target (map Item xs)) = map Item (filter (fun x => target <=? x) xs).
Proof.
  intros target xs Hs. induction xs as [|x r IH]; simpl; [reflexivity|].
  inversion Hs as [|? ? Hs' Hall]; subst.
  destruct (target <=? x) eqn:E; simpl.
  - f_equal. rewrite Forall_forall in Hall. apply N.leb_le in E.
    rewrite filter_all_true; [reflexivity|].
    intros y Hy. apply N.leb_le. specialize (Hall y Hy). lia.
  - apply IH. exact Hs'.
Qed.

(* ---------------------------------------------------------------------------------------- *)
(* ToChannel *)
Theorem to_channel_spec : forall xs, to_channel (map Item xs) = map ROk xs.
Proof. induction xs as [|x r IH]; simpl; [reflexivity | now rewrite IH]. Qed.
Theorem to_channel_error_position : forall xs e r,
  to_channel (map Item xs ++ Err e :: r) =
  map ROk xs ++ (if done_or_cancelled e then [] else RErr e :: to_channel r).
Proof. induction xs as [|x t IH]; intros; simpl; [reflexivity | now rewrite IH]. Qed.

(* ---------------------------------------------------------------------------------------- *)
(* combinedIterator *)

Lemma comb_empty_drains : forall n fin once, nexts comb_next n (mkComb [] fin once) = pad n [].
Proof.
  induction n as [|n IH]; intros fin once; simpl; [reflexivity|]. now rewrite IH.
Qed.

Lemma comb_next_skip_empty : forall k rest fin once,
  comb_next (mkComb (open_src [] k :: rest) fin once)
  = comb_next (mkComb rest (fin ++ [src_stop (open_src [] k)]) once).
Proof.
  intros k rest fin once. unfold comb_next. simpl.
  destruct (comb_next_loop rest) as [[r2 p2] f2]. now rewrite <- app_assoc.
Qed.

(* combined_spec: the inputs one after the other; an inner error is passed on at its position
   and the iteration goes on behind it *)
Theorem comb_drains : forall ls l k fin once,
  wf l = true -> forallb wf ls = true ->
  drains_to comb_next (mkComb (open_src l k :: map src_of ls) fin once) (map ev_res (l ++ concat ls)).
Proof.
  induction ls as [|l2 ls IH].
  - induction l as [|e r IHl]; intros k fin once Hl _.
    + eapply drains_same_step; [apply comb_next_skip_empty|]. intro n. apply comb_empty_drains.
    + simpl in Hl. apply andb_true_iff in Hl. destruct Hl as [He Hr]. simpl.
      destruct e as [x|c]; simpl.
      * eapply drains_step; [unfold comb_next; simpl; rewrite app_nil_r; reflexivity|]. now apply IHl.
      * simpl in He. eapply drains_step.
        -- unfold comb_next. simpl. rewrite (negb_true_iff _) in He. rewrite He. rewrite app_nil_r. reflexivity.
        -- now apply IHl.
  - induction l as [|e r IHl]; intros k fin once Hl Hls.
    + simpl in Hls. apply andb_true_iff in Hls. destruct Hls as [Hl2 Hls].
      eapply drains_same_step; [apply comb_next_skip_empty|]. simpl. apply IH; assumption.
    + simpl in Hl. apply andb_true_iff in Hl. destruct Hl as [He Hr]. simpl.
      destruct e as [x|c]; simpl.
      * eapply drains_step; [unfold comb_next; simpl; rewrite app_nil_r; reflexivity|]. now apply IHl.
      * simpl in He. eapply drains_step.
        -- unfold comb_next. simpl. rewrite (negb_true_iff _) in He. rewrite He. rewrite app_nil_r. reflexivity.
        -- now apply IHl.
Qed.

Theorem combined_spec : forall ls, forallb wf ls = true ->
  drains_to comb_next (comb_init ls) (map ev_res (concat ls)).
Proof.
  intros ls H. unfold comb_init. destruct ls as [|l ls]; simpl.
  - intro n. apply comb_empty_drains.
  - simpl in H. apply andb_true_iff in H. destruct H as [Hl Hls]. now apply (comb_drains ls l 0 [] false).
Qed.
Corollary combined_clean : forall xss,
  drains_to comb_next (comb_init (map (map Item) xss)) (map ROk (concat xss)).
Proof.
  intro xss.
  assert (Hw : forallb wf (map (map Item) xss) = true).
  { induction xss as [|xs r IH]; simpl; [reflexivity|]. rewrite (clean_wf _ (clean_map_Item xs)). exact IH. }
  pose proof (combined_spec (map (map Item) xss) Hw) as H. replace (map ev_res (concat (map (map Item) xss))) with (map ROk (concat xss)) in H; [exact H|].
  clear. induction xss as [|xs r IH]; simpl; [reflexivity|]. rewrite !map_app, IH. f_equal.
  now rewrite map_map.
Qed.

Lemma comb_head_loop_props : forall p,
  let '(r, p1, f1) := comb_head_loop p in
  comb_head_loop p1 = (r, p1, []) /\ fst (fst (comb_next_loop p1)) = r.
Proof.
  induction p as [|s rest IH]; simpl; [auto|].
  destruct (src_head s) as [v [e|]] eqn:Eh.
  - destruct (is_done e) eqn:Ed.
    + destruct (comb_head_loop rest) as [[r2 p2] f2]. exact IH.
    + simpl. rewrite Eh, Ed. split; [reflexivity|].
      rewrite src_head_next in Eh. destruct (src_next s) as [r' s1]. simpl in Eh. subst r'. now rewrite Ed.
  - simpl. rewrite Eh. split; [reflexivity|].
    rewrite src_head_next in Eh. destruct (src_next s) as [r' s1]. simpl in Eh. subst r'. reflexivity.
Qed.
Theorem comb_head_next_coherent : forall st, fst (comb_next (snd (comb_head st))) = fst (comb_head st).
Proof.
  intro st. unfold comb_head. pose proof (comb_head_loop_props (cb_pending st)) as P.
  destruct (comb_head_loop (cb_pending st)) as [[r p1] f1]. destruct P as [_ P2]. simpl.
  unfold comb_next. simpl. destruct (comb_next_loop p1) as [[r2 p2] f2]. exact P2.
Qed.
Theorem comb_head_idem : forall st, fst (comb_head (snd (comb_head st))) = fst (comb_head st).
Proof.
  intro st. unfold comb_head. pose proof (comb_head_loop_props (cb_pending st)) as P.
  destruct (comb_head_loop (cb_pending st)) as [[r p1] f1]. destruct P as [P1 _]. simpl. now rewrite P1.
Qed.
Lemma comb_stop_idem : forall st, comb_stop (comb_stop st) = comb_stop st.
Proof. intro st. unfold comb_stop. destruct (cb_once st) eqn:E; simpl; [now rewrite E | reflexivity]. Qed.

Lemma comb_stopped_loop : forall p, fst (fst (comb_next_loop (map src_stop p))) = RDone
                                    /\ snd (fst (comb_next_loop (map src_stop p))) = [].
Proof.
  induction p as [|s r IH]; simpl; [auto|].
  destruct (comb_next_loop (map src_stop r)) as [[r2 p2] f2]. exact IH.
Qed.
Theorem comb_stop_then_done : forall st, cb_once st = false -> drains_to comb_next (comb_stop st) [].
Proof.
  intros st H. unfold comb_stop. rewrite H.
  pose proof (comb_stopped_loop (cb_pending st)) as P.
  intro n. destruct n as [|n]; [reflexivity|]. cbn [nexts]. unfold comb_next at 1. simpl.
  destruct (comb_next_loop (map src_stop (cb_pending st))) as [[r2 p2] f2].
  simpl in P. destruct P as [P1 P2]. subst. simpl. f_equal. apply comb_empty_drains.
Qed.

(* ---------------------------------------------------------------------------------------- *)
(* FanInIteratorChannels *)

Lemma take_nth_perm : forall A i (chans : list (list A)) a chans1,
  take_nth i chans = Some (a, chans1) -> Permutation (concat chans) (a :: concat chans1).
Proof.
  intros A i. induction i as [|i IH]; intros chans a chans1 H.
  - destruct chans as [|c r]; simpl in H; [discriminate|]. destruct c as [|b c1]; [discriminate|].
    inversion H; subst. apply Permutation_refl.
  - destruct chans as [|c r]; simpl in H; [discriminate|].
    destruct (take_nth i r) as [[b r1]|] eqn:E; [|discriminate]. inversion H; subst.
    simpl. apply IH in E. eapply Permutation_trans; [apply Permutation_app_head; exact E|].
    apply Permutation_sym. apply Permutation_middle.
Qed.

(* fan_in_spec: for every schedule of the senders the receiver gets every message of every
   channel exactly once *)
Theorem fan_in_spec : forall A (sched : list nat) (chans : list (list A)),
  Permutation (fan_in_sched chans sched) (concat chans).
Proof.
  intros A sched. induction sched as [|i r IH]; intro chans; simpl.
  - apply Permutation_refl.
  - destruct (take_nth i chans) as [[a chans1]|] eqn:E.
    + apply take_nth_perm in E. eapply Permutation_trans; [apply perm_skip; apply IH|].
      now apply Permutation_sym.
    + apply IH.
Qed.

Lemma take_first_perm : forall a chans chans1,
  take_first pair_eqb a chans = Some chans1 -> Permutation (concat chans) (a :: concat chans1).
Proof.
  intros a chans. induction chans as [|c r IH]; intros chans1 H; simpl in H; [discriminate|].
  destruct c as [|b c1].
  - destruct (take_first pair_eqb a r) as [r1|] eqn:E; [|discriminate]. inversion H; subst.
    simpl. now apply IH.
  - destruct (pair_eqb a b) eqn:Eb.
    + inversion H; subst. unfold pair_eqb in Eb. apply andb_true_iff in Eb. destruct Eb as [E1 E2].
      apply N.eqb_eq in E1, E2. destruct a, b; simpl in *; subst. apply Permutation_refl.
    + destruct (take_first pair_eqb a r) as [r1|] eqn:E; [|discriminate]. inversion H; subst.
      specialize (IH r1 eq_refl). change (concat ((b :: c1) :: r)) with ((b :: c1) ++ concat r).
      change (concat ((b :: c1) :: r1)) with ((b :: c1) ++ concat r1).
      eapply Permutation_trans; [apply Permutation_app_head; exact IH|].
      apply Permutation_sym. apply Permutation_middle.
Qed.
(* the checker the oracle applies to the implementation's output is sound for the multiset spec *)
Theorem is_interleaving_sound : forall out chans,
  is_interleaving chans out = true -> Permutation out (concat chans).
Proof.
  induction out as [|a r IH]; intros chans H; simpl in H.
  - assert (Hc : concat chans = []).
    { induction chans as [|c t IHc]; simpl in *; [reflexivity|].
      apply andb_true_iff in H. destruct H as [H1 H2]. destruct c; [auto | discriminate]. }
    rewrite Hc. constructor.
  - destruct (take_first pair_eqb a chans) as [chans1|] eqn:E; [|discriminate].
    apply take_first_perm in E. apply IH in H.
    eapply Permutation_trans; [apply perm_skip; exact H|]. now apply Permutation_sym.
Qed.

(* ---------------------------------------------------------------------------------------- *)
(* OrderedCombinedIterator *)

Section OrderedProofs.
  Variable key : N -> N.

  Definition le_key (a b : N) : Prop := key a <= key b.
  Definition lt_key (a b : N) : Prop := key a < key b.
  Definition ksorted (l : list N) : Prop := StronglySorted le_key l.

  (* an error-free pending iterator: original index, items left, Stop calls so far *)
  Definition pent := (N * list N * N)%type.
  Definition p_items (e : pent) : list N := snd (fst e).
  Definition mk (e : pent) : N * src := (fst (fst e), open_src (map Item (p_items e)) (snd e)).
  Definition pitems (pl : list pent) : list N := flat_map p_items pl.

  Fixpoint strip_k (ky : N) (l : list N) : list N :=
    match l with
    | x :: r => if key x =? ky then strip_k ky r else l
    | [] => []
    end.
  Definition strip (ly : option N) (l : list N) : list N :=
    match ly with None => l | Some y => strip_k (key y) l end.

  Lemma skip_dups_items : forall ky l, skip_dups key ky (map Item l) = map Item (strip_k ky l).
  Proof. induction l as [|x r IH]; simpl; [reflexivity|]. destruct (key x =? ky); [exact IH | reflexivity]. Qed.

  Lemma strip_k_incl : forall ky l x, In x (strip_k ky l) -> In x l.
  Proof.
    induction l as [|a r IH]; simpl; intros x H; [exact H|].
    destruct (key a =? ky); [right; now apply IH | exact H].
  Qed.
  Lemma strip_k_split : forall ky l x, In x l -> In x (strip_k ky l) \/ key x = ky.
  Proof.
    induction l as [|a r IH]; simpl; intros x H; [contradiction|].
    destruct (key a =? ky) eqn:E.
    - destruct H as [H|H]; [subst; right; now apply N.eqb_eq | now apply IH].
    - left. exact H.
  Qed.
  Lemma strip_k_sorted : forall ky l, ksorted l -> ksorted (strip_k ky l).
  Proof.
    induction l as [|a r IH]; simpl; intro H; [exact H|].
    destruct (key a =? ky); [apply IH; now inversion H | exact H].
  Qed.
  Lemma strip_k_head : forall ky l x t, strip_k ky l = x :: t -> key x <> ky.
  Proof.
    induction l as [|a r IH]; simpl; intros x t H; [discriminate|].
    destruct (key a =? ky) eqn:E; [now apply (IH x t) | inversion H; subst; now apply N.eqb_neq].
  Qed.
  Lemma strip_incl : forall ly l x, In x (strip ly l) -> In x l.
  Proof. intros [y|] l x H; simpl in H; [now apply strip_k_incl in H | exact H]. Qed.
  Lemma strip_sorted : forall ly l, ksorted l -> ksorted (strip ly l).
  Proof. intros [y|] l H; simpl; [now apply strip_k_sorted | exact H]. Qed.
  Lemma length_strip_k : forall ky l, (length (strip_k ky l) <= length l)%nat.
  Proof. induction l as [|a r IH]; simpl; [lia|]. destruct (key a =? ky); simpl; lia. Qed.
  Lemma length_strip : forall ly l, (length (strip ly l) <= length l)%nat.
  Proof. intros [y|] l; simpl; [apply length_strip_k | lia]. Qed.

  Lemma ksorted_head_le : forall x t z, ksorted (x :: t) -> In z (x :: t) -> key x <= key z.
  Proof.
    intros x t z H Hz. inversion H as [|? ? _ Hall]; subst. destruct Hz as [Hz|Hz]; [subst; lia|].
    rewrite Forall_forall in Hall. exact (Hall z Hz).
  Qed.

  (* after stripping, everything left lies strictly above the last yielded key *)
  Lemma strip_gt : forall y l x, ksorted l -> (forall z, In z l -> key y <= key z) ->
    In x (strip (Some y) l) -> key y < key x.
  Proof.
    intros y l x Hs Hb Hx. simpl in Hx. destruct (strip_k (key y) l) as [|h t] eqn:E; [contradiction|].
    pose proof (strip_k_head _ _ _ _ E) as Hne.
    pose proof (strip_k_sorted (key y) l Hs) as Hs'. rewrite E in Hs'.
    pose proof (ksorted_head_le h t x Hs' Hx) as H1.
    assert (Hh : In h l) by (apply (strip_k_incl (key y)); rewrite E; now left).
    specialize (Hb h Hh). lia.
  Qed.

  Definition bounded (ly : option N) (l : list N) : Prop :=
    match ly with Some y => forall z, In z l -> key y <= key z | None => True end.

  Lemma prep1_sorted : forall ly l k, bounded ly l ->
    match strip ly l with
    | [] => exists s1, prep1 key ly (open_src (map Item l) k) = PDone s1
    | x1 :: t1 => prep1 key ly (open_src (map Item l) k) = PItem x1 (open_src (map Item (x1 :: t1)) k)
    end.
  Proof.
    intros ly l k Hb. destruct l as [|x t].
    - destruct ly; simpl; eexists; reflexivity.
    - destruct ly as [y|]; [|reflexivity].
      assert (Hx : key x <? key y = false) by (apply N.ltb_ge; apply Hb; now left).
      unfold prep1. cbn [live open_src sstopped evs map]. rewrite Hx.
      change (Item x :: map Item t) with (map Item (x :: t)). rewrite skip_dups_items.
      unfold strip. destruct (strip_k (key y) (x :: t)) as [|x1 t1]; simpl; [eexists; reflexivity | reflexivity].
  Qed.

  Definition nonempty (e : pent) : bool := match p_items e with [] => false | _ => true end.
  Definition strip_ent (ly : option N) (e : pent) : pent := (fst (fst e), strip ly (p_items e), snd e).
  Definition kept_of (ly : option N) (pl : list pent) : list pent := filter nonempty (map (strip_ent ly) pl).

  Fixpoint pbest (kept : list pent) : option (nat * N) :=
    match kept with
    | [] => None
    | e :: r => match p_items e with x :: _ => better key x (pbest r) | [] => pbest r end
    end.

  Lemma oc_scan_sorted : forall ly pl,
    Forall (fun e => bounded ly (p_items e)) pl ->
    exists f, oc_scan key ly (map mk pl) = SOk (map mk (kept_of ly pl)) f (pbest (kept_of ly pl)).
  Proof.
    intros ly pl. induction pl as [|e r IH]; intro Hb.
    - exists []. reflexivity.
    - inversion Hb as [|? ? Hbe Hbr]; subst. destruct (IH Hbr) as [f Hf]. clear IH.
      destruct e as [[i l] k].
      change (kept_of ly ((i, l, k) :: r))
        with (if nonempty (strip_ent ly (i, l, k)) then strip_ent ly (i, l, k) :: kept_of ly r else kept_of ly r).
      assert (Hne : nonempty (strip_ent ly (i, l, k)) = match strip ly l with [] => false | _ => true end) by reflexivity.
      assert (Hse : strip_ent ly (i, l, k) = (i, strip ly l, k)) by reflexivity.
      rewrite Hne, Hse. clear Hne Hse.
      pose proof (prep1_sorted ly l k Hbe) as P.
      change (map mk ((i, l, k) :: r)) with ((i, open_src (map Item l) k) :: map mk r).
      cbn [oc_scan].
      destruct (strip ly l) as [|x1 t1] eqn:Es.
      + destruct P as [s1 P]. rewrite P, Hf. eexists. reflexivity.
      + rewrite P, Hf. eexists. reflexivity.
  Qed.

  Definition head_ge (kb : N) (e : pent) : Prop :=
    match p_items e with h :: _ => kb <= key h | [] => True end.

  Lemma pbest_spec : forall kept, Forall (fun e => nonempty e = true) kept ->
    match pbest kept with
    | None => kept = []
    | Some (j, kb) => exists i x t k, nth_error kept j = Some (i, x :: t, k) /\ key x = kb
                                      /\ Forall (head_ge kb) kept
    end.
  Proof.
    induction kept as [|e r IH]; intro Hne; [reflexivity|].
    inversion Hne as [|? ? He Hr]; subst. specialize (IH Hr).
    destruct e as [[i l] k]. unfold nonempty in He. cbn [p_items fst snd] in He.
    destruct l as [|x t]; [discriminate|]. cbn [pbest p_items fst snd].
    destruct (pbest r) as [[j kb]|].
    - destruct IH as [i' [x' [t' [k' [Hn [Hk Hall]]]]]]. unfold better.
      destruct (kb <? key x) eqn:E.
      + exists i', x', t', k'. repeat split; auto. constructor; [|exact Hall].
        unfold head_ge. simpl. apply N.ltb_lt in E. lia.
      + exists i, x, t, k. repeat split; auto. apply N.ltb_ge in E. constructor.
        * unfold head_ge. simpl. lia.
        * eapply Forall_impl; [|exact Hall]. intros a Ha. unfold head_ge in *.
          destruct (p_items a); [exact I | lia].
    - subst r. exists i, x, t, k. repeat split; auto. constructor; [|constructor].
      unfold head_ge. simpl. lia.
  Qed.

  Fixpoint set_at {A} (n : nat) (l : list A) (a : A) : list A :=
    match l, n with
    | [], _ => []
    | _ :: r, O => a :: r
    | b :: r, S m => b :: set_at m r a
    end.

  Lemma upd_nth_mk : forall j kept i x t k,
    nth_error kept j = Some (i, x :: t, k) ->
    upd_nth j (map mk kept) (fun p => (fst p, snd (src_next (snd p)))) = map mk (set_at j kept (i, t, k)).
  Proof.
    induction j as [|j IH]; intros kept i x t k H; destruct kept as [|e r]; simpl in H; try discriminate.
    - inversion H; subst. reflexivity.
    - simpl. f_equal. now apply (IH r i x t k).
  Qed.
  Lemma nth_error_mk : forall j kept i x t k,
    nth_error kept j = Some (i, x :: t, k) ->
    nth_error (map mk kept) j = Some (i, open_src (map Item (x :: t)) k).
  Proof.
    induction j as [|j IH]; intros kept i x t k H; destruct kept as [|e r]; simpl in H; try discriminate.
    - inversion H; subst. reflexivity.
    - simpl. now apply (IH r i x t k).
  Qed.

  Lemma pitems_set_at : forall j kept i x t k z,
    nth_error kept j = Some (i, x :: t, k) ->
    In z (pitems kept) <-> z = x \/ In z (pitems (set_at j kept (i, t, k))).
  Proof.
    induction j as [|j IH]; intros kept i x t k z H; destruct kept as [|e r]; simpl in H; try discriminate.
    - inversion H; subst.
      change (pitems ((i, x :: t, k) :: r)) with ((x :: t) ++ pitems r).
      change (pitems (set_at 0 ((i, x :: t, k) :: r) (i, t, k))) with (t ++ pitems r).
      rewrite !in_app_iff. simpl. intuition (subst; auto).
    - change (pitems (e :: r)) with (p_items e ++ pitems r).
      change (pitems (set_at (S j) (e :: r) (i, t, k))) with (p_items e ++ pitems (set_at j r (i, t, k))).
      rewrite !in_app_iff. rewrite (IH r i x t k z H). tauto.
  Qed.
  Lemma length_pitems_set_at : forall j kept i x t k,
    nth_error kept j = Some (i, x :: t, k) ->
    length (pitems kept) = S (length (pitems (set_at j kept (i, t, k)))).
  Proof.
    induction j as [|j IH]; intros kept i x t k H; destruct kept as [|e r]; simpl in H; try discriminate.
    - inversion H; subst.
      change (pitems ((i, x :: t, k) :: r)) with ((x :: t) ++ pitems r).
      change (pitems (set_at 0 ((i, x :: t, k) :: r) (i, t, k))) with (t ++ pitems r).
      reflexivity.
    - change (pitems (e :: r)) with (p_items e ++ pitems r).
      change (pitems (set_at (S j) (e :: r) (i, t, k))) with (p_items e ++ pitems (set_at j r (i, t, k))).
      rewrite !app_length. rewrite (IH r i x t k H). lia.
  Qed.

  Lemma pitems_cons : forall e r, pitems (e :: r) = p_items e ++ pitems r.
  Proof. reflexivity. Qed.
  Lemma kept_of_cons : forall ly e r,
    kept_of ly (e :: r) = if nonempty (strip_ent ly e) then strip_ent ly e :: kept_of ly r else kept_of ly r.
  Proof. reflexivity. Qed.
  Lemma p_items_strip_ent : forall ly e, p_items (strip_ent ly e) = strip ly (p_items e).
  Proof. reflexivity. Qed.
  Lemma nonempty_false : forall e, nonempty e = false -> p_items e = [].
  Proof. intros e H. unfold nonempty in H. destruct (p_items e); [reflexivity | discriminate]. Qed.

  Lemma pitems_kept_incl : forall ly pl z, In z (pitems (kept_of ly pl)) -> In z (pitems pl).
  Proof.
    intros ly pl z. induction pl as [|e r IH]; [auto|].
    rewrite kept_of_cons, pitems_cons, in_app_iff. destruct (nonempty (strip_ent ly e)) eqn:En.
    - rewrite pitems_cons, in_app_iff, p_items_strip_ent. intros [H|H].
      + left. now apply strip_incl in H.
      + right. now apply IH.
    - intro H. right. now apply IH.
  Qed.
  Lemma pitems_kept_split : forall ly pl z, In z (pitems pl) ->
    In z (pitems (kept_of ly pl)) \/ exists y, ly = Some y /\ key z = key y.
  Proof.
    intros ly pl z. induction pl as [|e r IH]; [auto|].
    rewrite pitems_cons, in_app_iff, kept_of_cons. intros [H|H].
    - assert (Hs : In z (strip ly (p_items e)) \/ exists y, ly = Some y /\ key z = key y).
      { destruct ly as [y|]; [|now left]. simpl.
        destruct (strip_k_split (key y) (p_items e) z H) as [Hs|Hs]; [now left | right; eauto]. }
      destruct Hs as [Hs|Hs]; [|now right]. left.
      destruct (nonempty (strip_ent ly e)) eqn:En.
      + rewrite pitems_cons, in_app_iff, p_items_strip_ent. now left.
      + apply nonempty_false in En. rewrite p_items_strip_ent in En. rewrite En in Hs. contradiction.
    - destruct (IH H) as [Hk|Hk]; [|now right]. left.
      destruct (nonempty (strip_ent ly e)); [|exact Hk]. rewrite pitems_cons, in_app_iff. now right.
  Qed.
  Lemma length_pitems_kept : forall ly pl, (length (pitems (kept_of ly pl)) <= length (pitems pl))%nat.
  Proof.
    intros ly pl. induction pl as [|e r IH]; [simpl; lia|].
    rewrite kept_of_cons, pitems_cons, app_length.
    pose proof (length_strip ly (p_items e)) as Hl.
    destruct (nonempty (strip_ent ly e)).
    - rewrite pitems_cons, app_length, p_items_strip_ent. lia.
    - lia.
  Qed.
  Lemma kept_nonempty : forall ly pl, Forall (fun e => nonempty e = true) (kept_of ly pl).
  Proof. intros ly pl. unfold kept_of. apply Forall_forall. intros e He. apply filter_In in He. tauto. Qed.
  Lemma kept_sorted : forall ly pl, Forall (fun e => ksorted (p_items e)) pl ->
    Forall (fun e => ksorted (p_items e)) (kept_of ly pl).
  Proof.
    intros ly pl H. unfold kept_of. apply Forall_forall. intros e He. apply filter_In in He.
    destruct He as [He _]. apply in_map_iff in He. destruct He as [e0 [He0 Hin]]. subst e.
    rewrite Forall_forall in H. unfold strip_ent, p_items. simpl. apply strip_sorted. exact (H e0 Hin).
  Qed.
  Lemma kept_gt : forall y pl z,
    Forall (fun e => ksorted (p_items e)) pl -> Forall (fun e => bounded (Some y) (p_items e)) pl ->
    In z (pitems (kept_of (Some y) pl)) -> key y < key z.
  Proof.
    intros y pl z Hs Hb. induction pl as [|e r IH]; [intro H; contradiction|].
    inversion Hs; subst. inversion Hb; subst. rewrite kept_of_cons.
    destruct (nonempty (strip_ent (Some y) e)).
    - rewrite pitems_cons, in_app_iff, p_items_strip_ent. intros [H|H]; [|now apply IH].
      eapply (strip_gt y (p_items e)); eauto.
    - now apply IH.
  Qed.

  Lemma oc_empty_drains : forall n fin lh ly once,
    lh = None -> nexts (oc_next key) n (mkOc [] fin lh ly once) = pad n [].
  Proof.
    induction n as [|n IH]; intros fin lh ly once Hl; simpl; [reflexivity|]. subst. now rewrite IH.
  Qed.

  Lemma set_at_sorted : forall j kept i x t k,
    nth_error kept j = Some (i, x :: t, k) ->
    Forall (fun e => ksorted (p_items e)) kept ->
    Forall (fun e => ksorted (p_items e)) (set_at j kept (i, t, k)).
  Proof.
    induction j as [|j IH]; intros kept i x t k H Hs; destruct kept as [|e r]; simpl in H; try discriminate.
    - inversion H; subst. inversion Hs as [|? ? H1 H2]; subst. constructor; [|exact H2].
      unfold p_items in *. simpl in *. now inversion H1.
    - inversion Hs; subst. simpl. constructor; [assumption | now apply (IH r i x t k)].
  Qed.

  (* all remaining items lie at or above the chosen minimum *)
  Lemma min_bounds_all : forall kept kb, Forall (fun e => ksorted (p_items e)) kept ->
    Forall (head_ge kb) kept -> forall z, In z (pitems kept) -> kb <= key z.
  Proof.
    induction kept as [|e r IH]; intros kb Hs Hh z Hz; [contradiction|].
    inversion Hs; subst. inversion Hh; subst. unfold pitems in Hz. simpl in Hz. apply in_app_iff in Hz.
    destruct Hz as [Hz|Hz]; [|now apply (IH kb)].
    unfold head_ge in *. destruct (p_items e) as [|h t] eqn:Ep; [contradiction|].
    pose proof (ksorted_head_le h t z ltac:(assumption) Hz). lia.
  Qed.

  Definition bounded_all (ly : option N) (pl : list pent) : Prop :=
    Forall (fun e => bounded ly (p_items e)) pl.
  Lemma bounded_all_of : forall y pl, (forall z, In z (pitems pl) -> key y <= key z) -> bounded_all (Some y) pl.
  Proof.
    intros y pl H. apply Forall_forall. intros e He z Hz. apply H. unfold pitems. apply in_flat_map. eauto.
  Qed.

  Lemma ordered_run : forall m pl ly fin,
    (length (pitems pl) <= m)%nat ->
    Forall (fun e => ksorted (p_items e)) pl -> bounded_all ly pl ->
    exists out,
      drains_to (oc_next key) (mkOc (map mk pl) fin None ly false) (map ROk out)
      /\ StronglySorted lt_key out
      /\ (forall y o, ly = Some y -> In o out -> key y < key o)
      /\ incl out (pitems pl)
      /\ (forall z, In z (pitems pl) -> (exists y, ly = Some y /\ key z = key y) \/ exists o, In o out /\ key o = key z).
  Proof.
    induction m as [|m IH]; intros pl ly fin Hm Hs Hb.
    - (* nothing left at all *)
      assert (Hnil : pitems pl = []) by (destruct (pitems pl); [reflexivity | simpl in Hm; lia]).
      exists []. destruct (oc_scan_sorted ly pl Hb) as [f Hf].
      assert (Hk : kept_of ly pl = []).
      { pose proof (length_pitems_kept ly pl) as Hl. rewrite Hnil in Hl. simpl in Hl.
        pose proof (kept_nonempty ly pl) as Hne. destruct (kept_of ly pl) as [|e r]; [reflexivity|].
        inversion Hne as [|? ? He _]; subst. unfold nonempty in He. unfold pitems in Hl. simpl in Hl.
        destruct (p_items e); [discriminate | simpl in Hl; lia]. }
      rewrite Hk in Hf. simpl in Hf. repeat split.
      + intro n. destruct n as [|n]; [reflexivity|]. cbn [nexts]. unfold oc_next at 1. cbn [oc_lastYielded oc_pending].
        rewrite Hf. cbn. f_equal. now apply oc_empty_drains.
      + constructor.
      + intros y o _ H. contradiction.
      + intros o H. contradiction.
      + intros z Hz. rewrite Hnil in Hz. contradiction.
    - destruct (oc_scan_sorted ly pl Hb) as [f Hf].
      pose proof (pbest_spec (kept_of ly pl) (kept_nonempty ly pl)) as Pb.
      destruct (pbest (kept_of ly pl)) as [[j kb]|] eqn:Eb.
      + destruct Pb as [i [x [t [k [Hn [Hkx Hmin]]]]]].
        set (kept := kept_of ly pl) in *.
        set (kept1 := set_at j kept (i, t, k)).
        pose proof (kept_sorted ly pl Hs) as Hks. fold kept in Hks.
        pose proof (min_bounds_all kept kb Hks Hmin) as Hall.
        assert (Hlen : (length (pitems kept1) <= m)%nat).
        { pose proof (length_pitems_set_at j kept i x t k Hn) as H1.
          pose proof (length_pitems_kept ly pl) as H2. fold kept in H2. unfold kept1.
          rewrite H1 in H2. apply le_S_n. eapply Nat.le_trans; [exact H2 | exact Hm]. }
        assert (Hs1 : Forall (fun e => ksorted (p_items e)) kept1) by (apply (set_at_sorted j kept i x t k Hn Hks)).
        assert (Hb1 : bounded_all (Some x) kept1).
        { apply bounded_all_of. intros z Hz. rewrite Hkx. apply Hall.
          apply (pitems_set_at j kept i x t k z Hn). now right. }
        destruct (IH kept1 (Some x) (fin ++ f) Hlen Hs1 Hb1) as [out1 [D1 [S1 [G1 [I1 C1]]]]].
        assert (Hxin : In x (pitems kept)) by (apply (pitems_set_at j kept i x t k x Hn); now left).
        exists (x :: out1). repeat split.
        * eapply drains_step; [|exact D1].
          unfold oc_next. cbn [oc_lastYielded oc_pending oc_fin oc_lastHead oc_once]. rewrite Hf.
          rewrite (nth_error_mk j kept i x t k Hn). cbn [src_next live open_src sstopped evs map evs_next].
          rewrite (upd_nth_mk j kept i x t k Hn). reflexivity.
        * constructor; [exact S1|]. apply Forall_forall. intros o Ho. apply (G1 x o eq_refl Ho).
        * intros y o Hy [Ho|Ho].
          -- subst o. subst ly. apply (kept_gt y pl x Hs Hb). exact Hxin.
          -- subst ly. pose proof (kept_gt y pl x Hs Hb Hxin) as H1. pose proof (G1 x o eq_refl Ho) as H2.
             unfold lt_key in *. lia.
        * intros o [Ho|Ho].
          -- subst o. apply (pitems_kept_incl ly pl). exact Hxin.
          -- apply (pitems_kept_incl ly pl). apply (pitems_set_at j kept i x t k o Hn). right. now apply I1.
        * intros z Hz. destruct (pitems_kept_split ly pl z Hz) as [Hk|Hk]; [|now left]. right.
          fold kept in Hk. apply (pitems_set_at j kept i x t k z Hn) in Hk. destruct Hk as [Hk|Hk].
          -- subst z. exists x. split; [now left | reflexivity].
          -- destruct (C1 z Hk) as [[y [Hy Hyz]]|[o [Ho Hoz]]].
             ++ inversion Hy; subst y. exists x. split; [now left | now symmetry].
             ++ exists o. split; [now right | exact Hoz].
      + (* every pending iterator is exhausted (or holds duplicates of the last key only) *)
        rewrite Pb in Hf. simpl in Hf. exists []. repeat split.
        * intro n. destruct n as [|n]; [reflexivity|]. cbn [nexts]. unfold oc_next at 1.
          cbn [oc_lastYielded oc_pending]. rewrite Hf. cbn. f_equal. now apply oc_empty_drains.
        * constructor.
        * intros y o _ H. contradiction.
        * intros o H. contradiction.
        * intros z Hz. destruct (pitems_kept_split ly pl z Hz) as [Hk|Hk]; [|now left].
          rewrite Pb in Hk. contradiction.
  Qed.

  (* ordered_combined_spec: for inputs that are sorted by the mapper, the iterator yields items
     of the inputs with strictly ascending keys (hence no duplicate key), and every key of the
     inputs is represented; in particular no "not ascending" error is raised *)
  Theorem ordered_combined_spec : forall xss,
    Forall ksorted xss ->
    exists out,
      drains_to (oc_next key) (oc_init (map (map Item) xss)) (map ROk out)
      /\ StronglySorted lt_key out
      /\ incl out (concat xss)
      /\ (forall z, In z (concat xss) -> exists o, In o out /\ key o = key z).
  Proof.
    intros xss Hs.
    assert (G : forall i0, exists pl : list pent,
              index_from i0 (map (map Item) xss) = map mk pl /\ pitems pl = concat xss
              /\ Forall (fun e => ksorted (p_items e)) pl).
    { induction xss as [|xs r IH]; intro i0.
      - exists []. repeat split. constructor.
      - inversion Hs as [|? ? H1 H2]; subst. destruct (IH H2 (i0 + 1)) as [pl [E1 [E2 E3]]].
        exists ((i0, xs, 0) :: pl). simpl. rewrite E1. repeat split.
        + unfold pitems in *. simpl. now rewrite E2.
        + constructor; assumption. }
    destruct (G 0) as [pl [E1 [E2 E3]]]. unfold oc_init. rewrite E1.
    assert (Hb : bounded_all None pl) by (apply Forall_forall; intros e _; exact I).
    destruct (ordered_run (length (pitems pl)) pl None [] (le_n _) E3 Hb) as [out [D [S [_ [Inc C]]]]].
    exists out. rewrite <- E2. repeat split; auto.
    intros z Hz. destruct (C z Hz) as [[y [Hy _]]|H]; [discriminate | exact H].
  Qed.
  (* Head shows exactly what Next would return from the same state (any inputs, sorted or not) *)
  Theorem oc_head_shows_next : forall st, oc_lastHead st = None ->
    fst (oc_head key st) = fst (oc_next key st).
  Proof.
    intros st Hl. unfold oc_head, oc_next. rewrite Hl.
    destruct (oc_scan key (oc_lastYielded st) (oc_pending st)) as [k f [[j kb]|]|e k f]; try reflexivity.
    destruct (nth_error k j) as [[i s]|]; [|reflexivity].
    rewrite src_head_next. destruct (src_next s) as [[v e] s1]. simpl.
    destruct v as [x|]; destruct e as [c|]; reflexivity.
  Qed.
  (* a cached head is returned again without touching anything *)
  Theorem oc_head_cached : forall st h, oc_lastHead st = Some h -> oc_head key st = (ROk h, st).
  Proof. intros st h H. unfold oc_head. now rewrite H. Qed.

  Lemma strip_k_idem : forall ky l, strip_k ky (strip_k ky l) = strip_k ky l.
  Proof.
    induction l as [|x r IH]; simpl; [reflexivity|].
    destruct (key x =? ky) eqn:E; [exact IH | simpl; now rewrite E].
  Qed.
  Lemma strip_ent_idem : forall ly e, strip_ent ly (strip_ent ly e) = strip_ent ly e.
  Proof.
    intros ly [[i l] k]. unfold strip_ent, p_items. simpl. destruct ly as [y|]; simpl; [|reflexivity].
    now rewrite strip_k_idem.
  Qed.
  Lemma kept_of_idem : forall ly pl, kept_of ly (kept_of ly pl) = kept_of ly pl.
  Proof.
    intros ly pl. induction pl as [|e r IH]; [reflexivity|].
    rewrite kept_of_cons. destruct (nonempty (strip_ent ly e)) eqn:En; [|exact IH].
    rewrite kept_of_cons, strip_ent_idem, En. now rewrite IH.
  Qed.
  Lemma kept_bounded : forall ly pl, bounded_all ly pl -> bounded_all ly (kept_of ly pl).
  Proof.
    intros ly pl H. unfold bounded_all, kept_of in *. apply Forall_forall. intros e He.
    apply filter_In in He. destruct He as [He _]. apply in_map_iff in He. destruct He as [e0 [He0 Hin]].
    subst e. rewrite Forall_forall in H. specialize (H e0 Hin). rewrite p_items_strip_ent.
    destruct ly as [y|]; [|exact I]. intros z Hz. apply H. now apply strip_incl in Hz.
  Qed.

  (* Head/Next coherence on sorted error-free inputs: the Next after a Head returns the item
     (or ErrIteratorDone) that Head showed *)
  Theorem oc_head_then_next_sorted : forall pl ly fin,
    bounded_all ly pl ->
    let st := mkOc (map mk pl) fin None ly false in
    fst (oc_next key (snd (oc_head key st))) = fst (oc_head key st).
  Proof.
    intros pl ly fin Hb st. unfold st. clear st.
    destruct (oc_scan_sorted ly pl Hb) as [f Hf].
    destruct (oc_scan_sorted ly (kept_of ly pl) (kept_bounded ly pl Hb)) as [f2 Hf2].
    rewrite kept_of_idem in Hf2.
    pose proof (pbest_spec (kept_of ly pl) (kept_nonempty ly pl)) as Pb.
    unfold oc_head. cbn [oc_lastHead oc_lastYielded oc_pending oc_fin oc_once]. rewrite Hf.
    destruct (pbest (kept_of ly pl)) as [[j kb]|] eqn:Eb.
    - destruct Pb as [i [x [t [k [Hn _]]]]]. rewrite (nth_error_mk j _ i x t k Hn).
      cbn [src_head live open_src sstopped evs map evs_head fst snd ROk].
      unfold oc_next. cbn [oc_lastHead oc_lastYielded oc_pending oc_fin oc_once].
      try rewrite Eb in Hf2. rewrite Hf2.
      rewrite (nth_error_mk j _ i x t k Hn). reflexivity.
    - rewrite Pb in *. simpl. unfold oc_next. simpl. reflexivity.
  Qed.
End OrderedProofs.

(* the ascending check is sound but not complete: an unsorted input whose out-of-order item
   follows a duplicate of the last yielded key is not detected (the code compares only the
   first head it sees with the last yielded value, not the head it finds after skipping) *)
Example ordered_unsorted_undetected :
  nexts (oc_next (fun x => x)) 4 (oc_init [[Item 1; Item 2]; [Item 2; Item 1]])
  = [ROk 1; ROk 2; ROk 1; RDone].
Proof. vm_compute. reflexivity. Qed.
Example ordered_unsorted_detected :
  nexts (oc_next (fun x => x)) 2 (oc_init [[Item 2; Item 1]]) = [ROk 2; RErr ENotAscending].
Proof. vm_compute. reflexivity. Qed.
(* and on such an input Head can show an item whose Next is the error *)
Example ordered_unsorted_head_next :
  fst (run (oc_next (fun x => x / 8)) (oc_head (fun x => x / 8)) oc_stop [ONext; OHead; ONext]
           (oc_init [[Item 17; Item 17; Item 9]]))
  = [ROk 17; ROk 9; RErr ENotAscending].
Proof. vm_compute. reflexivity. Qed.
Lemma oc_stop_idem : forall st, oc_stop (oc_stop st) = oc_stop st.
Proof. intro st. unfold oc_stop. destruct (oc_once st) eqn:E; simpl; [now rewrite E | reflexivity]. Qed.

(* refutations in "exists" form (witnesses confirmed on the Go code by the driver) *)
Theorem merge_next_after_stop_refuted :
  exists a b ops n,
    nexts merge_next n (merge_stop (snd (run merge_next merge_head merge_stop ops (merge_init a b)))) <> pad n [].
Proof.
  exists [Item 1; Item 2], [Item 3], [ONext], 1%nat. vm_compute. discriminate.
Qed.
(* detection of unsorted input is not complete *)
Theorem ordered_detection_incomplete :
  exists xss, ~ Forall (ksorted (fun x => x)) xss
    /\ nexts (oc_next (fun x => x)) 4 (oc_init (map (map Item) xss)) = [ROk 1; ROk 2; ROk 1; RDone].
Proof.
  exists [[1; 2]; [2; 1]]. split.
  - intro H. inversion H as [|? ? _ H2]; subst. inversion H2 as [|? ? H3 _]; subst.
    inversion H3 as [|? ? _ H4]; subst. inversion H4 as [|? ? H5 _]; subst. unfold le_key in H5. lia.
  - vm_compute. reflexivity.
Qed.
(* on unsorted input Head and the following Next may disagree *)
Theorem ordered_head_next_unsorted_refuted :
  exists xss ops, fst (run (oc_next (fun x => x / 8)) (oc_head (fun x => x / 8)) oc_stop ops
                            (oc_init (map (map Item) xss)))
                  = [ROk 17; ROk 9; RErr ENotAscending].
Proof. exists [[17; 17; 9]], [ONext; OHead; ONext]. vm_compute. reflexivity. Qed.
