(* Proofs about Cache/IterAdapters.v (C23).  For every adapter: a complete characterisation of
   its Next-only behaviour on ALL scripts (items and errors) as a whole-list function, the
   specification it meets on error-free inputs, the position at which inner errors surface,
   Head/Next coherence, idempotence of Head and Stop. *)
From Coq Require Import List NArith Bool Arith Lia Permutation Sorted.
From OFGA Require Import Cache.IterAdapters.
Import ListNotations.
Open Scope N_scope.

(* ---------------------------------------------------------------------------------------- *)
(* "the iterator yields [out] and then ErrIteratorDone for ever" *)

Fixpoint pad (n : nat) (out : list res) : list res :=
  match n with
  | O => []
  | S k => match out with [] => RDone :: pad k [] | x :: r => x :: pad k r end
  end.

Definition drains_to {St} (nx : St -> res * St) (st : St) (out : list res) : Prop :=
  forall n, nexts nx n st = pad n out.

Lemma pad_nil_repeat : forall n, pad n [] = repeat RDone n.
Proof. induction n as [|n IH]; simpl; [reflexivity | now rewrite IH]. Qed.

Lemma drains_step : forall St (nx : St -> res * St) st x st1 out,
  nx st = (x, st1) -> drains_to nx st1 out -> drains_to nx st (x :: out).
Proof.
  intros St nx st x st1 out Hs Hd n. destruct n as [|n]; simpl; [reflexivity|].
  rewrite Hs. now rewrite Hd.
Qed.

Lemma drains_done : forall St (nx : St -> res * St) st,
  nx st = (RDone, st) -> drains_to nx st [].
Proof.
  intros St nx st Hs n. induction n as [|n IH]; simpl; [reflexivity|]. rewrite Hs. now rewrite IH.
Qed.

Lemma drains_done_step : forall St (nx : St -> res * St) st st1,
  nx st = (RDone, st1) -> drains_to nx st1 [] -> drains_to nx st [].
Proof.
  intros St nx st st1 Hs Hd n. destruct n as [|n]; simpl; [reflexivity|]. rewrite Hs. now rewrite Hd.
Qed.

(* the complete prefix: a full drain needs at most length out + 1 calls to see the end *)
Lemma pad_app_exact : forall out, pad (length out) out = out.
Proof. induction out as [|x r IH]; simpl; [reflexivity | now rewrite IH]. Qed.

Definition is_item (e : ev) : bool := match e with Item _ => true | Err _ => false end.
Definition clean (l : list ev) : bool := forallb is_item l.
Fixpoint items (l : list ev) : list N :=
  match l with [] => [] | Item x :: r => x :: items r | Err _ :: r => items r end.
(* scripts in which no error event carries the class of ErrIteratorDone itself *)
Definition wf_ev (e : ev) : bool := match e with Item _ => true | Err c => negb (is_done c) end.
Definition wf (l : list ev) : bool := forallb wf_ev l.
Definition ev_res (e : ev) : res := match e with Item x => ROk x | Err c => RErr c end.

Lemma items_map_Item : forall xs, items (map Item xs) = xs.
Proof. induction xs as [|x r IH]; simpl; [reflexivity | now rewrite IH]. Qed.
Lemma clean_map_Item : forall xs, clean (map Item xs) = true.
Proof. induction xs as [|x r IH]; simpl; [reflexivity | exact IH]. Qed.
Lemma clean_is_map : forall l, clean l = true -> l = map Item (items l).
Proof.
  induction l as [|e r IH]; simpl; intro H; [reflexivity|].
  destruct e as [x|c]; simpl in H; [|discriminate]. simpl. now rewrite <- IH.
Qed.
Lemma clean_wf : forall l, clean l = true -> wf l = true.
Proof.
  induction l as [|e r IH]; simpl; intro H; [reflexivity|].
  destruct e; simpl in *; [auto | discriminate].
Qed.

(* ---------------------------------------------------------------------------------------- *)
(* the scripted inner iterator *)

Definition open_src (l : list ev) (k : N) : src := mkSrc l false k.

Lemma src_head_next : forall s, src_head s = fst (src_next s).
Proof.
  intro s. unfold src_head, src_next. destruct (live s) as [|[x|e] r]; reflexivity.
Qed.

Lemma live_stop : forall s, live (src_stop s) = [].
Proof. reflexivity. Qed.
Lemma put_stop : forall s l, put (src_stop s) l = src_stop s.
Proof. reflexivity. Qed.
Lemma src_next_stopped : forall s, src_next (src_stop s) = (RDone, src_stop s).
Proof. reflexivity. Qed.
Lemma src_head_stopped : forall s, src_head (src_stop s) = RDone.
Proof. reflexivity. Qed.

(* Stop is idempotent up to the counter of Stop calls *)
Lemma src_stop_stop : forall s,
  evs (src_stop (src_stop s)) = evs (src_stop s) /\ sstopped (src_stop (src_stop s)) = sstopped (src_stop s).
Proof. intro s. split; reflexivity. Qed.

(* ---------------------------------------------------------------------------------------- *)
(* StaticIterator *)

Lemma static_drains : forall l, drains_to (static_next false) l (map ROk l).
Proof.
  induction l as [|x r IH].
  - apply drains_done. reflexivity.
  - simpl. eapply drains_step; [reflexivity | exact IH].
Qed.

Lemma static_head_next : forall l, fst (static_head false l) = fst (static_next false l).
Proof. destruct l; reflexivity. Qed.
Lemma static_head_idem : forall l, static_head false (snd (static_head false l)) = static_head false l.
Proof. destruct l; reflexivity. Qed.
Lemma static_stopped : forall l, drains_to (static_next false) (static_stop l) [].
Proof. intro l. apply drains_done. reflexivity. Qed.
Lemma static_cancelled : forall l, static_next true l = (RErr ECancel, l) /\ static_head true l = (RErr ECancel, l).
Proof. intro l. split; reflexivity. Qed.

(* ---------------------------------------------------------------------------------------- *)
(* Concat *)

Fixpoint upto_err (l : list ev) : list res :=
  match l with
  | [] => []
  | Item x :: r => ROk x :: upto_err r
  | Err e :: _ => [RErr e]
  end.
(* an error at the very first position of the second iterator does not end the iteration *)
Definition concat_out2 (b : list ev) : list res :=
  match b with
  | Err e :: r => RErr e :: upto_err r
  | _ => upto_err b
  end.
Fixpoint concat_out (a b : list ev) : list res :=
  match a with
  | [] => concat_out2 b
  | Item x :: r => ROk x :: concat_out r b
  | Err e :: _ => [RErr e]
  end.

Lemma concat_done_drains : forall st, c_done st = true -> drains_to concat_next st [].
Proof. intros st H. apply drains_done. unfold concat_next. now rewrite H. Qed.

Lemma concat_second_drains : forall b k once old,
  wf b = true ->
  drains_to concat_next (mkConcat (open_src b k) None false once old) (upto_err b).
Proof.
  induction b as [|e r IH]; intros k once old Hwf.
  - eapply drains_done_step; [reflexivity|]. apply concat_done_drains. reflexivity.
  - simpl in Hwf. apply andb_true_iff in Hwf. destruct Hwf as [He Hr]. destruct e as [x|c].
    + simpl. eapply drains_step; [reflexivity|]. apply IH. exact Hr.
    + simpl. simpl in He. eapply drains_step.
      * unfold concat_next. simpl. rewrite (negb_true_iff _) in He. rewrite He. reflexivity.
      * apply concat_done_drains. reflexivity.
Qed.

Theorem concat_drains : forall a b,
  wf a = true -> wf b = true ->
  drains_to concat_next (concat_init a b) (concat_out a b).
Proof.
  intros a b Ha Hb. unfold concat_init.
  assert (G : forall a k once old, wf a = true ->
            drains_to concat_next (mkConcat (open_src a k) (Some (src_of b)) false once old) (concat_out a b)).
  { clear a Ha. induction a as [|e r IH]; intros k once old Ha.
    - simpl. destruct b as [|eb rb].
      + simpl. eapply drains_done_step; [reflexivity|].
        eapply drains_done_step; [reflexivity|]. apply concat_done_drains. reflexivity.
      + simpl in Hb. apply andb_true_iff in Hb. destruct Hb as [Heb Hrb]. destruct eb as [x|c].
        * simpl. eapply drains_step; [reflexivity|]. apply (concat_second_drains rb). exact Hrb.
        * simpl. eapply drains_step; [reflexivity|]. apply (concat_second_drains rb). exact Hrb.
    - simpl in Ha. apply andb_true_iff in Ha. destruct Ha as [He Hr]. destruct e as [x|c].
      + simpl. eapply drains_step; [reflexivity|]. apply IH. exact Hr.
      + simpl. simpl in He. eapply drains_step.
        * unfold concat_next. simpl. rewrite (negb_true_iff _) in He. rewrite He. reflexivity.
        * apply concat_done_drains. reflexivity. }
  apply (G a 0 false None Ha).
Qed.

Lemma upto_err_clean : forall l, clean l = true -> upto_err l = map ROk (items l).
Proof.
  induction l as [|e r IH]; simpl; intro H; [reflexivity|].
  destruct e; simpl in H; [|discriminate]. simpl. now rewrite IH.
Qed.

Lemma concat_out_clean : forall a b, clean a = true -> clean b = true ->
  concat_out a b = map ROk (items a ++ items b).
Proof.
  induction a as [|e r IH]; intros b Ha Hb.
  - simpl. destruct b as [|[x|c] rb]; simpl in *; try reflexivity; try discriminate.
    now rewrite upto_err_clean.
  - destruct e; simpl in Ha; [|discriminate]. simpl. now rewrite IH.
Qed.

(* concat_spec: error-free iterators are concatenated *)
Theorem concat_spec : forall xs ys,
  drains_to concat_next (concat_init (map Item xs) (map Item ys)) (map ROk (xs ++ ys)).
Proof.
  intros xs ys.
  pose proof (concat_drains (map Item xs) (map Item ys)
                (clean_wf _ (clean_map_Item xs)) (clean_wf _ (clean_map_Item ys))) as H.
  rewrite concat_out_clean in H by apply clean_map_Item.
  now rewrite !items_map_Item in H.
Qed.

(* an error of the first iterator surfaces after exactly the items before it and ends the iteration *)
Theorem concat_error_position_first : forall xs e r b,
  concat_out (map Item xs ++ Err e :: r) b = map ROk xs ++ [RErr e].
Proof. induction xs as [|x t IH]; intros; simpl; [reflexivity | now rewrite IH]. Qed.
Theorem concat_error_position_second : forall xs ys e r, ys <> [] ->
  concat_out (map Item xs) (map Item ys ++ Err e :: r) = map ROk xs ++ map ROk ys ++ [RErr e].
Proof.
  induction xs as [|x t IH]; intros ys e r Hy; simpl.
  - destruct ys as [|y ys']; [contradiction|]. simpl. f_equal.
    clear. induction ys' as [|z t IH]; simpl; [reflexivity | now rewrite IH].
  - now rewrite IH.
Qed.

Lemma concat_head_unsupported : forall st, concat_head st = (RErr EHeadUnsupported, st).
Proof. reflexivity. Qed.
Lemma concat_stop_idem : forall st, concat_stop (concat_stop st) = concat_stop st.
Proof. intro st. unfold concat_stop. destruct (c_once st) eqn:E; simpl; [now rewrite E | reflexivity]. Qed.

(* after Stop, Next answers ErrIteratorDone: for every state in which "stopped once" implies "done" *)
Definition concat_ok (st : concat_st) : Prop := c_once st = true -> c_done st = true.
Lemma concat_ok_init : forall a b, concat_ok (concat_init a b).
Proof. intros a b H. discriminate. Qed.
Lemma concat_ok_step : forall o st, concat_ok st -> concat_ok (snd (step1 concat_next concat_head concat_stop o st)).
Proof.
  intros o st Hok. destruct o; simpl.
  - unfold concat_next. destruct (c_done st) eqn:Ed; [exact Hok|].
    assert (Hn : c_once st = false).
    { unfold concat_ok in Hok. destruct (c_once st); [specialize (Hok eq_refl); congruence | reflexivity]. }
    destruct (src_next (c_cur st)) as [[v [e|]] cur1]; simpl.
    + destruct (is_done e); [destruct (c_nxt st) as [nx|]; [destruct (src_next nx)|]|];
        intro H; simpl in *; congruence.
    + intro H; simpl in *; congruence.
  - exact Hok.
  - unfold concat_stop. destruct (c_once st) eqn:E; [exact Hok | intro; reflexivity].
Qed.
Lemma concat_ok_run : forall ops st, concat_ok st ->
  concat_ok (snd (run concat_next concat_head concat_stop ops st)).
Proof.
  induction ops as [|o r IH]; intros st Hok; simpl; [exact Hok|].
  pose proof (concat_ok_step o st Hok) as H1.
  destruct (step1 concat_next concat_head concat_stop o st) as [x s1]. simpl in H1.
  specialize (IH s1 H1). destruct (run concat_next concat_head concat_stop r s1). exact IH.
Qed.
Theorem concat_stop_then_done : forall a b ops,
  drains_to concat_next (concat_stop (snd (run concat_next concat_head concat_stop ops (concat_init a b)))) [].
Proof.
  intros a b ops. pose proof (concat_ok_run ops _ (concat_ok_init a b)) as Hok.
  set (st := snd (run concat_next concat_head concat_stop ops (concat_init a b))) in *.
  apply concat_done_drains. unfold concat_stop. destruct (c_once st) eqn:E; [apply Hok; exact E | reflexivity].
Qed.
