(* Proofs about the reference counting of shared iterators (C09). *)
From OFGA Require Import Cache.CachedIter Cache.CachedIterProofs Cache.CachedIterShared.
From Coq Require Import Lia ZArith.
Open Scope Z_scope.

Definition sh_inv (st : shst) : Prop :=
  sh_refs st = Z.of_nat (sh_live st) /\
  (sh_inner_stopped st = true <-> sh_live st = 0%nat).

Lemma filter_negb_app l : length (filter negb (l ++ [false])) = S (length (filter negb l)).
Proof. rewrite filter_app, app_length. simpl. lia. Qed.

Lemma filter_negb_upd l j :
  nth_error l j = Some false ->
  length (filter negb l) = S (length (filter negb (upd_nth j true l))).
Proof.
  revert j; induction l as [|b l IH]; intros [|j] H; simpl in *; try discriminate.
  - inversion H; subst. reflexivity.
  - destruct b; simpl; rewrite (IH j H); reflexivity.
Qed.

Lemma sh_step_inv st o : sh_inv st -> sh_inv (fst (sh_step st o)).
Proof.
  intros (Hr & Hi). destruct st as [refs base clones inner]. unfold sh_inv, sh_live in *; simpl in *.
  destruct o as [|j|]; simpl.
  - destruct base; simpl; [split; assumption|].
    rewrite filter_negb_app. split; [lia|].
    split; [intro H; apply Hi in H; lia|lia].
  - destruct (nth_error clones j) as [[|]|] eqn:En; simpl; try (split; assumption).
    pose proof (filter_negb_upd clones j En) as Hl.
    split; [lia|].
    assert (Hin : inner = false).
    { destruct inner; [|reflexivity]. assert (true = true) as Ht by reflexivity. apply Hi in Ht. lia. }
    subst inner. simpl. rewrite Z.eqb_eq. split; intro H; lia.
  - destruct base; simpl; [split; assumption|].
    split; [lia|].
    assert (Hin : inner = false).
    { destruct inner; [|reflexivity]. assert (true = true) as Ht by reflexivity. apply Hi in Ht. lia. }
    subst inner. simpl. rewrite Z.eqb_eq. split; intro H; lia.
Qed.

Lemma sh_init_inv : sh_inv sh_init.
Proof. unfold sh_inv, sh_live; simpl. split; [reflexivity|]. split; intro H; discriminate. Qed.

Lemma shared_refs_count_live_lemma h :
  let st := sh_run sh_init h in
  sh_refs st = Z.of_nat (sh_live st) /\ (sh_inner_stopped st = true <-> sh_live st = 0%nat).
Proof.
  assert (Hgen : forall h st, sh_inv st -> sh_inv (sh_run st h)).
  { clear h. induction h as [|o h IH]; intros st HI; [exact HI|]. simpl. apply IH. apply sh_step_inv. exact HI. }
  apply Hgen. apply sh_init_inv.
Qed.

(* the underlying iterator is never stopped while the storage item can still hand out clones, or
   while any clone has not been stopped by its consumer -- however often the others call Stop *)
Lemma shared_inner_open_while_live_lemma h :
  let st := sh_run sh_init h in
  (sh_base_stopped st = false \/ existsb negb (sh_clones st) = true) -> sh_inner_stopped st = false.
Proof.
  intros st H. destruct (shared_refs_count_live_lemma h) as (_ & Hi). fold st in Hi.
  destruct (sh_inner_stopped st) eqn:E; [|reflexivity].
  assert (Hl : sh_live st = 0%nat) by (apply Hi; reflexivity).
  unfold sh_live in Hl. destruct H as [H|H].
  - rewrite H in Hl. discriminate.
  - exfalso. assert (Hz : length (filter negb (sh_clones st)) = 0%nat) by lia.
    apply length_zero_iff_nil in Hz.
    apply existsb_exists in H. destruct H as (b & Hin & Hb).
    assert (In b (filter negb (sh_clones st))) by (apply filter_In; auto).
    rewrite Hz in H. contradiction.
Qed.

Fixpoint sh_run_unguarded (st : shst) (h : list shop) : shst :=
  match h with [] => st | o :: h' => sh_run_unguarded (fst (sh_step_unguarded st o)) h' end.

(* with an unguarded decrement a double Stop of one clone closes the underlying iterator while the
   item is still admitted *)
Lemma unguarded_stop_breaks_refs_lemma :
  let st := sh_run_unguarded sh_init [SClone; SStop 0; SStop 0] in
  sh_base_stopped st = false /\ sh_inner_stopped st = true.
Proof. vm_compute. split; reflexivity. Qed.
