#!/usr/bin/env python3
"""bin/coqreplay_c07.py <cases.rec> <oracle-dump> [max_cases]

Cross-check of extraction for C07: recomputes, INSIDE Coq with vm_compute, the numbers the extracted
OCaml oracle computed for the first `max_cases` batch records with the model Query/Batch.v
(validation verdict, number of groups, DuplicateCheckCount, outcome code per correlation id under the
request-order and the reversed schedule, no_key_collision, check_respects, and in api mode the API
response) and compares them with the oracle's dump.  Prints `COQREPLAY ok ...` or the mismatches;
exit 1 on a mismatch."""
import os, re, subprocess, sys
rec, dump = sys.argv[1], sys.argv[2]
maxc = int(sys.argv[3]) if len(sys.argv) > 3 else 30
V = os.path.dirname(os.path.dirname(os.path.abspath(__file__)))
COQ = os.path.join(V, "coq")

def parse(tokens):
    out, stack = [], []
    cur = out
    for t in tokens:
        if t == "(":
            new = []
            cur.append(new); stack.append(cur); cur = new
        elif t == ")":
            cur = stack.pop()
        elif t.startswith("x"):
            cur.append(bytes.fromhex(t[1:]))
        else:
            cur.append(int(t))
    return out

def N(i): return "%d%%N" % i
def lst(xs): return "[" + "; ".join(xs) + "]"
OUT = ["Allowed true", "Allowed false", "ItemError EInvalidRelation", "ItemError EInvalidTuple", "ItemError EDepth",
       "ItemError ECondEval", "ItemError EInvalidContext", "ItemError EThrottled", "ItemError EDeadline", "ItemError EOther"]

cases = []
for line in open(rec):
    if line.startswith("!"): continue
    cols = line.rstrip("\n").split("\t")
    if len(cols) < 2: continue
    toks = cols[1].split()
    if not toks or toks[0] != "2": continue
    # only the head of the record is needed: version mode maxn fieldsbad cache items
    vals = parse(toks)
    cases.append((cols[0], vals))
    if len(cases) >= maxc: break

want = {}
for line in open(dump):
    p = line.split()
    if p: want[p[0]] = [int(x) for x in p[1:]]

v = ["From OFGA Require Import Query.Batch.", "Open Scope N_scope.",
     "Definition ocode (o : outcome) : N := match o with",
     "  | Allowed true => 0 | Allowed false => 1 | ItemError EInvalidRelation => 2 | ItemError EInvalidTuple => 3",
     "  | ItemError EDepth => 4 | ItemError ECondEval => 5 | ItemError EInvalidContext => 6 | ItemError EThrottled => 7",
     "  | ItemError EDeadline => 8 | ItemError EOther => 9 end.",
     "Definition acode (a : api_item) : N := match a with",
     "  | AAllowed true => 0 | AAllowed false => 1 | AError CValidationError => 10 | AError CInvalidTuple => 11",
     "  | AError CTooComplex => 12 | AError CDeadline => 13 | AError CInternal => 14 end.",
     "Definition bN (b : bool) : N := if b then 1 else 0.",
     "Definition dbytes (b : bytes) : list N := N.of_nat (length b) :: b.",
     "Definition drej (r : reject) : list N := match r with",
     "  | RTooMany => [1] | REmptyBatch => [2] | REmptyId i => [3; N.of_nat i] | RDupId id => 4 :: dbytes id end.",
     "Definition dresp (n : nat) (r : response) : list N := match r with",
     "  | Rejected rj => drej rj",
     "  | Results rs d => [0; N.of_nat (n - d); N.of_nat d; N.of_nat (length rs)] ++",
     "                    flat_map (fun p : bytes * outcome => dbytes (fst p) ++ [ocode (snd p)]) rs",
     "  | Panic => [5] end.",
     "Definition dapi (r : api_response) : list N := match r with",
     "  | ApiInvalidArgument => [10] | ApiValidationError rj => 11 :: drej rj",
     "  | ApiResults rs => 12 :: N.of_nat (length rs) :: flat_map (fun p : bytes * api_item => dbytes (fst p) ++ [acode (snd p)]) rs",
     "  | ApiPanic => [13] end.",
     "Definition one (api : bool) (maxn : N) (items : list (bytes * rec_payload)) : list N :=",
     "  let n := length items in",
     "  dresp n (rec_batch maxn [] items) ++ dresp n (rec_batch maxn (rev (seq 0 n)) items) ++",
     "  [bN (rec_no_key_collision items); bN (rec_check_respects items)] ++",
     "  (if api then dapi (rec_api_batch maxn [] items) else [])."]
ids = []
for cid, vals in cases:
    _, mode, maxn, fieldsbad, cache, items = vals[:6]
    its = []
    for it in items:
        idb, k, c, o = it[0], it[1], it[2], it[3]
        its.append("(%s, {| rp_key := %s; rp_class := %s; rp_out := %s |})" % (lst([N(b) for b in idb]), N(k), N(c), OUT[o] if 0 <= o < 10 else OUT[9]))
    items_v = lst(its) if its else "(@nil (bytes * rec_payload))"
    v.append("Eval vm_compute in (%s, one %s %s %s)." % (N(int(cid) + 1000000), "true" if mode == 1 else "false", N(maxn), items_v))
    ids.append(cid)
os.makedirs(os.path.join(V, "build", "coqreplay"), exist_ok=True)
vf = os.path.join(V, "build", "coqreplay", "c07_cases.v")
open(vf, "w").write("\n".join(v) + "\n")
p = subprocess.run(["coqc", "-Q", COQ, "OFGA", "-w", "-notation-overridden,-deprecated", vf], stdout=subprocess.PIPE, stderr=subprocess.STDOUT, text=True, timeout=3000)
if p.returncode != 0:
    print("COQREPLAY coqc failed:\n" + p.stdout[-2000:]); sys.exit(1)
got = {}
for chunk in p.stdout.split("= (")[1:]:
    nums = [int(x) for x in re.findall(r"\d+", chunk.split(": N *")[0])]
    got[str(nums[0] - 1000000)] = nums[1:]
bad = 0; total = 0
for cid in ids:
    w = want.get(cid)
    g = got.get(cid)
    total += len(w or [])
    if g != w:
        bad += 1
        print("COQREPLAY mismatch case %s: coq=%s ocaml=%s" % (cid, (g or [])[:40], (w or [])[:40]))
print("COQREPLAY %s %d batches (%d numbers: verdict, groups, duplicates, outcome per id x 2 schedules, hypotheses, api response)" % ("ok" if not bad else "MISMATCH", len(ids), total))
sys.exit(1 if bad else 0)
