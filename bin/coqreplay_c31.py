#!/usr/bin/env python3
"""bin/coqreplay_c31.py <cases.rec> <oracle-dump> [max_cases]

Cross-check of extraction for C31: replays the first `max_cases` histories of the record file
INSIDE Coq with vm_compute - the same traces the extracted oracle computes (mem_s_trace /
sql_s_trace for server histories, mem_d_trace / sql_d_trace for datastore histories) - and
compares per operation the result class and a checksum of the returned list with the oracle's
dump.  Histories with more than 40000 payload bytes are skipped."""
import sys, os
sys.path.insert(0, os.path.dirname(os.path.abspath(__file__)))
from coqreplay_storehist import *

PRELUDE = "From OFGA Require Import Base.Bytes Store.Assertions.\n" + CHK + r"""
Definition casrts (l : list asrt) : N := fold_left (fun a x => cadd (cbytes a (a_enc x)) 256) l 0.
Definition ecode (e : serr) : N :=
  match e with EInvalidArgument => 1 | EModelNotFound => 2 | ETooLarge => 4 | EValidation => 5 | EInternal => 7 end.
Definition scode (o : sout) : list N :=
  match o with SOk => [0; 0] | SList l => [1; casrts l] | SErr e => [10 + ecode e; 0] end.
Definition dcode (o : dout) : list N :=
  match o with DOk => [0; 0] | DList l => [1; casrts l] | DErr => [2; 0] end.
Definition run_s (mem : bool) (h : list sop) : list N :=
  flat_map (fun p => scode (snd p)) (if mem then mem_s_trace h else sql_s_trace h).
Definition run_d (mem : bool) (h : list dop) : list N :=
  flat_map (fun p => dcode (snd p)) (if mem then mem_d_trace h else sql_d_trace h).
"""

def main(rec, dump, maxc):
    I = Interner()
    terms = []
    for cid, col in records(rec):
        if len(col) > 2 * 40000 + 4000:
            continue
        vals = parse(col.split())
        layer, backend, ops = vals
        def asrts(l):
            return lst(["(mkAsrt %s %s %s %s)" % (I.b(a[0]), N(a[1]), boolc(a[2]), boolc(a[3])) for a in l])
        hs = []
        for op in ops:
            k, s, m = op[0], op[1], op[2]
            if layer == 1:
                if k == 0: hs.append("SAddModel %s %s" % (I.b(s), I.b(m)))
                elif k == 1: hs.append("SWrite %s %s %s" % (I.b(s), I.b(m), asrts(op[3])))
                else: hs.append("SRead %s %s" % (I.b(s), I.b(m)))
            else:
                if k == 1: hs.append("DWrite %s %s %s" % (I.b(s), I.b(m), asrts(op[3])))
                else: hs.append("DRead %s %s" % (I.b(s), I.b(m)))
        f = "run_s" if layer == 1 else "run_d"
        terms.append((cid, "%s %s %s" % (f, boolc(backend == 0), lst(["(%s)" % h for h in hs]))))
        if len(terms) >= maxc:
            break
    return run_and_compare("c31", PRELUDE, I, terms, dump, "result class and checksum of the returned assertion list per operation")

if __name__ == "__main__":
    sys.exit(main(sys.argv[1], sys.argv[2], int(sys.argv[3]) if len(sys.argv) > 3 else 15))
