#!/usr/bin/env python3
"""bin/coqreplay_c05.py <cases.rec> <oracle-dump> [max_cases]

Cross-check of extraction for C05: recomputes, INSIDE Coq with vm_compute, the numbers the
extracted OCaml oracle computed for the first `max_cases` scenario records (see dump_case in
ocaml/c05_oracle.ml): per request stratified, converged, |universe|, |permitted| and the sum of the
permitted ids from Sem, outcome-set mask and trigger bits of Check/V1.v for the first universe
object; per recorded candidate stream that ended without error |candidates|, nofurther_sound,
complete, nodupb and (length, order-sensitive checksum) of evaluate (limit 0 and 2), execute
(limit 0, error after one send) and pipeline_recv (limit 0 and 2).  Prints `COQREPLAY ok ...` or the
mismatches; exit 1 on a mismatch."""
import os, re, subprocess, sys
rec, dump = sys.argv[1], sys.argv[2]
maxc = int(sys.argv[3]) if len(sys.argv) > 3 else 12
V = os.path.dirname(os.path.dirname(os.path.abspath(__file__)))
COQ = os.path.join(V, "coq")

def parse(tokens):
    out, stack = [], []
    cur = out
    for t in tokens:
        if t == "(":
            new = []
            cur.append(new); stack.append(cur); cur = new
        elif t == ")":
            cur = stack.pop()
        else:
            cur.append(int(t))
    return out

def N(i): return "%d%%N" % i
def lst(xs): return "[" + "; ".join(xs) + "]"
def obj(t, i): return "{| otype := %s; oid := %s |}" % (N(t), N(i))
def subject(s):
    if s[0] == 0: return "(SObj %s)" % obj(s[1], s[2])
    if s[0] == 1: return "(SWild %s)" % N(s[1])
    return "(SSet %s %s)" % (obj(s[1], s[2]), N(s[3]))
def rw(r):
    k = r[0]
    if k == 0: return "This"
    if k == 1: return "(Computed %s)" % N(r[1])
    if k == 2: return "(TTU %s %s)" % (N(r[1]), N(r[2]))
    if k == 3: return "(Union %s)" % lst([rw(x) for x in r[1:]])
    if k == 4: return "(Inter %s)" % lst([rw(x) for x in r[1:]])
    return "(Diff %s %s)" % (rw(r[1]), rw(r[2]))
def restr(r):
    kind = ["RObj", "RWild", "(RSet %s)" % N(r[2])][r[1]]
    return "{| r_type := %s; r_kind := %s; r_cond := %s |}" % (N(r[0]), kind, N(r[3]))
def model(m):
    return lst(["{| td_type := %s; td_rels := %s |}" % (N(td[0]), lst(
        ["{| rd_rel := %s; rd_rw := %s; rd_restr := %s |}" % (N(rd[0]), rw(rd[1]), lst([restr(x) for x in rd[2]])) for rd in td[1]])) for td in m])
def tup(t):
    return "{| t_obj := %s; t_rel := %s; t_sub := %s; t_cond := %s; t_ceval := %s |}" % (obj(t[0], t[1]), N(t[2]), subject(t[3]), N(t[4]), ["T", "F", "E"][t[5]])

cases = []
for line in open(rec):
    if line.startswith("!"): continue
    cols = line.rstrip("\n").split("\t")
    if len(cols) < 2: continue
    vals = parse(cols[1].split())
    if vals and vals[0] == 1:
        cases.append((cols[0], vals))
    if len(cases) >= maxc: break

want = {}
for line in open(dump):
    p = line.split()
    if p:
        want[p[0]] = [int(x) for x in p[1:]]

v = ["From OFGA Require Import Check.V1 Query.ListObjects.", "Open Scope N_scope.",
     "Definition bit (a : aout) : N := match a with AT => 1 | AFn => 2 | AFc => 4 | AEc => 8 | AEd => 16 | AEo => 32 | AFuel => 64 end.",
     "Definition mask (s : oset) : N := fold_left (fun acc a => N.lor acc (bit a)) s 0.",
     "Definition bN (b : bool) : N := if b then 1 else 0.",
     "Fixpoint uniqN (l : list N) : list N := match l with [] => [] | x :: l' => x :: filter (fun y => negb (N.eqb y x)) (uniqN l') end.",
     "Definition lc (l : list nat) : list N :=",
     "  [N.of_nat (length l); snd (fold_left (fun (p : N * N) (x : nat) => (fst p + 1, snd p + fst p * N.of_nat x)) l (1, 0))].",
     "Definition strm (chk : nat -> bool) (univ : list nat) (cands : list (cand nat)) : list N :=",
     "  let arrival := map (fun i => Nat.modulo i 3) (seq 0 (length cands)) in",
     "  let values := map fst cands in",
     "  [N.of_nat (length cands); bN (nofurther_sound_nat chk cands); bN (complete_nat chk univ cands); bN (nodupb_nat values)] ++",
     "  lc (evaluate_nat cands chk 0%nat arrival) ++ lc (evaluate_nat cands chk 2%nat arrival) ++",
     "  (match execute_nat cands chk 0%nat arrival (Some 1%nat) with Objects _ l => lc l | Failed _ => [999; 0] end) ++",
     "  lc (pipeline_recv_nat (values ++ values) 0%nat) ++ lc (pipeline_recv_nat (values ++ values) 2%nat).",
     "Definition req (m : model) (cs : list cid) (st : list tuple) (ats : list atom) (md fuel : nat)",
     "  (s : subject) (px : list (tid * rid)) (ot rel : N) (streams : list (list (cand nat))) : list N :=",
     "  let '(v, conv) := lfp m cs st s ats in",
     "  let univ := uniqN (map (fun a : atom => oid (fst a)) (filter (fun a : atom => N.eqb (otype (fst a)) ot) ats)) in",
     "  let objof := fun i : N => {| otype := ot; oid := i |} in",
     "  let perm := filter (fun i => match atomval s v (objof i) rel with T => true | _ => false end) univ in",
     "  let chk := fun n : nat => existsb (N.eqb (N.of_nat n)) perm in",
     "  [bN (stratified m); bN conv; N.of_nat (length univ); N.of_nat (length perm); fold_left N.add perm 0] ++",
     "  (match univ with",
     "   | i :: _ => let '(os, tr) := check_top m cs st s px md fuel (objof i) rel in",
     "               [mask os; bN (tr_excl_sub_cycle tr) + 2 * bN (tr_swallow tr)]",
     "   | [] => [0; 0] end) ++",
     "  flat_map (strm chk (map N.to_nat univ)) streams."]
ids = []
nreq = 0
for cid, vals in cases:
    _, m, conds, tuples, atoms, md, requests = vals
    fuel = len(atoms) + 3
    parts = []
    for rq in requests:
        subj, px, ot, rel, runs, streams = rq[:6]
        ss = []
        for st in streams:
            if st[2] != 0: continue
            ss.append(lst(["(%d%%nat, %s)" % (c[0], "NoFurtherEval" if c[1] == 1 else "RequiresFurtherEval") for c in st[3]]))
        parts.append("req m cs st ats %d%%nat %d%%nat %s %s %s %s (%s : list (list (cand nat)))" % (
            md, fuel, subject(subj), lst(["(%s, %s)" % (N(p[0]), N(p[1])) for p in px]), N(ot), N(rel), lst(ss)))
        nreq += 1
    v.append("Definition case_%s : list N := let m := %s in let cs := %s in let st := %s in let ats := %s in %s." % (
        cid, model(m), "(%s : list cid)" % lst([N(c) for c in conds]), "(%s : list tuple)" % lst([tup(t) for t in tuples]),
        "(%s : list atom)" % lst(["(%s, %s)" % (obj(a[0], a[1]), N(a[2])) for a in atoms]), " ++ ".join(parts) or "[]"))
    v.append('Eval vm_compute in (%s, case_%s).' % (N(int(cid) + 1000000), cid))
    ids.append(cid)
os.makedirs(os.path.join(V, "build", "coqreplay"), exist_ok=True)
vf = os.path.join(V, "build", "coqreplay", "c05_cases.v")
open(vf, "w").write("\n".join(v) + "\n")
p = subprocess.run(["coqc", "-Q", COQ, "OFGA", "-w", "-notation-overridden,-deprecated", vf], stdout=subprocess.PIPE, stderr=subprocess.STDOUT, text=True, timeout=3000)
if p.returncode != 0:
    print("COQREPLAY coqc failed:\n" + p.stdout[-2000:]); sys.exit(1)
got = {}
for chunk in p.stdout.split("= (")[1:]:
    nums = [int(x) for x in re.findall(r"\d+", chunk.split(": N *")[0])]
    got[str(nums[0] - 1000000)] = nums[1:]
bad = 0; total = 0
for cid in ids:
    w = want.get(cid)
    g = got.get(cid)
    total += len(w or [])
    if g != w:
        bad += 1
        k = next((i for i, (a, b) in enumerate(zip(g or [], w or [])) if a != b), min(len(g or []), len(w or [])))
        print("COQREPLAY mismatch case %s at position %d: coq=%s ocaml=%s" % (cid, k, (g or [])[max(0, k - 3):k + 6], (w or [])[max(0, k - 3):k + 6]))
print("COQREPLAY %s %d model values (Sem permitted sets, V1 masks/triggers, evaluate/execute/pipeline_recv outputs) of %d requests in %d cases" % (
    "ok" if not bad else "MISMATCH", total, nreq, len(ids)))
sys.exit(1 if bad else 0)
