#!/usr/bin/env python3
"""bin/coqreplay_c11.py <cases.rec> <oracle-dump> [max_cases] — extraction cross-check for C11.
The resolver-level cases (a configuration and a timeline of Write / Request (forest of sub-problems) /
RaceRead / InvStart / InvRead / InvFinish with measured instants) are replayed INSIDE Coq: the same
fold over Controller.step that the extracted OCaml oracle performs (a Tick up to the operation's
instant, then the operation) is evaluated by vm_compute, and the per-operation numbers (answer
provenance, query / iterator hits, trigger and spawn flags, run decisions with their markers) plus the
final clock, changelog length and ghost counter are compared with the numbers the oracle dumped.
End-to-end cases (kind 9) have no model part and are skipped."""
import os, re, subprocess, sys
rec, dump = sys.argv[1], sys.argv[2]
maxc = int(sys.argv[3]) if len(sys.argv) > 3 else 30
V = os.path.dirname(os.path.dirname(os.path.abspath(__file__)))


def parse(toks):
    def go(i):
        out = []
        while i < len(toks):
            t = toks[i]
            if t == "(":
                sub, i = go(i + 1)
                out.append(sub)
            elif t == ")":
                return out, i + 1
            else:
                out.append(int(t))
                i += 1
        return out, i
    return go(0)[0]


def N(x):
    return "%d%%N" % x


def B(x):
    return "true" if x else "false"


def nl(xs):
    return "[" + "; ".join(N(x) for x in xs) + "]"


def key(k):
    if k[0] == 0:
        return "(KOR %s %s %s %s)" % (N(k[1]), N(k[2]), N(k[3]), N(k[4]))
    return "(KUOT %s %s %s)" % (nl(k[1]), N(k[2]), N(k[3]))


def tups(ws):
    return "[" + "; ".join("mkTup %s %s %s %s %s" % (N(t[0]), N(t[1]), N(t[2]), N(t[3]), B(t[4])) for t in ws) + "]"


def forest(nodes):
    """list of ( id (keys) (children) ) -> first-child / next-sibling term"""
    if not nodes:
        return "QNil"
    n = nodes[0]
    return "(QCons %s [%s] %s %s)" % (N(n[0]), "; ".join(key(k) for k in n[1]), forest(n[2]), forest(nodes[1:]))


want = {}
for line in open(dump):
    p = line.split()
    if p:
        want[p[0]] = [int(x) for x in p[1:]]

raw = []
for line in open(rec):
    if line.startswith("!"):
        continue
    cols = line.split("\t", 2)
    if len(cols) < 2 or cols[0] not in want or cols[1].startswith("( 9 "):
        continue
    raw.append((cols[0], cols[1]))
# spread over the file (the generator mixes the templates); only the chosen records are parsed
step = max(1, len(raw) // maxc)
chosen = []
for cid, txt in raw[::step][:maxc]:
    v = parse(txt.split())
    if len(v) == 2 and len(v[0]) == 6:
        chosen.append((cid, v))

PRELUDE = r"""
From Coq Require Import NArith List Bool.
Import ListNotations.
From OFGA Require Import Cache.Controller.
Open Scope N_scope.
Definition bN (b : bool) : N := if b then 1 else 0.
Definition nn (n : nat) : N := N.of_nat n.
Definition enc_marker (m : mkey) : list N :=
  match m with MStore => [0] | MOR t i r => [1; t; i; r] | MUOT u t => [2; u; t] end.
Definition enc_out (o : out) : list N :=
  match o with
  | OUnit => [1]
  | OAns a qh ih trig sp =>
      [2; nn (length a)] ++ map (fun p => nn (snd p)) a ++ [nn (length qh)] ++ map bN qh
      ++ [nn (length ih)] ++ map bN ih ++ [bN trig; bN sp]
  | OStart b => [3; bN b]
  | ORead b => [4; bN b]
  | OFin d =>
      match d with
      | DNoRun => [5; 0] | DError => [5; 1] | DNoNew => [5; 2] | DNoneInWindow => [5; 3] | DFull => [5; 4]
      | DPartial ms => [5; 5; nn (length ms)] ++ flat_map enc_marker ms
      end
  end.
(* a Tick up to the instant of the operation, then the operation *)
Fixpoint replay (c : cfg) (ops : list (N * op)) (s : state) : list N :=
  match ops with
  | [] => [s_now s; nn (length (s_db s)); nn (s_done s)]
  | (tb, o) :: r =>
      let s1 := if s_now s <? tb then fst (step c s (Tick (tb - s_now s))) else s in
      let '(s2, x) := step c s1 o in
      enc_out x ++ replay c r s2
  end.
Definition cfg_of (qon ion : bool) (qttl ittl intv jit : N) : cfg :=
  mkCfg qon ion qttl ittl intv 31536000000000000 50 jit 1 true.
"""

v = [PRELUDE]
ids = []
for cid, (cf, ops) in chosen:
    terms = []
    ok = True
    for o in ops:
        k, tb = o[0], o[1]
        if k == 1:
            t = "Write %s" % tups(o[3])
        elif k == 2:
            t = "Request %s true %s %s" % (forest([o[3]]), N(o[9]), nl(o[10]))
        elif k == 3:
            t = "InvStart"
        elif k == 4:
            t = "InvRead"
        elif k == 5:
            t = "InvFinish"
        elif k == 6:
            t = "RaceRead %s %s true %s" % (key(o[3]), tups(o[4]), N(o[7]))
        else:
            ok = False
            break
        terms.append("(%s, %s)" % (N(tb), t))
    if not ok:
        continue
    ids.append(cid)
    v.append("Eval vm_compute in (%s, replay (cfg_of %s %s %s %s %s %s) [%s] init_state)." %
             (N(int(cid) + 1000000), B(cf[0]), B(cf[1]), N(cf[2]), N(cf[3]), N(cf[4]), N(cf[5]), ";\n  ".join(terms)))
os.makedirs(os.path.join(V, "build", "coqreplay"), exist_ok=True)
vf = os.path.join(V, "build", "coqreplay", "c11_cases.v")
open(vf, "w").write("\n".join(v) + "\n")
p = subprocess.run(["coqc", "-Q", os.path.join(V, "coq"), "OFGA", "-w", "-notation-overridden,-deprecated", vf],
                   stdout=subprocess.PIPE, stderr=subprocess.STDOUT, text=True, timeout=1800)
if p.returncode != 0:
    print("COQREPLAY coqc failed:\n" + p.stdout[-3000:])
    sys.exit(1)
got = {}
for chunk in p.stdout.split("= (")[1:]:
    nums = [int(x) for x in re.findall(r"\d+", chunk.split(": N *")[0])]
    got[str(nums[0] - 1000000)] = nums[1:]
bad = 0
nops = 0
for cid in ids:
    if got.get(cid) != want.get(cid):
        bad += 1
        print("COQREPLAY mismatch case %s: coq=%s ocaml=%s" % (cid, got.get(cid), want.get(cid)))
for cid, (cf, ops) in chosen:
    if cid in ids:
        nops += len(ops)
print("COQREPLAY %s %d timelines (%d operations) replayed by vm_compute over Controller.step" %
      ("ok" if not bad else "MISMATCH", len(ids), nops))
sys.exit(1 if bad else 0)
