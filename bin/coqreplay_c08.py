#!/usr/bin/env python3
"""bin/coqreplay_c08.py <cases.rec> <oracle-dump> [max_cases]

Cross-check of extraction for C08: replays, INSIDE Coq with vm_compute, the whole request history
of the first `max_cases` records through the cached-history fold Check/QueryCache.run_history (one
cache partition per (world, subject); ListObjects steps = one request per atom of the type) and
compares with the numbers the extracted OCaml oracle dumped (ORACLE_DUMP): per request the outcome
set as a bit mask, per partition the size and a checksum of the final cache, and for the first
Check / BatchCheck items the hazard predicate (v2_visited_hazard over the earlier roots of the
partition and over reach of the request itself).  Prints `COQREPLAY ok ...` or the mismatches;
exit 1 on a mismatch."""
import os, re, subprocess, sys
rec, dump = sys.argv[1], sys.argv[2]
maxc = int(sys.argv[3]) if len(sys.argv) > 3 else 6
V = os.path.dirname(os.path.dirname(os.path.abspath(__file__)))
COQ = os.path.join(V, "coq")
DUMP_HAZARDS = 6

def parse(tokens):
    out, stack = [], []
    cur = out
    for t in tokens:
        if t == "(":
            new = []
            cur.append(new); stack.append(cur); cur = new
        elif t == ")":
            cur = stack.pop()
        else:
            cur.append(int(t))
    return out

def N(i): return "%d%%N" % i
def lst(xs): return "[" + "; ".join(xs) + "]"
def obj(t, i): return "{| otype := %s; oid := %s |}" % (N(t), N(i))
def subject(s):
    if s[0] == 0: return "(SObj %s)" % obj(s[1], s[2])
    if s[0] == 1: return "(SWild %s)" % N(s[1])
    return "(SSet %s %s)" % (obj(s[1], s[2]), N(s[3]))
def rw(r):
    k = r[0]
    if k == 0: return "This"
    if k == 1: return "(Computed %s)" % N(r[1])
    if k == 2: return "(TTU %s %s)" % (N(r[1]), N(r[2]))
    if k == 3: return "(Union %s)" % lst([rw(x) for x in r[1:]])
    if k == 4: return "(Inter %s)" % lst([rw(x) for x in r[1:]])
    return "(Diff %s %s)" % (rw(r[1]), rw(r[2]))
def restr(r):
    kind = ["RObj", "RWild", "(RSet %s)" % N(r[2])][r[1]]
    return "{| r_type := %s; r_kind := %s; r_cond := %s |}" % (N(r[0]), kind, N(r[3]))
def model(m):
    return lst(["{| td_type := %s; td_rels := %s |}" % (N(td[0]), lst(
        ["{| rd_rel := %s; rd_rw := %s; rd_restr := %s |}" % (N(rd[0]), rw(rd[1]), lst([restr(x) for x in rd[2]])) for rd in td[1]])) for td in m])
def tup(t):
    return "{| t_obj := %s; t_rel := %s; t_sub := %s; t_cond := %s; t_ceval := %s |}" % (obj(t[0], t[1]), N(t[2]), subject(t[3]), N(t[4]), ["T", "F", "E"][t[5]])
def atom(o_t, o_i, r): return "(%s, %s)" % (obj(o_t, o_i), N(r))

cases = []
for line in open(rec):
    if line.startswith("!"): continue
    cols = line.rstrip("\n").split("\t")
    if len(cols) < 2: continue
    vals = parse(cols[1].split())
    if vals and vals[0] == 1:
        cases.append((cols[0], vals))
    if len(cases) >= maxc: break

want = {}
for line in open(dump):
    p = line.split()
    if p:
        want[p[0]] = [int(x) for x in p[1:]]

v = ["From OFGA Require Import Check.V1 Check.QueryCache.", "Open Scope N_scope.",
     "Definition bit (a : aout) : N := match a with AT => 1 | AFn => 2 | AFc => 4 | AEc => 8 | AEd => 16 | AEo => 32 | AFuel => 64 end.",
     "Definition mask (s : oset) : N := fold_left (fun acc a => N.lor acc (bit a)) s 0.",
     "Definition bN (b : bool) : N := if b then 1 else 0.",
     "Definition cks (c : cache) : N := fold_left (fun acc (e : atom * bool) =>",
     "  (acc * 31 + otype (fst (fst e)) * 10007 + oid (fst (fst e)) * 101 + snd (fst e) * 3 + bN (snd e)) mod 1000003) c 0.",
     "Definition part (g : gcache) (p : N) : list N := [p; N.of_nat (length (glook g p)); cks (glook g p)].",
     "Definition hz (m : model) (st : list tuple) (gf : nat) (prevs : list atom) (a : atom) : N :=",
     "  bN (existsb (fun prev => v2_visited_hazard m st gf prev a) prevs ||",
     "      existsb (fun prev => v2_visited_hazard m st gf prev a) (reach m st gf a)).",
     "Definition dflt : penv := {| pe_model := []; pe_conds := []; pe_store := []; pe_subj := SWild 0; pe_pathx := []; pe_maxdepth := O |}."]
ids = []
nreq = 0
for cid, vals in cases:
    _, models, worlds, atoms, subjects, depth, _flags, steps, _engines = vals
    fuel = len(atoms) + 3
    gfuel = (len(atoms) + max([len(w[1]) for w in worlds] + [0])) * 4 + 16
    pid = lambda w, s: w * 100 + s + 1
    qs, used, hz_calls = [], set(), []
    earlier = []   # (step index, partition, atom text), as the oracle's `earlier`
    # first pass: the roots of every step (for `earlier si`)
    step_roots = []
    for st in steps:
        if st[0] == 0:
            it = st[1]; step_roots.append(("c", [(pid(it[0], it[1]), atom(it[2], it[3], it[4]))]))
        elif st[0] == 1:
            step_roots.append(("b", [(pid(it[0], it[1]), atom(it[2], it[3], it[4])) for it in st[1]]))
        else:
            step_roots.append(("l", []))
    left = DUMP_HAZARDS
    for si, st in enumerate(steps):
        kind = st[0]
        items = [st[1]] if kind in (0, 2) else st[1]
        for it in items:
            w, s, ot, oi, r = it
            p = pid(w, s)
            if kind == 2:
                for a in atoms:
                    if a[0] == ot and a[2] == r:
                        qs.append("{| q_part := %s; q_obj := %s; q_rel := %s |}" % (N(p), obj(a[0], a[1]), N(a[2])))
                        used.add((w, s))
                continue
            qs.append("{| q_part := %s; q_obj := %s; q_rel := %s |}" % (N(p), obj(ot, oi), N(r)))
            used.add((w, s))
            if left > 0:
                left -= 1
                prevs = []
                for sj in range(si + 1):
                    k, roots = step_roots[sj]
                    if k == "c" and sj < si:
                        prevs += [a for (pp, a) in roots if pp == p]
                    elif k == "b":
                        prevs += [a for (pp, a) in roots if pp == p]
                hz_calls.append("hz m%d st%d %d %s %s" % (worlds[w][0], w, gfuel, lst(prevs), atom(ot, oi, r)))
    nreq += len(qs)
    defs = []
    for mi, mv in enumerate(models):
        defs.append("let m%d : model := %s in let cs%d : list cid := %s in" % (mi, model(mv[0]), mi, lst([N(c) for c in mv[1]])))
    for wi, wv in enumerate(worlds):
        defs.append("let st%d : list tuple := %s in" % (wi, lst([tup(t) for t in wv[1]])))
    envs = "dflt"
    for (w, s) in sorted(used, reverse=True):
        mi = worlds[w][0]
        px = worlds[w][2][s]
        envs = ("if N.eqb p %s then {| pe_model := m%d; pe_conds := cs%d; pe_store := st%d; pe_subj := %s; pe_pathx := %s; pe_maxdepth := %d |} else %s"
                % (N(pid(w, s)), mi, mi, w, subject(subjects[s]), lst(["(%s, %s)" % (N(a), N(b)) for a, b in px]), depth, envs))
    body = ("let '(outs, g) := run_history (fun p : N => %s) true %d %s [] in map mask outs ++ %s ++ %s"
            % (envs, fuel, "(" + lst(qs) + " : list request)", " ++ ".join(["part g %s" % N(pid(w, s)) for (w, s) in sorted(used)]) or "([] : list N)", "(" + lst(hz_calls) + " : list N)"))
    v.append("Definition case_%s : list N := %s %s." % (cid, " ".join(defs), body))
    v.append("Eval vm_compute in (%s, case_%s)." % (N(int(cid) + 1000000), cid))
    ids.append(cid)
os.makedirs(os.path.join(V, "build", "coqreplay"), exist_ok=True)
vf = os.path.join(V, "build", "coqreplay", "c08_cases.v")
open(vf, "w").write("\n".join(v) + "\n")
p = subprocess.run(["coqc", "-Q", COQ, "OFGA", "-w", "-notation-overridden,-deprecated", vf], stdout=subprocess.PIPE, stderr=subprocess.STDOUT, text=True, timeout=3000)
if p.returncode != 0:
    print("COQREPLAY coqc failed:\n" + p.stdout[-2000:]); sys.exit(1)
got = {}
for chunk in p.stdout.split("= (")[1:]:
    nums = [int(x) for x in re.findall(r"\d+", chunk.split(": N *")[0])]
    got[str(nums[0] - 1000000)] = nums[1:]
bad = 0
for cid in ids:
    w = want.get(cid)
    g = got.get(cid)
    if g is None or w is None or g != w:
        bad += 1
        print("COQREPLAY mismatch case %s: coq=%s ocaml=%s" % (cid, (g or [])[:40], (w or [])[:40]))
print("COQREPLAY %s %d requests (masks, final caches, hazard predicate) in %d histories" % ("ok" if not bad else "MISMATCH", nreq, len(ids)))
sys.exit(1 if bad else 0)
