#!/usr/bin/env python3
"""bin/coqreplay_c22.py <cases.rec> <oracle-dump> [max_cases] — extraction cross-check for C22.
The sequential record kinds (1 = MPMC call sequence, 2 = MPSC call sequence, 6 = wake-up probe
schedules, 7 = media call sequences) are replayed INSIDE Coq: the same folds over Mpmc.step /
Mpsc.mstep / Medium.med_step that the extracted OCaml oracle performs are evaluated by vm_compute
and the per-call numbers (result code, value, Size, Capacity / latch) are compared with the numbers
the oracle dumped.  The linearizability search over free-running histories (kinds 3, 4) exists only
in OCaml and is not covered."""
import os, re, subprocess, sys
rec, dump = sys.argv[1], sys.argv[2]
maxc = int(sys.argv[3]) if len(sys.argv) > 3 else 40
V = os.path.dirname(os.path.dirname(os.path.abspath(__file__)))


def parse(toks):
    """tokens -> nested lists of ints"""
    def go(i):
        out = []
        while i < len(toks):
            t = toks[i]
            if t == "(":
                sub, i = go(i + 1)
                out.append(sub)
            elif t == ")":
                return out, i + 1
            else:
                out.append(int(t))
                i += 1
        return out, i
    return go(0)[0]


def pow2(n):
    return n > 0 and n & (n - 1) == 0


def nl(xs):
    return "[" + "; ".join("%d%%N" % x for x in xs) + "]"


def pl(ps):
    return "[" + "; ".join("(%s)" % ", ".join("%d%%N" % x for x in p) for p in ps) + "]"


want = {}
for line in open(dump):
    p = line.split()
    if p:
        want[p[0]] = [int(x) for x in p[1:]]

by_kind = {1: [], 2: [], 6: [], 7: []}
for line in open(rec):
    if line.startswith("!"):
        continue
    cols = line.rstrip("\n").split("\t")
    if len(cols) < 2:
        continue
    v = parse(cols[1].split())
    if v and v[0] in by_kind and cols[0] in want:
        by_kind[v[0]].append((cols[0], v))
share = max(1, (maxc - len(by_kind[6])) // 3) if maxc > len(by_kind[6]) else 1
chosen = by_kind[6][:maxc]
for k in (1, 2, 7):
    lst = by_kind[k]
    st = max(1, len(lst) // share)
    chosen += lst[::st][:share]

PRELUDE = r"""
From OFGA Require Import Conc.FifoSpec Conc.Mpmc Conc.Medium.
From OFGA Require Import Conc.Mpsc.
Open Scope N_scope.
Definition F : nat := N.to_nat 5000.
Definition bN (b : bool) : N := if b then 1 else 0.
Definition nn (n : nat) : N := N.of_nat n.
Fixpoint last_o {A} (l : list A) : option A :=
  match l with nil => None | x :: nil => Some x | _ :: r => last_o r end.

(* ---- kind 1: MPMC call sequence, one model thread per call ---- *)
Definition tres (s : state) (t : nat) : option result :=
  match nth_error (thr s) t with
  | Some th => if thread_idle_done th then last_o (res th) else None
  | None => None
  end.
Definition sc (s : state) : list N := [nn (size (g s)); nn (cap (g s))].
Fixpoint take_k (k : nat) (s : state) (t : nat) (stop : bool) (acc : list N) : state * nat * list N :=
  match k with
  | O => (s, t, acc)
  | S k' =>
      if stop then take_k k' s (S t) true acc
      else let s' := run_thread F s t in
           match tres s' t with
           | Some (RRecv (Some v)) => take_k k' s' (S t) false (acc ++ [v])
           | _ => take_k k' s' (S t) true acc
           end
  end.
Fixpoint replay1 (ops : list (N * N)) (s : state) (t : nat) : list N :=
  match ops with
  | nil => nil
  | (c, a) :: r =>
      if c =? 0 then
        let s' := run_thread F s t in
        (match tres s' t with Some (RSend _ true) => [1; 0] | Some (RSend _ false) => [0; 0]
                            | None => [2; 0] | _ => [7; 0] end) ++ sc s' ++ replay1 r s' (S t)
      else if c =? 1 then
        let s' := run_thread F s t in
        (match tres s' t with Some (RRecv (Some v)) => [1; v] | Some (RRecv None) => [0; 0]
                            | None => [2; 0] | _ => [7; 0] end) ++ sc s' ++ replay1 r s' (S t)
      else if (c =? 2) || (c =? 3) then
        let s' := run_thread F s t in sc s' ++ replay1 r s' (S t)
      else if c =? 5 then
        let '(s1, t1, got) := take_k (N.to_nat a) s t false nil in
        let s2 := run_thread F s1 t1 in
        (nn (length got) :: got) ++ sc s2 ++ replay1 r s2 (S t1)
      else sc s ++ replay1 r s t
  end.
Definition progs1 (ops : list (N * N)) : list (list op) :=
  flat_map (fun ca => let '(c, a) := ca in
     if c =? 0 then [[OSend a]] else if c =? 1 then [[ORecv]] else if c =? 2 then [[OClose]]
     else if c =? 3 then [[OGrow (N.to_nat a)]]
     else if c =? 5 then repeat [ORecv] (N.to_nat a) ++ [[OClose]] else nil) ops.
Definition k1 (capn : N) (unlimited : bool) (exts : N) (ops : list (N * N)) : list N :=
  replay1 ops (init (N.to_nat capn) (if unlimited then None else Some (N.to_nat exts)) (progs1 ops)) 0.

(* ---- kind 2: MPSC call sequence ---- *)
Fixpoint run_call (n : nat) (s : mstate) (tid : nat) (nres : mstate -> nat) (before : nat) : mstate :=
  match n with
  | O => s
  | S n' => match mstep s tid with
            | Some s' => if Nat.ltb before (nres s') then s' else run_call n' s' tid nres before
            | None => s
            end
  end.
Definition pres_len (k : nat) (s : mstate) : nat :=
  match nth_error (prods s) k with Some p => length (pres p) | None => O end.
Fixpoint replay2 (ops : list N) (s : mstate) : list N :=
  match ops with
  | nil => nil
  | t :: r =>
      if t =? 0 then
        let before := length (cres (cons s)) in
        let s' := run_call F s O (fun st => length (cres (cons st))) before in
        (if Nat.ltb before (length (cres (cons s')))
         then match last_o (cres (cons s')) with
              | Some (CRRecv (Some v)) | Some (CRTry (Some v)) => [1; v]
              | _ => [0; 0] end
         else [2; 0]) ++ replay2 r s'
      else
        let k := N.to_nat (t - 1) in
        let before := pres_len k s in
        let s' := run_call F s (N.to_nat (t + 1)) (pres_len k) before in
        (if Nat.ltb before (pres_len k s')
         then match nth_error (prods s') k with
              | Some p => match last_o (pres p) with
                          | Some (PRSend _ true) => [1; 0] | Some (PRSend _ false) => [0; 0]
                          | Some PRClose => [3; 0] | Some PRCloseNoop => [4; 0] | None => [2; 0] end
              | None => [2; 0] end
         else [2; 0]) ++ replay2 r s'
  end.

(* ---- kind 6: probe schedules ---- *)
Fixpoint until_m (n : nat) (s : mstate) : mstate :=
  match n with O => s | S n' =>
    match c_pc (cons s) with V_park => s | _ => match mstep s O with Some s' => until_m n' s' | None => s end end end.
Definition trunc_res (ncalls : nat) (l : list (N * N)) : list N :=
  let fix go (l : list (N * N)) : list (N * N) :=
    match l with nil => nil | (r, v) :: q => if r =? 1 then (r, v) :: go q else [(r, v)] end in
  let t := go l in
  let t' := if Nat.ltb (length t) ncalls && forallb (fun rv => fst rv =? 1) t then t ++ [(2, 0)] else t in
  flat_map (fun rv => [fst rv; snd rv]) t'.
Definition probe_mpsc (n : nat) (hook : list pop) : list N :=
  let s := until_m 20 (minit (repeat CRecv n) [hook]) in
  let s := mrun_thread F s 2 in
  let s := mrun_thread F s 0 in
  trunc_res n (map (fun r => match r with CRRecv (Some v) | CRTry (Some v) => (1, v) | _ => (0, 0) end) (cres (cons s))).
Fixpoint until_pc (n : nat) (p : pc) (s : state) : state :=
  match n with O => s | S n' =>
    match nth_error (thr s) 0 with
    | Some th => if match tpc th, p with R_park, R_park => true | S_park, S_park => true | _, _ => false end then s
                 else match step s O with Some s' => until_pc n' p s' | None => s end
    | None => s end end.
Definition probe_mpmc (n : nat) (hook : list op) : list N :=
  let s := until_pc 50 R_park (init 2 (Some O) [repeat ORecv n; hook]) in
  let s := run_thread F s 1 in
  let s := run_thread F s 0 in
  trunc_res n (match nth_error (thr s) 0 with
               | Some th => map (fun r => match r with RRecv (Some v) => (1, v) | _ => (0, 0) end) (res th)
               | None => nil end).
Definition probe8 : list N :=
  let s := until_pc 200 S_park (init 2 (Some O) [[OSend 1; OSend 2; OSend 3]; [ORecv]]) in
  let s := run_thread F s 1 in
  let s := run_thread F s 0 in
  let sent := match nth_error (thr s) 0 with
              | Some th => if Nat.eqb (length (res th)) 3
                           then match last_o (res th) with Some (RSend _ true) => 1 | Some (RSend _ false) => 0 | _ => 2 end
                           else 2
              | None => 9 end in
  let got := match nth_error (thr s) 1 with
             | Some th => match last_o (res th) with Some (RRecv (Some v)) => v | _ => 0 end | None => 9 end in
  [sent; got; nn (size (g s)); 0].
Definition probe9 : list N :=
  [bN (multi_receiver lw_progs &&
       match run_strict (init 2 (Some O) lw_progs) lw_sched with Some s => lost_wakeup_state s 1 | None => false end)].

(* ---- kind 7: media ---- *)
(* op = (code, live, arg, choice, alt) *)
Fixpoint replay7 (ops : list (N * N * N * N * N)) (s : medium) : list N :=
  match ops with
  | nil => nil
  | (c, l, a, ch, alt) :: r =>
      let o := if c =? 0 then MSend (l =? 1) a else if c =? 1 then MRecv (l =? 1) (ch =? 1) else MClose in
      let '(s1, r1) := match (if alt =? 1 then med_step_alt s o else None) with
                       | Some x => x | None => med_step s o end in
      (match r1 with
       | MRSend true => [1; 0] | MRSend false => [0; 0]
       | MRRecv (Some v) => [1; v] | MRRecv None => [0; 0]
       | MRBlock => [2; 0] | MRClose => [0; 0] | MRPanic => [7; 0] end)
      ++ [bN (latch s1)] ++ replay7 r s1
  end.
"""

v = [PRELUDE]
ids = []
for cid, rec_v in chosen:
    kind = rec_v[0]
    call = None
    if kind == 1:
        capn, exts, valid, ops = rec_v[1], rec_v[2], rec_v[3], rec_v[4]
        if valid == 0 or capn < 2 or not pow2(capn):
            continue
        enc = []
        for o in ops:
            code, arg = o[0], o[1]
            if code == 3 and not pow2(arg):
                code = 4
            enc.append((code, arg))
        call = "k1 %d%%N %s %d%%N %s" % (capn, "true" if exts < 0 else "false", max(exts, 0), pl(enc))
    elif kind == 2:
        nprod, ops = rec_v[1], rec_v[2]
        cprog = ["CRecv" if o[1] == 1 else "CTryRecv" for o in ops if o[0] == 0]
        pprogs = []
        for k in range(nprod):
            pprogs.append(["(PSend %d%%N)" % o[2] if o[1] == 0 else "PClose" for o in ops if o[0] == k + 1])
        call = "replay2 %s (minit [%s] [%s])" % (nl([o[0] for o in ops]), "; ".join(cprog),
                                                 "; ".join("[" + "; ".join(p) + "]" for p in pprogs))
    elif kind == 6:
        var = rec_v[1]
        call = {1: "probe_mpsc 1 [PSend 1]", 2: "probe_mpsc 2 [PSend 1; PSend 2]", 3: "probe_mpsc 1 [PClose]",
                4: "probe_mpsc 2 [PSend 1; PClose]", 5: "probe_mpmc 1 [OSend 1]", 6: "probe_mpmc 1 [OClose]",
                7: "probe_mpmc 2 [OSend 1; OSend 2]", 8: "probe8", 9: "probe9"}.get(var)
    elif kind == 7:
        mk, capn, ops = rec_v[1], rec_v[2], rec_v[3]
        enc = []
        for o in ops:
            code, live, arg, res = o[0], o[1], o[2], o[3]
            if res == 9 and code == 0:
                continue
            enc.append((code, live, arg, 1 if res == 1 else 0, 1 if (code == 0 and live == 0 and res == 1) else 0))
        kk = {0: "MQueue", 1: "MAcc"}.get(mk, "(MChan %d)" % capn)
        call = "replay7 %s (minit_medium %s)" % (pl(enc), kk)
    if call:
        ids.append(cid)
        v.append("Eval vm_compute in (%d%%N, %s)." % (int(cid) + 1000000, call))
os.makedirs(os.path.join(V, "build", "coqreplay"), exist_ok=True)
vf = os.path.join(V, "build", "coqreplay", "c22_cases.v")
open(vf, "w").write("\n".join(v) + "\n")
p = subprocess.run(["coqc", "-Q", os.path.join(V, "coq"), "OFGA", "-w", "-notation-overridden,-deprecated", vf],
                   stdout=subprocess.PIPE, stderr=subprocess.STDOUT, text=True, timeout=1800)
if p.returncode != 0:
    print("COQREPLAY coqc failed:\n" + p.stdout[-3000:])
    sys.exit(1)
got = {}
for chunk in p.stdout.split("= (")[1:]:
    nums = [int(x) for x in re.findall(r"\d+", chunk.split(": N *")[0])]
    got[str(nums[0] - 1000000)] = nums[1:]
bad = 0
for cid in ids:
    if got.get(cid) != want.get(cid):
        bad += 1
        print("COQREPLAY mismatch case %s: coq=%s ocaml=%s" % (cid, got.get(cid), want.get(cid)))
kinds = {}
for cid, rv in chosen:
    if cid in ids:
        kinds[rv[0]] = kinds.get(rv[0], 0) + 1
print("COQREPLAY %s %d cases replayed by vm_compute over Mpmc.step / Mpsc.mstep / Medium.med_step (per kind %s)" %
      ("ok" if not bad else "MISMATCH", len(ids), kinds))
sys.exit(1 if bad else 0)
