#!/usr/bin/env python3
"""bin/coqreplay_c32.py <cases.rec> <oracle-dump> [max_cases]

Cross-check of extraction for C32: recomputes, INSIDE Coq with vm_compute, what the extracted
OCaml model computed for every Evaluation / Evaluations / SubjectSearch / ResourceSearch call of
the first `max_cases` records: checksums of the mapped native request (user, relation, object,
model id from the header, merged context as a map), the evaluation outcome code and the batch
outcome codes for every semantics option, with Check given by the record's table of native
answers (total: an unknown request errs with code 999).  Compares with the oracle's dump; prints
`COQREPLAY ok ...` or the mismatches; exit 1 on a mismatch."""
import os, re, subprocess, sys
rec, dump = sys.argv[1], sys.argv[2]
maxc = int(sys.argv[3]) if len(sys.argv) > 3 else 10
V = os.path.dirname(os.path.dirname(os.path.abspath(__file__)))
COQ = os.path.join(V, "coq")

def parse(tokens):
    out, stack = [], []
    cur = out
    for t in tokens:
        if t == "(":
            new = []
            cur.append(new); stack.append(cur); cur = new
        elif t == ")":
            cur = stack.pop()
        elif t.startswith("x"):
            cur.append(bytes.fromhex(t[1:]))
        else:
            cur.append(int(t))
    return out

def N(i): return "%d%%N" % i
def lst(xs): return "[" + "; ".join(xs) + "]"
POOL = {}
def bts(b):
    # byte strings are pooled per case (most repeat: model ids, users, objects) and referred to by
    # index: keeps the generated terms small, elaboration of long literals dominates otherwise
    if b not in POOL:
        POOL[b] = len(POOL)
    return "(G %d%%nat)" % POOL[b]
def opt(v, f): return "None" if len(v) == 0 else "(Some %s)" % f(v[0])
def props(v): return opt(v, lambda l: lst(["(%s, %s)" % (bts(kv[0]), bts(kv[1])) for kv in l]))
def ent(v): return opt(v, lambda e: "{| e_type := %s; e_id := %s; e_props := %s |}" % (bts(e[0]), bts(e[1]), props(e[2])))
def act(v): return opt(v, lambda e: "{| a_name := %s; a_props := %s |}" % (bts(e[0]), props(e[2])))

cases = []
for line in open(rec):
    if line.startswith("!"): continue
    cols = line.rstrip("\n").split("\t")
    if len(cols) < 2: continue
    vals = parse(cols[1].split())
    if vals and vals[0] == 1 and len(vals) == 5:
        cases.append((cols[0], vals))
    if len(cases) >= maxc: break

want = {}
for line in open(dump):
    p = line.split()
    want.setdefault(p[0], []).extend(int(x) for x in p[1:])

v = ["From Coq Require Import List NArith Bool.", "From OFGA Require Import Base.Bytes Query.Authzen.",
     "Import ListNotations.", "Open Scope N_scope.",
     "Definition V := list N. Definition E := (N * N)%type.",
     "Definition bsum (s : list N) : N := fold_left N.add s 0.",
     "Definition len {A : Type} (l : list A) : N := N.of_nat (length l).",
     "Fixpoint dedup (seen : list bytes) (l : pstruct V) : pstruct V :=",
     "  match l with [] => [] | (k, x) :: l' => if existsb (beqb k) seen then dedup seen l' else (k, x) :: dedup (k :: seen) l' end.",
     "Definition ctx_cs (c : option (pstruct V)) : list N :=",
     "  match c with None => [0; 0] | Some l => let d := dedup [] l in [len d; fold_left (fun acc kv => acc + bsum (fst kv) * 31 + bsum (snd kv)) d 0] end.",
     "Definition q_cs (q : check_req V) : list N :=",
     "  [bsum (q_user V q); len (q_user V q); bsum (q_relation V q); bsum (q_object V q); len (q_object V q); bsum (q_model V q)] ++ ctx_cs (q_context V q).",
     "Definition oeq (a b : option V) : bool := match a, b with Some x, Some y => beqb x y | None, None => true | _, _ => false end.",
     "Definition ctx_eqb (a b : option (pstruct V)) : bool :=",
     "  let la := opt_struct V a in let lb := opt_struct V b in",
     "  forallb (fun kv => oeq (lookup V (fst kv) la) (lookup V (fst kv) lb)) la && forallb (fun kv => oeq (lookup V (fst kv) la) (lookup V (fst kv) lb)) lb.",
     "Definition entry := (bytes * bytes * bytes * bytes * option (pstruct V) * cres E)%type.",
     "Definition check_t (latest : bytes) (tbl : list entry) (q : check_req V) : cres E :=",
     "  let m := match q_model V q with [] => latest | x => x end in",
     "  match find (fun e : entry => let '(u, r, o, md, c, _) := e in",
     "     beqb u (q_user V q) && beqb r (q_relation V q) && beqb o (q_object V q) && beqb md m && ctx_eqb c (q_context V q)) tbl with",
     "  | Some e => snd e | None => CErr E (999, 0) end.",
     "Definition dsd (e : E) : N := snd e. Definition dsb (e : E) : N := snd e + 1000.",
     "Definition eval_code (latest : bytes) (tbl : list entry) (h : option bytes) (s r : option (entity V)) (a : option (action V)) (c : option (pstruct V)) : list N :=",
     "  100 :: match build_check_request V [] (model_id_from_header h) s r a c with",
     "         | inl MissingSubject => [0; 1] | inl MissingResource => [0; 2] | inl MissingAction => [0; 3] | inr q => 1 :: q_cs q end ++",
     "  [match evaluation V E (check_t latest tbl) {| ev_store := []; ev_header := h; ev_subject := s; ev_resource := r; ev_action := a; ev_context := c |} with",
     "   | EvDecision _ b => if b then 1 else 0 | EvInvalidArg _ => 2 | EvError _ e => 10 + fst e end].",
     "Definition evals_code (latest : bytes) (tbl : list entry) (top : evals_req V) : list N :=",
     "  101 :: match evaluations V E (check_t latest tbl) (fun qs => inr (map (check_t latest tbl) qs)) dsd dsb top with",
     "         | EsOk _ l => 200 :: len l :: map (fun r => match r with RDecision b => if b then 1 else 0 | RDenyErr st => 2 + st end) l",
     "         | EsInvalidArg _ => [201] | EsError _ e => [202; fst e] end.",
     "Definition ss_code (h : option bytes) (s r : option (entity V)) (a : option (action V)) (c : option (pstruct V)) : list N :=",
     "  match s, r, a with",
     "  | Some s', Some r', Some a' =>",
     "    let q := subject_search_map V {| ss_store := []; ss_header := h; ss_resource := r'; ss_action := a'; ss_subject := {| f_type := e_type V s'; f_props := e_props V s' |}; ss_context := c |} in",
     "    [102; bsum (lu_obj_type V q); bsum (lu_obj_id V q); bsum (lu_relation V q); bsum (lu_filter_type V q); bsum (lu_model V q)] ++ ctx_cs (lu_context V q)",
     "  | _, _, _ => [102; 0] end.",
     "Definition rs_code (h : option bytes) (s r : option (entity V)) (a : option (action V)) (c : option (pstruct V)) : list N :=",
     "  match s, r, a with",
     "  | Some s', Some r', Some a' =>",
     "    let q := resource_search_map V {| rs_store := []; rs_header := h; rs_subject := s'; rs_action := a'; rs_resource := {| f_type := e_type V r'; f_props := e_props V r' |}; rs_context := c |} in",
     "    [103; bsum (lo_user V q); bsum (lo_relation V q); bsum (lo_type V q); bsum (lo_model V q)] ++ ctx_cs (lo_context V q)",
     "  | _, _, _ => [103; 0] end."]
ids = []
ncalls = 0
for cid, vals in cases:
    _, latest, checks, lists, calls = vals
    POOL.clear()
    tbl = []
    for c in checks:
        u, r, o, ctx, m, out = c
        res = "(CAllow E %s)" % ("true" if out[1] else "false") if out[0] == 0 else "(CErr E (%s, %s))" % (N(out[1]), N(out[2]))
        tbl.append("(%s, %s, %s, %s, %s, %s)" % (bts(u), bts(r), bts(o), bts(m), props(ctx), res))
    parts = []
    for c in calls:
        kind, _, header, sv, rv, av, ctxv, itemsv, semv, _, _ = c
        h = opt(header, bts)
        if kind == 0:
            parts.append("eval_code latest tbl %s %s %s %s %s" % (h, ent(sv), ent(rv), act(av), props(ctxv)))
        elif kind == 1:
            items = lst(["{| i_subject := %s; i_resource := %s; i_action := %s; i_context := %s |}" % (ent(it[0]), ent(it[1]), act(it[2]), props(it[3])) for it in itemsv])
            sem = opt(semv, N)
            parts.append("evals_code latest tbl {| es_store := []; es_header := %s; es_subject := %s; es_resource := %s; es_action := %s; es_context := %s; es_items := %s; es_options := %s |}" % (
                h, ent(sv), ent(rv), act(av), props(ctxv), items, sem))
        elif kind == 2:
            parts.append("ss_code %s %s %s %s %s" % (h, ent(sv), ent(rv), act(av), props(ctxv)))
        elif kind == 3:
            parts.append("rs_code %s %s %s %s %s" % (h, ent(sv), ent(rv), act(av), props(ctxv)))
        else:
            parts.append("[104]")
    ncalls += len(parts)
    lat = bts(latest)
    pool = sorted(POOL.items(), key=lambda kv: kv[1])
    v.append("Definition pool_%s : list (list N) := %s." % (cid, lst([lst([str(c) for c in b]) for b, _ in pool])))
    v.append("Definition case_%s : list N := let G := fun i : nat => nth i pool_%s [] in let latest : bytes := %s in let tbl : list entry := %s in\n  concat %s." % (
        cid, cid, lat, lst(tbl), lst(["(%s)" % p for p in parts])))
    v.append("Eval vm_compute in (%s, case_%s)." % (N(int(cid) + 1000000), cid))
    ids.append(cid)
os.makedirs(os.path.join(V, "build", "coqreplay"), exist_ok=True)
vf = os.path.join(V, "build", "coqreplay", "c32_cases.v")
open(vf, "w").write("\n".join(v) + "\n")
p = subprocess.run(["coqc", "-Q", COQ, "OFGA", "-w", "-notation-overridden,-deprecated", vf], stdout=subprocess.PIPE, stderr=subprocess.STDOUT, text=True, timeout=3000)
if p.returncode != 0:
    print("COQREPLAY coqc failed:\n" + p.stdout[-2000:]); sys.exit(1)
got = {}
for chunk in p.stdout.split("= (")[1:]:
    nums = [int(x) for x in re.findall(r"\d+", chunk.split(": N *")[0])]
    got[str(nums[0] - 1000000)] = nums[1:]
bad = 0
for cid in ids:
    w = want.get(cid, [])
    g = got.get(cid)
    if g != w:
        bad += 1
        i = next((k for k in range(min(len(g or []), len(w))) if g[k] != w[k]), min(len(g or []), len(w)))
        print("COQREPLAY mismatch case %s at number %d: coq=%s ocaml=%s" % (cid, i, (g or [])[max(0, i - 6):i + 6], w[max(0, i - 6):i + 6]))
print("COQREPLAY %s %d AuthZEN calls in %d cases (mapped native requests, merged contexts, evaluation and batch outcome codes recomputed by vm_compute)" % ("ok" if not bad else "MISMATCH", ncalls, len(ids)))
sys.exit(1 if bad else 0)
