#!/usr/bin/env python3
"""bin/coqreplay_c19.py <cases.rec> <oracle-dump> [max_cases] — extraction cross-check for C19: a
sample of the records that have a model behind them (kinds 2-8) is re-evaluated inside Coq
(vm_compute over Sec/NoPanic.v) and compared with the numbers the extracted OCaml oracle dumped.
Per kind: 2 read_request_mem + negative_offset_token, 3 read_page_mem, 4 pb_write_i (or enc_pb for
large values: length and byte sum of the bytes, visit count, stack height), 5 the pkg/tuple *_go
functions, 6 wire_min / rdepth / struct_walk on a chain, 7 model_cost (hasCycle call budget),
8 fate_of / recover_to_error."""
import os, re, subprocess, sys
rec, dump = sys.argv[1], sys.argv[2]
maxc = int(sys.argv[3]) if len(sys.argv) > 3 else 40
V = os.path.dirname(os.path.dirname(os.path.abspath(__file__)))

def bl(tok):
    b = bytes.fromhex(tok[1:]) if tok.startswith("x") else b""
    return "[" + "; ".join(str(x) for x in b) + "]%N"

def parse(toks):
    """record column -> nested python lists / strings"""
    out, stack = [], []
    cur = out
    for t in toks:
        if t == "(":
            new = []
            cur.append(new); stack.append(cur); cur = new
        elif t == ")":
            cur = stack.pop()
        else:
            cur.append(t)
    return out

def zlit(s):
    return "(%s)%%Z" % s

def pb(v):
    k = v[0]
    if k == "0": return "PNull"
    if k == "1": return "(PNum %s%%N)" % v[1]
    if k == "2": return "(PStr %s)" % bl(v[1])
    if k == "3": return "(PBool %s)" % ("true" if v[1] != "0" else "false")
    if k == "4": return "PUnset"
    if k == "5": return "(PList [" + "; ".join(pb(x) for x in v[1:]) + "])"
    if k == "6":
        fs = []
        rest = v[1:]
        for i in range(0, len(rest), 2):
            fs.append("(%s, %s)" % (bl(rest[i]), pb(rest[i + 1])))
        return "(PStruct [" + "; ".join(fs) + "])"
    raise ValueError(v)

def pbsize(v):
    return 1 + sum(pbsize(x) for x in v[1:] if isinstance(x, list))

def rw(v):
    k = v[0]
    if k == "0": return "RThis"
    if k == "1": return "RTTU"
    if k == "2": return "(RComputed %s%%N)" % v[1]
    return "(RNode [" + "; ".join(rw(x) for x in v[1:]) + "])"

def rwcount(v):
    return 1 + sum(rwcount(x) for x in v[1:] if isinstance(x, list))

want = {}
for line in open(dump):
    p = line.split()
    want[p[0]] = [int(x) for x in p[1:]]

bykind = {}
for line in open(rec):
    if line.startswith("!"):
        continue
    cols = line.rstrip("\n").split("\t")
    if cols[0] not in want or len(cols[1]) > 12000:
        continue
    k = cols[1].split(" ", 1)[0]
    bykind.setdefault(k, []).append((cols[0], cols[1].split()))

# the same share for every kind, cases spread over the file
kinds = [k for k in "2345678" if k in bykind]
per = max(1, maxc // max(1, len(kinds)))
chosen = []
for k in kinds:
    l = bykind[k]
    step = max(1, len(l) // per)
    chosen += l[::step][:per]

v = ["From OFGA Require Import Base.Bytes Sec.NoPanic.",
     "From OFGA Require Store.Paging Codec.KeyEnc.",
     "From Coq Require Import ZArith.",
     "Import KeyEnc.",
     "Open Scope N_scope.",
     "Definition sg (l : bytes) : list N := [N.of_nat (length l); fold_left N.add l 0].",
     "Definition zs (z : Z) : list N := match z with Z0 => [0; 0] | Zpos p => [0; Npos p] | Zneg p => [1; Npos p] end.",
     "Definition pgs (m : go (option (list N * option Z))) : list N :=",
     "  match m with Panic => [2;0;0;0;0;0] | NoPanic.OutOfFuel => [3;0;0;0;0;0] | Ok None => [0;0;0;0;0;0]",
     "  | Ok (Some (items, nx)) => [1; N.of_nat (length items); fold_left N.add items 0] ++",
     "      match nx with None => [0;0;0] | Some z => 1 :: zs z end end.",
     "Definition lst (n : N) : list N := map N.of_nat (seq 0 (N.to_nat n)).",
     "Definition k2 (n : N) (ps : Z) (tok : bytes) : list N :=",
     "  [2] ++ pgs (read_request_mem (lst n) ps tok) ++ [if negative_offset_token tok then 1 else 0].",
     "Definition k3 (n : N) (size : Z) (from : bytes) : list N := [3] ++ pgs (read_page_mem (lst n) size from).",
     "Definition k4 (v : pbval) : list N :=",
     "  match pb_write_i v with",
     "  | Ok r => [4; 1] ++ sg (wr_bytes r) ++ [N.of_nat (length (wr_visits r)); N.of_nat (wr_maxh r)]",
     "  | _ => [4; 0; 0; 0; 0; 0] end.",
     "Definition k4big (v : pbval) : list N := [4; 2] ++ sg (enc_pb v) ++ [N.of_nat (pb_size v); 0].",
     "Definition o2 (o : go (bytes * bytes)) : list N :=",
     "  match o with Ok (x, y) => [1] ++ sg x ++ sg y | _ => [0;0;0;0;0] end.",
     "Definition k5 (s a b c : bytes) : list N :=",
     "  [5] ++ match to_user_parts_go s with Ok (x, y, z) => [1; N.of_nat (length x); N.of_nat (length y); N.of_nat (length z)] | _ => [0] end",
     "  ++ o2 (split_object_go s) ++ o2 (split_object_relation_go s)",
     "  ++ match from_user_parts_go a b c with Ok x => 1 :: sg x | _ => [0;0;0] end.",
     "Fixpoint chain (d : nat) : rose := match d with O | S O => Rose [] | S d' => Rose [chain d'] end.",
     "Definition k6 (md size : N) : list N :=",
     "  let t := chain (N.to_nat md) in",
     "  [6; N.of_nat (wire_min t); N.of_nat (rdepth t);",
     "   match struct_walk (N.to_nat (size / 2 + 1)) t with Ok d => N.of_nat d | _ => 0 end].",
     "Definition k7 (fuel : N) (types : list reltab) : list N :=",
     "  let '(r, rem) := model_cost (N.to_nat fuel) types 100000 in",
     "  [7; match r with HNo => 0 | HCycle => 1 | HErr => 2 | HBudget => 3 end; rem].",
     "Definition k8 (site kind : N) : list N :=",
     "  let v := match kind with 0 => PVError | 1 => PVString | 2 => PVStruct | _ => PVRuntime end in",
     "  let s := match site with 0 => SHandler | 1 => STry | 2 => SPipeline | 3 => SEvaluate | _ => SOther end in",
     "  [8; match fate_of s v with FError => 0 | FInterceptor => 1 | FDies => 2 end;",
     "   match recover_to_error v with Ok _ => 1 | _ => 0 end]."]
cases = []
for cid, toks in chosen:
    k = toks[0]
    call = None
    try:
        if k == "2":
            n, hasps, ps, tok = int(toks[1]), toks[2] != "0", toks[3], toks[6]
            call = "k2 %d %s %s" % (max(n, 0), zlit(ps if hasps else "0"), bl(tok))
        elif k == "3":
            call = "k3 %s %s %s" % (toks[1], zlit(toks[2]), bl(toks[3]))
        elif k == "4":
            val = parse(toks[1:])[0]
            nodes = pbsize(val)
            if nodes > 1500:
                if nodes > 4000:
                    continue
                call = "k4big %s" % pb(val)
            elif nodes > 400:
                continue  # the instrumented walk keeps every path: keep the replay cheap
            else:
                call = "k4 %s" % pb(val)
        elif k == "5":
            call = "k5 %s %s %s %s" % tuple(bl(t) for t in toks[1:5])
        elif k == "6":
            md, size = int(toks[2]), int(toks[3])
            if md > 300 or cid not in want:
                continue
            call = "k6 %d %d" % (md, size)
        elif k == "7":
            ab = parse(toks[4:])[0]
            nodes = sum(1 + sum(rwcount(r) for r in t) for t in ab)
            if nodes > 1500:
                continue
            call = "k7 %d [%s]" % (nodes + 8, "; ".join("[" + "; ".join(rw(r) for r in t) + "]" for t in ab))
        elif k == "8":
            call = "k8 %s %s" % (toks[9] if toks[9] != "-1" else "4", toks[5])
    except (ValueError, IndexError):
        continue
    if call:
        cases.append(cid)
        v.append("Eval vm_compute in (%d%%N, %s)." % (int(cid) + 1000000, call))
os.makedirs(os.path.join(V, "build", "coqreplay"), exist_ok=True)
vf = os.path.join(V, "build", "coqreplay", "c19_cases.v")
open(vf, "w").write("\n".join(v) + "\n")
p = subprocess.run(["coqc", "-Q", os.path.join(V, "coq"), "OFGA", "-w", "-notation-overridden,-deprecated", vf],
                   stdout=subprocess.PIPE, stderr=subprocess.STDOUT, text=True, timeout=1800)
if p.returncode != 0:
    print("COQREPLAY coqc failed:\n" + p.stdout[-2000:]); sys.exit(1)
got = {}
for chunk in p.stdout.split("= (")[1:]:
    nums = [int(x) for x in re.findall(r"\d+", chunk.split(": N *")[0])]
    got[str(nums[0] - 1000000)] = nums[1:]
bad = 0
perkind = {}
for cid in cases:
    if got.get(cid) != want.get(cid):
        bad += 1
        print("COQREPLAY mismatch case %s: coq=%s ocaml=%s" % (cid, got.get(cid), want.get(cid)))
    k = (want.get(cid) or [0])[0]
    perkind[k] = perkind.get(k, 0) + 1
print("COQREPLAY %s %d cases (by record kind: %s)" % ("ok" if not bad else "MISMATCH", len(cases),
      ", ".join("%d:%d" % kv for kv in sorted(perkind.items()))))
sys.exit(1 if bad else 0)
