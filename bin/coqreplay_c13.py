#!/usr/bin/env python3
"""bin/coqreplay_c13.py <cases.rec> <oracle-dump> [max_cases]

Cross-check of extraction for C13: recomputes, INSIDE Coq with vm_compute, the numbers the
extracted OCaml oracle computed for `max_cases` read cases of the same record file — size and
checksum of the documented result (Store/ReadSpec.v), of the memory model's result
(Store/MemoryRead.v) and of the sql model's result (Store/SqlRead.v), plus the trigger / contract
flags (Store/ReadFlags.v) — and compares them with the oracle's dump.  The cases are spread over
the five record kinds (Read, ReadPage, ReadUserTuple, ReadUsersetTuples, ReadStartingWithUser) and
prefer cases in which some model result is non-empty or a flag is raised.
Prints `COQREPLAY ok <n> ...` or the mismatches; exit 1 on a mismatch."""
import os, re, subprocess, sys
rec, dump = sys.argv[1], sys.argv[2]
maxc = int(sys.argv[3]) if len(sys.argv) > 3 else 30
V = os.path.dirname(os.path.dirname(os.path.abspath(__file__)))
COQ = os.path.join(V, "coq")

def parse(tokens):
    out, stack = [], []
    cur = out
    for t in tokens:
        if t == "(":
            new = []
            cur.append(new); stack.append(cur); cur = new
        elif t == ")":
            cur = stack.pop()
        elif t.startswith("x"):
            cur.append(bytes.fromhex(t[1:]))
        else:
            cur.append(int(t))
    return out

# ---- the oracle's numbers, and the choice of cases ----------------------------------------------
want, order = {}, []
for line in open(dump):
    p = line.split()
    if len(p) < 11: continue
    want[p[0]] = [int(x) for x in p[1:]]
    order.append(p[0])
by_op = {}
for cid in order:
    w = want[cid]
    rich = w[1] or w[3] or w[5] or (w[0] in (1, 2, 5) and w[7]) or (w[0] == 5 and w[8])
    by_op.setdefault(w[0], [[], []])[0 if rich else 1].append(cid)
def spread(xs, k):
    if k <= 0 or not xs: return []
    if len(xs) <= k: return list(xs)
    return [xs[(i * len(xs)) // k] for i in range(k)]
chosen = set()
ops = sorted(by_op)
for j, op in enumerate(ops):
    share = maxc // len(ops) + (1 if j < maxc % len(ops) else 0)
    rich, plain = by_op[op]
    nrich = min(len(rich), share - share // 4)
    chosen |= set(spread(rich, nrich)) | set(spread(plain, share - nrich))

cases = []
for line in open(rec):
    if line.startswith("!"): continue
    tab = line.find("\t")
    if line[:tab] not in chosen: continue
    cols = line.rstrip("\n").split("\t")
    cases.append((cols[0], parse(cols[1].split())))
    if len(cases) >= len(chosen): break

# ---- Gallina terms ---------------------------------------------------------------------------------
def B(b): return "[" + "; ".join(str(x) for x in b) + "]"
def lst(xs): return "[" + "; ".join(xs) + "]"
def user(t, i, r): return "(mkUser %s %s %s)" % (B(t), B(i), B(r))
def tup(t): return "(mkTuple %s %s %s %s %s %d)" % (B(t[0]), B(t[1]), B(t[2]), user(t[3], t[4], t[5]), B(t[6]), t[7])
def ofilter(o):
    if o[0] == 0: return "OAny"
    if o[0] == 1: return "(OType %s)" % B(o[1])
    return "(OFull %s %s)" % (B(o[1]), B(o[2]))
def ufilter(u):
    if u[0] == 0: return "UAny"
    if u[0] == 1: return "(UType %s)" % B(u[1])
    return "(UExact %s)" % user(u[1], u[2], u[3])
def conds(c): return lst([B(x) for x in c[1]])
def restr(r):
    if r[0] == 0: return "(RRel %s %s)" % (B(r[1]), B(r[2]))
    if r[0] == 1: return "(RWild %s)" % B(r[1])
    return "(RBare %s)" % B(r[1])

v = ["From OFGA Require Import Base.Bytes Store.ReadSpec Store.MemoryRead Store.SqlRead Store.ReadFlags.",
     "Open Scope N_scope.",
     "Definition hb (b : bytes) : N := fold_left (fun acc x => (acc * 31 + x + 1) mod 1000003) b 7.",
     "Definition ht (t : tuple) : N := fold_left (fun acc x => (acc * 131 + x) mod 1000000007)",
     "  [hb (t_otype t); hb (t_oid t); hb (t_rel t); hb (u_type (t_user t)); hb (u_id (t_user t)); hb (u_rel (t_user t)); hb (t_cond t); t_ctx t] 0.",
     "Definition hl (l : list tuple) : N := fold_left (fun acc t => (acc * 131 + ht t + 1) mod 1000000007) l 0.",
     "Definition ln (l : list tuple) : N := N.of_nat (length l).",
     "Definition bN (b : bool) : N := if b then 1 else 0.",
     "Definition ol (o : option tuple) : list tuple := match o with Some x => [x] | None => [] end.",
     "Definition row (op : N) (s : store) (spec mm sm : list tuple) (f1 f2 : bool) : list N :=",
     "  [op; ln spec; hl spec; ln mm; hl mm; ln sm; hl sm; bN f1; bN f2; bN (wf_store s) + 2 * bN (keys_unique s)]."]
ids = []
for cid, vals in cases:
    op, _oc, st, flt = vals[0], vals[1], vals[2], vals[3]
    s = lst([tup(t) for t in st])
    if op in (1, 2):
        f = "(mkRF %s %s %s %s)" % (ofilter(flt[0]), B(flt[1]), ufilter(flt[2]), conds(flt[3]))
        body = "let f := %s in row %d s (read_spec s f) (memory_read s f) (sql_read s f) (flag_read_all_ignores_conditions s f) (wf_read_filter f)" % (f, op)
    elif op == 3:
        k = "(mkKey %s %s %s %s)" % (B(flt[0]), B(flt[1]), B(flt[2]), user(flt[3], flt[4], flt[5]))
        body = ("let k := %s in let cs := %s in row 3 s (read_user_tuple_spec s k cs) (ol (memory_read_user_tuple s k cs)) "
                "(ol (sql_read_user_tuple s k cs)) (key_full k) false" % (k, conds(flt[6])))
    elif op == 4:
        f = "(mkUF %s %s %s %s)" % (ofilter(flt[0]), B(flt[1]), lst([restr(r) for r in flt[2][1]]), conds(flt[3]))
        body = ("let f := %s in row 4 s (read_userset_tuples_spec s f) (memory_read_userset_tuples s f) "
                "(sql_read_userset_tuples s f) (wf_usersets_filter f) false" % f)
    else:
        oids = "None" if flt[3][0] == 0 else "(Some %s)" % lst([B(x) for x in flt[3][1]])
        f = "(mkSF %s %s %s %s %s)" % (B(flt[0]), B(flt[1]), lst([user(*u) for u in flt[2]]), oids, conds(flt[4]))
        body = ("let f := %s in row 5 s (rswu_spec s f) (memory_rswu s f) (sql_rswu s f) "
                "(flag_rswu_duplicate_user_filter f) (flag_rswu_empty_object_ids f)" % f)
    v.append("Eval vm_compute in (%d, let s : store := %s in %s)." % (int(cid) + 1000000, s, body))
    ids.append(cid)
os.makedirs(os.path.join(V, "build", "coqreplay"), exist_ok=True)
vf = os.path.join(V, "build", "coqreplay", "c13_cases.v")
open(vf, "w").write("\n".join(v) + "\n")
p = subprocess.run(["coqc", "-Q", COQ, "OFGA", "-w", "-notation-overridden,-deprecated", vf],
                   stdout=subprocess.PIPE, stderr=subprocess.STDOUT, text=True, timeout=3000)
if p.returncode != 0:
    print("COQREPLAY coqc failed:\n" + p.stdout[-2000:]); sys.exit(1)
got = {}
for chunk in p.stdout.split("= (")[1:]:
    nums = [int(x) for x in re.findall(r"\d+", chunk.split(": N *")[0])]
    got[str(nums[0] - 1000000)] = nums[1:]
bad = 0
kinds = {}
for cid in ids:
    w, g = want.get(cid), got.get(cid)
    kinds[w[0]] = kinds.get(w[0], 0) + 1
    if g != w:
        bad += 1
        print("COQREPLAY mismatch case %s: coq=%s ocaml=%s" % (cid, g, w))
names = {1: "Read", 2: "ReadPage", 3: "ReadUserTuple", 4: "ReadUsersetTuples", 5: "ReadStartingWithUser"}
print("COQREPLAY %s %d cases (%s): sizes+checksums of spec / memory model / sql model results and flags recomputed by vm_compute" % (
    "ok" if not bad else "MISMATCH", len(ids), ", ".join("%s %d" % (names.get(k, k), n) for k, n in sorted(kinds.items()))))
sys.exit(1 if bad else 0)
