#!/usr/bin/env python3
"""bin/coqreplay_c23.py <cases.rec> <oracle-dump> [max_cases]

Cross-check of extraction for C23: recomputes, INSIDE Coq with vm_compute, the numbers the
extracted OCaml oracle computed (ORACLE_DUMP) for a sample of `max_cases` records of the same
record file and compares them.  Every record kind that goes through the model is covered: the
whole call pattern of the case is replayed with the model's own `run` / `streams_run` /
`ds_run` fold (static, concat, merge, generic and conditions filter, filtered, validate, mappers,
SkipTo, combined, ordered combined, error iterator, FromChannel, ToChannel, Streams, the fan-in
interleaving checker, shared-iterator schedules).  Dumped per case: every result (value+1 / 0,
error class+1 / 0) and the final (events left, Stop calls) of every inner iterator.  Shared
schedules that use the trigger context (composed from model steps in the oracle) are not sampled.
The sample is evenly spaced within each kind.  Prints `COQREPLAY ok ...` or the mismatches; exit 1
on a mismatch."""
import os, re, subprocess, sys
rec, dump = sys.argv[1], sys.argv[2]
maxc = int(sys.argv[3]) if len(sys.argv) > 3 else 40
V = os.path.dirname(os.path.dirname(os.path.abspath(__file__)))
COQ = os.path.join(V, "coq")
KINDS = [1, 2, 3, 4, 5, 6, 7, 8, 9, 10, 11, 12, 13, 14, 15, 16, 20]
WEIGHT = {1: 1, 2: 2, 3: 3, 4: 2, 5: 3, 6: 1, 7: 2, 8: 2, 9: 2, 10: 2, 11: 4, 12: 1, 13: 3, 14: 1, 15: 4, 16: 1, 20: 5}
SHARD = 150

def parse(tokens):
    out, stack = [], []
    cur = out
    for t in tokens:
        if t == "(":
            new = []
            cur.append(new); stack.append(cur); cur = new
        elif t == ")":
            cur = stack.pop()
        else:
            cur.append(int(t))
    return out

# pass 1: where the records of each kind are
by_kind = {k: [] for k in KINDS}
with open(rec) as f:
    for lineno, line in enumerate(f):
        if line.startswith("!"):
            continue
        tab = line.find("\t")
        if tab < 0:
            continue
        sp = line.find(" ", tab + 1)
        try:
            k = int(line[tab + 1:sp])
        except ValueError:
            continue
        if k == 20 and not line[:line.find("\t", tab + 1)].rstrip().endswith("( )"):
            continue  # trigger-context schedule
        if k == 16 and " 1 ( " in line[tab:tab + 60] and False:
            continue
        if k in by_kind:
            by_kind[k].append(lineno)
tw = sum(WEIGHT[k] for k in KINDS if by_kind[k])
pick = set()
for k, lines in by_kind.items():
    if not lines:
        continue
    q = max(1, int(round(maxc * WEIGHT[k] / tw)))
    if len(lines) <= q:
        pick.update(lines)
    else:
        pick.update(lines[(i * len(lines)) // q + (len(lines) // (2 * q))] for i in range(q))
cases = []
with open(rec) as f:
    for lineno, line in enumerate(f):
        if lineno in pick:
            cols = line.rstrip("\n").split("\t")
            cases.append((cols[0], parse(cols[1].split())))
ids = {c[0] for c in cases}
want = {}
for line in open(dump):
    sp = line.find(" ")
    cid = line[:sp] if sp > 0 else line.strip()
    if cid in ids:
        want[cid] = [int(x) for x in line.split()[1:]]

def L(xs): return "[" + "; ".join(str(x) for x in xs) + "]"
def LL(xss): return "[" + "; ".join(L(x) for x in xss) + "]"
def lst(xs): return "[" + "; ".join(xs) + "]"
def nat(i): return "%d%%nat" % i

PRELUDE = """From Coq Require Import List NArith ZArith Bool.
From OFGA Require Import Cache.IterAdapters Cache.SharedIter.
Import ListNotations.
Open Scope N_scope.
Definition wo (o : option N) : N := match o with None => 0 | Some x => x + 1 end.
Definition wr (r : res) : list N := match r with R v e => [wo v; wo e] end.
Definition wrs (l : list res) : list N := flat_map wr l.
Definition wobs (l : list (N * N)) : list N := flat_map (fun p => [fst p; snd p]) l.
Definition wobs3 (l : list (N * (N * N))) : list N := flat_map (fun p => [fst p; fst (snd p); snd (snd p)]) l.
Definition evi (e : N) : ev := if N.odd e then Err (e / 2) else Item (e / 2).
Definition scr (l : list N) : list ev := map evi l.
Definition opi (o : N) : op := if o =? 0 then ONext else if o =? 1 then OHead else OStop.
Definition tabv1 (t : list N) (x : N) : N :=
  match t with [] => 0 | _ => nth (N.to_nat (x mod N.of_nat (length t))) t 0 end.
Fixpoint tabsv (ts : list (list N)) (x : N) : N :=
  match ts with [] => 0 | t :: r => match tabv1 t x with 0 => tabsv r x | v => v end end.
Definition cverd (ts : list (list N)) (x : N) : verdict :=
  match tabsv ts x with 0 => VPass | 1 => VReject | v => VErr v end.
Definition mapg (p x : N) : res :=
  if p =? 1 then (match x mod 3 with 0 => ROk x | 1 => ROk 100000 | _ => RErr 6 end) else ROk x.
Definition fin {St} (p : list res * St) (obs : St -> list N) : list N := wrs (fst p) ++ obs (snd p).
Definition k1 (items ops : list N) : list N := wrs (static_run ops items).
Definition k2 (a b ops : list N) : list N :=
  fin (run concat_next concat_head concat_stop (map opi ops) (concat_init (scr a) (scr b))) (fun st => wobs (concat_obs st)).
Definition k3 (a b ops : list N) : list N :=
  fin (run merge_next merge_head merge_stop (map opi ops) (merge_init (scr a) (scr b))) (fun st => wobs (merge_obs st)).
Definition ksrc (a ops : list N) : list N :=
  fin (run src_next (fun x => (src_head x, x)) src_stop (map opi ops) (src_of (scr a))) (fun st => wobs [src_obs st]).
Definition k4 (a : list N) (ts : list (list N)) (ops : list N) : list N :=
  match ts with
  | [] => ksrc a ops
  | _ => fin (run (cf_next (cverd ts)) gf_head cf_stop (map opi ops) (cf_init (scr a))) (fun st => wobs (cf_obs st))
  end.
Definition k5 (a : list N) (ts : list (list N)) (ops : list N) : list N :=
  fin (run (cf_next (cverd ts)) (cf_head (cverd ts)) cf_stop (map opi ops) (cf_init (scr a))) (fun st => wobs (cf_obs st)).
Definition k6 (a : list N) (ts : list (list N)) (ops : list N) : list N :=
  let p := fun x => tabsv ts x =? 0 in
  fin (run (flt_next p) (flt_head p) one_stop_once (map opi ops) (one_init (scr a))) (fun st => wobs (one_obs st)).
Definition k7 (a : list N) (ts : list (list N)) (nilv : N) (ops : list N) : list N :=
  let vf := if nilv =? 1 then None else Some (cverd ts) in
  fin (run (val_next vf) (val_head vf) one_stop_always (map opi ops) (one_init (scr a))) (fun st => wobs (one_obs st)).
Definition k8 (a : list N) (p : N) (ops : list N) : list N :=
  fin (run (map_next (mapg p)) (map_head (mapg p)) one_stop_once (map opi ops) (one_init (scr a))) (fun st => wobs (one_obs st)).
Definition k9 (a : list N) (target : N) (ops : list N) : list N :=
  let (r0, s1) := skip_to target (src_of (scr a)) in
  wr r0 ++ fin (run src_next (fun x => (src_head x, x)) src_stop (map opi ops) s1) (fun st => wobs [src_obs st]).
Definition k10 (ins : list (list N)) (ops : list N) : list N :=
  fin (run comb_next comb_head comb_stop (map opi ops) (comb_init (map scr ins))) (fun st => wobs (comb_obs st)).
Definition key8 (x : N) : N := x / 8.
Definition k11 (ins : list (list N)) (ops : list N) : list N :=
  fin (run (oc_next key8) (oc_head key8) oc_stop (map opi ops) (oc_init (map scr ins))) (fun st => wobs3 (oc_obs st)).
Definition k12 (e : N) (ops : list N) : list N :=
  wrs (fst (run error_next error_next (fun x => x) (map opi ops) e)).
Definition k13 (ms : list msg) (ops : list N) : list N :=
  fin (run fc_next fc_head fc_stop (map opi ops) (fc_init ms)) (fun st => wobs3 (fc_obs st)).
Definition k14 (a : list N) : list N := wrs (to_channel (scr a)).
Definition wsobs (o : sobs) : list N := wr (so_res o) ++ N.of_nat (length (so_list o)) :: so_list o.
Definition k15 (ss : list stream) (ops : list sop) : list N :=
  let (m, st) := streams_run ops (mkStreams ss []) in flat_map wsobs m ++ wobs3 (streams_obs st).
Definition k16 (chans : list (list (N * N))) (out : list (N * N)) : list N :=
  [if is_interleaving chans out then 1 else 0].
Definition k20 (limit : Z) (scripts : list (option (list ev))) (ops : list dop) : list N :=
  let (m, d) := ds_run 100%nat ops (ds_init limit scripts) in
  wrs m ++ wobs (fst (ds_obs d)) ++ wobs (snd (ds_obs d)).
"""

def msgs_term(msgs, counter):
    out = []
    for m in msgs:
        if m[0] == 0:
            counter[0] += 1
            out.append("MIter %d (src_of (scr %s))" % (counter[0], L(m[1:])))
        elif m[0] == 1:
            out.append("MErr %d" % m[1])
        else:
            out.append("MEmpty")
    return lst(out)

def expr(vals):
    k = vals[0]
    if k == 1:
        return "k1 %s %s" % (L([e // 2 for e in vals[1][0] if e % 2 == 0]), L(vals[2]))
    if k in (2, 3):
        return "k%d %s %s %s" % (k, L(vals[1][0]), L(vals[1][1]), L(vals[2]))
    if k in (4, 5, 6):
        return "k%d %s %s %s" % (k, L(vals[1][0]), LL(vals[2]), L(vals[3]))
    if k == 7:
        return "k7 %s %s %d %s" % (L(vals[1][0]), LL(vals[2]), vals[3], L(vals[4]))
    if k == 8:
        return "k8 %s %d %s" % (L(vals[1][0]), vals[2], L(vals[3]))
    if k == 9:
        return "k9 %s %d %s" % (L(vals[1][0]), vals[2], L(vals[3]))
    if k in (10, 11):
        return "k%d %s %s" % (k, LL(vals[1]), L(vals[2]))
    if k == 12:
        return "k12 %d %s" % (vals[1], L(vals[2]))
    if k == 13:
        return "k13 %s %s" % (msgs_term(vals[1], [-1]), L(vals[2]))
    if k == 14:
        return "k14 %s" % L(vals[1][0])
    if k == 15:
        counter = [-1]
        ss = ["mkStream %d None false %s []" % (i, msgs_term(m, counter)) for i, m in enumerate(vals[1])]
        ops = []
        for o in vals[2]:
            if o == [0]: ops.append("SClean")
            elif o[0] == 1 and len(o) == 2: ops.append("SHead %s" % nat(o[1]))
            elif o[0] == 2 and len(o) == 2: ops.append("SNext %s" % nat(o[1]))
            elif o[0] == 3 and len(o) == 4: ops.append("SSkip %s %s %d" % (nat(o[1]), "true" if o[2] == 1 else "false", o[3]))
            elif o[0] == 4 and len(o) == 2: ops.append("SDrain %s" % nat(o[1]))
            elif o[0] == 5: ops.append("SSlice %s" % lst([nat(p) for p in o[1:]]))
            elif o[0] == 6 and len(o) == 2: ops.append("SStop %s" % nat(o[1]))
            else: ops.append("SStopAll")
        return "k15 %s %s" % (lst(ss), lst(ops))
    if k == 16:
        if vals[2] == 1:
            return None
        chans = lst([lst(["(%d, %d)" % (ci, j) for j in range(n)]) for ci, n in enumerate(vals[1])])
        out = lst(["(%d, %d)" % (t[0], t[1]) for t in vals[3]])
        return "k16 %s %s" % (chans, out)
    if k == 20:
        scripts = lst(["None" if s == [-1] else "Some (scr %s)" % L(s) for s in vals[1]])
        ops = []
        for o in vals[3]:
            if o[0] == 0: ops.append("DOpen %d %s" % (o[1], "true" if o[2] == 1 else "false"))
            elif o[0] == 1: ops.append("DNext %s %s" % (nat(o[1]), "true" if o[2] == 1 else "false"))
            elif o[0] == 2: ops.append("DHead %s %s" % (nat(o[1]), "true" if o[2] == 1 else "false"))
            elif o[0] == 3: ops.append("DStop %s" % nat(o[1]))
            else: ops.append("DExpireAll")
        return "k20 %d%%Z %s %s" % (vals[2], scripts, lst(ops))
    raise SystemExit("COQREPLAY unknown record kind %r" % k)

os.makedirs(os.path.join(V, "build", "coqreplay"), exist_ok=True)
todo = [(cid, vals, expr(vals)) for cid, vals in cases]
todo = [t for t in todo if t[2] is not None]
got = {}
for sh in range(0, len(todo), SHARD):
    v = [PRELUDE]
    for cid, vals, e in todo[sh:sh + SHARD]:
        v.append("Eval vm_compute in (%d, %s)." % (int(cid) + 1000000, e))
    vf = os.path.join(V, "build", "coqreplay", "c23_cases%s.v" % ("" if sh == 0 else "_%d" % (sh // SHARD)))
    open(vf, "w").write("\n".join(v) + "\n")
    p = subprocess.run(["coqc", "-Q", COQ, "OFGA", "-w", "-notation-overridden,-deprecated", vf],
                       stdout=subprocess.PIPE, stderr=subprocess.STDOUT, text=True, timeout=3000)
    if p.returncode != 0:
        print("COQREPLAY coqc failed:\n" + p.stdout[-2000:]); sys.exit(1)
    for chunk in p.stdout.split("= (")[1:]:
        nums = [int(x) for x in re.findall(r"\d+", chunk.split(": N *")[0])]
        got[str(nums[0] - 1000000)] = nums[1:]
bad = 0; total = 0
kinds = {}
for cid, vals, e in todo:
    w = want.get(cid)
    g = got.get(cid)
    total += len(w or [])
    kinds[vals[0]] = kinds.get(vals[0], 0) + 1
    if g is None or w is None or g != w:
        bad += 1
        print("COQREPLAY mismatch case %s (kind %d): coq=%s ocaml=%s" % (cid, vals[0], (g or [])[:30], (w or [])[:30]))
print("COQREPLAY %s %d model values in %d cases (per record kind: %s), vm_compute in Coq %s extracted OCaml" % (
    "ok" if not bad else "MISMATCH", total, len(todo), ", ".join("%d:%d" % kv for kv in sorted(kinds.items())),
    "==" if not bad else "!= (%d cases differ)" % bad))
sys.exit(1 if bad else 0)
