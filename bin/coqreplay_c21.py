#!/usr/bin/env python3
"""bin/coqreplay_c21.py <cases.rec> <oracle-dump> [max_cases]

Cross-check of extraction for C21: replays, INSIDE Coq with vm_compute, the first `max_cases`
records of kind 1 (StatusPool call sequences: fold of m_register / m_inc / m_dec / m_set / m_wait),
kind 2 (CycleGroup call sequences: fold of g_join / g_signal_ready / g_inc / g_dec / g_wake / ...)
and kind 3 (protocol schedules: every method-level action is the run of the atomic `step`s of that
thread on `init n np std`), and compares the projections after every call / action with the
numbers the extracted OCaml oracle dumped for the same records.
Prints `COQREPLAY ok ...` or the mismatches; exit 1 on a mismatch."""
import os, re, subprocess, sys
rec, dump = sys.argv[1], sys.argv[2]
maxc = int(sys.argv[3]) if len(sys.argv) > 3 else 30
V = os.path.dirname(os.path.dirname(os.path.abspath(__file__)))
COQ = os.path.join(V, "coq")


def parse(tokens):
    out, stack = [], []
    cur = out
    for t in tokens:
        if t == "(":
            new = []
            cur.append(new); stack.append(cur); cur = new
        elif t == ")":
            cur = stack.pop()
        elif t.startswith("x"):
            cur.append(t)
        else:
            cur.append(int(t))
    return out


def nat(i): return "%d%%nat" % i
def lst(xs): return "[" + "; ".join(xs) + "]"
def msg(m): return "(Msg %s %s)" % (nat(m[0]), lst([msg(k) for k in m[1]]))

PRELUDE = r"""
From OFGA Require Import Conc.StatusPool Conc.CycleGroup.
From Coq Require Import NArith ZArith List.
Import ListNotations.
Open Scope N_scope.
Definition bN (b : bool) : N := if b then 1 else 0.
Definition zz (z : Z) : N := Z.to_N (if (z <? 0)%Z then (-2 * z - 1)%Z else (2 * z)%Z).
Definition bitsv (l : list bool) : N := fold_right (fun b acc => bN b + 2 * acc) 0 l.
Definition nn (x : nat) : N := N.of_nat x.
Definition pool_nums (p : pool) : list N :=
  [zz (sp_inflight p); zz (sp_total p); bN (sp_zero p); bN (sp_ready p); bN (sp_quiet p);
   nn (length (sp_pool p)); bitsv (sp_pool p); bN (sp_panic p)].
Definition clear_panic (p : pool) : pool :=
  mkPool (sp_mu p) (sp_pool p) (sp_inflight p) (sp_total p) (sp_zero p) (sp_ready p) (sp_quiet p) false.

(* kind 1 *)
Definition k1_op (p : pool) (op arg : nat) : pool * N :=
  match op with
  | 0%nat => (fst (m_register p), 0)
  | 1%nat => (m_inc p, 0)
  | 2%nat => (m_dec p, 0)
  | 3%nat => let p' := m_set arg p in (clear_panic p', if sp_panic p' then 3 else 0)
  | 4%nat => (p, match m_wait p with WReturned => 1 | _ => 0 end)
  | _ => (p, 0)
  end.
Fixpoint k1 (p : pool) (ops : list (nat * nat)) : list N :=
  match ops with
  | [] => []
  | (op, arg) :: r => let '(p', res) := k1_op p op arg in pool_nums p' ++ [res] ++ k1 p' r
  end.

(* kind 2 *)
Definition k2_op (g : group) (op a : nat) : group * N :=
  match op with
  | 0%nat => (fst (g_join g), 0)
  | 1%nat => let p1 := m_set (mn_rep (g_node g a)) (g_pool g) in
             if sp_panic p1 then (g_with_pool g (clear_panic p1), 3) else (g_signal_ready a g, 0)
  | 2%nat => (g_inc g, 0)
  | 3%nat => (g_dec g, 0)
  | 4%nat => (g_wake a g, 0)
  | 5%nat => (g, bN (g_sleep_returns a g))
  | 6%nat => (g, match g_wait g with WReturned => 1 | _ => 0 end)
  | _ => (g, 0)
  end.
Definition group_nums (g : group) : list N :=
  let idxs := seq 0 (length (g_nodes g)) in
  pool_nums (g_pool g)
  ++ [nn (g_size g); bitsv (map mn_leader (g_nodes g)); bitsv (map mn_wake (g_nodes g)); bitsv (map mn_awake (g_nodes g))]
  ++ map (fun i => match g_next i g with Some j => nn (S j) | None => 0 end) idxs
  ++ flat_map (fun i => let p := g_string i g in nn (length p) :: map nn p) idxs.
Fixpoint k2 (g : group) (ops : list (nat * nat)) : list N :=
  match ops with
  | [] => []
  | (op, a) :: r => let '(g', res) := k2_op g op a in group_nums g' ++ [res] ++ k2 g' r
  end.

(* kind 3 *)
Definition mcode (pc : mpc) : N :=
  match pc with
  | MWaitStd => 0 | MSetLock => 1 | MSetBody => 2 | MSetClose => 3 | MSetUnlock => 4 | MDec1 => 5 | MDec2 => 6
  | MDec3 => 7 | MWaitReady => 8 | MLoadTotal => 9 | MWaitQ => 10 | MSleep => 11 | MWake1 => 13 | MWake2 => 14
  | MWaitRec => 15 | MDone => 16 | MCleanup k => 20 + nn k
  end.
Definition pcode (pc : ppc) : N :=
  match pc with
  | PRecv => 0
  | PInc1 m r => 1 + 16 * nn (msize m) + 16 * nn (msizes r)
  | PInc2 m r => 2 + 16 * nn (msize m) + 16 * nn (msizes r)
  | PSend m r => 3 + 16 * nn (msize m) + 16 * nn (msizes r)
  | PDrop1 r => 4 + 16 * nn (msizes r)
  | PDrop2 r => 5 + 16 * nn (msizes r)
  | PDrop3 r => 6 + 16 * nn (msizes r)
  | PFin1 => 7 | PFin2 => 8 | PFin3 => 9 | PEnd => 10
  end.
Definition mpc_t (s : state) (i : nat) : mpc := nth i (st_main s) MDone.
Definition ppc_t (s : state) (k : nat) : ppc := match nth_error (st_proc s) k with Some p => p_pc p | None => PEnd end.
Fixpoint run_while_t (fuel : nat) (inside : state -> bool) (s : state) (t : tid) : state :=
  match fuel with
  | O => s
  | S f => if inside s then match step s t with Some s' => run_while_t f inside s' t | None => s end else s
  end.
Definition step_t (s : state) (t : tid) : state := match step s t with Some s' => s' | None => s end.
Definition act_t (s : state) (kind ix : nat) : state :=
  match kind with
  | 1%nat => run_while_t 20 (fun s => match mpc_t s ix with
             | MWaitStd | MSetLock | MSetBody | MSetClose | MSetUnlock | MDec1 | MDec2 | MDec3 => true | _ => false end) s (TM ix)
  | 2%nat => run_while_t 10 (fun s => match mpc_t s ix with MWaitReady | MLoadTotal | MWaitQ => true | _ => false end) s (TM ix)
  | 3%nat | 4%nat | 6%nat => step_t s (TM ix)
  | 5%nat => run_while_t 5 (fun s => match mpc_t s ix with MWake1 | MWake2 => true | _ => false end) s (TM ix)
  | 7%nat => step_t s (TP ix)
  | 8%nat => let s3 := step_t (step_t (step_t s (TP ix)) (TP ix)) (TP ix) in
             run_while_t 5 (fun s => match ppc_t s ix with PDrop1 _ | PDrop2 _ | PDrop3 _ => true | _ => false end) s3 (TP ix)
  | 9%nat => run_while_t 5 (fun s => match ppc_t s ix with PFin1 | PFin2 | PFin3 => true | _ => false end) s (TP ix)
  | 10%nat => step_t s TC
  | _ => s
  end.
Fixpoint wsum {A} (f : A -> N) (i : N) (l : list A) : N :=
  match l with [] => 0 | x :: r => i * f x + wsum f (i + 1) r end.
Definition state_nums (s : state) : list N :=
  pool_nums (st_pool s)
  ++ [bitsv (st_wake s); bitsv (st_awake s); nn (length (st_flight s)); nn (st_lost s); nn (st_processed s);
      bN (st_cancel s); wsum mcode 1 (st_main s); wsum (fun p => pcode (p_pc p)) 1 (st_proc s);
      wsum nn 1 (st_closed s); nn (length (st_log s))].
(* the printed summary of a case: how many numbers, a rolling hash of all of them, the last ones *)
Definition hsh (l : list N) : N := fold_left (fun h x => (h * 1000003 + x) mod 1000000007) l 0.
Definition summary (l : list N) : list N := nn (length l) :: hsh l :: skipn (length l - 12) l.
Fixpoint k3 (s : state) (acts : list (nat * nat)) : list N :=
  match acts with
  | [] => [bN (final s)]
  | (kind, ix) :: r => let s' := act_t s kind ix in state_nums s' ++ k3 s' r
  end.
"""

cases = []
for line in open(rec):
    if line.startswith("!"):
        continue
    cols = line.rstrip("\n").split("\t")
    if len(cols) < 2:
        continue
    toks = cols[1].split()
    if not toks or toks[0] not in ("1", "2", "3"):
        continue
    cases.append((cols[0], parse(toks)))
    if len(cases) >= maxc:
        break

want = {}
for line in open(dump):
    p = line.split()
    if p:
        want[p[0]] = [int(x) for x in p[1:]]

v = [PRELUDE]
ids = []
for cid, vals in cases:
    k = vals[0]
    if k in (1, 2):
        ops = lst(["(%s, %s)" % (nat(o[0]), nat(o[1])) for o in vals[1]])
        body = ("k1 new_pool %s" if k == 1 else "k2 new_group %s") % ops
    else:
        _, n, np_, std, acts = vals[:5]
        stdl = lst(["(%s, %s)" % (nat(s[0]), lst([msg(m) for m in s[1]])) for s in std])
        al = lst(["(%s, %s)" % (nat(a[0]), nat(a[2])) for a in acts])
        body = "k3 (init %s %s %s) %s" % (nat(n), nat(np_), stdl, al)
    v.append("Eval vm_compute in (%d%%N, summary (%s))." % (int(cid) + 1000000, body))
    ids.append((cid, k))
os.makedirs(os.path.join(V, "build", "coqreplay"), exist_ok=True)
vf = os.path.join(V, "build", "coqreplay", "c21_cases.v")
open(vf, "w").write("\n".join(v) + "\n")
p = subprocess.run(["coqc", "-Q", COQ, "OFGA", "-w", "-notation-overridden,-deprecated", vf],
                   stdout=subprocess.PIPE, stderr=subprocess.STDOUT, text=True, timeout=3000)
if p.returncode != 0:
    print("COQREPLAY coqc failed:\n" + p.stdout[-2000:]); sys.exit(1)
got = {}
for chunk in p.stdout.split("= (")[1:]:
    nums = [int(x) for x in re.findall(r"\d+", chunk.split(": N *")[0])]
    got[str(nums[0] - 1000000)] = nums[1:]
bad = 0
total = 0
per = {1: 0, 2: 0, 3: 0}
for cid, k in ids:
    w = want.get(cid)
    g = got.get(cid)
    if w is None:
        bad += 1
        print("COQREPLAY case %s: no dump line" % cid)
        continue
    total += len(w)
    per[k] += 1
    h = 0
    for x in w:
        h = (h * 1000003 + x) % 1000000007
    ws = [len(w), h] + w[max(0, len(w) - 12):]
    if g != ws:
        bad += 1
        print("COQREPLAY mismatch case %s (kind %d): coq (count, hash, last numbers)=%s ocaml=%s" % (cid, k, g, ws))
print("COQREPLAY %s %d cases (%d pool sequences, %d group sequences, %d protocol schedules), %d numbers compared" %
      ("ok" if not bad else "MISMATCH", len(ids), per[1], per[2], per[3], total))
sys.exit(1 if bad else 0)
