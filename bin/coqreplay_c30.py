#!/usr/bin/env python3
"""bin/coqreplay_c30.py <cases.rec> <oracle-dump> [max_cases]

Cross-check of extraction for C30: recomputes, INSIDE Coq with vm_compute, what the extracted
OCaml model computed for every Expand request of the first `max_cases` scenario records (error
class, or the tree as a code list: node kinds, names, arities, leaf lengths and order-sensitive
checksums of the leaf users / computed entries; the order of Go strings is the lexicographic
order of the rendered names, built from the record's name tables) and compares the numbers with
the oracle's dump.  Prints `COQREPLAY ok ...` or the mismatches; exit 1 on a mismatch."""
import os, re, subprocess, sys
rec, dump = sys.argv[1], sys.argv[2]
maxc = int(sys.argv[3]) if len(sys.argv) > 3 else 20
V = os.path.dirname(os.path.dirname(os.path.abspath(__file__)))
COQ = os.path.join(V, "coq")

def parse(tokens):
    out, stack = [], []
    cur = out
    for t in tokens:
        if t == "(":
            new = []
            cur.append(new); stack.append(cur); cur = new
        elif t == ")":
            cur = stack.pop()
        elif t.startswith("x"):
            cur.append(bytes.fromhex(t[1:]))
        else:
            cur.append(int(t))
    return out

def N(i): return "%d%%N" % i
def lst(xs): return "[" + "; ".join(xs) + "]"
def bts(b): return lst([str(c) for c in b])
def obj(t, i): return "{| otype := %s; oid := %s |}" % (N(t), N(i))
def subject(s):
    if s[0] == 0: return "(SObj %s)" % obj(s[1], s[2])
    if s[0] == 1: return "(SWild %s)" % N(s[1])
    return "(SSet %s %s)" % (obj(s[1], s[2]), N(s[3]))
def rw(r):
    k = r[0]
    if k == 0: return "This"
    if k == 1: return "(Computed %s)" % N(r[1])
    if k == 2: return "(TTU %s %s)" % (N(r[1]), N(r[2]))
    if k == 3: return "(Union %s)" % lst([rw(x) for x in r[1:]])
    if k == 4: return "(Inter %s)" % lst([rw(x) for x in r[1:]])
    return "(Diff %s %s)" % (rw(r[1]), rw(r[2]))
def restr(r):
    kind = ["RObj", "RWild", "(RSet %s)" % N(r[2])][r[1]]
    return "{| r_type := %s; r_kind := %s; r_cond := %s |}" % (N(r[0]), kind, N(r[3]))
def model(m):
    return lst(["{| td_type := %s; td_rels := %s |}" % (N(td[0]), lst(
        ["{| rd_rel := %s; rd_rw := %s; rd_restr := %s |}" % (N(rd[0]), rw(rd[1]), lst([restr(x) for x in rd[2]])) for rd in td[1]])) for td in m])
def tup(t):
    return "{| t_obj := %s; t_rel := %s; t_sub := %s; t_cond := %s; t_ceval := %s |}" % (obj(t[0], t[1]), N(t[2]), subject(t[3]), N(t[4]), ["T", "F", "E"][t[5]])

cases = []
for line in open(rec):
    if line.startswith("!"): continue
    cols = line.rstrip("\n").split("\t")
    if len(cols) < 2: continue
    vals = parse(cols[1].split())
    if vals and vals[0] == 1 and len(vals) == 8:
        cases.append((cols[0], vals))
    if len(cases) >= maxc: break

want = {}
for line in open(dump):
    p = line.split()
    want.setdefault(p[0], []).extend(int(x) for x in p[1:])

v = ["From OFGA Require Import Query.Expand.", "Open Scope N_scope.",
     "Definition obj_code (o : obj) : N := otype o * 1009 + oid o.",
     "Definition subj_code (s : subject) : N := match s with SObj o => 7 * obj_code o | SWild t => 7 * t + 1 | SSet o r => 7 * (obj_code o * 1013 + r) + 2 end.",
     "Definition cref_code (c : cref) : N := (match fst c with UObj o => 2 * obj_code o | UWild t => 2 * t + 1 end) * 1013 + snd c.",
     "Definition wsum {A : Type} (f : A -> N) (l : list A) : N := snd (fold_left (fun p x => (fst p + 1, snd p + fst p * f x)) l (1, 0)).",
     "Definition name_code (n : nodename) : list N := [obj_code (fst n); snd n].",
     "Definition len {A : Type} (l : list A) : N := N.of_nat (length l).",
     "Fixpoint tree_code (t : tree) : list N :=",
     "  match t with",
     "  | TUsers n us => 0 :: name_code n ++ [len us; wsum subj_code us]",
     "  | TComputed n u => 1 :: name_code n ++ name_code u",
     "  | TTupleToUserset n u cs => 2 :: name_code n ++ name_code u ++ [len cs; wsum cref_code cs]",
     "  | TUnion n ks => 3 :: name_code n ++ (len ks :: flat_map tree_code ks)",
     "  | TInter n ks => 4 :: name_code n ++ (len ks :: flat_map tree_code ks)",
     "  | TDiff n b s => 5 :: name_code n ++ tree_code b ++ tree_code s",
     "  end.",
     "Definition xerr_code (e : xerr) : N := match e with EInvalidInput => 0 | EInvalidTuple => 1 | EValidation => 2 | ERelationNotFound => 3 end.",
     "Definition res_code (r : xres) : list N := match r with XErr e => [900 + xerr_code e] | XTree t => 800 :: tree_code t end.",
     "Definition nm (tbl : list (list N)) (i : N) : list N := nth (N.to_nat i - 1) tbl [63].",
     "Definition render (tn rn idn : list (list N)) (s : subject) : list N :=",
     "  match s with",
     "  | SObj o => nm tn (otype o) ++ 58 :: nm idn (oid o)",
     "  | SWild t => nm tn t ++ [58; 42]",
     "  | SSet o r => nm tn (otype o) ++ 58 :: nm idn (oid o) ++ 35 :: nm rn r",
     "  end."]
ids = []
nreq = 0
for cid, vals in cases:
    _, m, conds, stored, reqs, tn, rn, idn = vals
    qs = []
    for q in reqs:
        qk, ot, oi, r, ctx, _ = q
        req = "(XReq %s %s)" % (obj(ot, oi), N(r)) if qk == 0 else ("XEmpty" if qk == 1 else "XMalformed")
        qs.append("(%s, %s)" % (lst([tup(t) for t in ctx]), req))
    nreq += len(qs)
    v.append("Definition case_%s : list N := let m := %s in let cs := %s in let st := %s in "
             "let leb := leb_of_render (render %s %s %s) in "
             "flat_map (fun q : list tuple * xreq => res_code (expand_top leb m cs (fst q) st (snd q))) %s." % (
        cid, model(m), lst([N(c) for c in conds]), lst([tup(t) for t in stored]),
        lst([bts(b) for b in tn]), lst([bts(b) for b in rn]), lst([bts(b) for b in idn]), lst(qs)))
    v.append("Eval vm_compute in (%s, case_%s)." % (N(int(cid) + 1000000), cid))
    ids.append(cid)
os.makedirs(os.path.join(V, "build", "coqreplay"), exist_ok=True)
vf = os.path.join(V, "build", "coqreplay", "c30_cases.v")
open(vf, "w").write("\n".join(v) + "\n")
p = subprocess.run(["coqc", "-Q", COQ, "OFGA", "-w", "-notation-overridden,-deprecated", vf], stdout=subprocess.PIPE, stderr=subprocess.STDOUT, text=True, timeout=3000)
if p.returncode != 0:
    print("COQREPLAY coqc failed:\n" + p.stdout[-2000:]); sys.exit(1)
got = {}
for chunk in p.stdout.split("= (")[1:]:
    nums = [int(x) for x in re.findall(r"\d+", chunk.split(": N *")[0])]
    got[str(nums[0] - 1000000)] = nums[1:]
bad = 0
for cid in ids:
    w = want.get(cid, [])
    g = got.get(cid)
    if g != w:
        bad += 1
        print("COQREPLAY mismatch case %s: coq=%s ocaml=%s" % (cid, (g or [])[:24], w[:24]))
print("COQREPLAY %s %d expand requests in %d cases (tree codes and leaf checksums recomputed by vm_compute)" % ("ok" if not bad else "MISMATCH", nreq, len(ids)))
sys.exit(1 if bad else 0)
