#!/usr/bin/env python3
"""bin/coqreplay_c06.py <cases.rec> <oracle-dump> [max_cases]

Cross-check of extraction for C06: recomputes, INSIDE Coq with vm_compute, the numbers the
extracted OCaml oracle computed for the first `max_cases` scenario records, per ListUsers request:
validate; every possible answer of Query/ListUsers.v list_users (number of answers, each answer's
length and subject codes), error and ambiguity class masks, the trigger flags (race, excl_cycle,
union/inter/excl/merge _den_fail) as a bit mask, the distinct-key counts and the cut-short-traversal keys behind the result-limit verdict, stratified, and (converged, holds3) for every
subject whose reference value enters the verdict (returned entries, then the candidates of the
completeness predicate in the order of the record's check section).  Compares them with the
oracle's dump.  Prints `COQREPLAY ok ...` or the mismatches; exit 1 on a mismatch."""
import os, re, subprocess, sys
rec, dump = sys.argv[1], sys.argv[2]
maxc = int(sys.argv[3]) if len(sys.argv) > 3 else 10
V = os.path.dirname(os.path.dirname(os.path.abspath(__file__)))
COQ = os.path.join(V, "coq")
SHARD = 40  # cases per generated .v file

def parse(tokens):
    out, stack = [], []
    cur = out
    for t in tokens:
        if t == "(":
            new = []
            cur.append(new); stack.append(cur); cur = new
        elif t == ")":
            cur = stack.pop()
        else:
            cur.append(int(t))
    return out

def N(i): return "%d%%N" % i
def lst(xs): return "[" + "; ".join(xs) + "]"
def obj(t, i): return "(Build_obj %s %s)" % (N(t), N(i))
def subject(s):
    if s[0] == 0: return "(SObj %s)" % obj(s[1], s[2])
    if s[0] == 1: return "(SWild %s)" % N(s[1])
    return "(SSet %s %s)" % (obj(s[1], s[2]), N(s[3]))
def rw(r):
    k = r[0]
    if k == 0: return "This"
    if k == 1: return "(Computed %s)" % N(r[1])
    if k == 2: return "(TTU %s %s)" % (N(r[1]), N(r[2]))
    if k == 3: return "(Union %s)" % lst([rw(x) for x in r[1:]])
    if k == 4: return "(Inter %s)" % lst([rw(x) for x in r[1:]])
    return "(Diff %s %s)" % (rw(r[1]), rw(r[2]))
def restr(r):
    kind = ["RObj", "RWild", "(RSet %s)" % N(r[2])][r[1]]
    return "(Build_restriction %s %s %s)" % (N(r[0]), kind, N(r[3]))
def model(m):
    return lst(["(Build_typedef %s %s)" % (N(td[0]), lst(
        ["(Build_reldef %s %s %s)" % (N(rd[0]), rw(rd[1]), lst([restr(x) for x in rd[2]])) for rd in td[1]])) for td in m])
def tup(t):
    return "(Build_tuple %s %s %s %s %s)" % (obj(t[0], t[1]), N(t[2]), subject(t[3]), N(t[4]), ["T", "F", "E"][t[5]])
def bool_(b): return "true" if b else "false"

cases = []
for line in open(rec):
    if line.startswith("!"): continue
    cols = line.rstrip("\n").split("\t")
    if len(cols) < 2: continue
    vals = parse(cols[1].split())
    if vals and vals[0] == 1 and len(vals) == 7:
        cases.append((cols[0], vals))
    if len(cases) >= maxc: break

# the dump has one line per request, in record order; per case only the first 10 and the last 2
# requests are replayed (the last ones are the requests with a result limit): bounded cost per case
def pick(n): return [i for i in range(n) if i < 10 or i >= n - 2]
per_case = {}
for line in open(dump):
    p = line.split()
    if p:
        per_case.setdefault(p[0], []).append([int(x) for x in p[1:]])
SEM_BUDGET = 4 if maxc <= 10 else 8   # distinct subjects whose fixpoint is recomputed per case (vm_compute cost)

PRELUDE = ["From OFGA Require Import Query.ListUsers.", "Open Scope N_scope.",
     "Definition code3 (b : b3) : N := match b with T => 0 | F => 1 | E => 2 end.",
     "Definition bN (b : bool) : N := if b then 1 else 0.",
     "Definition scode (s : subject) : N := match s with",
     "  | SObj o => 3 * (otype o + 1000 * oid o) | SWild t => 1 + 3 * t",
     "  | SSet o r => 2 + 3 * (otype o + 1000 * (oid o + 1000 * r)) end.",
     "Definition ebit (e : lerr) : N := match e with LCond => 1 | LDepth => 2 | LOther => 4 | LFuel => 8 end.",
     "Definition emask (l : list lerr) : N := fold_left (fun acc e => N.lor acc (ebit e)) l 0.",
     "Definition tmask (t : ltrig) : N := bN (tg_race t) + 2 * bN (tg_excl_cycle t) + 4 * bN (tg_union t) + 8 * bN (tg_inter t) + 16 * bN (tg_excl t) + 32 * bN (tg_merge t).",
     "Definition rq (m : model) (cs : list cid) (st : list tuple) (strat : bool) (ft : tid) (fr : rid) (depth : nat)",
     "  (pruned skip semok lim : bool) (o : obj) (r : rid) (sems : list (subject * (valuation * bool))) : list N :=",
     "  match validate m ft fr o r with",
     "  | Some VType => [1] | Some VRel => [2]",
     "  | None => 0 :: if skip then [] else",
     "      let lf := list_users m cs st ft fr depth pruned o r in",
     "      (N.of_nat (length (lf_results lf)) :: flat_map (fun res => N.of_nat (length res) :: map scode res) (lf_results lf))",
     "      ++ (if lim then let ks := list_users_nkeys m cs st ft fr depth pruned o r in",
     "             let may := list_users_may m cs st ft fr depth pruned o r in",
     "             (N.of_nat (length ks) :: map N.of_nat ks) ++ (N.of_nat (length may) :: map scode may) else [])",
     "      ++ [emask (lf_errs lf); emask (lf_amb lf); tmask (lf_trig lf); bN strat]",
     "      ++ (if semok && strat then N.of_nat (length sems) :: flat_map (fun p : subject * (valuation * bool) =>",
     "             [bN (snd (snd p)); code3 (atomval (fst p) (fst (snd p)) o r)]) sems else [0])",
     "  end."]

def gen_case(cid, vals):
    _, m, conds, tuples, atoms, requests, checks = vals
    chk_subjects = [tuple_key(c[0]) for c in checks]
    chk = set()
    for c in checks:
        for e in c[2]:
            chk.add((tuple_key(c[0]), e[0], e[1], e[2]))
    names = {}
    lets = []
    def sem_ref(sk):
        if sk not in names:
            names[sk] = "L%d" % len(names)
            lets.append("let %s := lfp m cs st %s ats in" % (names[sk], subject(list(sk))))
        return "(%s, %s)" % (subject(list(sk)), names[sk])
    parts = []
    lines = per_case.get(cid, [])
    if len(lines) != len(requests):
        want[cid] = [-1]  # the oracle did not dump one line per request
        lines = [[0]] * len(requests)
    else:
        want[cid] = []
    for qi in pick(len(requests)):
        ot, oi, r, ft, fr, depth, limit, edges, outcome, users = requests[qi][:10]
        skip = outcome >= 8 or outcome == 6 or edges == 2
        semok = outcome == 0 and not skip
        wanted = []
        if semok:
            us = [tuple_key(u) for u in users]
            wanted += us
            if limit == 0:
                for sk in chk_subjects:
                    if (sk, ot, oi, r) in chk and sk not in us:
                        cand = (sk[0] == 0 and fr == 0 and sk[1] == ft) or (sk[0] == 2 and fr != 0 and sk[1] == ft and sk[3] == fr)
                        if cand:
                            wanted.append(sk)
        # keep the longest prefix of the Sem values whose subjects fit the budget
        sems = []
        for sk in wanted:
            if sk not in names and len(names) >= SEM_BUDGET:
                break
            sems.append(sem_ref(sk))
        line = lines[qi]
        k, kk = len(wanted), len(sems)
        if want[cid] != [-1]:
            if line[:1] in ([1], [2]):
                want[cid] += line[:1]      # rejected by validate: Coq prints the code only
            elif skip:
                want[cid] += line[:-1]     # no model evaluation: Coq prints [0]
            elif (k > 0 and len(line) >= 2 * k + 2 and line[-2 * k - 1] == k and line[-2 * k - 2] == 1
                  and all(x in (0, 1, 2) for x in line[len(line) - 2 * k:])):
                # stratified: ..., strat = 1, k, then k (converged, holds3) pairs
                want[cid] += line[:-2 * k - 1] + [kk] + line[len(line) - 2 * k:len(line) - 2 * k + 2 * kk]
            else:
                want[cid] += line          # no Sem values were used (not stratified / error / none): ends with 0
        parts.append("rq m cs st strat %s %s %d%%nat %s %s %s %s %s %s %s" % (
            N(ft), N(fr), depth, bool_(edges == 0), bool_(skip), bool_(semok), bool_(limit > 0), obj(ot, oi), N(r), lst(sems)))
    body = " ++ ".join(parts) or "[]"
    return ("Definition case_%s : list N := let m : model := %s in let cs : list cid := %s in let st : list tuple := %s in let ats : list atom := %s in "
            "let strat := stratified m in %s %s." % (
                cid, model(m), lst([N(c) for c in conds]), lst([tup(t) for t in tuples]),
                lst(["(%s, %s)" % (obj(a[0], a[1]), N(a[2])) for a in atoms]), " ".join(lets), body))

def tuple_key(s): return tuple(s)
want = {}

os.makedirs(os.path.join(V, "build", "coqreplay"), exist_ok=True)
got = {}
ids = [cid for cid, _ in cases]
for sh in range(0, len(cases), SHARD):
    v = list(PRELUDE)
    for cid, vals in cases[sh:sh + SHARD]:
        v.append(gen_case(cid, vals))
        v.append("Eval vm_compute in (%s, case_%s)." % (N(int(cid) + 1000000), cid))
    vf = os.path.join(V, "build", "coqreplay", "c06_cases%s.v" % ("" if sh == 0 else "_%d" % (sh // SHARD)))
    open(vf, "w").write("\n".join(v) + "\n")
    p = subprocess.run(["coqc", "-Q", COQ, "OFGA", "-w", "-notation-overridden,-deprecated", vf],
                       stdout=subprocess.PIPE, stderr=subprocess.STDOUT, text=True, timeout=3000)
    if p.returncode != 0:
        print("COQREPLAY coqc failed:\n" + p.stdout[-2000:]); sys.exit(1)
    for chunk in p.stdout.split("= (")[1:]:
        nums = [int(x) for x in re.findall(r"\d+", chunk.split(": N *")[0])]
        got[str(nums[0] - 1000000)] = nums[1:]
bad = 0; total = 0; nreq = 0
for cid, vals in cases:
    w = want.get(cid, [])
    g = got.get(cid)
    total += len(w); nreq += len(pick(len(vals[5])))
    if g != w:
        bad += 1
        i = next((k for k in range(min(len(g or []), len(w))) if (g or [])[k] != w[k]), min(len(g or []), len(w)))
        print("COQREPLAY mismatch case %s at position %d: coq=%s ocaml=%s" % (cid, i, (g or [])[max(0, i - 5):i + 10], w[max(0, i - 5):i + 10]))
print("COQREPLAY %s %d numbers for %d ListUsers requests in %d cases (answer sets, error/trigger masks, Sem values)" % (
    "ok" if not bad else "MISMATCH", total, nreq, len(ids)))
sys.exit(1 if bad else 0)
