#!/usr/bin/env python3
"""bin/coqreplay_c20.py <cases.rec> <oracle-dump> [max_cases]

Cross-check of extraction for C20: recomputes, INSIDE Coq with vm_compute, the numbers the
extracted OCaml oracle computed for the first `max_cases` scenario records that carry a model run
(universe_closed of Check/V1Termination.v, max_rels of Check/V1Proofs.v, and per request the
outcome set of Check/V1.v check_top as a bit mask under the depth-based fuel bound
(maxdepth+1)*(max_rels+2) and under the universe bound |atoms|+1) and compares them with the
oracle's dump.  Prints `COQREPLAY ok <n requests>` or the mismatches; exit 1 on a mismatch."""
import os, re, subprocess, sys
rec, dump = sys.argv[1], sys.argv[2]
maxc = int(sys.argv[3]) if len(sys.argv) > 3 else 40
V = os.path.dirname(os.path.dirname(os.path.abspath(__file__)))
COQ = os.path.join(V, "coq")

def parse(tokens):
    out, stack = [], []
    cur = out
    for t in tokens:
        if t == "(":
            new = []
            cur.append(new); stack.append(cur); cur = new
        elif t == ")":
            cur = stack.pop()
        else:
            cur.append(int(t))
    return out

def N(i): return "%d%%N" % i
def lst(xs): return "[" + "; ".join(xs) + "]"
def obj(t, i): return "{| otype := %s; oid := %s |}" % (N(t), N(i))
def subject(s):
    if s[0] == 0: return "(SObj %s)" % obj(s[1], s[2])
    if s[0] == 1: return "(SWild %s)" % N(s[1])
    return "(SSet %s %s)" % (obj(s[1], s[2]), N(s[3]))
def rw(r):
    k = r[0]
    if k == 0: return "This"
    if k == 1: return "(Computed %s)" % N(r[1])
    if k == 2: return "(TTU %s %s)" % (N(r[1]), N(r[2]))
    if k == 3: return "(Union %s)" % lst([rw(x) for x in r[1:]])
    if k == 4: return "(Inter %s)" % lst([rw(x) for x in r[1:]])
    return "(Diff %s %s)" % (rw(r[1]), rw(r[2]))
def restr(r):
    kind = ["RObj", "RWild", "(RSet %s)" % N(r[2])][r[1]]
    return "{| r_type := %s; r_kind := %s; r_cond := %s |}" % (N(r[0]), kind, N(r[3]))
def model(m):
    return lst(["{| td_type := %s; td_rels := %s |}" % (N(td[0]), lst(
        ["{| rd_rel := %s; rd_rw := %s; rd_restr := %s |}" % (N(rd[0]), rw(rd[1]), lst([restr(x) for x in rd[2]])) for rd in td[1]])) for td in m])
def tup(t):
    return "{| t_obj := %s; t_rel := %s; t_sub := %s; t_cond := %s; t_ceval := %s |}" % (obj(t[0], t[1]), N(t[2]), subject(t[3]), N(t[4]), ["T", "F", "E"][t[5]])

MAXTUPLES = 250   # keep the generated .v small: scenarios with more tuples are left to the OCaml run
cases = []
for line in open(rec):
    if line.startswith("!"): continue
    cols = line.rstrip("\n").split("\t")
    if len(cols) < 2: continue
    vals = parse(cols[1].split())
    if vals and vals[0] == 1 and vals[1] == 1 and len(vals[4]) <= MAXTUPLES:
        cases.append((cols[0], vals))
    if len(cases) >= maxc: break

want = {}
for line in open(dump):
    p = line.split()
    want.setdefault(p[0], []).append(tuple(int(x) for x in p[1:5]))

v = ["From OFGA Require Import Check.V1 Check.V1Proofs Check.V1Termination.", "Open Scope N_scope.",
     "Definition bit (a : aout) : N := match a with AT => 1 | AFn => 2 | AFc => 4 | AEc => 8 | AEd => 16 | AEo => 32 | AFuel => 64 end.",
     "Definition mask (s : oset) : N := fold_left (fun acc a => N.lor acc (bit a)) s 0.",
     "Definition bN (b : bool) : N := if b then 1 else 0.",
     "Definition one (m : model) (cs : list cid) (st : list tuple) (ats : list atom) (md : nat)",
     "  (s : subject) (px : list (tid * rid)) (reqs : list (obj * rid)) : list N :=",
     "  let closed := universe_closed m cs st ats in",
     "  let fuel_d := ((md + 1) * (max_rels m + 2))%nat in",
     "  let fuel_a := S (length ats) in",
     "  flat_map (fun q : obj * rid => let '(o, r) := q in",
     "     [bN closed; N.of_nat (max_rels m); mask (fst (check_top m cs st s px md fuel_d o r));",
     "      if closed && amem (o, r) ats then mask (fst (check_top m cs st s px md fuel_a o r)) else 0]) reqs."]
ids = []
for cid, vals in cases:
    m, conds, tuples, atoms, md, subjects = vals[2:8]
    parts = []
    for s in subjects:
        subj, px, results = s
        parts.append("one m cs st ats (N.to_nat %s) %s %s %s" % (N(md), subject(subj), lst(["(%s, %s)" % (N(p[0]), N(p[1])) for p in px]),
                     lst(["(%s, %s)" % (obj(r[0], r[1]), N(r[2])) for r in results])))
    v.append("Definition case_%s : list N := let m := %s in let cs := %s in let st := %s in let ats := %s in %s." % (
        cid, model(m), lst([N(c) for c in conds]), lst([tup(t) for t in tuples]),
        lst(["(%s, %s)" % (obj(a[0], a[1]), N(a[2])) for a in atoms]), " ++ ".join(parts) or "[]"))
    v.append('Eval vm_compute in (%s, case_%s).' % (N(int(cid) + 1000000), cid))
    ids.append(cid)
os.makedirs(os.path.join(V, "build", "coqreplay"), exist_ok=True)
vf = os.path.join(V, "build", "coqreplay", "c20_cases.v")
open(vf, "w").write("\n".join(v) + "\n")
p = subprocess.run(["coqc", "-Q", COQ, "OFGA", "-w", "-notation-overridden,-deprecated", vf], stdout=subprocess.PIPE, stderr=subprocess.STDOUT, text=True, timeout=3000)
if p.returncode != 0:
    print("COQREPLAY coqc failed:\n" + p.stdout[-2000:]); sys.exit(1)
got = {}
for chunk in p.stdout.split("= (")[1:]:
    nums = [int(x) for x in re.findall(r"\d+", chunk.split(": N *")[0])]
    got[str(nums[0] - 1000000)] = nums[1:]
bad = 0; total = 0
for cid in ids:
    w = [x for t in want.get(cid, []) for x in t]
    g = got.get(cid)
    total += len(w) // 4
    if g != w:
        bad += 1
        print("COQREPLAY mismatch case %s: coq=%s ocaml=%s" % (cid, (g or [])[:20], w[:20]))
print("COQREPLAY %s %d requests in %d cases (universe_closed, max_rels, check_top under both fuel bounds)" % ("ok" if not bad else "MISMATCH", total, len(ids)))
sys.exit(1 if bad else 0)
