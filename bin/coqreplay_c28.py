#!/usr/bin/env python3
"""bin/coqreplay_c28.py <cases.rec> <oracle-dump> [max_cases]

Cross-check of extraction for C28: recomputes, INSIDE Coq with vm_compute, the numbers the
extracted OCaml oracle computed (ORACLE_DUMP) for a sample of `max_cases` records of the same
record file, and compares them.  All six record kinds are covered (base64 Encode, base64 Decode,
Serialize/Deserialize, Deserialize, token scenarios = issue + resolution of every presented
string through read_changes_resume / read_resume / enc_decode, Encoder on arbitrary data).  The
first records of a C28 file are all of one kind, so the sample is taken evenly spaced within each
kind (fixed shares).  The ideal AEAD the oracle uses is defined in the generated .v file from the
record's own (nonce, plaintext, sealed) table: tbl_seal / tbl_open, first match, "" on a miss.
Prints `COQREPLAY ok ...` or the mismatches; exit 1 on a mismatch."""
import os, re, subprocess, sys
rec, dump = sys.argv[1], sys.argv[2]
maxc = int(sys.argv[3]) if len(sys.argv) > 3 else 40
V = os.path.dirname(os.path.dirname(os.path.abspath(__file__)))
COQ = os.path.join(V, "coq")
SHARE = {1: 0.2, 2: 0.25, 3: 0.1, 4: 0.1, 5: 0.2, 6: 0.15}
SHARD = 250

def parse(tokens):
    out, stack = [], []
    cur = out
    for t in tokens:
        if t == "(":
            new = []
            cur.append(new); stack.append(cur); cur = new
        elif t == ")":
            cur = stack.pop()
        elif t.startswith("x"):
            cur.append(bytes.fromhex(t[1:]))
        else:
            cur.append(int(t))
    return out

# pass 1: where the records of each kind are
by_kind = {k: [] for k in SHARE}
with open(rec) as f:
    for lineno, line in enumerate(f):
        if line.startswith("!"):
            continue
        tab = line.find("\t")
        if tab < 0:
            continue
        k = line[tab + 1:tab + 3]
        if len(k) == 2 and k[0].isdigit() and k[1] == " " and int(k[0]) in by_kind:
            by_kind[int(k[0])].append(lineno)
pick = set()
for k, lines in by_kind.items():
    q = max(1, int(round(maxc * SHARE[k])))
    if len(lines) <= q:
        pick.update(lines)
    else:
        pick.update(lines[(i * len(lines)) // q] for i in range(q))
# pass 2: parse the picked records
cases = []
with open(rec) as f:
    for lineno, line in enumerate(f):
        if lineno in pick:
            cols = line.rstrip("\n").split("\t")
            cases.append((cols[0], parse(cols[1].split())))

want = {}
for line in open(dump):
    p = line.split()
    if p:
        want[p[0]] = [int(x) for x in p[1:]]

def B(b): return "[" + "; ".join(str(x) for x in b) + "]"
def lst(xs): return "[" + "; ".join(xs) + "]"
ENC = {0: "ENoop", 1: "EBase64", 2: "(EToken CNoop EBase64)", 3: "(EToken CGcm EBase64)",
       4: "(EToken CGcm ENoop)", 5: "(EToken CGcm (EToken CNoop EBase64))"}
def table(t): return lst(["(%s, %s, %s)" % (B(n), B(p), B(s)) for n, p, s in t])

PRELUDE = """From OFGA Require Import Codec.Token.
Open Scope N_scope.
Definition hsh (l : bytes) : N := fold_left (fun acc b => (acc * 257 + b + 1) mod 1000000007) l 0.
Definition len (l : bytes) : N := fold_left (fun acc _ => acc + 1) l 0.
Definition nh (l : bytes) : list N := [len l; hsh l].
Definition n_opt (o : option bytes) : list N := match o with None => [0] | Some l => 1 :: nh l end.
Definition n_pair (o : option (bytes * bytes)) : list N :=
  match o with None => [0] | Some (a, b) => 1 :: nh a ++ nh b end.
Definition n_res (r : resume) : list N :=
  match r with RInvalid => [0] | RMismatch => [1] | RStart => [2] | RFrom u => 3 :: nh u end.
Definition n_bool (b : bool) : list N := [if b then 1 else 0].
(* the ideal AEAD over the driver's table, as in ocaml/c28_oracle.ml *)
Definition tbl := list (bytes * bytes * bytes).
Fixpoint tbl_seal (t : tbl) (n m : bytes) : bytes :=
  match t with
  | [] => []
  | (a, b, s) :: r => if beqb a n && beqb b m then s else tbl_seal r n m
  end.
Fixpoint tbl_open (t : tbl) (n c : bytes) : option bytes :=
  match t with
  | [] => None
  | (a, b, s) :: r => if beqb a n && beqb s c then Some b else tbl_open r n c
  end.
Definition k1 (d : bytes) : list N :=
  nh (b64_encode d) ++ n_opt (b64_decode (b64_encode d)) ++ n_bool (bytes_ok d).
Definition k2 (s : bytes) : list N := n_opt (b64_decode s).
Definition k3 (u t : bytes) : list N :=
  n_opt (serialize u t) ++ n_pair (match serialize u t with None => None | Some tok => deserialize tok end).
Definition k4 (tok : bytes) : list N := n_pair (deserialize tok).
Definition k5i (t : tbl) (e : encoder) (x : bytes * bytes * bytes) : list N :=
  let '(n, u, ty) := x in
  n_opt (match serialize u ty with None => None | Some tok => Some (enc_encode (tbl_seal t) e n tok) end)
  ++ nh (issue_token (tbl_seal t) e n u ty) ++ nh (issue_token (tbl_seal t) e n u []).
Definition k5p (t : tbl) (e : encoder) (x : bytes * bytes) : list N :=
  let '(s, ty) := x in
  n_opt (enc_decode (tbl_open t) e s) ++ n_res (read_changes_resume (tbl_open t) e ty s)
  ++ n_res (read_resume (tbl_open t) e s).
Definition k5 (t : tbl) (e : encoder) (iss : list (bytes * bytes * bytes)) (pres : list (bytes * bytes)) : list N :=
  flat_map (k5i t e) iss ++ flat_map (k5p t e) pres.
Definition k6 (t : tbl) (e : encoder) (n d : bytes) : list N :=
  nh (enc_encode (tbl_seal t) e n d) ++ n_opt (enc_decode (tbl_open t) e (enc_encode (tbl_seal t) e n d)).
"""

def expr(vals):
    k = vals[0]
    if k == 1: return "k1 %s" % B(vals[1])
    if k == 2: return "k2 %s" % B(vals[1])
    if k == 3: return "k3 %s %s" % (B(vals[1]), B(vals[2]))
    if k == 4: return "k4 %s" % B(vals[1])
    if k == 5:
        _, cfg, t, iss, pres = vals
        return "k5 %s %s %s %s" % (table(t), ENC[cfg],
                                   lst(["(%s, %s, %s)" % (B(i[0]), B(i[1]), B(i[2])) for i in iss]),
                                   lst(["(%s, %s)" % (B(p[0]), B(p[1])) for p in pres]))
    if k == 6:
        _, cfg, t, n, d = vals[:5]
        return "k6 %s %s %s %s" % (table(t), ENC[cfg], B(n), B(d))
    raise SystemExit("COQREPLAY unknown record kind %r" % k)

os.makedirs(os.path.join(V, "build", "coqreplay"), exist_ok=True)
got = {}
for sh in range(0, len(cases), SHARD):
    v = [PRELUDE]
    for cid, vals in cases[sh:sh + SHARD]:
        v.append("Eval vm_compute in (%d, %s)." % (int(cid) + 1000000, expr(vals)))
    vf = os.path.join(V, "build", "coqreplay", "c28_cases%s.v" % ("" if sh == 0 else "_%d" % (sh // SHARD)))
    open(vf, "w").write("\n".join(v) + "\n")
    p = subprocess.run(["coqc", "-Q", COQ, "OFGA", "-w", "-notation-overridden,-deprecated", vf],
                       stdout=subprocess.PIPE, stderr=subprocess.STDOUT, text=True, timeout=3000)
    if p.returncode != 0:
        print("COQREPLAY coqc failed:\n" + p.stdout[-2000:]); sys.exit(1)
    # output: "= (1000001, [a; b; ...])\n : N * list N", possibly wrapped over lines
    for chunk in p.stdout.split("= (")[1:]:
        nums = [int(x) for x in re.findall(r"\d+", chunk.split(": N *")[0])]
        got[str(nums[0] - 1000000)] = nums[1:]
bad = 0; total = 0
kinds = {}
for cid, vals in cases:
    w = want.get(cid)
    g = got.get(cid)
    total += len(w or [])
    kinds[vals[0]] = kinds.get(vals[0], 0) + 1
    if g is None or w is None or g != w:
        bad += 1
        print("COQREPLAY mismatch case %s (kind %d): coq=%s ocaml=%s" % (cid, vals[0], (g or [])[:24], (w or [])[:24]))
print("COQREPLAY %s %d model values in %d cases (per record kind: %s), vm_compute in Coq %s extracted OCaml" % (
    "ok" if not bad else "MISMATCH", total, len(cases), ", ".join("%d:%d" % kv for kv in sorted(kinds.items())),
    "==" if not bad else "!= (%d cases differ)" % bad))
sys.exit(1 if bad else 0)
