#!/usr/bin/env python3
"""bin/coqreplay_c04.py <cases.rec> <oracle-dump> [max_cases]

Cross-check of extraction for C04: recomputes, INSIDE Coq with vm_compute, the numbers the
extracted OCaml oracle computed for `max_cases` cases of the same record file and compares them
with the oracle's dump:
  reader cases (kind 1): for each of the ~14 operations of a case (Read, ReadPage, ReadUserTuple,
     ReadUsersetTuples, ReadStartingWithUser sorted/unsorted) size and checksum of the result of
     Store/CombinedReader.v's combined_*_over on the recorded contextual tuples and the recorded
     result of the wrapped reader, the shape predicate (read_shape_ok, ...), the merge contract
     sorted_result_ok_over on the recorded implementation result, plus keys_unique / disjoint_keys;
  index cases (kind 3): number of non-empty entries and a checksum over ALL queried entries of
     index_by_user and index_by_object, plus keys_unique of the contextual tuples;
  api cases with a mismatch (kind 2, a few): the trigger predicates model_recursive, lenient_cond
     (count over the tuples), stratified, wild_direct_conflict per mismatch and the trigger bits of
     Check/V1.v's check_top for the first implicated atom.
Prints `COQREPLAY ok <n> ...` or the mismatches; exit 1 on a mismatch."""
import os, re, subprocess, sys
rec, dump = sys.argv[1], sys.argv[2]
maxc = int(sys.argv[3]) if len(sys.argv) > 3 else 30
V = os.path.dirname(os.path.dirname(os.path.abspath(__file__)))
COQ = os.path.join(V, "coq")
P = 1000000007

def parse(tokens):
    out, stack = [], []
    cur = out
    for t in tokens:
        if t == "(":
            new = []
            cur.append(new); stack.append(cur); cur = new
        elif t == ")":
            cur = stack.pop()
        else:
            cur.append(int(t))
    return out

# ---- the oracle's numbers, and the choice of cases ----------------------------------------------
want, by_kind = {}, {1: [], 2: [], 3: []}
for line in open(dump):
    p = line.split()
    if len(p) < 3: continue
    w = [int(x) for x in p[1:]]
    want[p[0]] = w
    if w[0] == 2 and w[1] == 0: continue          # api case without mismatch: nothing was computed
    by_kind.setdefault(w[0], []).append(p[0])
def spread(xs, k):
    if k <= 0 or not xs: return []
    if len(xs) <= k: return list(xs)
    return [xs[(i * len(xs)) // k] for i in range(k)]
n2 = min(len(by_kind[2]), max(2, maxc // 12))
n3 = min(len(by_kind[3]), max(1, maxc // 4))
n1 = max(0, maxc - n2 - n3)
chosen = set(spread(by_kind[1], n1)) | set(spread(by_kind[2], n2)) | set(spread(by_kind[3], n3))
cases = []
for line in open(rec):
    if line.startswith("!"): continue
    tab = line.find("\t")
    if line[:tab] not in chosen: continue
    cols = line.rstrip("\n").split("\t")
    cases.append((cols[0], parse(cols[1].split())))
    if len(cases) >= len(chosen): break

# ---- Gallina terms: reader vocabulary -------------------------------------------------------------
def lst(xs): return "[" + "; ".join(xs) + "]"
def nl(xs): return lst([str(x) for x in xs])
def bl(b): return "true" if b else "false"
def user(u): return "(mkUser %d %d %s %d)" % (u[0], u[1], bl(u[2]), u[3])
def rt(t): return "(mkRT %d %d %d %s %d %d)" % (t[0], t[1], t[2], user(t[3]), t[4], t[5])
def rts(ts): return lst([rt(t) for t in ts])
def ofilter(o): return ["OAny", "(OType %d)", "(OFull %d)"][o[0]] % tuple(o[1:])
def ufilter(u):
    if u[0] == 0: return "UAny"
    if u[0] == 1: return "(UType %d)" % u[1]
    return "(UExact %s)" % user(u[1])
def restr(r):
    if r[0] == 0: return "(URel %d %d)" % (r[1], r[2])
    return ("(UWild %d)" if r[0] == 1 else "(UBare %d)") % r[1]
DEFAULT = "[0; 999999; 0; 0; 0]"
def as_list(res): return res[1] if res[0] == 0 else None
def as_opt(res):
    if res[0] == 1: return "None"
    if res[0] == 2: return "(Some %s)" % rt(res[1])
    return None

def reader_op(e):
    op, got, under = e[0], e[1], e[2]
    k = op[0]
    if k in (1, 2):
        g, un = as_list(got), as_list(under)
        if g is None or un is None: return DEFAULT
        f = "(mkRF %s %d %s %s)" % (ofilter(op[1]), op[2], ufilter(op[3]), nl(op[4]))
        fn = "combined_read_over un ctx f" if k == 1 else "combined_read_page un ctx f"
        return "(let f := %s in let un := %s in row %d (%s) (read_shape_ok f) false)" % (f, rts(un), k, fn)
    if k == 3:
        g, un = as_opt(got), as_opt(under)
        if g is None or un is None: return DEFAULT
        key = "(mkKey %d %d %s)" % (op[1], op[2], user(op[3]))
        return "(let k := %s in row 3 (ol (combined_read_user_tuple_over %s ctx k)) (rut_shape_ok k %s) false)" % (key, un, nl(op[4]))
    if k == 4:
        g, un = as_list(got), as_list(under)
        if g is None or un is None: return DEFAULT
        f = "(mkUF %s %d %s %s)" % (ofilter(op[1]), op[2], lst([restr(r) for r in op[3]]), nl(op[4]))
        return "(let f := %s in row 4 (combined_read_userset_tuples_over %s ctx f) (usersets_shape_ok f) false)" % (f, rts(un))
    g, un = as_list(got), as_list(under)
    if g is None or un is None: return DEFAULT
    oids = "None" if op[4][0] == 0 else "(Some %s)" % nl(op[4][1:])
    f = "(mkSF %d %d %s %s %s)" % (op[1], op[2], lst([user(u) for u in op[3]]), oids, nl(op[5]))
    return ("(let f := %s in let un := %s in row 5 (combined_rswu_over un ctx f %s) (rswu_shape_ok f) (sorted_result_ok_over un ctx f %s))"
            % (f, rts(un), bl(op[6]), rts(g)))

# ---- Gallina terms: Sem vocabulary (api cases) -----------------------------------------------------
def N(i): return "%d%%N" % i
def obj(t, i): return "{| otype := %s; oid := %s |}" % (N(t), N(i))
def subject(s):
    if s[0] == 0: return "(SObj %s)" % obj(s[1], s[2])
    if s[0] == 1: return "(SWild %s)" % N(s[1])
    return "(SSet %s %s)" % (obj(s[1], s[2]), N(s[3]))
def rw(r):
    k = r[0]
    if k == 0: return "This"
    if k == 1: return "(Computed %s)" % N(r[1])
    if k == 2: return "(TTU %s %s)" % (N(r[1]), N(r[2]))
    if k == 3: return "(Union %s)" % lst([rw(x) for x in r[1:]])
    if k == 4: return "(Inter %s)" % lst([rw(x) for x in r[1:]])
    return "(Diff %s %s)" % (rw(r[1]), rw(r[2]))
def srestr(r):
    kind = ["RObj", "RWild", "(RSet %s)" % N(r[2])][r[1]]
    return "{| r_type := %s; r_kind := %s; r_cond := %s |}" % (N(r[0]), kind, N(r[3]))
def model(m):
    return lst(["{| td_type := %s; td_rels := %s |}" % (N(td[0]), lst(
        ["{| rd_rel := %s; rd_rw := %s; rd_restr := %s |}" % (N(rd[0]), rw(rd[1]), lst([srestr(x) for x in rd[2]])) for rd in td[1]])) for td in m])
def stup(t):
    return "{| t_obj := %s; t_rel := %s; t_sub := %s; t_cond := %s; t_ceval := %s |}" % (obj(t[0], t[1]), N(t[2]), subject(t[3]), N(t[4]), ["T", "F", "E"][t[5]])

rv = ["From OFGA Require Import Store.CombinedReader.", "Open Scope N_scope.",
      "Definition bN (b : bool) : N := if b then 1 else 0.",
      "Definition ht (t : rtuple) : N := fold_left (fun acc x => (acc * 131 + x) mod %d)" % P,
      "  [rt_obj t; rt_otype t; rt_rel t; u_str (rt_user t); u_type (rt_user t); bN (u_wild (rt_user t)); u_rel (rt_user t); rt_cond t; rt_ctx t] 0.",
      "Definition hl (l : list rtuple) : N := fold_left (fun acc t => (acc * 131 + ht t + 1) mod %d) l 0." % P,
      "Definition ln (l : list rtuple) : N := N.of_nat (length l).",
      "Definition ol (o : option rtuple) : list rtuple := match o with Some x => [x] | None => [] end.",
      "Definition row (op : N) (m : list rtuple) (shape contract : bool) : list N := [op; ln m; hl m; bN shape; bN contract].",
      "Definition accs (ms : list (list rtuple)) : list N :=",
      "  let '(n, h) := fold_left (fun (a : N * N) m => let '(n, h) := a in ((if null m then n else n + 1), (h * 131 + hl m + 1) mod %d)) ms (0, 0) in [n; h]." % P]
av = ["From OFGA Require Import Check.V1 Check.CtxTriggers.", "Open Scope N_scope.",
      "Definition bN (b : bool) : N := if b then 1 else 0.",
      "Definition cnt {A} (p : A -> bool) (l : list A) : N := N.of_nat (length (filter p l))."]
rids, aids = [], []
for cid, vals in cases:
    kind = vals[0]
    tag = int(cid) + 1000000
    if kind == 1:
        _, stored, ctx, _unique, ops = vals
        rows = " ++ ".join(reader_op(e) for e in ops) or "[]"
        rv.append("Eval vm_compute in (%d, let stored := %s in let ctx := %s in [1; bN (keys_unique (stored ++ ctx)); bN (disjoint_keys stored ctx)] ++ %s)."
                  % (tag, rts(stored), rts(ctx), rows))
        rids.append(cid)
    elif kind == 3:
        _, ctx, by_user, by_obj = vals
        bu = lst(["index_by_user ctx (%d, %d, %d)" % (e[0], e[1], e[2]) for e in by_user])
        bo = lst(["index_by_object ctx (%d, %d, (%d, %d))" % (e[0], e[1], e[2], e[3]) for e in by_obj])
        rv.append("Eval vm_compute in (%d, let ctx := %s in [3; bN (keys_unique ctx)] ++ accs %s ++ accs %s)." % (tag, rts(ctx), bu, bo))
        rids.append(cid)
    else:
        _, m, conds, tuples, atoms, md, mms = vals
        fuel = len(atoms) + 3
        per = []
        for mm in mms:
            api, eng, ats = mm[1], mm[2], mm[7]
            nconf = " + ".join(["bN (wild_direct_conflict m cs st %s)" % subject(a[0]) for a in ats]) or "0"
            if ats and eng != 2 and api != 4:
                a = ats[0]
                bits = ("(let '(_, tr) := check_top m cs st %s %s %d %d %s %s in bN (tr_excl_sub_cycle tr) + 2 * bN (tr_swallow tr))"
                        % (subject(a[0]), lst(["(%s, %s)" % (N(p[0]), N(p[1])) for p in a[1]]), md, fuel, obj(a[2], a[3]), N(a[4])))
            else:
                bits = "0"
            per.append("(%s)" % nconf); per.append(bits)
        av.append("Eval vm_compute in (%d, let m := %s in let cs := %s in let st := %s in [2; 1; bN (model_recursive m); cnt (lenient_cond m cs) st; bN (stratified m)] ++ %s)."
                  % (tag, model(m), lst([N(c) for c in conds]), lst([stup(t) for t in tuples]), lst(per)))
        aids.append(cid)

os.makedirs(os.path.join(V, "build", "coqreplay"), exist_ok=True)
got = {}
for name, lines, ids in (("c04_reader_cases.v", rv, rids), ("c04_api_cases.v", av, aids)):
    if not ids: continue
    vf = os.path.join(V, "build", "coqreplay", name)
    open(vf, "w").write("\n".join(lines) + "\n")
    p = subprocess.run(["coqc", "-Q", COQ, "OFGA", "-w", "-notation-overridden,-deprecated", vf],
                       stdout=subprocess.PIPE, stderr=subprocess.STDOUT, text=True, timeout=3000)
    if p.returncode != 0:
        print("COQREPLAY coqc failed on %s:\n%s" % (name, p.stdout[-2000:])); sys.exit(1)
    for chunk in p.stdout.split("= (")[1:]:
        nums = [int(x) for x in re.findall(r"\d+", chunk.split(": N *")[0])]
        got[str(nums[0] - 1000000)] = nums[1:]
bad, kinds, nops = 0, {}, 0
for cid in rids + aids:
    w, g = want.get(cid), got.get(cid)
    kinds[w[0]] = kinds.get(w[0], 0) + 1
    if w[0] == 1: nops += (len(w) - 3) // 5
    if g != w:
        bad += 1
        print("COQREPLAY mismatch case %s: coq=%s ocaml=%s" % (cid, (g or [])[:30], w[:30]))
print("COQREPLAY %s %d cases (reader %d with %d operations, index %d, api-with-mismatch %d): model results (size+checksum), shape predicates, merge contract, index entries and trigger predicates recomputed by vm_compute"
      % ("ok" if not bad else "MISMATCH", len(rids) + len(aids), kinds.get(1, 0), nops, kinds.get(3, 0), kinds.get(2, 0)))
sys.exit(1 if bad else 0)
