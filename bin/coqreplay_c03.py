#!/usr/bin/env python3
"""bin/coqreplay_c03.py <cases.rec> <oracle-dump> [max_cases]

Cross-check of extraction for C03: recomputes, INSIDE Coq with vm_compute, what the extracted
OCaml oracle computed for the first `max_cases` scenario records — per evaluated request the
reference value (Sem), the outcome set of Check/V1.v as a bit mask, its trigger flags, stratified,
converged, the detector model's CheckReason / CheckExclusionReason codes, c03_ok for the three
forced strategies; and, for every deviation the oracle attributed to a semantics variant
(Check/V2Sem.v), the value of that variant — and compares them with the oracle's dump.
Prints `COQREPLAY ok ...` or the mismatches; exit 1 on a mismatch."""
import os, re, subprocess, sys
rec, dump = sys.argv[1], sys.argv[2]
maxc = int(sys.argv[3]) if len(sys.argv) > 3 else 6
V = os.path.dirname(os.path.dirname(os.path.abspath(__file__)))
COQ = os.path.join(V, "coq")
XMAX = 8

def parse(tokens):
    out, stack = [], []
    cur = out
    for t in tokens:
        if t == "(":
            new = []
            cur.append(new); stack.append(cur); cur = new
        elif t == ")":
            cur = stack.pop()
        else:
            cur.append(int(t))
    return out

def N(i): return "%d%%N" % i
def lst(xs): return "[" + "; ".join(xs) + "]"
def obj(t, i): return "{| otype := %s; oid := %s |}" % (N(t), N(i))
def subject(s):
    if s[0] == 0: return "(SObj %s)" % obj(s[1], s[2])
    if s[0] == 1: return "(SWild %s)" % N(s[1])
    return "(SSet %s %s)" % (obj(s[1], s[2]), N(s[3]))
def rw(r):
    k = r[0]
    if k == 0: return "This"
    if k == 1: return "(Computed %s)" % N(r[1])
    if k == 2: return "(TTU %s %s)" % (N(r[1]), N(r[2]))
    if k == 3: return "(Union %s)" % lst([rw(x) for x in r[1:]])
    if k == 4: return "(Inter %s)" % lst([rw(x) for x in r[1:]])
    return "(Diff %s %s)" % (rw(r[1]), rw(r[2]))
def restr(r):
    kind = ["RObj", "RWild", "(RSet %s)" % N(r[2])][r[1]]
    return "{| r_type := %s; r_kind := %s; r_cond := %s |}" % (N(r[0]), kind, N(r[3]))
def model(m):
    return lst(["{| td_type := %s; td_rels := %s |}" % (N(td[0]), lst(
        ["{| rd_rel := %s; rd_rw := %s; rd_restr := %s |}" % (N(rd[0]), rw(rd[1]), lst([restr(x) for x in rd[2]])) for rd in td[1]])) for td in m])
def tup(t):
    return "{| t_obj := %s; t_rel := %s; t_sub := %s; t_cond := %s; t_ceval := %s |}" % (obj(t[0], t[1]), N(t[2]), subject(t[3]), N(t[4]), ["T", "F", "E"][t[5]])
def edge(e): return "(%s, %s, %s, %s)" % tuple(N(x) for x in e)

cases = []
for line in open(rec):
    if line.startswith("!"): continue
    cols = line.rstrip("\n").split("\t")
    if len(cols) < 2: continue
    vals = parse(cols[1].split())
    if vals and vals[0] == 1:
        cases.append((cols[0], vals))
    if len(cases) >= maxc: break

wantR, wantX = {}, {}
for line in open(dump):
    p = line.split()
    if p[1] == "R":
        wantR.setdefault(p[0], []).append([int(x) for x in p[3:]])
    else:
        wantX.setdefault(p[0], []).append([int(x) for x in p[2:]])   # request index, switch mask, value

v = ["From OFGA Require Import Check.V1 Check.V2Breaking Check.V2Contract Check.V2Sem.", "Open Scope N_scope.",
     "Definition code3 (b : b3) : N := match b with T => 0 | F => 1 | E => 2 end.",
     "Definition bit (a : aout) : N := match a with AT => 1 | AFn => 2 | AFc => 4 | AEc => 8 | AEd => 16 | AEo => 32 | AFuel => 64 end.",
     "Definition mask (s : oset) : N := fold_left (fun acc a => N.lor acc (bit a)) s 0.",
     "Definition bN (b : bool) : N := if b then 1 else 0.",
     "Definition rcode (r : reason) : N := match r with RNone => 0 | RSelfRef => 1 | RAlias => 2 | RComputedSelf => 3 | RTTU => 4 | RUsersetExcl => 5 | RWildExcl => 6 end.",
     "Definition rofc (c : N) : reason := match c with 1 => RSelfRef | 2 => RAlias | 3 => RComputedSelf | 4 => RTTU | 5 => RUsersetExcl | 6 => RWildExcl | _ => RNone end.",
     "Definition v2of (c : N) : v2out := match c with 0 => V2T | 1 => V2F | 10 => V2E EValidation | 11 => V2E EInvalidUser | 12 => V2E EInvalidTuple",
     "  | 13 => V2E EUsersetExcl | 14 => V2E EWildExcl | 15 => V2E EPanic | 16 => V2E EGraph | 17 => V2E ECond | 18 => V2E ETimeout | 20 => V2E EModel | _ => V2E EOther end.",
     "Definition decof (c : N) : dec := match c with 0 => DT | 1 => DF | _ => DE end.",
     "(* the observation the oracle builds for one forced strategy (ocaml/c03_oracle.ml mk_ob) *)",
     "Definition okobs (k : skind) (spec : b3) (os : oset) (has_e : bool) (v1c v2c rc re : N) (fb : bool) (finc : N) : N :=",
     "  let v1 := decof v1c in let fin := if N.eqb finc 99 then v1 else decof finc in",
     "  let ds := map (fun a => match a with AT => DT | AFn | AFc => DF | _ => DE end) os in",
     "  let ds := if existsb (dec_eqb v1) ds then ds else v1 :: ds in",
     "  let sd := match spec with T => DT | F => DF | E => DE end in",
     "  let ds := if existsb (dec_eqb sd) ds then ds else ds ++ [sd] in",
     "  let ds := if has_e && negb (existsb (dec_eqb DE) ds) then ds ++ [DE] else ds in",
     "  let v1' := if fb && negb (dec_eqb fin v1) && existsb (dec_eqb fin) ds then fin else v1 in",
     "  let v2 := v2of v2c in",
     "  bN (c03_ok {| ob_kind := k; ob_spec := spec; ob_v1 := v1'; ob_v2 := v2; ob_reason := server_reason k v2 v1' (rofc rc) (rofc re);",
     "               ob_fallback := fb; ob_final := fin |}).",
     "Definition one (m : model) (cs : list cid) (st : list tuple) (ats : list atom) (md fuel : nat)",
     "  (s : subject) (px : list (tid * rid)) (reqs : list (obj * rid * (list N * bool * N))) : list N :=",
     "  let '(v, conv) := lfp m cs st s ats in",
     "  let has_e := existsb (fun t => match t_ceval t with E => valid_for_read m cs t | _ => false end) st in",
     "  flat_map (fun q : obj * rid * (list N * bool * N) => let '(o, r, (obs, fb, finc)) := q in",
     "     let '(os, tr) := check_top m cs st s px md fuel o r in",
     "     let spec := atomval s v o r in",
     "     let ok x := okobs (kind_of s) spec os has_e (nth 0 obs 0) x (nth 4 obs 0) (nth 5 obs 0) fb finc in",
     "     [code3 spec; mask os; (bN (tr_excl_sub_cycle tr) + 2 * bN (tr_swallow tr)); bN (stratified m); bN conv;",
     "      rcode (check_reason m s o r); match excl_reason m s o r with Some x => rcode x | None => 7 end;",
     "      ok (nth 1 obs 0); ok (nth 2 obs 0); ok (nth 3 obs 0)]) reqs.",
     "(* value of the semantics variant with the given switches (ocaml/c03_oracle.ml variant) *)",
     "Definition xval (m : model) (cs : list cid) (st : list tuple) (ats : list atom) (cyc cyct : list edge4)",
     "  (s : subject) (sw : N) (o : obj) (r : rid) : N :=",
     "  let b k := N.testbit sw k in",
     "  let q := {| q_noreflex := b 6; q_noexpand := b 0; q_ttuwin := []; q_poison := [] |} in",
     "  let mm := if b 3 then keep_last_recursive m else m in",
     "  let ss := if b 2 then strict_cond m cs st else st in",
     "  let ss := if b 1 then strip_ttu_userset m ss else ss in",
     "  let ss := if b 4 || b 5 then swallow mm cs (b 4) (b 5) ss else ss in",
     "  code3 (atomval_q q s (fst (lfp_q q cyc cyct mm cs ss s ats)) o r)."]
ids, nreq, nx = [], 0, 0
want = {}
for cid, vals in cases:
    _, m, conds, tuples, atoms, md, mgok, backend, cyc, cyct, subjects = vals[:11]
    fuel = len(atoms) + 3
    parts, xparts = [], []
    evaluated = []   # (subject, result) in the oracle's order of R lines
    for s in subjects:
        subj, px, results = s
        reqs = []
        for r in results:
            (ot, oi, rel, v1c, v1raw, a, b, c, fbf, fbt, rc, re_, rerr, tr, tc, sf, sr, sfb) = r
            if v1c == 23 or 10 in (a, b, c) or 11 in (a, b, c) or 18 in (v1c, fbf, a, b, c):
                continue
            if mgok == 1:
                fb, finc = fbt > 0, fbf
            elif sf != 9:
                fb, finc = sfb > 0, (0 if sf == 0 else 1 if sf == 1 else 19)
            else:
                fb, finc = True, 99     # final := v1
            reqs.append("(%s, %s, (%s, %s, %s))" % (obj(ot, oi), N(rel), lst([N(x) for x in (v1c, a, b, c, rc, re_)]),
                                                    "true" if fb else "false", N(finc)))
            evaluated.append((subj, r))
        parts.append("one m cs st ats %d %d %s %s %s" % (md, fuel, subject(subj), lst(["(%s, %s)" % (N(p[0]), N(p[1])) for p in px]), lst(reqs)))
    w = [x for t in wantR.get(cid, []) for x in t]
    for (i, sw, val) in wantX.get(cid, [])[:XMAX]:   # each costs one fixpoint computation: a sample per case
        subj, r = evaluated[i - 1]
        xparts.append("xval m cs st ats cyc cyct %s %s %s %s" % (subject(subj), N(sw), obj(r[0], r[1]), N(r[2])))
        w.append(val)
        nx += 1
    want[cid] = w
    nreq += len(evaluated)
    body = " ++ ".join(parts) or "[]"
    if xparts:
        body += " ++ " + lst(xparts)
    v.append("Definition case_%s : list N := let m := %s in let cs := %s in let st := %s in let ats := %s in let cyc := %s in let cyct := %s in %s." % (
        cid, model(m), lst([N(c) for c in conds]), lst([tup(t) for t in tuples]),
        lst(["(%s, %s)" % (obj(a[0], a[1]), N(a[2])) for a in atoms]),
        "(%s : list edge4)" % lst([edge(e) for e in cyc]), "(%s : list edge4)" % lst([edge(e) for e in cyct]), body))
    v.append('Eval vm_compute in (%s, case_%s).' % (N(int(cid) + 1000000), cid))
    ids.append(cid)
os.makedirs(os.path.join(V, "build", "coqreplay"), exist_ok=True)
vf = os.path.join(V, "build", "coqreplay", "c03_cases.v")
open(vf, "w").write("\n".join(v) + "\n")
p = subprocess.run(["coqc", "-Q", COQ, "OFGA", "-w", "-notation-overridden,-deprecated", vf], stdout=subprocess.PIPE, stderr=subprocess.STDOUT, text=True, timeout=3000)
if p.returncode != 0:
    print("COQREPLAY coqc failed:\n" + p.stdout[-2000:]); sys.exit(1)
got = {}
for chunk in p.stdout.split("= (")[1:]:
    nums = [int(x) for x in re.findall(r"\d+", chunk.split(": N *")[0])]
    got[str(nums[0] - 1000000)] = nums[1:]
bad = 0
for cid in ids:
    if got.get(cid) != want[cid]:
        bad += 1
        g = got.get(cid) or []
        k = next((i for i in range(min(len(g), len(want[cid]))) if g[i] != want[cid][i]), min(len(g), len(want[cid])))
        print("COQREPLAY mismatch case %s at position %d (lengths coq=%d ocaml=%d): coq=%s ocaml=%s" % (cid, k, len(g), len(want[cid]), g[max(0, k - 3):k + 8], want[cid][max(0, k - 3):k + 8]))
print("COQREPLAY %s %d requests (10 model values each) + %d semantics-variant values in %d cases" % ("ok" if not bad else "MISMATCH", nreq, nx, len(ids)))
sys.exit(1 if bad else 0)
