#!/usr/bin/env python3
"""bin/coqreplay_c25.py <cases.rec> <oracle-dump> [max_cases]

Cross-check of extraction for C25: recomputes, INSIDE Coq with vm_compute, the numbers the extracted
OCaml oracle computed for a selection of `max_cases` records of the same record file and compares
them with the oracle's dump (ORACLE_DUMP):
  kind 1 (evaluation): outcome of evaluate_tuple_condition with [convert] (the code) and with
          [spec_convert] (the property), outcome of [evaluate] (met flag, missing parameter names),
          the int_fraction_rounded trigger;
  kind 2 (conversion): [convert] and [spec_convert] of the value -- the converted value itself, integers
          as (sign, magnitude), doubles as mantissa and exponent -- and the trigger.
Selection: the first third of the budget from the head of the file (the fixed witnesses), the rest evenly
spread over the generated cases.  Prints `COQREPLAY ok ...` or the mismatches; exit 1 on a mismatch."""
import os, re, subprocess, sys
rec, dump = sys.argv[1], sys.argv[2]
maxc = int(sys.argv[3]) if len(sys.argv) > 3 else 40
V = os.path.dirname(os.path.dirname(os.path.abspath(__file__)))
COQ = os.path.join(V, "coq")

def parse(tokens):
    out, stack = [], []
    cur = out
    for t in tokens:
        if t == "(":
            new = []
            cur.append(new); stack.append(cur); cur = new
        elif t == ")":
            cur = stack.pop()
        elif t.startswith("x"):
            cur.append(bytes.fromhex(t[1:]))
        else:
            cur.append(int(t))
    return out

def N(i): return "%d%%N" % i
def Z(i): return "(%d)%%Z" % i
def B(b): return "true" if b else "false"
def lst(xs): return "[" + "; ".join(xs) + "]"
def by(b): return "(" + lst([N(c) for c in b]) + " : bytes)"

def ptype(t):
    k = t[0]
    names = {0: "TBool", 1: "TString", 2: "TInt", 3: "TUint", 4: "TDouble", 7: "TTimestamp", 8: "TDuration",
             9: "TIpaddr", 10: "TAny", 11: "TBad"}
    if k == 5: return "(TList %s)" % ptype(t[1])
    if k == 6: return "(TMap %s)" % ptype(t[1])
    return names[k]

def fnum(neg, mant, ex):
    return "(FFin %s %s)" % (Z(-mant if neg else mant), Z(ex))

def jval(v):
    k = v[0]
    if k == 0: return "JNull"
    if k == 1: return "(JBool %s)" % B(v[1])
    if k == 2: return "(JNum %s)" % fnum(v[1], v[2], v[3])
    if k == 3: return "(JNum FNaN)"
    if k == 4: return "(JNum (FInf %s))" % B(v[1])
    if k == 5: return "(JStr %s)" % by(v[1])
    if k == 6: return "(JList %s)" % lst([jval(x) for x in v[1:]])
    return "(JMap %s)" % lst(["(%s, %s)" % (by(kv[0]), jval(kv[1])) for kv in v[1:]])

def lit(v):
    k = v[0]
    if k == 0: return "(VBool %s)" % B(v[1])
    if k == 1: return "(VStr %s)" % by(v[1])
    if k == 2: return "(VInt %s)" % Z(-v[2] if v[1] else v[2])
    if k == 3: return "(VUint %s)" % Z(v[1])
    return "(VDouble %s)" % fnum(v[1], v[2], v[3])

OPS = ["OEq", "ONe", "OLt", "OLe", "OGt", "OGe"]
def expr(e):
    k = e[0]
    if k == 0: return "(EBool %s)" % B(e[1])
    if k == 1: return "(EStr %s)" % by(e[1])
    if k == 2: return "(EInt %s)" % Z(-e[2] if e[1] else e[2])
    if k == 3: return "(EUint %s)" % Z(e[1])
    if k == 4: return "(EDouble %s)" % fnum(e[1], e[2], e[3])
    if k == 5: return "(EParam %s)" % by(e[1])
    if k == 6: return "(ECmp %s %s %s)" % (OPS[e[1]], expr(e[2]), expr(e[3]))
    if k == 7: return "(EAnd %s %s)" % (expr(e[1]), expr(e[2]))
    if k == 8: return "(EOr %s %s)" % (expr(e[1]), expr(e[2]))
    if k == 9: return "(ENot %s)" % expr(e[1])
    if k == 10: return "(EIn %s %s)" % (expr(e[1]), expr(e[2]))
    if k == 11: return "(EListLit %s)" % lst([lit(x) for x in e[1:]])
    return "(EIdx %s %s)" % (expr(e[1]), expr(e[2]))

def ctx(c): return "(" + lst(["(%s, %s)" % (by(kv[0]), jval(kv[1])) for kv in c]) + " : ctx)"
def ext(tbl):
    ok = ["(%s, %s)" % (N(e[0]), by(e[1])) for e in tbl if e[2]]
    return "(fun (k : N) (s : bytes) => existsb (fun e : N * bytes => N.eqb (fst e) k && beqb (snd e) s) (%s : list (N * bytes)))" % lst(ok)

allc = []
for line in open(rec):
    if line.startswith("!"): continue
    cols = line.rstrip("\n").split("\t")
    if len(cols) < 2: continue
    allc.append((cols[0], cols[1]))
head = min(len(allc), max(1, maxc // 3))
sel = list(range(head))
rest = maxc - head
if rest > 0 and len(allc) > head:
    step = max(1, (len(allc) - head) // rest)
    sel += list(range(head + step // 2, len(allc), step))[:rest]
cases = [(allc[i][0], parse(allc[i][1].split())) for i in sel]

want = {}
for line in open(dump):
    p = line.split()
    want[p[0]] = [int(x) for x in p[1:]]

PRELUDE = r"""
From OFGA Require Import Sem.Cond.
From Coq Require Import ZArith List Bool.
Import ListNotations.
Open Scope N_scope.
Definition bN (b : bool) : N := if b then 1 else 0.
Definition enc_z (z : Z) : list N := match z with Z0 => [0; 0] | Zpos p => [0; Npos p] | Zneg p => [1; Npos p] end.
Definition enc_bytes (b : bytes) : list N := N.of_nat (length b) :: b.
Fixpoint enc_cval (v : cval) : list N :=
  match v with
  | VBool b => [0; bN b]
  | VStr s => 1 :: enc_bytes s
  | VInt z => 2 :: enc_z z
  | VUint z => 3 :: enc_z z
  | VDouble FNaN => [4; 0]
  | VDouble (FInf n) => [4; 1; bN n]
  | VDouble (FFin m e) => 4 :: 2 :: enc_z m ++ enc_z e
  | VList l => 5 :: N.of_nat (length l) :: flat_map enc_cval l
  | VMap l => 6 :: N.of_nat (length l) :: flat_map (fun kv => match kv with (k, x) => enc_bytes k ++ enc_cval x end) l
  | VOpaque => [7]
  | VAny => [8]
  end.
Definition enc_cres (r : cres) : list N :=
  match r with COk v => 0 :: enc_cval v | CErr => [1] | CPanic => [2] | COut => [3] end.
Definition enc_errc (e : errc) : N :=
  match e with ENotFound => 0 | ECompile => 1 | EType => 2 | EMissing => 3 | ERuntime => 4 end.
Definition enc_tres (r : tres) : list N :=
  match r with TMet => [0] | TNotMet => [1] | TErr e => [2 + enc_errc e] | TPanic => [7] | TOut => [8] end.
Definition enc_eres (r : eres) : list N :=
  match r with
  | EvOk met missing => 0 :: bN met :: N.of_nat (length missing) :: flat_map enc_bytes missing
  | EvErr e => [1; enc_errc e] | EvPanic => [2] | EvOut => [3]
  end.
Definition one_eval (ext : N -> bytes -> bool) (tn : bytes) (ecp : bool) (c : condition) (rq st : ctx) : list N :=
  let ec := if ecp then Some c else None in
  1 :: enc_tres (evaluate_tuple_condition (convert ext) tn st ec rq)
    ++ enc_tres (evaluate_tuple_condition (spec_convert ext) tn st ec rq)
    ++ enc_eres (evaluate (convert ext) c rq st)
    ++ [bN (eval_flag num_rounded c rq st)].
Definition one_conv (ext : N -> bytes -> bool) (t : ptype) (v : jval) : list N :=
  let jv := as_interface v in
  2 :: enc_cres (convert ext t jv) ++ enc_cres (spec_convert ext t jv) ++ [bN (conv_flag num_rounded t jv)].
"""
v = [PRELUDE]
ids = []
for cid, vals in cases:
    if vals[0] == 1:
        _, tname, ecp, cname, ps, ex, req, stored, extv, _it, _ie = vals
        cond = "{| c_name := %s; c_params := %s; c_expr := %s |}" % (
            by(cname), lst(["(%s, %s)" % (by(p[0]), ptype(p[1])) for p in ps]), expr(ex))
        term = "one_eval %s %s %s %s %s %s" % (ext(extv), by(tname), B(ecp), cond, ctx(req), ctx(stored))
    elif vals[0] == 2:
        _, t, val, extv, _obs = vals
        term = "one_conv %s %s %s" % (ext(extv), ptype(t), jval(val))
    else:
        continue
    v.append("Eval vm_compute in (%s, %s)." % (N(int(cid) + 1000000), term))
    ids.append(cid)
os.makedirs(os.path.join(V, "build", "coqreplay"), exist_ok=True)
vf = os.path.join(V, "build", "coqreplay", "c25_cases.v")
open(vf, "w").write("\n".join(v) + "\n")
p = subprocess.run(["coqc", "-Q", COQ, "OFGA", "-w", "-notation-overridden,-deprecated", vf],
                   stdout=subprocess.PIPE, stderr=subprocess.STDOUT, text=True, timeout=3000)
if p.returncode != 0:
    print("COQREPLAY coqc failed:\n" + p.stdout[-2000:]); sys.exit(1)
got = {}
for chunk in p.stdout.split("= (")[1:]:
    nums = [int(x) for x in re.findall(r"\d+", chunk.split(": N *")[0])]
    got[str(nums[0] - 1000000)] = nums[1:]
bad = 0
kinds = {1: 0, 2: 0}
for cid in ids:
    w, g = want.get(cid), got.get(cid)
    if w: kinds[w[0]] = kinds.get(w[0], 0) + 1
    if g != w or w is None:
        bad += 1
        print("COQREPLAY mismatch case %s: coq=%s ocaml=%s" % (cid, (g or [])[:30], (w or [])[:30]))
print("COQREPLAY %s %d cases (%d evaluations, %d conversions): extracted OCaml model == Coq vm_compute on every compared number" %
      ("ok" if not bad else "MISMATCH", len(ids), kinds.get(1, 0), kinds.get(2, 0)) if not bad else
      "COQREPLAY MISMATCH %d of %d cases" % (bad, len(ids)))
sys.exit(1 if bad else 0)
