#!/usr/bin/env python3
"""bin/coqreplay_c16.py <cases.rec> <oracle-dump> [max_cases]

Cross-check of extraction for C16: replays the first `max_cases` interleaved three-store
histories of the record file INSIDE Coq with vm_compute - t_strace, the fold of sstep over the
same model operations the oracle derives from the record (store table, filtered ListStores, model
map, tuple writes, read-all, changelog, Check, assertions) - and compares per model operation the
result class and a checksum of the answer with the oracle's dump."""
import sys, os
sys.path.insert(0, os.path.dirname(os.path.abspath(__file__)))
from coqreplay_storehist import *

PRELUDE = "From OFGA Require Import Base.Bytes Store.Assertions Store.Models Store.Stores.\n" + CHK + r"""
Definition ctup (a : N) (t : ttup) : N := cadd (cbytes (cadd (cbytes (cadd (cbytes a (fst (fst t))) 256) (snd (fst t))) 256) (snd t)) 257.
Definition qcode (o : t_sout) : list N :=
  match o with
  | QOk _ _ _ => [0; 0]
  | QCollision _ _ _ => [1; 0]
  | QNotFound _ _ _ => [2; 0]
  | QStore _ _ _ id name => [3; cbytes (cadd (cbytes 0 id) 256) name]
  | QStores _ _ _ l => [4; fold_left (fun a (p : bytes * bytes) => cadd (cbytes (cadd (cbytes a (fst p)) 256) (snd p)) 257) l 0]
  | QWrite _ _ _ c => [5; c]
  | QQuery _ _ _ (TTuples l) => [6; fold_left ctup l 0]
  | QQuery _ _ _ (TChgs l) => [7; fold_left (fun a (c : tchg) => ctup (cadd a (if fst c then 1 else 0)) (snd c)) l 0]
  | QQuery _ _ _ (TBool b) => [8; if b then 1 else 0]
  | QQuery _ _ _ (TErr c) => [9; c]
  | QModel _ _ _ id b => [10; cadd (cbytes 0 id) (tb_variant b)]
  | QIds _ _ _ ids => [11; cblist 0 ids]
  | QAsserts _ _ _ l => [12; fold_left (fun a (x : asrt) => cadd (cbytes a (a_enc x)) 256) l 0]
  end.
Definition run_t (h : list t_sop) : list N := flat_map (fun p => qcode (snd p)) (t_strace h).
Definition bd (v : N) : tbody := mkTBody [v] true true 3 200 v.
Definition asr (i : N) : asrt := mkAsrt [i] 0 true true.
"""

def main(rec, dump, maxc):
    I = Interner()
    terms = []
    P = "tbody twreq tqreq"
    for cid, col in records(rec):
        vals = parse(col.split())
        if len(vals) != 3:
            continue           # the gated two-store cases have no model replay
        ops = vals[2]
        def tup(t): return "(%s, %s, %s)" % (I.b(t[0]), I.b(t[1]), I.b(t[2]))
        hs = []
        for op in ops:
            k = op[0]
            if k == 0: hs.append("PCreate %s %s %s" % (P, I.b(op[1]), I.b(op[2])))
            elif k == 1: hs.append("PDelete %s %s" % (P, I.b(op[1])))
            elif k == 2: hs.append("PGet %s %s" % (P, I.b(op[1])))
            elif k == 3: hs.append("PList %s" % P)
            elif k == 13: hs.append("PListF %s %s %s" % (P, lst([I.b(x) for x in op[2]]), I.b(op[3])))
            elif k == 4: hs.append("PWriteModel %s %s %s (bd %s)" % (P, I.b(op[1]), I.b(op[2]), N(op[3])))
            elif k == 5: hs.append("PReadModel %s %s %s" % (P, I.b(op[1]), I.b(op[2])))
            elif k == 6: hs.append("PListModels %s %s" % (P, I.b(op[1])))
            elif k == 7: hs.append("PWrite %s %s (%s, %s)" % (P, I.b(op[1]), lst([tup(t) for t in op[2]]), lst([tup(t) for t in op[3]])))
            elif k == 8: hs.append("PQuery %s %s TReadAll" % (P, I.b(op[1])))
            elif k == 9: hs.append("PQuery %s %s TChanges" % (P, I.b(op[1])))
            elif k == 10:
                _, s, obj, kk, user, mid, cls, allowed = op
                if not mid:
                    hs.append("PQuery %s %s (TCheck %s %s %s)" % (P, I.b(s), I.b(obj), N(kk), I.b(user)))
                else:
                    hs.append("PReadModel %s %s %s" % (P, I.b(s), I.b(mid)))
                    hs.append("PQuery %s %s TReadAll" % (P, I.b(s)))
            elif k == 11:
                _, s, mid, idxs, cls = op
                hs.append("PReadModel %s %s %s" % (P, I.b(s), I.b(mid)))
                if cls == 0:
                    hs.append("PWriteAsserts %s %s %s %s" % (P, I.b(s), I.b(mid), lst(["asr %s" % N(i) for i in idxs])))
            elif k == 12:
                _, s, mid, cls, idxs = op
                hs.append("PReadModel %s %s %s" % (P, I.b(s), I.b(mid)))
                if cls == 0:
                    hs.append("PReadAsserts %s %s %s" % (P, I.b(s), I.b(mid)))
        terms.append((cid, "run_t %s" % lst(["(%s)" % h for h in hs])))
        if len(terms) >= maxc:
            break
    return run_and_compare("c16", PRELUDE, I, terms, dump, "result class and checksum of the answer per model operation")

if __name__ == "__main__":
    sys.exit(main(sys.argv[1], sys.argv[2], int(sys.argv[3]) if len(sys.argv) > 3 else 8))
