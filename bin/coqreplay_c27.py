#!/usr/bin/env python3
"""bin/coqreplay_c27.py <cases.rec> <oracle-dump> [max_cases]

Cross-check of extraction for C27: recomputes, INSIDE Coq with vm_compute, the numbers the
extracted OCaml oracle computed (ORACLE_DUMP) for a sample of `max_cases` records of the same
record file, and compares them.  All four record kinds are covered:
  1 pre-shared key case : auth_from_md, psk_new, psk_authenticate, token-in-keys
  2 OIDC case           : oidc_new, auth_from_md, oidc_authenticate (outcome, reason code,
                          principal), the 12 fields of validity_of, decide, property_literal, extra_ok
  3 OIDC history        : oidc_run over all steps (outcome / reason / principal per step)
  4 pre-shared history  : psk_run over all steps
The records of a C27 file are grouped by kind, so the sample is taken evenly spaced within each kind
(fixed shares).  SHA-256 (the Section variable H) is, inside Coq, the table of the record's
(key, digest) pairs plus the digests of the token candidates of the header (hashlib; every suffix
after a space of the first header value), "" on a miss; parse_jwt is the record's own
(token string -> structure) table, TokMalformed on a miss, exactly as in ocaml/c27_oracle.ml.
Prints `COQREPLAY ok ...` or the mismatches; exit 1 on a mismatch."""
import hashlib, os, re, subprocess, sys
rec, dump = sys.argv[1], sys.argv[2]
maxc = int(sys.argv[3]) if len(sys.argv) > 3 else 40
V = os.path.dirname(os.path.dirname(os.path.abspath(__file__)))
COQ = os.path.join(V, "coq")
SHARE = {1: 0.3, 2: 0.45, 3: 0.1, 4: 0.15}
SHARD = 150


def parse(tokens):
    out, stack = [], []
    cur = out
    for t in tokens:
        if t == "(":
            new = []
            cur.append(new); stack.append(cur); cur = new
        elif t == ")":
            cur = stack.pop()
        elif t.startswith("x"):
            cur.append(bytes.fromhex(t[1:]))
        else:
            cur.append(int(t))
    return out


by_kind = {k: [] for k in SHARE}
with open(rec) as f:
    for lineno, line in enumerate(f):
        if line.startswith("!"):
            continue
        tab = line.find("\t")
        if tab < 0:
            continue
        k = line[tab + 1:tab + 3]
        if len(k) == 2 and k[0].isdigit() and k[1] == " " and int(k[0]) in by_kind:
            by_kind[int(k[0])].append(lineno)
pick = set()
for k, lines in by_kind.items():
    q = max(1, int(round(maxc * SHARE[k])))
    if len(lines) <= q:
        pick.update(lines)
    else:
        pick.update(lines[(i * len(lines)) // q + (len(lines) // (2 * q))] for i in range(q))
cases = []
with open(rec) as f:
    for lineno, line in enumerate(f):
        if lineno in pick:
            cols = line.rstrip("\n").split("\t")
            cases.append((cols[0], parse(cols[1].split())))

want = {}
for line in open(dump):
    p = line.split()
    if p:
        want[p[0]] = [int(x) for x in p[1:]]


def B(b): return "[" + "; ".join(str(x) for x in b) + "]"
def lst(xs): return "[" + "; ".join(xs) + "]"
def LB(l): return lst([B(x) for x in l])
def Z(n): return "(%d)%%Z" % n


def htable(keys, digests, vals):
    """(string, sha256) pairs: the record's own digests, then the token candidates"""
    ent = [(k, d) for k, d in zip(keys, digests)]
    if vals:
        v = vals[0]
        for i, c in enumerate(v):
            if c == 32:
                ent.append((v[i + 1:], hashlib.sha256(v[i + 1:]).digest()))
    return ent


def H(ent): return lst(["(%s, %s)" % (B(k), B(d)) for k, d in ent])


def jv(v):
    t = v[0]
    if t == 1: return "JStr %s" % B(v[1])
    if t == 2: return "JNum %s" % Z(v[1])
    if t == 3: return "JStrs %s" % LB(v[1])
    if t == 4: return "JBadList"
    return "JOther"


ALG = {0: "AlgRS256", 1: "AlgOther", 2: "AlgUnavailable"}
def bl(x): return "true" if x else "false"


def token(t):
    if t[0] == 0:
        return "TokMalformed"
    _, a, k, cl = t
    kid = {0: "KidAbsent", 1: "KidNotString", 2: "KidUnknown"}.get(k[0]) or "(KidFound %s %s)" % (bl(k[1]), bl(k[2]))
    claims = lst(["(%s, %s)" % (B(c[0]), jv(c[1])) for c in cl])
    return "(TokParsed %s %s %s)" % (ALG[a], kid, claims)


class Defs:
    """long token strings are defined once per generated case and referred to by name"""
    def __init__(self, cid):
        self.cid, self.names, self.lines = cid, {}, []
    def tok(self, b):
        if b not in self.names:
            n = "tok_%s_%d" % (self.cid, len(self.names))
            self.names[b] = n
            self.lines.append("Definition %s : bytes := %s." % (n, B(b)))
        return self.names[b]
    def vals(self, around, tok0):
        out = []
        for v in around:
            if v[0] == 0:
                out.append(B(v[1]))
            else:
                out.append("(%s ++ %s ++ %s)" % (B(v[1]), self.tok(tok0), B(v[2])))
        return lst(out)


def cfg_args(vals):
    main, aliases, aud, subjects, cic = vals[1:6]
    return "%s %s %s %s %s" % (B(main), LB(aliases), B(aud), LB(subjects), LB(cic))


def expr(cid, vals, pre):
    k = vals[0]
    if k == 1:
        _, keys, hv, digests, _cls = vals
        return "k1 %s %s %s" % (H(htable(keys, digests, hv)), LB(keys), LB(hv))
    if k == 2:
        now, around, table = vals[6], vals[7], vals[8]
        d = Defs(cid)
        tok0 = table[0][0] if table else b""
        pt = lst(["(%s, %s)" % (d.tok(e[0]), token(e[1])) for e in table])
        e = "k2 %s %s %s %s" % (pt, cfg_args(vals), Z(now), d.vals(around, tok0))
        pre.extend(d.lines)
        return e
    if k == 3:
        d = Defs(cid)
        pt, hist, seen = [], [], set()
        for st in vals[6]:
            now, around, table = st[0], st[1], st[2]
            tok0 = table[0][0] if table else b""
            for e in table:
                if e[0] not in seen:
                    seen.add(e[0])
                    pt.append("(%s, %s)" % (d.tok(e[0]), token(e[1])))
            hist.append("(%s, %s)" % (Z(now), d.vals(around, tok0)))
        e = "k3 %s %s %s" % (lst(pt), cfg_args(vals), lst(hist))
        pre.extend(d.lines)
        return e
    if k == 4:
        ent, hist = [], []
        for st in vals[1]:
            keys, digests, hv = st[0], st[1], st[2]
            ent += htable(keys, digests, hv)
            hist.append("(%s, %s)" % (LB(keys), LB(hv)))
        return "k4 %s %s" % (H(ent), lst(hist))
    raise SystemExit("COQREPLAY unknown record kind %r" % k)


PRELUDE = """From OFGA Require Import Base.Bytes Sec.Authn.
From Coq Require Import ZArith.
Open Scope N_scope.
Definition hsh (l : bytes) : N := fold_left (fun acc b => (acc * 257 + b + 1) mod 1000000007) l 0.
Definition len {A} (l : list A) : N := fold_left (fun acc _ => acc + 1) l 0.
Definition nh (l : bytes) : list N := [len l; hsh l].
Definition nb (b : bool) : N := if b then 1 else 0.
Definition n_md (m : md_result) : list N :=
  match m with MdNoHeader => [0] | MdBadString => [1] | MdWrongScheme => [2] | MdToken t => 3 :: nh t end.
Definition n_reason (r : reason) : N :=
  match r with RMalformed => 0 | RAlgUnavailable => 1 | RAlgNotAllowed => 2 | RKey => 3 | RSignature => 4
             | RClaims => 5 | RIssuer => 6 | RSubject => 7 | RSubType => 8 end.
Definition n_out (o : oidc_outcome) : list N :=
  match o with
  | OAccept p => 0 :: nh (p_subject p) ++ nh (p_client_id p) ++ len (p_scopes p) :: flat_map nh (p_scopes p)
  | OMissingBearer => [1]
  | OInvalid r => [2; n_reason r]
  end.
Definition n_val (v : validity) : list N :=
  map nb [vy_bearer v; vy_wellformed v; vy_alg v; vy_key v; vy_sig v; vy_exp v; vy_nbf v; vy_iat v;
          vy_aud v; vy_iss v; vy_sub v; vy_sub_wf v; decide v; property_literal v; extra_ok v].
(* SHA-256 as the table of digests of the record; parse_jwt as the record's token table *)
Fixpoint tbl_h (t : list (bytes * bytes)) (b : bytes) : bytes :=
  match t with [] => [] | (k, d) :: r => if beqb k b then d else tbl_h r b end.
Fixpoint tbl_parse (t : list (bytes * token)) (b : bytes) : token :=
  match t with [] => TokMalformed | (k, tk) :: r => if beqb k b then tk else tbl_parse r b end.
Definition k1 (t : list (bytes * bytes)) (keys vals : list bytes) : list N :=
  n_md (auth_from_md vals)
  ++ match psk_new (tbl_h t) keys with
     | None => [0; 7]
     | Some hs => [1; psk_class (psk_authenticate (tbl_h t) hs vals)]
     end
  ++ [nb match auth_from_md vals with MdToken tk => bmem tk keys | _ => false end].
Definition k2 (pt : list (bytes * token)) (main : bytes) (aliases : list bytes) (aud : bytes)
           (subs cic : list bytes) (now : Z) (vals : list bytes) : list N :=
  match oidc_new main aliases aud subs cic with
  | None => [0]
  | Some cfg => 1 :: n_md (auth_from_md vals) ++ n_out (oidc_authenticate (tbl_parse pt) cfg now vals)
                  ++ n_val (validity_of (tbl_parse pt) cfg now vals)
  end.
Definition k3 (pt : list (bytes * token)) (main : bytes) (aliases : list bytes) (aud : bytes)
           (subs cic : list bytes) (h : list (Z * list bytes)) : list N :=
  match oidc_new main aliases aud subs cic with
  | None => [0]
  | Some cfg => 1 :: flat_map n_out (oidc_run (tbl_parse pt) cfg h)
  end.
Definition k4 (t : list (bytes * bytes)) (h : list (list bytes * list bytes)) : list N :=
  map (fun o => match o with None => 7 | Some x => psk_class x end) (psk_run (tbl_h t) h).
"""

os.makedirs(os.path.join(V, "build", "coqreplay"), exist_ok=True)
got = {}
for sh in range(0, len(cases), SHARD):
    v = [PRELUDE]
    for cid, vals in cases[sh:sh + SHARD]:
        pre = []
        e = expr(cid, vals, pre)
        v.extend(pre)
        v.append("Eval vm_compute in (%d, %s)." % (int(cid) + 1000000, e))
    vf = os.path.join(V, "build", "coqreplay", "c27_cases%s.v" % ("" if sh == 0 else "_%d" % (sh // SHARD)))
    open(vf, "w").write("\n".join(v) + "\n")
    p = subprocess.run(["coqc", "-Q", COQ, "OFGA", "-w", "-notation-overridden,-deprecated", vf],
                       stdout=subprocess.PIPE, stderr=subprocess.STDOUT, text=True, timeout=3000)
    if p.returncode != 0:
        print("COQREPLAY coqc failed:\n" + p.stdout[-2000:]); sys.exit(1)
    for chunk in p.stdout.split("= (")[1:]:
        nums = [int(x) for x in re.findall(r"\d+", chunk.split(": N *")[0])]
        got[str(nums[0] - 1000000)] = nums[1:]
bad = 0; total = 0
kinds = {}
for cid, vals in cases:
    w = want.get(cid)
    g = got.get(cid)
    total += len(w or [])
    kinds[vals[0]] = kinds.get(vals[0], 0) + 1
    if g is None or w is None or g != w:
        bad += 1
        print("COQREPLAY mismatch case %s (kind %d): coq=%s ocaml=%s" % (cid, vals[0], (g or [])[:40], (w or [])[:40]))
print("COQREPLAY %s %d model values in %d cases (per record kind: %s), vm_compute in Coq %s extracted OCaml" % (
    "ok" if not bad else "MISMATCH", total, len(cases), ", ".join("%d:%d" % kv for kv in sorted(kinds.items())),
    "==" if not bad else "!= (%d cases differ)" % bad))
sys.exit(1 if bad else 0)
