#!/usr/bin/env python3
"""bin/coqreplay_c29.py <cases.rec> <oracle-dump> [max_cases] — extraction cross-check for C29: the
first max_cases records are re-evaluated inside Coq (vm_compute over Codec/TupleStr.v) and compared
with the numbers the extracted OCaml oracle dumped."""
import os, re, subprocess, sys
rec, dump = sys.argv[1], sys.argv[2]
maxc = int(sys.argv[3]) if len(sys.argv) > 3 else 200
V = os.path.dirname(os.path.dirname(os.path.abspath(__file__)))
def bl(hexs):
    b = bytes.fromhex(hexs[1:]) if hexs.startswith("x") else b""
    return "[" + "; ".join(str(x) for x in b) + "]%N"
cases = []
# take cases spread over the file (every k-th) so that random/structured strings are included
lines = [l for l in open(rec) if not l.startswith("!")]
step = max(1, len(lines) // maxc)
for line in lines[::step][:maxc]:
    cols = line.rstrip("\n").split("\t")
    toks = cols[1].split()
    if toks[0] == "1":
        cases.append((cols[0], 1, [toks[1]]))
    elif toks[0] == "2":
        cases.append((cols[0], 2, toks[1:4]))
want = {}
for line in open(dump):
    p = line.split()
    want[p[0]] = [int(x) for x in p[1:]]
v = ["From OFGA Require Import Codec.TupleStr.", "Open Scope N_scope.",
     "Definition bN (b : bool) : N := if b then 1 else 0.",
     "Definition sg (l : bytes) : list N := [N.of_nat (length l); fold_left N.add l 0].",
     "Definition k1 (s : bytes) : list N :=",
     "  let '(t, id) := split_object s in let '(o, r) := split_object_relation s in let '(pt, pid, pr) := to_user_parts s in",
     "  [1; bN (is_valid_object s); bN (is_valid_relation s); bN (is_valid_userid s); bN (is_valid_userset s); bN (is_valid_user s);",
     "   bN (is_wildcard s); bN (is_typed_wildcard s); bN (user_type_is_userset s);",
     "   match parse_tuple_string s with inl _ => 0 | inr ENoHash => 1 | inr EBadObject => 2 | inr ENoAt => 3 | inr EBadRelation => 4 | inr EBadUser => 5 end]",
     "  ++ sg t ++ sg id ++ sg o ++ sg r ++ sg pt ++ sg pid ++ sg pr.",
     "Definition k2 (a b c : bytes) : list N :=",
     "  [2] ++ sg (from_user_parts a b c) ++ sg (tuple_key_to_string a b c) ++ sg (user_proto_to_string (UUserset a b c))",
     "  ++ [bN (is_self_defining a b c); bN (userset_match_type_and_relation a b c)]."]
for cid, kind, args in cases:
    call = "k1 %s" % bl(args[0]) if kind == 1 else "k2 %s %s %s" % tuple(bl(a) for a in args)
    v.append("Eval vm_compute in (%d%%N, %s)." % (int(cid) + 1000000, call))
os.makedirs(os.path.join(V, "build", "coqreplay"), exist_ok=True)
vf = os.path.join(V, "build", "coqreplay", "c29_cases.v")
open(vf, "w").write("\n".join(v) + "\n")
p = subprocess.run(["coqc", "-Q", os.path.join(V, "coq"), "OFGA", "-w", "-notation-overridden,-deprecated", vf],
                   stdout=subprocess.PIPE, stderr=subprocess.STDOUT, text=True, timeout=1800)
if p.returncode != 0:
    print("COQREPLAY coqc failed:\n" + p.stdout[-2000:]); sys.exit(1)
got = {}
for chunk in p.stdout.split("= (")[1:]:
    nums = [int(x) for x in re.findall(r"\d+", chunk.split(": N *")[0])]
    got[str(nums[0] - 1000000)] = nums[1:]
bad = 0
for cid, _, _ in cases:
    if got.get(cid) != want.get(cid):
        bad += 1
        print("COQREPLAY mismatch case %s: coq=%s ocaml=%s" % (cid, got.get(cid), want.get(cid)))
print("COQREPLAY %s %d cases" % ("ok" if not bad else "MISMATCH", len(cases)))
sys.exit(1 if bad else 0)
