#!/usr/bin/env python3
"""bin/coqreplay_c26.py <cases.rec> <oracle-dump> [max_cases]

Cross-check of extraction for C26: recomputes, INSIDE Coq with vm_compute, the numbers the
extracted OCaml oracle computed for `max_cases` cases of the same record file (Sec/Authz.v:
authorize / write_authorize / spec_allowed / spec_write_allowed per call, the pinned handler flags,
list_stores / list_stores_sqlite per ListStores variant with a checksum of the returned ids,
authorize_create_store / spec_system_allowed, spec_allowed per probe, list_stores_from per forged
continuation token, authorize_fault / write_authorize_fault / fault_fires per injected fault) on the grant table of the
record, and compares them with the oracle's dump.
Prints `COQREPLAY ok <n> ...` or the mismatches; exit 1 on a mismatch."""
import os, re, subprocess, sys
rec, dump = sys.argv[1], sys.argv[2]
maxc = int(sys.argv[3]) if len(sys.argv) > 3 else 12
V = os.path.dirname(os.path.dirname(os.path.abspath(__file__)))
COQ = os.path.join(V, "coq")

def parse(tokens):
    out, stack = [], []
    cur = out
    for t in tokens:
        if t == "(":
            new = []
            cur.append(new); stack.append(cur); cur = new
        elif t == ")":
            cur = stack.pop()
        elif t.startswith("x"):
            cur.append(("b", bytes.fromhex(t[1:])))
        else:
            cur.append(int(t))
    return out

want, by_kind = {}, {}
for line in open(dump):
    p = line.split()
    if len(p) < 2: continue
    w = [int(x) for x in p[1:]]
    want[p[0]] = w
    by_kind.setdefault(w[0], []).append(p[0])
def spread(xs, k):
    if k <= 0 or not xs: return []
    if len(xs) <= k: return list(xs)
    return [xs[(i * len(xs)) // k] for i in range(k)]
share = {1: 0.2, 3: 0.2, 2: 0.15, 4: 0.15, 5: 0.1, 6: 0.2}
chosen = set()
for k, frac in share.items():
    chosen |= set(spread(by_kind.get(k, []), max(1, int(round(maxc * frac)))))
cases = []
for line in open(rec):
    if line.startswith("!"): continue
    tab = line.find("\t")
    if line[:tab] not in chosen: continue
    cols = line.rstrip("\n").split("\t")
    cases.append((cols[0], parse(cols[1].split())))
    if len(cases) >= len(chosen): break

def B(v):  # bytes value -> Gallina list N
    return "[" + "; ".join(str(x) for x in v[1]) + "]"
def lst(xs): return "[" + "; ".join(xs) + "]"
def base(h):
    return ("b", h[1].split(b"#")[0])

def common(vals):
    claims_state, client, stores, grants, la = vals[1:6]
    cl = "NoClaims" if claims_state == 0 else "(Claims %s)" % B(client)
    allv = lst(["(%s, %s)" % (B(s[0]), B(s[1])) for s in stores])
    tbl = lst(["((%s, %d, %s, %s), %d)" % (B(g[0]), g[1], B(g[2]), B(g[3]), g[4]) for g in grants])
    lav = "(fun _ => None)" if (len(la) == 1 and la[0] == 1) else "(fun _ => Some %s)" % lst([B(x) for x in la[1]])
    return cl, allv, tbl, lav

hdr = ["From Coq Require Import NArith List Bool.", "Import ListNotations.", "From OFGA Require Import Base.Bytes Sec.Authz.", "Open Scope N_scope.",
       "Definition bN (b : bool) : N := if b then 1 else 0.",
       "Definition hb (s : bytes) : N := fold_left (fun acc x => (acc * 131 + x) mod 1000000007) s 0.",
       "Definition hl (l : list bytes) : N := fold_left (fun acc s => (acc * 131 + hb s + 1) mod 1000000007) l 0.",
       "Definition mkg (tbl : list ((bytes * N * bytes * bytes) * N)) : grant_oracle := fun _ r o =>",
       "  let '(k, st, md) := match o with OSystem => (0, [], []) | OStore s => (1, s, []) | OModule s m => (2, s, m) end in",
       "  match find (fun e => let '((rb, k', st', md'), _) := e in beqb rb (relation_bytes r) && (k' =? k) && beqb st' st && beqb md' md)%bool tbl with",
       "  | Some (_, 1) => Some true | Some (_, 0) => Some false | _ => None end.",
       "Definition flag (h : bytes) : N := bN (handler_model_read_before_authz_b h) + 2 * bN (handler_store_scoped_b h).",
       "Definition dec2 (g : grant_oracle) (cl : claims) (mb sid : bytes) : list N :=",
       "  match method_of_bytes mb with Some m => [bN (is_allow (authorize g cl m sid [])); bN (spec_allowed g cl m sid [])] | None => [0; 0] end.",
       "Definition lsn (r : ls_result) : list N := match r with LSDenied => [0] | LSStores ids => [1; N.of_nat (length ids); hl ids] end."]
body, ids = [], []
ncalls = 0
for cid, vals in cases:
    kind = vals[0]
    tag = int(cid) + 1000000
    cl, allv, tbl, lav = common(vals)
    pre = "let g := mkg %s in let cl := %s in let all := %s in let la : list_oracle := %s in " % (tbl, cl, allv, lav)
    if kind in (1, 3):
        rows = []
        for c in vals[6]:
            handler, meth, store, lookups = c[0], c[1], c[2], c[3]
            fl = "[flag %s]" % B(base(handler))
            if handler[1] == b"Write":
                ls = lst([["LTypeNotFound", "LNoRelation"][l[0]] if l[0] < 2 else "(LModule %s)" % B(l[1]) for l in lookups])
                rows.append("(let ls := %s in [bN (is_allow (write_authorize g cl %s ls)); bN (spec_write_allowed g cl %s ls)] ++ %s)" % (ls, B(store), B(store), fl))
            elif meth[1] == b"":
                rows.append("([1; 1] ++ %s)" % fl)
            else:
                rows.append("(dec2 g cl %s %s ++ %s)" % (B(meth), B(store), fl))
            ncalls += 1
        body.append("Eval vm_compute in (%d, %s [%d] ++ %s)." % (tag, pre, kind, " ++ ".join(rows) or "[]"))
    elif kind in (2, 4):
        lists, backend = vals[6], vals[8]
        fn = "list_stores_sqlite" if backend[1] == b"sqlite" else "list_stores"
        sq = "true" if backend[1] == b"sqlite" else "false"
        rows = [("lsn (%s g la cl %s all)" % (fn, B(l[0]))) if l[4] < 0 else
                ("lsn (list_stores_from %s g la cl %s all %d%%nat)" % (sq, B(l[0]), l[4])) for l in lists]
        cm = B(("b", b"CreateStore"))
        rows.append("[bN (is_allow (authorize_create_store g cl)); match method_of_bytes %s with Some m => bN (spec_system_allowed g cl m) | None => 9 end]" % cm)
        body.append("Eval vm_compute in (%d, %s [%d] ++ %s)." % (tag, pre, kind, " ++ ".join(rows)))
        ncalls += len(lists)
    elif kind == 5:
        handler, meth, probes = vals[6], vals[7], vals[8]
        rows = []
        for p in probes:
            for a in p[1]:
                if meth[1] == b"":
                    rows.append("[2]")
                else:
                    rows.append("[match method_of_bytes %s with Some m => bN (spec_allowed g cl m %s []) | None => 2 end]" % (B(meth), B(a[0])))
                ncalls += 1
        body.append("Eval vm_compute in (%d, %s [5; bN (handler_model_read_before_authz_b %s)] ++ %s)." % (tag, pre, B(base(handler)), " ++ ".join(rows) or "[]"))
    elif kind == 6:
        rows = []
        for c in vals[6]:
            handler, meth, store, lookups, k, frm = c[0], c[1], c[2], c[3], c[4], c[5]
            fb = "true" if frm else "false"
            if handler[1] == b"Write":
                ls = lst([["LTypeNotFound", "LNoRelation"][l[0]] if l[0] < 2 else "(LModule %s)" % B(l[1]) for l in lookups])
                rows.append("(let ls := %s in [bN (is_allow (write_authorize_fault g %d %s cl %s ls)); bN (is_allow (write_authorize g cl %s ls)); "
                            "match extract_modules ls [] with MErr => 0 | MMods ms => bN (fault_fires g %d cl M_Write %s ms) end])"
                            % (ls, k, fb, B(store), B(store), k, B(store)))
            else:
                rows.append("(match method_of_bytes %s with Some m => [bN (is_allow (authorize_fault g %d %s cl m %s [])); bN (is_allow (authorize g cl m %s [])); bN (fault_fires g %d cl m %s [])] | None => [9; 9; 9] end)"
                            % (B(meth), k, fb, B(store), B(store), k, B(store)))
            ncalls += 1
        body.append("Eval vm_compute in (%d, %s [6] ++ %s)." % (tag, pre, " ++ ".join(rows) or "[]"))
    else:
        continue
    ids.append(cid)

os.makedirs(os.path.join(V, "build", "coqreplay"), exist_ok=True)
vf = os.path.join(V, "build", "coqreplay", "c26_cases.v")
open(vf, "w").write("\n".join(hdr + body) + "\n")
p = subprocess.run(["coqc", "-Q", COQ, "OFGA", "-w", "-notation-overridden,-deprecated", vf],
                   stdout=subprocess.PIPE, stderr=subprocess.STDOUT, text=True, timeout=1500)
if p.returncode != 0:
    print("COQREPLAY coqc failed:\n%s" % p.stdout[-2000:]); sys.exit(1)
got = {}
for chunk in p.stdout.split("= (")[1:]:
    nums = [int(x) for x in re.findall(r"\d+", chunk.split(": N *")[0])]
    got[str(nums[0] - 1000000)] = nums[1:]
bad, kinds = 0, {}
for cid in ids:
    w, g = want.get(cid), got.get(cid)
    kinds[w[0]] = kinds.get(w[0], 0) + 1
    if g != w:
        bad += 1
        print("COQREPLAY mismatch case %s: coq=%s ocaml=%s" % (cid, (g or [])[:40], w[:40]))
print("COQREPLAY %s %d cases (%s; %d decisions): authorize / write_authorize / spec_allowed per call, handler flags, list_stores(+sqlite) id checksums, list_stores_from on forged tokens, create-store, probe and fault decisions (authorize_fault / write_authorize_fault / fault_fires) recomputed by vm_compute on the record's grant table"
      % ("ok" if not bad else "MISMATCH", len(ids), ", ".join("kind %d: %d" % (k, v) for k, v in sorted(kinds.items())), ncalls))
sys.exit(1 if bad else 0)
