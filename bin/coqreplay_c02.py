#!/usr/bin/env python3
"""bin/coqreplay_c02.py <cases.rec> <oracle-dump> [max_cases]

Cross-check of extraction for C02: recomputes, INSIDE Coq with vm_compute, what the extracted OCaml
oracle computed with the strategy models for `max_cases` direct-feed cases of the same record file
(spread over the kinds) and compares with the oracle's dump:
  kind 3  fp_union_c / fp_inter_c / fp_diff_c on the recorded chunked streams: result code
          (done / failed / out of fuel), length and ALL values;
  kind 4  weight2 on the recorded producers (channels concatenated) under the empty schedule and
          under an alternating schedule: outcome code (allowed / denied / error);
  kind 2  rec_check on the recorded graph, direct members, start node and depth limit: bres code;
  kind 6  source_impl on the recorded contextual / stored tuples: error flag, length, all objects.
Prints `COQREPLAY ok <n> ...` or the mismatches; exit 1 on a mismatch."""
import os, re, subprocess, sys
rec, dump = sys.argv[1], sys.argv[2]
maxc = int(sys.argv[3]) if len(sys.argv) > 3 else 40
V = os.path.dirname(os.path.dirname(os.path.abspath(__file__)))
COQ = os.path.join(V, "coq")

def parse(tokens):
    out, stack = [], []
    cur = out
    for t in tokens:
        if t == "(":
            new = []
            cur.append(new); stack.append(cur); cur = new
        elif t == ")":
            cur = stack.pop()
        else:
            cur.append(int(t))
    return out

want, by_kind = {}, {}
for line in open(dump):
    p = line.split()
    if len(p) < 2: continue
    w = [int(x) for x in p[1:]]
    want[p[0]] = w
    by_kind.setdefault(w[0], []).append(p[0])
def spread(xs, k):
    if k <= 0 or not xs: return []
    if len(xs) <= k: return list(xs)
    return [xs[(i * len(xs)) // k] for i in range(k)]
kinds = [k for k in (3, 4, 2, 6) if by_kind.get(k)]
chosen = set()
for k in kinds:
    share = {3: 0.4, 4: 0.25, 2: 0.2, 6: 0.15}[k]
    chosen |= set(spread(by_kind[k], max(1, int(maxc * share))))
cases = []
for line in open(rec):
    if line.startswith("!"): continue
    tab = line.find("\t")
    if line[:tab] not in chosen: continue
    cols = line.rstrip("\n").split("\t")
    cases.append((cols[0], parse(cols[1].split())))

def lst(xs): return "[" + "; ".join(xs) + "]"
def nl(xs): return lst([str(x) for x in xs])
def chunk(c):
    if c[0] == 2: return "ChErr"
    if c[0] == 3: return "(cond_chunk %s)" % lst(["(%d, %d)" % (e // 4, e % 4) for e in c[1:]])
    return "(Ch %s %s)" % (nl(c[1:]), "false" if c[0] == 0 else "true")
def lmsg(m):
    if m[0] == 2: return "LErr"
    return "(LIter %s)" % lst(["IFail" if x == 0 else "(IVal %d)" % (x - 1) for x in m[1:]])
def pairs(l): return lst(["(%d, %d)" % (a, b) for a, b in l])

v = ["From Coq Require Import List NArith Bool.", "From OFGA Require Import Check.V1Weight2 Check.V1Recursive Check.V1FastPathSource.",
     "Import ListNotations.", "Open Scope N_scope.",
     "Definition bN (b : bool) : N := if b then 1 else 0.",
     "Definition ln (l : list N) : N := N.of_nat (length l).",
     "Definition fpc (r : fpres) : list N := match r with FPDone l => 0 :: ln l :: l | FPFail l => 1 :: ln l :: l | FPFuel => [2; 0] end.",
     "Definition w2c (o : option w2res) : N := match o with None => 99 | Some r => if w_err r then 2 else if w_allowed r then 0 else 1 end.",
     "Definition brc (b : bres) : N := match b with BTrue => 0 | BFalse => 1 | BErr => 3 | BDepth => 4 | BFuel => 99 end.",
     "Definition alt : list bool := [false; true; false; true; false; true; false; true; false; true; false; true]."]
ids = []
for cid, vals in cases:
    tag = int(cid) + 1000000
    k = vals[0]
    if k == 3:
        _, op, streams, _vals, _failed = vals
        css = [lst([chunk(c) for c in s]) for s in streams]
        if op == 0: term = "fp_union_c %s" % lst(css)
        elif op == 1: term = "fp_inter_c %s" % lst(css)
        else: term = "fp_diff_c %s %s" % (css[0], css[1])
        v.append("Eval vm_compute in (%d, 3 :: fpc (%s))." % (tag, term))
    elif k == 4:
        _, left, right, _outs = vals
        msgs = lst([lmsg(m) for ch in left for m in ch])
        rs = lst(["RErr" if x == 0 else "(RVal %d)" % (x - 1) for x in right])
        v.append("Eval vm_compute in (%d, let l := %s in let r := %s in [4; w2c (weight2 [] l r); w2c (weight2 alt l r)])." % (tag, msgs, rs))
    elif k == 2:
        _, _n, edges, direct, start, depth, _outs = vals
        v.append("Eval vm_compute in (%d, [2; brc (rec_check %s %s %d%%nat %d)])." % (tag, pairs(edges), nl(direct), depth, start))
    elif k == 6:
        _, ctxt, stored, _objs, _failed = vals
        v.append("Eval vm_compute in (%d, let '(o, e) := source_impl %s %s in 6 :: bN e :: ln o :: o)." % (tag, pairs(ctxt), pairs(stored)))
    else:
        continue
    ids.append(cid)

os.makedirs(os.path.join(V, "build", "coqreplay"), exist_ok=True)
vf = os.path.join(V, "build", "coqreplay", "c02_cases.v")
open(vf, "w").write("\n".join(v) + "\n")
p = subprocess.run(["coqc", "-Q", COQ, "OFGA", "-w", "-notation-overridden,-deprecated", vf],
                   stdout=subprocess.PIPE, stderr=subprocess.STDOUT, text=True, timeout=3000)
if p.returncode != 0:
    print("COQREPLAY coqc failed:\n" + p.stdout[-2000:]); sys.exit(1)
got = {}
for ch in p.stdout.split("= (")[1:]:
    nums = [int(x) for x in re.findall(r"\d+", ch.split(": N *")[0])]
    got[str(nums[0] - 1000000)] = nums[1:]
bad, per = 0, {}
for cid in ids:
    w, g = want.get(cid), got.get(cid)
    per[w[0]] = per.get(w[0], 0) + 1
    if g != w:
        bad += 1
        print("COQREPLAY mismatch case %s: coq=%s ocaml=%s" % (cid, (g or [])[:30], (w or [])[:30]))
print("COQREPLAY %s %d cases (fast-path set operations %d with all output values, weight2 %d under two schedules, recursive BFS %d, sorted producer %d) recomputed by vm_compute"
      % ("ok" if not bad else "MISMATCH", len(ids), per.get(3, 0), per.get(4, 0), per.get(2, 0), per.get(6, 0)))
sys.exit(1 if bad else 0)
