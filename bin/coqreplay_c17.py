#!/usr/bin/env python3
"""bin/coqreplay_c17.py <cases.rec> <oracle-dump> [max_cases]

Cross-check of extraction for C17: replays the first `max_cases` server histories and datastore
histories of the record file INSIDE Coq with vm_compute - t_mem_trace / t_sql_trace (command,
model cache, typesystem resolver over the backend models) and t_mem_btrace / t_sql_btrace - and
compares per operation the result class and a checksum of the answer (ids, content encoding,
variant) with the oracle's dump.  The ids of rejected writes are not observable: as in the oracle
they are placeholders between their neighbours."""
import sys, os
sys.path.insert(0, os.path.dirname(os.path.abspath(__file__)))
from coqreplay_storehist import *

PRELUDE = "From OFGA Require Import Base.Bytes Store.Assertions Store.Models.\n" + CHK + r"""
Definition ecode (e : merr) : N :=
  match e with MInvalidArgument => 1 | MExceeded => 4 | MInvalidModel => 14 | MModelNotFound => 2
             | MLatestNotFound => 3 | MStoredModelInvalid => 5 | MInternal => 7 end.
Definition cbody (b : tbody) : N := cadd (cadd (cbytes 0 (tb_enc b)) (tb_variant b)) (tb_size b mod 1000).
Definition mcode (o : mout tbody) : list N :=
  match o with
  | MWritten _ id => [0; cbytes 0 id]
  | MModel _ id b => [1; cadd (cbytes 0 id) (cbody b)]
  | MIds _ ids => [2; cblist 0 ids]
  | MResolved _ id b => [3; cadd (cbytes 0 id) (cbody b)]
  | MErr _ e => [10 + ecode e; 0]
  end.
Definition bcode (o : bout tbody) : list N :=
  match o with
  | BOk _ => [0; 0] | BErr _ => [1; 0] | BNotFound _ => [2; 0]
  | BModel _ id b => [3; cadd (cbytes 0 id) (cbody b)]
  | BIds _ ids => [4; cblist 0 ids]
  end.
Definition run_m (mem : bool) (h : list (mop tbody)) : list N :=
  flat_map (fun p => mcode (snd p)) (if mem then t_mem_trace h else t_sql_trace h).
Definition run_b (mem : bool) (h : list (bop tbody)) : list N :=
  flat_map (fun p => bcode (snd p)) (if mem then t_mem_btrace h else t_sql_btrace h).
"""

def main(rec, dump, maxc):
    I = Interner()
    terms = []
    nsrv = nraw = 0
    for cid, col in records(rec):
        if len(col) > 200000:
            continue
        vals = parse(col.split())
        layer = vals[0]
        if layer not in (0, 1):
            continue
        backend, ops = vals[1], vals[3]
        def sur(e):
            # the content encoding is opaque to the model: long ones are passed as first 40 + last 8 bytes
            return e if len(e) <= 48 else e[:40] + e[-8:]
        def body(b):
            return "(mkTBody %s %s %s %s %s %s)" % (I.b(sur(b[0])), boolc(b[1]), boolc(b[2]), N(b[3]), N(b[4]), N(b[5]))
        hs = []
        if layer == 1:
            if nsrv >= maxc: continue
            nsrv += 1
            last, bangs = b"", 0
            for op in ops:
                k = op[0]
                if k == 0:
                    _, s, b, cls, wid = op
                    if cls == 0:
                        last, bangs = wid, 0
                        i = wid
                    else:
                        bangs += 1
                        i = last + b"!" * bangs
                    hs.append("MWrite tbody %s %s %s" % (I.b(s), body(b), I.b(i)))
                elif k == 1:
                    hs.append("MRead tbody %s %s" % (I.b(op[1]), I.b(op[2])))
                elif k == 2:
                    hs.append("MList tbody %s" % I.b(op[1]))
                else:
                    ido = "(Some %s)" % I.b(op[2][0]) if op[2] else "None"
                    hs.append("MResolve tbody %s %s" % (I.b(op[1]), ido))
            terms.append((cid, "run_m %s %s" % (boolc(backend == 0), lst(["(%s)" % h for h in hs]))))
        else:
            if nraw >= max(2, maxc // 3): continue
            nraw += 1
            for op in ops:
                k = op[0]
                if k == 0: hs.append("BWrite tbody %s %s %s" % (I.b(op[1]), I.b(op[2]), body(op[3])))
                elif k == 1: hs.append("BRead tbody %s %s" % (I.b(op[1]), I.b(op[2])))
                elif k == 2: hs.append("BLatest tbody %s" % I.b(op[1]))
                else: hs.append("BList tbody %s" % I.b(op[1]))
            terms.append((cid, "run_b %s %s" % (boolc(backend == 0), lst(["(%s)" % h for h in hs]))))
        if nsrv >= maxc and nraw >= max(2, maxc // 3):
            break
    return run_and_compare("c17", PRELUDE, I, terms, dump, "result class and checksum of id / content / id list per operation")

if __name__ == "__main__":
    sys.exit(main(sys.argv[1], sys.argv[2], int(sys.argv[3]) if len(sys.argv) > 3 else 12))
