#!/usr/bin/env python3
"""bin/coqreplay_c10.py <cases.rec> <oracle-dump> [max_cases]

Cross-check of extraction for C10: replays the first `max_cases` recorded histories INSIDE Coq with
vm_compute - `replay` and `predictions` of Cache/Consistency.v folded over the same operation list
the oracle builds from the record (configuration bits, writes, requests with api / consistency /
key / reference / observed answer / clobber set / fault flag) - and compares, per request, the
verdict and the prediction (kind and answer) with the numbers the extracted OCaml model dumped."""
import sys, os
sys.path.insert(0, os.path.dirname(os.path.abspath(__file__)))
from coqreplay_storehist import parse, records, N, lst, boolc, run_and_compare


class NoBytes:
    defs = []


PRELUDE = r"""From OFGA Require Import Cache.Consistency.
Close Scope string_scope.
Open Scope list_scope.
Open Scope N_scope.
Definition pcode (p : prediction) : list N :=
  match p with
  | PExact a => [0; a] | PExactOrCancelled a => [1; a] | PExactOrError a => [2; a] | PAnyAnswer => [3; 0]
  end.
Fixpoint zipc (vs : list N) (ps : list (rreq * prediction)) : list N :=
  match vs, ps with
  | v :: vs', (_, p) :: ps' => v :: pcode p ++ zipc vs' ps'
  | _, _ => []
  end.
Definition run_c (c : rcfg) (h : list rop) : list N := zipc (replay c rs0 h) (predictions c rs0 h).
"""


def main(rec, dump, maxc):
    terms = []
    for cid, col in records(rec):
        vals = parse(col.split())
        if len(vals) != 2 or len(vals[0]) != 6:
            continue
        cfg = "(mkR %s)" % " ".join(boolc(b) for b in vals[0])
        ops = []
        for op in vals[1]:
            if op[0] == 0:
                ops.append("RWrite")
            else:
                _, api, hi, key, rf, obs, _unst, cl, fault = op
                ops.append("RReq (mkReq %s %s %s %s %s %s %s)" % (N(api), boolc(hi), N(key), N(rf), N(obs),
                                                                  lst([N(k) for k in cl]), boolc(fault)))
        terms.append((cid, "run_c %s %s" % (cfg, lst(ops))))
        if len(terms) >= maxc:
            break
    return run_and_compare("c10", PRELUDE, NoBytes, terms, dump,
                           "verdict and prediction (kind, answer) per request of the replayed histories")


if __name__ == "__main__":
    sys.exit(main(sys.argv[1], sys.argv[2], int(sys.argv[3]) if len(sys.argv) > 3 else 20))
