#!/usr/bin/env python3
"""bin/coqreplay_c09.py <cases.rec> <oracle-dump> [max_cases]

Cross-check of extraction for C09: replays, INSIDE Coq with vm_compute, the first `max_cases`
direct scenarios (record kind 1) of the record file: the whole operation sequence (open / Next /
Head / Stop / background steps / invalidation / eviction / server-context cancellation, including
the script side effects) is folded through `step` of Cache/CachedIter.v, and per operation the
result / status / goroutine-event codes, a checksum of the returned tuple, the set of cached keys
and the length of the entries are compared with what the EXTRACTED OCaml model computed
(ORACLE_DUMP of ocaml/c09_oracle.ml).  Prints `COQREPLAY ok ...` or the mismatches; exit 1 on a
mismatch."""
import os, re, subprocess, sys
rec, dump = sys.argv[1], sys.argv[2]
maxc = int(sys.argv[3]) if len(sys.argv) > 3 else 20
V = os.path.dirname(os.path.dirname(os.path.abspath(__file__)))
COQ = os.path.join(V, "coq")


def parse(tokens):
    out, stack = [], []
    cur = out
    for t in tokens:
        if t == "(":
            new = []
            cur.append(new); stack.append(cur); cur = new
        elif t == ")":
            cur = stack.pop()
        elif t.startswith("x"):
            cur.append(bytes.fromhex(t[1:]))
        else:
            cur.append(int(t))
    return out


def N(i): return "%d" % i
def nat(i): return "(N.to_nat %d)" % i
def lst(xs): return "[" + "; ".join(xs) + "]"
def bs(b): return lst([N(x) for x in b])
def boolv(b): return "true" if b else "false"
def tup(t): return "(mkT %s %s %s %s %s %s)" % (bs(t[0]), bs(t[1]), bs(t[2]), bs(t[3]), bs(t[4]), N(t[5]))
def errk(c): return {1: "ECancel", 4: "ECancel", 2: "EDeadline", 5: "EDeadline", 3: "EOther"}.get(c)
def sev(c):
    if c == 6: return "(SFx (FxReq ECancel))"
    if c == 7: return "(SFx (FxReq EDeadline))"
    if c == 8: return "(SFx FxSrv)"
    e = errk(c)
    return "(SFail %s)" % e if e else "SPass"
def oerr(c):
    e = errk(c)
    return "(Some %s)" % e if e else "None"
def ctx(m): return ["CLive", "CCancelled", "CDeadline"][m] if m in (0, 1, 2) else "CLive"


HEADER = r"""
From OFGA Require Import Cache.CachedIter.
From Coq Require Import List NArith.
Import ListNotations.
Open Scope N_scope.

Definition sumb (b : bytes) : N := fold_left N.add b 0.
Definition chk (t : tuple) : N :=
  sumb (t_obj t) + 3 * sumb (t_rel t) + 5 * sumb (t_user t) + 7 * sumb (t_cname t) + 11 * sumb (t_cctx t) + 13 * t_ts t + 1.
Definition rcode (r : res) : list N :=
  match r with
  | RItem t => [0; chk t] | RDone => [1; 0]
  | RErr ECancel => [2; 0] | RErr EDeadline => [3; 0] | RErr EOther => [4; 0]
  end.
Definition elen (e : centry) : N := N.of_nat (entry_len e).
Definition csum (keys : list N) (st : state) : list N :=
  [fold_left (fun m k => match alist_get k (st_cache st) with Some _ => m + N.shiftl 1 k | None => m end) keys 0;
   fold_left (fun a kv => a + elen (snd kv) + 1) (st_cache st) 0].
Definition phase_of (st : state) (i : nat) : option phase :=
  match nth_error (st_iters st) i with Some (IMiss m) => Some (mi_phase m) | _ => None end.

(* the driver's operations and the glue of ocaml/c09_oracle.ml that maps them to model steps *)
Inductive dop :=
| DOpen (q : qdesc) | DNext (i : nat) (c : ctxs) | DHead (i : nat) (c : ctxs) | DStop (i : nat) | DBg (i : nat)
| DInval (m : N) (w : N) (k : N) | DEvict (k : N) | DCancel.

Fixpoint finish_waiters (js : list nat) (owner : nat) (st : state) (n : N) : state * N :=
  match js with
  | [] => (st, n)
  | j :: js' =>
      match phase_of st j with
      | Some (PBgWait o) => if Nat.eqb o owner then finish_waiters js' owner (fst (step st (OBg j))) (n + 1)
                            else finish_waiters js' owner st n
      | _ => finish_waiters js' owner st n
      end
  end.

Definition apply (st : state) (d : dop) : state * list N :=
  match d with
  | DOpen q =>
      let '(st1, o) := step st (OOpen q) in
      (st1, [match o with
             | OOpened true _ => 0 | OOpened false true => 2 | OOpened false false => 1
             | OOpenErr ECancel => 3 | OOpenErr EDeadline => 4 | OOpenErr EOther => 5 | _ => 99 end])
  | DNext i c => let '(st1, o) := step st (ONext i c) in (st1, match o with ORes x => rcode x | _ => [9; 0] end)
  | DHead i c => let '(st1, o) := step st (OHead i c) in (st1, match o with ORes x => rcode x | _ => [9; 0] end)
  | DStop i =>
      let before := nth_error (st_iters st) i in
      let st1 := fst (step st (OStop i)) in
      match before with
      | Some (IMiss m) =>
          if mi_closing m then (st1, [0]) else
          let st2 := match phase_of st1 i with Some PBgInit => fst (step st1 (OBg i)) | _ => st1 end in
          (st2, [match phase_of st2 i with Some PFin => 1 | Some PBgHead => 2 | _ => 99 end])
      | Some (IHit _) => (st1, [0])
      | Some (IBypass _ inn _) => (st1, [if in_stopped inn then 0 else 1])
      | _ => (st1, [99])
      end
  | DBg i =>
      let '(st1, o) := step st (OBg i) in
      match o with
      | OBgRes (Some x) fin =>
          let st2 := match phase_of st1 i with Some PBgSf => fst (step st1 (OBg i)) | _ => st1 end in
          let ev := if fin then 1 else match phase_of st2 i with Some (PBgWait _) => 0 | Some _ => 2 | None => 99 end in
          let '(st3, nw) := if fin then finish_waiters (seq 0 (length (st_iters st2))) i st2 0 else (st2, 0) in
          (st3, rcode x ++ [ev; nw])
      | _ => (st1, [9; 0; 99; 0])
      end
  | DInval m w k =>
      let now := st_clock st + 1 in
      let ts := match w with
                | 0 => 0 | 1 => now | 2 => now + 1000000000
                | _ => match alist_get k (st_cache st) with Some e => entry_ts e | None => now end
                end in
      (fst (step st (OInval m ts)), [0])
  | DEvict k => (fst (step st (OEvict k)), [0])
  | DCancel => (fst (step st OCancelServer), [0])
  end.

Fixpoint run_ops (keys : list N) (st : state) (ds : list dop) : list N :=
  match ds with
  | [] => [N.of_nat (length (st_writes st)); fold_left (fun a w => a + elen (snd (fst w))) (st_writes st) 0]
  | d :: ds' => let '(st1, ns) := apply st d in ns ++ csum keys st1 ++ run_ops keys st1 ds'
  end.
"""

cases = []
for line in open(rec):
    if line.startswith("!"):
        continue
    cols = line.rstrip("\n").split("\t")
    if len(cols) < 2:
        continue
    vals = parse(cols[1].split())
    if vals and vals[0] == 1:
        cases.append((cols[0], vals))
    if len(cases) >= maxc:
        break

want = {}
for line in open(dump):
    p = line.split()
    if p:
        want[p[0]] = [int(x) for x in p[1:]]

v = [HEADER]
ids = []
nops = 0
for cid, vals in cases:
    _, variant, mx, qs, ops, writes, leftover, hung = vals
    if mx == 0 and variant != 1:
        pass
    keys = sorted(set(q[4] for q in qs))
    for qi, q in enumerate(qs):
        v.append("Definition items_%s_%d : list tuple := %s." % (cid, qi, lst([tup(t) for t in q[6]])))
    dops = []
    for o in ops:
        k = o[0]
        if k == 0:
            _, qi, higher, script, lossy, openerr, status, ovar, mask = o
            q = qs[qi]
            kind = ["KRead", "KRut", "KRswu"][q[0]]
            dops.append("DOpen (mkQ %s %s %s %s %s %s %s %s %s items_%s_%d %s %s %s)" % (
                "V2" if ovar == 2 else "V1", kind, boolv(higher), bs(q[1]), bs(q[2]), lst([bs(u) for u in q[3]]),
                N(q[4]), lst([N(m) for m in q[5]]), nat(mx), cid, qi, lst([sev(c) for c in script]), boolv(lossy), oerr(openerr)))
        elif k == 1:
            dops.append("DNext %s %s" % (nat(o[1]), ctx(o[2])))
        elif k == 2:
            dops.append("DHead %s %s" % (nat(o[1]), ctx(o[2])))
        elif k == 3:
            dops.append("DStop %s" % nat(o[1]))
        elif k == 4:
            dops.append("DBg %s" % nat(o[1]))
        elif k == 5:
            dops.append("DInval %s %s %s" % (N(o[1]), N(o[2]), N(o[3])))
        elif k == 6:
            dops.append("DEvict %s" % N(o[1]))
        elif k == 7:
            dops.append("DCancel")
    nops += len(dops)
    v.append("Definition case_%s : list N := run_ops %s init_state %s." % (cid, lst([N(k) for k in keys]), lst(dops)))
    v.append("Eval vm_compute in (%s, case_%s)." % (N(int(cid) + 1000000), cid))
    ids.append(cid)

os.makedirs(os.path.join(V, "build", "coqreplay"), exist_ok=True)
vf = os.path.join(V, "build", "coqreplay", "c09_cases.v")
open(vf, "w").write("\n".join(v) + "\n")
p = subprocess.run(["coqc", "-Q", COQ, "OFGA", "-w", "-notation-overridden,-deprecated", vf],
                   stdout=subprocess.PIPE, stderr=subprocess.STDOUT, text=True, timeout=1500)
if p.returncode != 0:
    print("COQREPLAY coqc failed:\n" + p.stdout[-2000:]); sys.exit(1)
got = {}
for chunk in p.stdout.split("= (")[1:]:
    nums = [int(x) for x in re.findall(r"\d+", chunk.split(": N *")[0])]
    got[str(nums[0] - 1000000)] = nums[1:]
bad = 0
total = 0
for cid in ids:
    w = want.get(cid)
    g = got.get(cid)
    total += len(w or [])
    if w is None or g != w:
        bad += 1
        i = next((j for j in range(min(len(g or []), len(w or []))) if g[j] != w[j]), -1)
        print("COQREPLAY mismatch case %s at position %d: coq=%s ocaml=%s" % (cid, i, (g or [])[max(0, i - 3):i + 6], (w or [])[max(0, i - 3):i + 6]))
print("COQREPLAY %s %d scenarios, %d operations, %d numbers" % ("ok" if not bad else "MISMATCH", len(ids), nops, total))
sys.exit(1 if bad else 0)
