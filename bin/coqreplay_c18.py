#!/usr/bin/env python3
"""bin/coqreplay_c18.py <cases.rec> <oracle-dump> [max_cases]

Cross-check of extraction for C18: recomputes, INSIDE Coq with vm_compute, the numbers the extracted
OCaml oracle computed (ocaml/c18_oracle.ml, ORACLE_DUMP) for `max_cases` records spread evenly over the first 800 records
of the same record file (those the oracle dumps) -- three quarters tuple records (kind 1: per tuple the error class of
validate_tuple and validate_write, valid_for_write, valid_ctx_tuple, allowed_raw, lax_cond_raw,
lax_nocond_raw; the first 25 (quick) or 60 tuples of a record), one quarter Write requests (kind 2: class of
write_cmd, number of datastore calls, whether a DsWrite is among them, size and checksum of the
store afterwards) -- and compares them with the dump.  Prints `COQREPLAY ok ...` or the
mismatches; exit 1 on a mismatch."""
import os, re, subprocess, sys
rec, dump = sys.argv[1], sys.argv[2]
maxc = int(sys.argv[3]) if len(sys.argv) > 3 else 24
V = os.path.dirname(os.path.dirname(os.path.abspath(__file__)))
COQ = os.path.join(V, "coq")
PER_RECORD = 25 if maxc <= 40 else 60  # tuples compared per record
FIELDS = 7


def parse(tokens):
    out, stack = [], []
    cur = out
    for t in tokens:
        if t == "(":
            new = []
            cur.append(new); stack.append(cur); cur = new
        elif t == ")":
            cur = stack.pop()
        elif t.startswith("x"):
            cur.append(bytes.fromhex(t[1:]))
        else:
            cur.append(int(t))
    return out


def lst(xs): return "[" + "; ".join(xs) + "]"
def bs(b): return lst([str(x) for x in b])
def rw(r):
    k = r[0]
    if k == 0: return "This"
    if k == 1: return "(Computed %d)" % r[1]
    if k == 2: return "(TTU %d %d)" % (r[1], r[2])
    if k == 3: return "(Union %s)" % lst([rw(x) for x in r[1:]])
    if k == 4: return "(Inter %s)" % lst([rw(x) for x in r[1:]])
    return "(Diff %s %s)" % (rw(r[1]), rw(r[2]))
def restr(r):
    kind = ["RObj", "RWild", "(RSet %d)" % r[2]][r[1]]
    return "{| r_type := %d; r_kind := %s; r_cond := %d |}" % (r[0], kind, r[3])
def model(m):
    return lst(["{| td_type := %d; td_rels := %s |}" % (td[0], lst(
        ["{| rd_rel := %d; rd_rw := %s; rd_restr := %s |}" % (rd[0], rw(rd[1]), lst([restr(x) for x in rd[2]])) for rd in td[1]])) for td in m])
def table(t): return lst(["(%s, %d)" % (bs(n), i) for n, i in t])
def env(e): return "{| e_types := %s; e_rels := %s; e_conds := %s |}" % (table(e[0]), table(e[1]), table(e[2]))
PT = ["PBool", "PString", "PInt", "PUint", "PDouble", "PDuration", "PTimestamp", "PIpaddr", "PAny"]
def ptype(t):
    if isinstance(t, int): return PT[t]
    return "(%s %s)" % ("PList" if t[0] == 9 else "PMap", ptype(t[1]))
def cdefs(c): return lst(["(%d, %s)" % (ci, lst(["(%s, %s)" % (bs(n), ptype(t)) for n, t in ps])) for ci, ps in c])
def B(x): return "true" if x else "false"
def vkind(v):
    if isinstance(v, int): return {0: "KNull", 1: "KBool", 6: "KCtl"}[v]
    if v[0] == 2: return "(KNum %s %s)" % (B(v[1]), B(v[2]))
    if v[0] == 3:
        if isinstance(v[1], list): return "(KStr (SInt %s))" % B(v[1][1])
        return "(KStr %s)" % {1: "SFrac", 2: "SText", 3: "SDur", 4: "STime", 5: "SIp"}[v[1]]
    return "(%s %s)" % ("KList" if v[0] == 4 else "KMap", lst([vkind(x) for x in v[1:]]))
def rtuple(t):
    o, r, u, c = t
    if c:
        cond = "(Some {| wc_name := %s; wc_ctx := %s; wc_size := %d |})" % (bs(c[0]), lst(["(%s, %s)" % (bs(k), vkind(x)) for k, x in c[1]]), c[2])
    else:
        cond = "None"
    return "{| rt_obj := %s; rt_rel := %s; rt_user := %s; rt_cond := %s |}" % (bs(o), bs(r), bs(u), cond)
def skey(k): return "{| k_obj := %s; k_rel := %s; k_user := %s |}" % (bs(k[0]), bs(k[1]), bs(k[2]))

n1 = maxc - maxc // 4
n2 = maxc // 4
raw1, raw2 = [], []
seen = 0
for line in open(rec):
    if line.startswith("!"): continue
    cols = line.rstrip("\n").split("\t")
    if len(cols) < 2: continue
    seen += 1
    if seen > 800: break            # the oracle dumps the first 800 records only
    kind = cols[1].split(" ", 1)[0]
    (raw1 if kind == "1" else raw2 if kind == "2" else []).append((cols[0], cols[1]))
def spread(xs, n):                  # n records evenly spaced over the dumped ones
    if len(xs) <= n: return xs
    return [xs[(i * len(xs)) // n] for i in range(n)]
k1 = [(cid, parse(r.split())) for cid, r in spread(raw1, n1)]
k2 = [(cid, parse(r.split())) for cid, r in spread(raw2, n2)]

want = {}
for line in open(dump):
    p = line.split()
    if p: want[p[0]] = [int(x) for x in p[1:]]

v = ["From OFGA Require Import Sem.ValidWrite.", "Open Scope N_scope.",
     "Definition cls (r : vres) : N := match r with None => 0 | Some ETypeNotFound => 1 | Some ERelNotFound => 2 | Some EInvalidTuple => 3 | Some EInvalidCond => 4 end.",
     "Definition bN (b : bool) : N := if b then 1 else 0.",
     "Definition one (e : env) (m : model) (cds : cdefs) (limit : N) (w : rtuple) : list N :=",
     "  [cls (validate_tuple e m cds w); cls (validate_write e m cds limit w); bN (valid_for_write e m cds limit w);",
     "   bN (valid_ctx_tuple e m cds w); bN (allowed_raw e m cds limit w); bN (lax_cond_raw e m cds limit w); bN (lax_nocond_raw e m cds limit w)].",
     "Definition wcls (r : wres) : N := match r with WOk => 0 | WInvalidInput => 1 | WValidation => 2 | WDuplicate => 3 | WLimit => 4 | WFailedInput => 5 end.",
     "Definition ssum (s : store) : N := fold_left (fun a x => a + N.of_nat (length (k_obj (fst x)) + length (k_rel (fst x)) + length (k_user (fst x)) + length (snd x))) s 0.",
     "Definition cmd (x : wres * list dscall * store) : list N :=",
     "  [wcls (fst (fst x)); N.of_nat (length (snd (fst x)));",
     "   bN (existsb (fun c => match c with DsWrite _ _ => true | DsReadModel => false end) (snd (fst x)));",
     "   N.of_nat (length (snd x)); ssum (snd x)]."]
expect = {}
for cid, vals in k1:
    _, e, m, cds, limit, _valid, tuples = vals
    ts = [t[0] for t in tuples][:PER_RECORD]
    v.append("Definition case_%s : list N := let e := %s in let m := %s in let cds := %s in flat_map (one e m cds %d) %s." % (
        cid, env(e), model(m), cdefs(cds), limit, lst([rtuple(t) for t in ts])))
    v.append("Eval vm_compute in (%d, case_%s)." % (int(cid) + 1000000, cid))
    expect[cid] = (want.get(cid) or [])[:FIELDS * len(ts)] if cid in want else None
OPT = ["OError", "OIgnore", "OBad"]
for cid, vals in k2:
    _, e, m, cds, limit, maxw, before, deletes, writes, od, om, _cl, _after = vals
    st = lst(["(%s, %s)" % (skey(x[:3]), bs(x[3])) for x in before])
    v.append("Definition case_%s : list N := cmd (write_cmd %s %s %s %d %d %s %s %s %s %s)." % (
        cid, env(e), model(m), cdefs(cds), limit, maxw, OPT[od], OPT[om], st,
        lst([skey(k) for k in deletes]), lst([rtuple(t) for t in writes])))
    v.append("Eval vm_compute in (%d, case_%s)." % (int(cid) + 1000000, cid))
    expect[cid] = want.get(cid)
os.makedirs(os.path.join(V, "build", "coqreplay"), exist_ok=True)
vf = os.path.join(V, "build", "coqreplay", "c18_cases.v")
open(vf, "w").write("\n".join(v) + "\n")
p = subprocess.run(["coqc", "-Q", COQ, "OFGA", "-w", "-notation-overridden,-deprecated", vf],
                   stdout=subprocess.PIPE, stderr=subprocess.STDOUT, text=True, timeout=3000)
if p.returncode != 0:
    print("COQREPLAY coqc failed:\n" + p.stdout[-2000:]); sys.exit(1)
got = {}
for chunk in p.stdout.split("= (")[1:]:
    nums = [int(x) for x in re.findall(r"\d+", chunk.split(": N *")[0])]
    got[str(nums[0] - 1000000)] = nums[1:]
bad = 0; ntuples = 0
for cid, _ in k1 + k2:
    w, g = expect.get(cid), got.get(cid)
    if w is None or g != w:
        bad += 1
        print("COQREPLAY mismatch case %s: coq=%s ocaml=%s" % (cid, (g or [])[:28], (w or [])[:28]))
for cid, _ in k1:
    ntuples += len(got.get(cid) or []) // FIELDS
print("COQREPLAY %s %d tuples (7 model values each) in %d tuple records and %d Write requests recomputed by vm_compute" % (
    "ok" if not bad else "MISMATCH", ntuples, len(k1), len(k2)))
sys.exit(1 if bad else 0)
