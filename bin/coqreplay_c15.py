#!/usr/bin/env python3
"""bin/coqreplay_c15.py <cases.rec> <oracle-dump> [max_cases]

Cross-check of extraction for C15: the C15 records have the format of C12's (histories of write
requests and horizon reads over the same models), so this is bin/coqreplay_c12.py writing
build/coqreplay/c15_cases.v: every history is replayed inside Coq (vm_compute) with the memory
and sqlite models' write fold and compared step by step (result class, tuple count, changelog
length, checksum of tuples + changelog; horizon reads: number of entries and checksum) with
what the extracted OCaml oracle computed."""
import os, sys
sys.path.insert(0, os.path.dirname(os.path.abspath(__file__)))
import coqreplay_c12
if __name__ == "__main__":
    sys.exit(coqreplay_c12.main(sys.argv[1], sys.argv[2], int(sys.argv[3]) if len(sys.argv) > 3 else 15, "c15"))
