#!/usr/bin/env python3
"""bin/coqreplay_c24.py <cases.rec> <oracle-dump> [max_cases]

Cross-check of extraction for C24: recomputes, INSIDE Coq with vm_compute, the numbers the
extracted OCaml oracle computed for the first `max_cases` (moderately sized) records of the run:
the model's encoded bytes (enc_ser, pb_write_opt / enc_pb, inv_bytes, the CheckCacheKey bytes, the
iterator keys' pre-hash bytes and final layout with the constant hash 0, the plain keys, the
contextual-tuple sort order and Less matrix) as length + bytes (<= 64 bytes) or length + byte sum +
positional checksum, plus the model-side pair relations (pre-hash bytes equal, tie_free).
Prints `COQREPLAY ok ...` or the mismatches; exit 1 on a mismatch."""
import os, re, subprocess, sys
rec, dump = sys.argv[1], sys.argv[2]
maxc = int(sys.argv[3]) if len(sys.argv) > 3 else 30
V = os.path.dirname(os.path.dirname(os.path.abspath(__file__)))
COQ = os.path.join(V, "coq")
MAXLEN = 6000      # records longer than this (boundary cases with thousands of elements) are skipped
SHARD = 400

def parse(tokens):
    out, stack = [], []
    cur = out
    for t in tokens:
        if t == "(":
            new = []
            cur.append(new); stack.append(cur); cur = new
        elif t == ")":
            cur = stack.pop()
        else:
            cur.append(t)
    return out

def lst(xs): return "[" + "; ".join(xs) + "]"
def by(tok):
    assert tok.startswith("x")
    h = tok[1:]
    return lst([str(int(h[i:i + 2], 16)) for i in range(0, len(h), 2)])
def boolc(tok): return "true" if tok != "0" else "false"

def pb(v):
    k = v[0]
    if k == "0": return "PNull"
    if k == "1": return "(PNum %s)" % v[1]
    if k == "2": return "(PStr %s)" % by(v[1])
    if k == "3": return "(PBool %s)" % boolc(v[1])
    if k == "4": return "PUnset"
    if k == "5": return "(PList %s)" % lst([pb(x) for x in v[1:]])
    return "(PStruct %s)" % fields(v[1:])
def fields(l):
    return lst(["(%s, %s)" % (by(l[i]), pb(l[i + 1])) for i in range(0, len(l), 2)])
def tup(t):
    if t[3] == "0":
        return "(mk_tkey %s %s %s None)" % (by(t[0]), by(t[1]), by(t[2]))
    return "(mk_tkey %s %s %s (Some (%s, %s)))" % (by(t[0]), by(t[1]), by(t[2]), by(t[4]), fields(t[5]))
def ser(v):
    k = v[0]
    if k == "0": return "(SBytes %s)" % by(v[1])
    if k == "1": return "(SByte %s)" % v[1]
    if k == "2": return "(SBool %s)" % boolc(v[1])
    if k == "3": return "SNull"
    if k == "4": return "SUnset"
    if k == "5": return "(SU64 %s)" % v[1]
    if k == "6": return "(SString %s)" % by(v[1])
    if k == "7": return "(SArray %s)" % lst([ser(x) for x in v[1:]])
    if k == "8":
        r = v[1:]
        return "(SMap %s)" % lst(["(%s, %s)" % (ser(r[i]), ser(r[i + 1])) for i in range(0, len(r), 2)])
    return "(SPair %s %s)" % (ser(v[1]), ser(v[2]))
def strs(l): return lst([by(x) for x in l])

def check_side(s):
    store, model, obj, rel, user, ctx, tuples, inv, key = s[:9]
    ts = lst([tup(t) for t in tuples])
    ib = "(inv_bytes %s %s %s %s)" % (by(store), by(model), fields(ctx), ts)
    term = "(summ %s ++ summ (pkey_bytes (KCheck %s %s %s %s %s)) ++ [bN (tie_free %s)])" % (
        ib, by(store), by(obj), by(rel), by(user), inv, ts)
    return term, ib

def iter_side(kind, s):
    if kind == 4:
        store, ot, rel, uf, oids, conds, key = s
        ufc = lst(["(%s, %s)" % (by(e[0]), by(e[1])) for e in uf])
        oc = "None" if oids[0] == "0" else "(Some %s)" % strs(oids[1])
        st = "(rswu_stage1 %s %s %s)" % (ufc, oc, strs(conds))
        key = "(rswu_key hash0 %s %s %s %s %s %s)" % (by(store), by(ot), by(rel), ufc, oc, strs(conds))
    elif kind == 5:
        store, obj, rel, refs, conds, key = s
        rk = lambda e: "(RRel %s)" % by(e[2]) if e[1] == "0" else ("RWild" if e[1] == "1" else "RNone")
        rc = lst(["(%s, %s)" % (by(e[0]), rk(e)) for e in refs])
        st = "(rut_stage1 %s %s)" % (rc, strs(conds))
        key = "(rut_key hash0 %s %s %s %s %s)" % (by(store), by(obj), by(rel), rc, strs(conds))
    else:
        store, obj, rel, user, conds, key = s
        st = "(read_stage1 %s)" % strs(conds)
        key = "(read_key hash0 %s %s %s %s %s)" % (by(store), by(obj), by(rel), by(user), strs(conds))
    return "(summ %s ++ summ %s)" % (st, key), st

def plain_side(s):
    ctor, a, key = s
    b = lambda i: by(a[i])
    if ctor == "1": k = "KChangelog %s" % b(0)
    elif ctor == "2": k = "KInvalidIter %s" % b(0)
    elif ctor == "3": k = "KInvalidIterOR %s %s %s" % (b(0), b(1), b(2))
    elif ctor == "4": k = "KInvalidIterUOT %s %s %s" % (b(0), b(1), b(2))
    elif ctor == "5": k = "KModel %s %s" % (b(0), b(1))
    elif ctor == "6": k = "KWeightedGraph %s %s" % (b(0), b(1))
    elif ctor == "7": k = "KEdge %s %s %s %s %s %s %s %s %s" % (b(0), b(1), b(2), b(3), b(4), a[5], b(6), b(7), a[8])
    else: k = "KCheck %s %s %s %s %s" % (b(0), b(1), b(2), b(3), a[4])
    return "(pkey_bytes (%s))" % k

def term_of(vals):
    k = vals[0]
    if k == "1":
        return "summ (enc_ser %s)" % ser(vals[1])
    if k == "2":
        o = "None" if vals[1] == "0" else "(Some %s)" % pb(vals[2])
        return "summ (pb_write_opt %s) ++ summ (enc_pb %s)" % (o, pb(vals[2]))
    if k == "3":
        ta, ia = check_side(vals[2]); tb, ib = check_side(vals[3])
        return "%s ++ %s ++ [bN (beqb %s %s)]" % (ta, tb, ia, ib)
    if k in ("4", "5", "6"):
        ta, sa = iter_side(int(k), vals[2]); tb, sb = iter_side(int(k), vals[3])
        return "%s ++ %s ++ [bN (beqb %s %s)]" % (ta, tb, sa, sb)
    if k == "7":
        a, b = plain_side(vals[1]), plain_side(vals[2])
        return "summ %s ++ summ %s ++ [bN (beqb %s %s)]" % (a, b, a, b)
    if k == "8":
        ts = vals[1]
        tl = lst([tup(t) for t in ts])
        idx = lst(["(%d, %s)" % (i, tup(t)) for i, t in enumerate(ts)])
        less = "flat_map (fun a => map (fun b => bN (tk_less a b)) %s) %s" % (tl, tl) if len(ts) <= 7 else "[]"
        return "map fst (go_isort (fun a b : N * tkey => tk_less (snd a) (snd b)) %s) ++ [bN (tie_free %s)] ++ %s" % (idx, tl, less)
    return None

# the same number of cases of every record kind (1 ser, 2 pb, 3 check pair, 4-6 iterator pairs,
# 7 plain keys, 8 sort): half from the randomly generated part of the file (after the fixed
# boundary block written by the driver first), half from the boundary block
lines = []
for lineno, line in enumerate(open(rec)):
    if lineno > 20000: break
    if not line.startswith("!"): lines.append(line)
BOUNDARY_BLOCK = 330
per_kind = (maxc + 7) // 8
cases, seen = [], set()
def take(part, quota):
    for line in part:
        if not any(quota.values()): break
        cols = line.rstrip("\n").split("\t")
        if len(cols) < 2 or len(cols[1]) > MAXLEN or cols[0] in seen: continue
        kind = cols[1].split(" ", 1)[0]
        if quota.get(kind, 0) <= 0: continue
        t = term_of(parse(cols[1].split()))
        if t is None: continue
        quota[kind] -= 1
        seen.add(cols[0])
        cases.append((cols[0], kind, t))
    return quota
left = take(lines[BOUNDARY_BLOCK:], {k: (per_kind + 1) // 2 for k in "12345678"})
take(lines, {k: per_kind // 2 + left[k] for k in "12345678"})

want = {}
for line in open(dump):
    p = line.split()
    if p: want[p[0]] = [int(x) for x in p[1:]]

HEADER = ["From OFGA Require Import Base.Bytes Codec.Varint Codec.KeyEnc.", "Open Scope N_scope.",
          "Definition cks (b : bytes) : N := fold_left (fun c x => (c * 31 + x) mod 1000000007) b 7.",
          "Definition summ (b : bytes) : list N :=",
          "  if (length b <=? 64)%nat then N.of_nat (length b) :: b",
          "  else [N.of_nat (length b); fold_left N.add b 0; cks b].",
          "Definition bN (b : bool) : N := if b then 1 else 0.",
          "Definition hash0 (b : bytes) : N := 0."]
os.makedirs(os.path.join(V, "build", "coqreplay"), exist_ok=True)
got = {}
for sh in range(0, len(cases), SHARD):
    v = list(HEADER)
    for cid, _, t in cases[sh:sh + SHARD]:
        v.append("Eval vm_compute in (%d, (%s)%%list)." % (int(cid) + 1000000, t))
    vf = os.path.join(V, "build", "coqreplay", "c24_cases%s.v" % ("" if sh == 0 else "_%d" % (sh // SHARD)))
    open(vf, "w").write("\n".join(v) + "\n")
    p = subprocess.run(["coqc", "-Q", COQ, "OFGA", "-w", "-notation-overridden,-deprecated", vf],
                       stdout=subprocess.PIPE, stderr=subprocess.STDOUT, text=True, timeout=2500)
    if p.returncode != 0:
        print("COQREPLAY coqc failed:\n" + p.stdout[-2000:]); sys.exit(1)
    for chunk in p.stdout.split("= (")[1:]:
        nums = [int(x) for x in re.findall(r"\d+", chunk.split(": N *")[0])]
        got[str(nums[0] - 1000000)] = nums[1:]
bad = 0; total = 0; kinds = {}
for cid, kind, _ in cases:
    w, g = want.get(cid), got.get(cid)
    total += len(w or [])
    kinds[kind] = kinds.get(kind, 0) + 1
    if g is None or g != w:
        bad += 1
        print("COQREPLAY mismatch case %s (kind %s): coq=%s ocaml=%s" % (cid, kind, (g or [])[:24], (w or [])[:24]))
print("COQREPLAY %s %d numbers in %d cases (record kinds %s)" % (
    "ok" if not bad else "MISMATCH", total, len(cases), ",".join("%s:%d" % kv for kv in sorted(kinds.items()))))
sys.exit(1 if bad else 0)
