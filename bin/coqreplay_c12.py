#!/usr/bin/env python3
"""bin/coqreplay_c12.py <cases.rec> <oracle-dump> [max_cases]

Cross-check of extraction for C12 (and, through bin/coqreplay_c15.py, C15): replays the first
`max_cases` histories of the record file INSIDE Coq with vm_compute - the same fold the extracted
OCaml oracle performs: memory model (mem_write / mem_cmd_write) and sqlite model (sql_write_c with
its failure point / sql_cmd_write_c) step by step - and compares, per step, result class, tuple
count, changelog length, a checksum of the observable state (and the statement count; for
datastore horizon reads the number of entries and their checksum) with the oracle's dump.
Histories with more than 80 items (bulk scenarios) are skipped to keep the generated file small.
Prints `COQREPLAY ok <n steps> ...` or the mismatches; exit 1 on a mismatch."""
import os, re, subprocess, sys

V = os.path.dirname(os.path.dirname(os.path.abspath(__file__)))
COQ = os.path.join(V, "coq")


def parse(tokens):
    out, stack = [], []
    cur = out
    for t in tokens:
        if t == "(":
            new = []
            cur.append(new); stack.append(cur); cur = new
        elif t == ")":
            cur = stack.pop()
        elif t.startswith("x"):
            cur.append(bytes.fromhex(t[1:]))
        else:
            cur.append(int(t))
    return out


def N(i): return "%d%%N" % i
def lst(xs): return "[" + "; ".join(xs) + "]"
def byts(b): return lst([str(x) for x in b]) if b else "[]"
def key(o, r, u): return "(mkKey %s %s %s)" % (byts(o), byts(r), byts(u))
OPT = ["OAbsent", "OError", "OIgnore", "OBogus"]
def opt(i): return OPT[i] if 0 <= i < 3 else "OBogus"
def boolc(b): return "true" if b else "false"


def witem(w):
    o, r, u, has, name, ck, ctext, valid = w
    if has:
        c = "(Some (%s, %s))" % (byts(name), "CNil" if ck == 0 else "(CStruct %s)" % byts(ctext))
    else:
        c = "None"
    return "(mkW %s %s %s)" % (key(o, r, u), c, boolc(valid))


PRELUDE = r"""From OFGA Require Import Store.Memory Store.SqlTxn.
Open Scope N_scope.
Definition code (r : wres) : N :=
  match r with
  | WOk => 0
  | WErr e => match e with
              | EInvalidInput => 1 | ECondConflict => 2 | EConflictInsert => 3 | EConflictDelete => 4
              | EEmpty => 5 | EValidation => 6 | EDuplicate => 7 | EExceeded => 8 | EOther => 9 | EInjected => 10
              end
  end.
Definition cadd (acc x : N) : N := (acc * 31 + x + 7) mod 1000003.
Definition cbytes (acc : N) (b : bytes) : N := fold_left cadd b acc.
Definition ctuple (acc : N) (t : otuple) : N :=
  let '(k, (n, c)) := t in
  let a := cadd (cbytes acc (k_obj k)) 256 in
  let a := cadd (cbytes a (k_rel k)) 256 in
  let a := cadd (cbytes a (k_user k)) 256 in
  let a := cadd (cbytes a n) 256 in
  cadd (cbytes a c) 257.
Definition centry (acc : N) (e : cop * key * ocond) : N :=
  let '(op, k, oc) := e in ctuple (cadd acc (match op with OpWrite => 0 | OpDelete => 1 end)) (k, oc).
Definition cstate (ts : list otuple) (lg : olog) : N :=
  fold_left centry lg (cadd (fold_left ctuple ts 0) 258).
Definition len {A : Type} (l : list A) : N := N.of_nat (length l).
Inductive rop :=
| RW (cmd : bool) (od om : opt) (dels : list key) (wrs : list witem) (now : N) (fault : nat) (memp sqlp : bool) (lost : option werr)
| RH (typ : bytes) (now h : N).
Fixpoint run (ops : list rop) (ms : mstate) (se : eng) : list N :=
  match ops with
  | [] => []
  | RW cmd od om d w now fault memp sqlp lost :: rest =>
      let '(mr, ms') := match lost with
                        | Some e => cmd_wrap (fun _ _ _ _ st => (WErr e, st)) od om d w ms
                        | None => if cmd then mem_cmd_write od om d w now ms else mem_write od om d w now ms
                        end in
      let ms2 := if memp then ms' else ms in
      let mnums := if memp then [code mr; len (obs_tuples ms'); len (obs_log ms'); cstate (obs_tuples ms') (obs_log ms')] else [] in
      let '(sr, se', tr) :=
        match lost with
        | Some e => (let '(r, e') := cmd_wrap (fun _ _ _ _ st => (WErr e, st)) od om d w se in (r, e', @nil skind))
        | None => if cmd then (let '(r, e) := sql_cmd_write_c od om d w now se in (r, e, @nil skind))
                  else sql_write_c od om d w now fault se
        end in
      let se2 := if sqlp then se' else se in
      let t' := en_comm se' in
      let snums := if sqlp then [code sr; len (sql_obs_tuples t'); len (sql_obs_log t'); cstate (sql_obs_tuples t') (sql_obs_log t'); len tr] else [] in
      mnums ++ snums ++ run rest ms2 se2
  | RH typ now h :: rest =>
      let lm := map obs_change (read_changes typ now h false ms) in
      let ls := map lrow_obs (sql_read_changes typ now h false (en_comm se)) in
      [len lm; cstate [] lm; len ls; cstate [] ls] ++ run rest ms se
  end.
"""


def main(rec, dump, maxc, name):
    cases = []
    for line in open(rec):
        if line.startswith("!"):
            continue
        cols = line.rstrip("\n").split("\t")
        if len(cols) < 2:
            continue
        vals = parse(cols[1].split())
        if not vals or vals[0] != 1:
            continue
        ops = vals[1]
        items = sum(len(op[6]) + len(op[7]) for op in ops if op[0] == 0)
        if items > 80:
            continue
        cases.append((cols[0], ops))
        if len(cases) >= maxc:
            break
    want = {}
    for line in open(dump):
        p = line.split()
        if p:
            want[p[0]] = [int(x) for x in p[1:]]
    v = [PRELUDE]
    ids = []
    for cid, ops in cases:
        terms = []
        for op in ops:
            if op[0] == 0:
                _, mode, od, om, tick, fault, dels, wrs, om_v, os_v = op[:10]
                flav = op[10] if len(op) > 10 else 0
                lost = "None" if flav < 4 else ("(Some EConflictDelete)" if flav == 4 else "(Some EConflictInsert)")
                terms.append("RW %s %s %s %s %s %s %d%%nat %s %s %s" % (
                    boolc(mode == 0), opt(od), opt(om), lst([key(*d) for d in dels]), lst([witem(w) for w in wrs]),
                    N(tick), fault, boolc(om_v[0] != 0), boolc(os_v[0] != 0), lost))
            elif op[0] == 1:
                _, now, h, typ = op[0], op[1], op[2], op[3]
                terms.append("RH %s %s %s" % (byts(typ), N(now), N(h)))
            # token-following command reads (kind 2) and backdating (kind 3) are not in the dump
        v.append("Definition case_%s : list N := run %s empty_state eng_empty." % (cid, lst(["(%s)" % t for t in terms])))
        v.append("Eval vm_compute in (%s, case_%s)." % (N(int(cid) + 1000000), cid))
        ids.append(cid)
    os.makedirs(os.path.join(V, "build", "coqreplay"), exist_ok=True)
    vf = os.path.join(V, "build", "coqreplay", "%s_cases.v" % name)
    open(vf, "w").write("\n".join(v) + "\n")
    p = subprocess.run(["coqc", "-Q", COQ, "OFGA", "-w", "-notation-overridden,-deprecated", vf],
                       stdout=subprocess.PIPE, stderr=subprocess.STDOUT, text=True, timeout=3000)
    if p.returncode != 0:
        print("COQREPLAY coqc failed:\n" + p.stdout[-2000:]); return 1
    got = {}
    for chunk in p.stdout.split("= (")[1:]:
        nums = [int(x) for x in re.findall(r"\d+", chunk.split(": N *")[0])]
        got[str(nums[0] - 1000000)] = nums[1:]
    bad = 0; total = 0
    for cid in ids:
        w = want.get(cid)
        g = got.get(cid)
        total += len(w or [])
        if w is None or g != w:
            bad += 1
            print("COQREPLAY mismatch case %s: coq=%s ocaml=%s" % (cid, (g or [])[:30], (w or [])[:30]))
    print("COQREPLAY %s %d model values (result class, tuple count, changelog length, state checksum per step and backend) in %d histories"
          % ("ok" if not bad else "MISMATCH", total, len(ids)))
    return 1 if bad else 0


if __name__ == "__main__":
    sys.exit(main(sys.argv[1], sys.argv[2], int(sys.argv[3]) if len(sys.argv) > 3 else 15, "c12"))
