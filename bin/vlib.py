"""Shared machinery of /verif/bin/check and /verif/bin/setup.

Everything here is orchestration: building the Coq development, extracting and compiling the
oracles, building the Go drivers from /repo's *current working tree* (through `go build
-overlay`, so that /repo itself is never modified), running both on the same cases and turning
the verdicts into the VIOLATION / KNOWN-FINDING lines and the evidence file.
"""
import fcntl
import glob
import json
import os
import re
import shutil
import signal
import subprocess
import sys
import time

VERIF = os.path.dirname(os.path.dirname(os.path.abspath(__file__)))
REPO = os.environ.get("VERIF_REPO", "/repo")
COQ = os.path.join(VERIF, "coq")
BUILD = os.environ.get("VERIF_BUILD", os.path.join(VERIF, "build"))
EVIDENCE = os.environ.get("VERIF_EVIDENCE", os.path.join(VERIF, "evidence"))
OCAML_SRC = os.path.join(VERIF, "ocaml")
HARNESS = os.path.join(VERIF, "harness")
HARNESS_IN_REPO = "internal/verifharness"
LOGICAL = "OFGA"

PROOF_KEYWORDS = r"^\s*(Theorem|Lemma|Corollary|Proposition|Fact|Remark|Example)\s+([A-Za-z0-9_']+)"
FORBIDDEN = (r"\bAdmitted\b|\badmit\b|\bAxiom\b|\bAxioms\b|\bParameter\b|\bParameters\b|\bConjecture\b|"
             r"Unset Guard|bypass_check|type-in-type|impredicative-set|\bAdmit Obligations\b|"
             r"Unset Positivity|Unset Universe Checking")


def log(*a):
    print(*a, file=sys.stderr, flush=True)


def go_env():
    env = dict(os.environ)
    env["GOFLAGS"] = "-mod=readonly"  # never let a build rewrite /repo's go.mod / go.sum
    env["GOPROXY"] = "off"
    if env.get("GOTOOLCHAIN") == "local":
        env.pop("GOTOOLCHAIN")  # /usr/bin/go is 1.23; go.mod switches to the cached go1.26.5 toolchain
    env.pop("GOSUMDB", None)
    env["GONOSUMDB"] = "*"
    env["GONOSUMCHECK"] = "1"
    return env


class Lock:
    """One build at a time in /verif/build (checks may be started concurrently)."""

    def __init__(self, name="build"):
        # the Coq tree (and Generated/*.v) is shared even when VERIF_BUILD points elsewhere
        # (bin/seedtest): always serialise builds on one lock file
        shared = os.path.join(VERIF, "build")
        os.makedirs(shared, exist_ok=True)
        os.makedirs(BUILD, exist_ok=True)
        self.path = os.path.join(shared, "." + name + ".lock")

    def __enter__(self):
        self.f = open(self.path, "w")
        fcntl.flock(self.f, fcntl.LOCK_EX)
        return self

    def __exit__(self, *a):
        fcntl.flock(self.f, fcntl.LOCK_UN)
        self.f.close()


def run(cmd, cwd=None, timeout=None, env=None, stdin=None):
    t0 = time.time()
    # own process group: on timeout the whole tree (make -> sh -> coqc, go -> compile, ...) is killed,
    # not only the direct child
    p = subprocess.Popen(cmd, cwd=cwd, env=env, stdin=stdin, stdout=subprocess.PIPE, stderr=subprocess.STDOUT,
                         text=True, errors="replace", start_new_session=True)
    try:
        out, _ = p.communicate(timeout=timeout)
        return p.returncode, out, time.time() - t0
    except subprocess.TimeoutExpired:
        try:
            os.killpg(p.pid, signal.SIGKILL)
        except OSError:
            pass
        try:
            out, _ = p.communicate(timeout=30)
        except Exception:
            out = ""
        return 124, (out or "") + "\n[timeout after %ss]" % timeout, time.time() - t0


# ---------------------------------------------------------------------------------------------
# Coq

def coq_sources():
    out = []
    for root, _, files in os.walk(COQ):
        for f in files:
            if f.endswith(".v"):
                out.append(os.path.relpath(os.path.join(root, f), COQ))
    return sorted(out)


def coq_prepare():
    """(Re)write _CoqProject and the coq_makefile Makefile when the file list changed."""
    srcs = coq_sources()
    proj = "-Q . %s\n-arg -w -arg -notation-overridden,-deprecated,-extraction-opaque-accessed,-extraction-reserved-identifier\n" % LOGICAL + "\n".join(srcs) + "\n"
    pp = os.path.join(COQ, "_CoqProject")
    old = open(pp).read() if os.path.exists(pp) else None
    if old != proj or not os.path.exists(os.path.join(COQ, "Makefile")):
        with open(pp, "w") as f:
            f.write(proj)
        rc, out, _ = run(["coq_makefile", "-f", "_CoqProject", "-o", "Makefile"], cwd=COQ, timeout=120)
        if rc != 0:
            raise RuntimeError("coq_makefile failed:\n" + out)


def coq_make(targets, timeout=1500, jobs=16):
    """Full .vo build (never -vos) of the given targets and everything they depend on."""
    coq_prepare()
    cmd = ["make", "-j%d" % jobs, "-k"] + list(targets)
    rc, out, dt = run(cmd, cwd=COQ, timeout=timeout)
    return rc, out, dt


def coq_cone(vfile):
    """The .v files of this development that `vfile` depends on (transitively), itself included."""
    rc, out, _ = run(["coqdep", "-Q", ".", LOGICAL, "-sort", vfile], cwd=COQ, timeout=120)
    files = []
    for tok in out.split():
        tok = tok.strip()
        if tok.endswith(".v"):
            tok = os.path.normpath(tok)
            if os.path.exists(os.path.join(COQ, tok)):
                files.append(tok)
    if vfile not in files:
        files.append(vfile)
    return files


def coq_obligations(files):
    names = []
    for f in files:
        try:
            for line in open(os.path.join(COQ, f), errors="replace"):
                m = re.match(PROOF_KEYWORDS, line)
                if m:
                    names.append(f + ":" + m.group(2))
        except OSError:
            pass
    return names


def coq_hygiene(files=None):
    """Occurrences of forbidden vernacular in the development (comments stripped)."""
    bad = []
    for f in (files or coq_sources()):
        try:
            text = open(os.path.join(COQ, f), errors="replace").read()
        except OSError:
            continue
        text = strip_coq_comments(text)
        for i, line in enumerate(text.split("\n"), 1):
            if re.search(FORBIDDEN, line):
                bad.append("%s:%d: %s" % (f, i, line.strip()))
            if re.match(r"^\s*(Variable|Variables|Hypothesis|Hypotheses|Context)\b", line) and not in_section(text, i):
                bad.append("%s:%d: %s (outside a Section)" % (f, i, line.strip()))
    return bad


def strip_coq_comments(text):
    out = []
    depth = 0
    i = 0
    n = len(text)
    instr = False
    while i < n:
        c = text[i]
        if depth == 0 and c == '"':
            instr = not instr
            out.append(c)
            i += 1
            continue
        if not instr and text.startswith("(*", i):
            depth += 1
            i += 2
            continue
        if not instr and depth > 0 and text.startswith("*)", i):
            depth -= 1
            i += 2
            continue
        if depth == 0:
            out.append(c)
        elif c == "\n":
            out.append(c)
        i += 1
    return "".join(out)


def in_section(text, lineno):
    depth = 0
    for i, line in enumerate(text.split("\n"), 1):
        if i >= lineno:
            break
        if re.match(r"^\s*Section\s+\w+", line):
            depth += 1
        elif re.match(r"^\s*End\s+\w+", line) and depth > 0:
            depth -= 1
    return depth > 0


def coq_assumptions(props_v):
    """Recompile the (tiny) property file and return its `Print Assumptions` output, verbatim."""
    rc, out, _ = run(["coqc", "-Q", ".", LOGICAL, "-w", "-notation-overridden,-deprecated", props_v], cwd=COQ, timeout=600)
    return rc, out


def parse_assumptions(out):
    """Split coqc output into per-theorem blocks: [(text)] ; 'Closed under the global context' or 'Axioms:' list."""
    blocks = []
    cur = None
    for line in out.split("\n"):
        if line.startswith("Closed under the global context"):
            blocks.append("Closed under the global context")
            cur = None
        elif line.startswith("Axioms:"):
            cur = ["Axioms:"]
            blocks.append(cur)
        elif cur is not None and (line.startswith(" ") or line.strip() == "" or ":" in line):
            if line.strip():
                cur.append(line.rstrip())
        else:
            cur = None
    return ["\n".join(b) if isinstance(b, list) else b for b in blocks]


# ---------------------------------------------------------------------------------------------
# OCaml oracle

def newer(target, sources):
    if not os.path.exists(target):
        return True
    t = os.path.getmtime(target)
    return any(os.path.exists(s) and os.path.getmtime(s) > t for s in sources)


def build_oracle(pid, model, main, includes=()):
    """model: basename of the extracted module written by Extract/<pid>.v into coq/ (e.g. c29_model);
    main: file under ocaml/ holding the comparison code."""
    odir = os.path.join(BUILD, "ocaml", pid)
    os.makedirs(odir, exist_ok=True)
    ml = os.path.join(COQ, model + ".ml")
    mli = os.path.join(COQ, model + ".mli")
    exe = os.path.join(BUILD, "bin", pid.lower() + "_oracle")
    os.makedirs(os.path.dirname(exe), exist_ok=True)
    srcs = [ml, mli, os.path.join(OCAML_SRC, "conv.ml"), os.path.join(OCAML_SRC, main)] + [os.path.join(OCAML_SRC, i) for i in includes]
    if not os.path.exists(ml):
        return None, "extracted module %s.ml missing (extraction did not run)" % model
    if not newer(exe, srcs):
        return exe, ""
    shutil.copy(ml, odir)
    if os.path.exists(mli):
        shutil.copy(mli, odir)
    modname = model[0].upper() + model[1:]
    with open(os.path.join(odir, "main.ml"), "w") as f:
        f.write("open %s\n" % modname)
        f.write(open(os.path.join(OCAML_SRC, "conv.ml")).read())
        f.write("\n")
        for inc in includes:
            f.write(open(os.path.join(OCAML_SRC, inc)).read())
            f.write("\n")
        f.write(open(os.path.join(OCAML_SRC, main)).read())
    files = ([model + ".mli"] if os.path.exists(mli) else []) + [model + ".ml", "main.ml"]
    rc, out, _ = run(["ocamlfind", "ocamlopt", "-O2", "-w", "-a", "-package", "str", "-linkpkg"] + files + ["-o", exe],
                     cwd=odir, timeout=600)
    if rc != 0:
        return None, out
    return exe, out


# ---------------------------------------------------------------------------------------------
# Go drivers (overlay of /verif/harness into /repo's module, so internal packages are visible)

def write_overlay():
    repl = {}
    for root, _, files in os.walk(HARNESS):
        for f in files:
            if f.endswith(".go") or f.endswith(".s"):
                src = os.path.join(root, f)
                rel = os.path.relpath(src, HARNESS)
                repl[os.path.join(REPO, HARNESS_IN_REPO, rel)] = src
    path = os.path.join(BUILD, "overlay.json")
    os.makedirs(BUILD, exist_ok=True)
    with open(path, "w") as f:
        json.dump({"Replace": repl}, f, indent=1)
    return path


def build_driver(name, timeout=1500):
    ov = write_overlay()
    exe = os.path.join(BUILD, "bin", "drv_" + name)
    os.makedirs(os.path.dirname(exe), exist_ok=True)
    cmd = ["go", "build", "-tags", "verif", "-overlay", ov, "-o", exe, "./" + HARNESS_IN_REPO + "/cmd/" + name]
    rc, out, dt = run(cmd, cwd=REPO, timeout=timeout, env=go_env())
    if rc != 0:
        return None, out
    return exe, out
