"""Shared part of bin/coqreplay_c31.py, bin/coqreplay_c17.py and bin/coqreplay_c16.py: record
parsing, interning of byte strings as Coq definitions, running coqc on the generated file and
comparing the printed numbers with the oracle's dump."""
import os, re, subprocess

V = os.path.dirname(os.path.dirname(os.path.abspath(__file__)))
COQ = os.path.join(V, "coq")

CHK = r"""Open Scope N_scope.
Definition cadd (acc x : N) : N := (acc * 31 + x + 7) mod 1000003.
Definition cbytes (acc : N) (b : bytes) : N := fold_left cadd b acc.
Definition cblist (acc : N) (l : list bytes) : N := fold_left (fun a b => cadd (cbytes a b) 256) l acc.
Definition len {A : Type} (l : list A) : N := N.of_nat (length l).
"""


def parse(tokens):
    out, stack = [], []
    cur = out
    for t in tokens:
        if t == "(":
            new = []
            cur.append(new); stack.append(cur); cur = new
        elif t == ")":
            cur = stack.pop()
        elif t.startswith("x"):
            cur.append(bytes.fromhex(t[1:]))
        else:
            cur.append(int(t))
    return out


def records(rec):
    for line in open(rec, errors="replace"):
        if line.startswith("!"):
            continue
        cols = line.rstrip("\n").split("\t")
        if len(cols) < 2:
            continue
        yield cols[0], cols[1]


def N(i): return "%d%%N" % i
def lst(xs): return "[" + "; ".join(xs) + "]"
def boolc(b): return "true" if b else "false"


class Interner:
    """byte strings become `Definition b<k> : bytes := [..].` once per file"""
    def __init__(self):
        self.ids, self.defs = {}, []
    def b(self, x):
        if not x:
            return "(@nil N)"
        k = self.ids.get(x)
        if k is None:
            k = len(self.ids)
            self.ids[x] = k
            self.defs.append("Definition b%d : bytes := [%s]." % (k, "; ".join(str(c) for c in x)))
        return "b%d" % k


def run_and_compare(name, prelude, interner, case_terms, dump, what):
    """case_terms: [(case id, coq term of type list N)]"""
    want = {}
    for line in open(dump):
        p = line.split()
        if p:
            want[p[0]] = [int(x) for x in p[1:]]
    v = [prelude] + interner.defs
    for cid, term in case_terms:
        v.append("Definition case_%s : list N := %s." % (cid, term))
        v.append("Eval vm_compute in (%s, case_%s)." % (N(int(cid) + 1000000), cid))
    os.makedirs(os.path.join(V, "build", "coqreplay"), exist_ok=True)
    vf = os.path.join(V, "build", "coqreplay", "%s_cases.v" % name)
    open(vf, "w").write("\n".join(v) + "\n")
    p = subprocess.run(["coqc", "-Q", COQ, "OFGA", "-w", "-notation-overridden,-deprecated", vf],
                       stdout=subprocess.PIPE, stderr=subprocess.STDOUT, text=True, timeout=3000)
    if p.returncode != 0:
        print("COQREPLAY coqc failed:\n" + p.stdout[-2000:])
        return 1
    got = {}
    for chunk in p.stdout.split("= (")[1:]:
        nums = [int(x) for x in re.findall(r"\d+", chunk.split(": N *")[0])]
        got[str(nums[0] - 1000000)] = nums[1:]
    bad = total = 0
    for cid, _ in case_terms:
        w, g = want.get(cid), got.get(cid)
        total += len(w or [])
        if w is None or g != w:
            bad += 1
            print("COQREPLAY mismatch case %s: coq=%s ocaml=%s" % (cid, (g or [])[:30], (w or [])[:30]))
    print("COQREPLAY %s %d model values (%s) in %d histories" % ("ok" if not bad else "MISMATCH", total, what, len(case_terms)))
    return 1 if bad else 0
